(* C10 - programs MIXING lists and maps, and map literals built per evaluation: the list heap (Heap/ListHeap.v) and the
   map heap (Heap/MapHeap.v) in ONE state.

   A map entry holds an integer or a LIST: the Go value in the entry is the pointer to the *List object, the model's
   entry value is the object's number in the list heap (a handle), so one list object is reachable through the
   function's constant table AND through every map that holds it - a constant map folded at Generate time, a map
   literal built by an evaluation, put / + wrappers around them.  A program of the fragment is

       let c0 = <list>; ...            list / size constants of Heap/FuncState.v, folded at Generate time
       let o0 = [c_i, c_j, ...]; ...   LISTS OF LISTS: a constant list whose elements are list constants (the Go list holds
                                       the pointers to the *List objects, the model's list holds their handles)
       let m0 = <map>; ...             map constants, folded at Generate time: literal (listMap.New(n) + Append per
                                       entry: funcGen/generator.go *MapLiteral), put (AppendMap), + (MergeMap);
                                       entry values: closed integers and the list constants c_i
       let x0 = o_k[i]; ...            run-time lets: an inner list obtained by index from a list of lists (AccessList: index
                                       first, then Size() materialises the outer list, then the element - the shared
                                       inner object itself), o_k.size()
       let x0 = <map>.key; ...         run-time lets (generator.go *Let: the value is computed once, in order, and pushed;
                                       an error ends the evaluation): a LIST field (the shared object itself), an integer
                                       field, or size() of a map expression over the arguments - map literals built by
                                       THIS evaluation (entry values: integers over the arguments, lists in scope),
                                       put / + on constants and literals
       <body of Heap/FuncState.v>      over the list constants followed by the list-valued lets (LConst), the scalar
                                       constants followed by the integer-valued lets (SCst)
       or "lit"+e1+"lit"+e2...         a STRING: immutable scalars without heap state; `+` with a string on the left appends
                                       the decimal text of the integer on the right (value/operations.go
                                       operationMatrixStringAdd); e_i over arguments, scalar constants and integer lets

   so `let c0=[1,2].append(3); let m0={l:c0,n:1}; let x0={a:a0,l:c0}.l; let x1=m0.put("z",a1).l;
   x0.append(a0).size()*10+x1.append(a1)[3]` appends twice to the ONE object c0, reached through a per-evaluation
   literal and through a wrapper of a constant map.

   Reading a list field checks that the handle is one of the lists in scope (only those can have been stored by a
   program of this language); an ill-typed program (an integer field read as a list) is an error in the model and
   is outside the faithful fragment (Run/C10Run.v xprog_typed rejects it).

   Specification side at the end of the file: maps as association lists whose list-valued entries hold CONTENT. *)
From P2 Require Import Base.Prelude Sem.Num Heap.ListHeap Heap.MapHeap Heap.FuncState.
Local Open Scope nat_scope.

Inductive xval :=
| XVInt (e : sexp)               (* an integer over arguments / scalar constants *)
| XVList (i : nat).              (* the i-th list in scope: the shared object *)

Inductive xmexp :=
| XMConst (i : nat)                          (* i-th map constant *)
| XMLit (es : list (str * xval))             (* {k:v,...}: built where it is evaluated *)
| XMPut (m : xmexp) (k : str) (v : xval)     (* m.put(k,v): error when the key exists *)
| XMMerge (a b : xmexp).                     (* a+b: error when a key of b exists in a *)

Inductive xbind :=
| XBList (m : xmexp) (k : str)   (* let x = m.k;   a list *)
| XBInt (m : xmexp) (k : str)    (* let s = m.k;   an integer *)
| XBSize (m : xmexp)             (* let s = m.size(); *)
| XBIndex (o : nat) (i : sexp)   (* let x = o_k[i]; the i-th inner list of the k-th list of lists *)
| XBOSize (o : nat).             (* let s = o_k.size(); *)

(* a string result: literal parts and integers rendered in decimal, concatenated from the left *)
Inductive xspart := XSLit (s : str) | XSInt (e : sexp).
Inductive xbody := XB (b : body) | XBStr (parts : list xspart).
Inductive xoutcome := XO (o : outcome) | XOStr (s : str).

(* xp_odefs: the lists of lists, each given by the numbers of the list constants it holds *)
Record xprog := mkXP { xp_defs : list def; xp_odefs : list (list nat); xp_mdefs : list xmexp; xp_binds : list xbind; xp_body : xbody }.

(* a generated function: list constants (object numbers), scalar constants, lists of lists (object numbers), map
   constants (storages), lets, body *)
Record xfunc := mkXF { xf_cs : list nat; xf_zs : list Z; xf_os : list nat; xf_ms : list mstore; xf_binds : list xbind; xf_body : xbody }.

Record xenv := mkXE { xe_cs : list nat; xe_zs : list Z; xe_os : list nat; xe_ms : list mstore; xe_args : list Z }.

Definition id_caps : caps := mkCaps (fun n => n) (fun n => n).
Definition xsval (en : xenv) (e : sexp) : Z := ev_s (mkEnv id_caps [] (xe_zs en) (xe_args en)) e.

Definition xv_eval (en : xenv) (v : xval) : option Z :=
  match v with
  | XVInt e => Some (xsval en e)
  | XVList i => match nth_error (xe_cs en) i with Some a => Some (Z.of_nat a) | None => None end
  end.

Fixpoint xvs_eval (en : xenv) (es : list (str * xval)) : option (list entry) :=
  match es with
  | [] => Some []
  | (k, v) :: r => match xv_eval en v, xvs_eval en r with Some z, Some ents => Some ((k, z) :: ents) | _, _ => None end
  end.

Definition xs_render (zs args : list Z) (parts : list xspart) : str :=
  flat_map (fun p => match p with
                     | XSLit s => s
                     | XSInt e => int_to_str (ev_s (mkEnv id_caps [] zs args) e)
                     end) parts.

(* a map expression: the only heap step is the literal's builder (MapHeap.mstep (MLit ents)) *)
Fixpoint ev_xm (en : xenv) (mh : mheap) (e : xmexp) : mheap * option mstore :=
  match e with
  | XMConst i => (mh, nth_error (xe_ms en) i)
  | XMLit es =>
      match xvs_eval en es with
      | None => (mh, None)
      | Some ents => let '(arrs', l) := lm_build (mh_arrs mh) (length ents) ents in (add_map mh arrs' (SList l), Some (SList l))
      end
  | XMPut m k v =>
      let '(mh1, r) := ev_xm en mh m in
      match r, xv_eval en v with
      | Some s, Some z => if has_key (mh_arrs mh1) s k then (mh1, None) else (mh1, Some (SAppend k z s))
      | _, _ => (mh1, None)
      end
  | XMMerge a b =>
      let '(mh1, ra) := ev_xm en mh a in
      match ra with
      | None => (mh1, None)
      | Some sa =>
          let '(mh2, rb) := ev_xm en mh1 b in
          match rb with
          | None => (mh2, None)
          | Some sb => if existsb (fun e => has_key (mh_arrs mh2) sa (fst e)) (miter (mh_arrs mh2) sb) then (mh2, None)
                       else (mh2, Some (SMerge sa sb))
          end
      end
  end.

Definition in_scope (cs : list nat) (z : Z) : bool := existsb (fun a => Z.eqb z (Z.of_nat a)) cs.

(* o[i] / o.size() on the list of lists a: the evaluation of Heap/FuncState.v (index first; Size() materialises) *)
Definition index_body (i : sexp) : body := BZ (ZIndex (LConst 0) (ZS i)).
Definition osize_body : body := BZ (ZSize (LConst 0)).
Definition oeval (cp : caps) (en : xenv) (h : heap) (a : nat) (b : body) : heap * outcome :=
  run_iso h (sc_eval cp (mkF [a] (xe_zs en) b) (xe_args en) 0).

(* the run-time lets, in order; the lists / integers they bind are appended to the tables the body sees *)
Fixpoint ev_binds (cp : caps) (en : xenv) (h : heap) (mh : mheap) (bs : list xbind) : heap * mheap * option (list nat * list Z) :=
  match bs with
  | [] => (h, mh, Some (xe_cs en, xe_zs en))
  | XBList m k :: r =>
      let '(mh1, rm) := ev_xm en mh m in
      match rm with
      | None => (h, mh1, None)
      | Some s => match mget (mh_arrs mh1) s k with
                  | Some z => if in_scope (xe_cs en) z
                              then ev_binds cp (mkXE (xe_cs en ++ [Z.to_nat z]) (xe_zs en) (xe_os en) (xe_ms en) (xe_args en)) h mh1 r
                              else (h, mh1, None)
                  | None => (h, mh1, None)
                  end
      end
  | XBInt m k :: r =>
      let '(mh1, rm) := ev_xm en mh m in
      match rm with
      | None => (h, mh1, None)
      | Some s => match mget (mh_arrs mh1) s k with
                  | Some z => ev_binds cp (mkXE (xe_cs en) (xe_zs en ++ [z]) (xe_os en) (xe_ms en) (xe_args en)) h mh1 r
                  | None => (h, mh1, None)
                  end
      end
  | XBSize m :: r =>
      let '(mh1, rm) := ev_xm en mh m in
      match rm with
      | None => (h, mh1, None)
      | Some s => ev_binds cp (mkXE (xe_cs en) (xe_zs en ++ [Z.of_nat (msize (mh_arrs mh1) s)]) (xe_os en) (xe_ms en) (xe_args en)) h mh1 r
      end
  | XBIndex o i :: r =>
      match nth_error (xe_os en) o with
      | None => (h, mh, None)
      | Some a =>
          let '(h1, out) := oeval cp en h a (index_body i) in
          match out with
          | OInt z => if in_scope (xe_cs en) z
                      then ev_binds cp (mkXE (xe_cs en ++ [Z.to_nat z]) (xe_zs en) (xe_os en) (xe_ms en) (xe_args en)) h1 mh r
                      else (h1, mh, None)
          | _ => (h1, mh, None)
          end
      end
  | XBOSize o :: r =>
      match nth_error (xe_os en) o with
      | None => (h, mh, None)
      | Some a =>
          let '(h1, out) := oeval cp en h a osize_body in
          match out with
          | OInt z => ev_binds cp (mkXE (xe_cs en) (xe_zs en ++ [z]) (xe_os en) (xe_ms en) (xe_args en)) h1 mh r
          | _ => (h1, mh, None)
          end
      end
  end.

(* the lists of lists, folded in order: a list literal whose elements are the handles of list constants *)
Fixpoint handles (cs : list nat) (d : list nat) : option (list Z) :=
  match d with
  | [] => Some []
  | i :: r => match nth_error cs i, handles cs r with Some a, Some zs => Some (Z.of_nat a :: zs) | _, _ => None end
  end.

Fixpoint ev_odefs (cs : list nat) (h : heap) (ods : list (list nat)) (os : list nat) : heap * option (list nat) :=
  match ods with
  | [] => (h, Some os)
  | d :: r => match handles cs d with
              | None => (h, None)
              | Some zs => ev_odefs cs (step h (OLit zs 0)) r (os ++ [nobjs h])
              end
  end.

(* the map constants, folded in order; each sees the earlier ones *)
Fixpoint ev_mdefs (en : xenv) (mh : mheap) (ds : list xmexp) : mheap * option (list mstore) :=
  match ds with
  | [] => (mh, Some (xe_ms en))
  | d :: r =>
      let '(mh1, rm) := ev_xm en mh d in
      match rm with
      | None => (mh1, None)
      | Some s => ev_mdefs (mkXE (xe_cs en) (xe_zs en) (xe_os en) (xe_ms en ++ [s]) (xe_args en)) mh1 r
      end
  end.

(* ------------------------------------------------------------------ one generator: both heaps, its functions *)

Record xgstate := mkXG { xg_heap : heap; xg_mh : mheap; xg_funcs : list xfunc }.

Definition new_xgenerator : xgstate := mkXG empty_heap empty_mheap [].

(* Generate: the list definitions (Heap/FuncState.v sc_generate), the lists of lists, then the map definitions.  A definition whose
   folding fails would stay a run-time let: not modelled (no function is added) *)
Definition xgenerate (cp : caps) (g : xgstate) (p : xprog) : xgstate :=
  let '(h1, r) := run_iso (xg_heap g) (sc_generate cp (mkP (xp_defs p) (BZ ZThrow))) in
  match r with
  | None => mkXG h1 (xg_mh g) (xg_funcs g)
  | Some F =>
      let '(h2, ro) := ev_odefs (f_cs F) h1 (xp_odefs p) [] in
      match ro with
      | None => mkXG h2 (xg_mh g) (xg_funcs g)
      | Some os =>
          let '(mh1, rm) := ev_mdefs (mkXE (f_cs F) (f_zs F) os [] []) (xg_mh g) (xp_mdefs p) in
          mkXG h2 mh1 (xg_funcs g ++ match rm with
                                     | Some ms => [mkXF (f_cs F) (f_zs F) os ms (xp_binds p) (xp_body p)]
                                     | None => []
                                     end)
      end
  end.

(* Func.Eval: the lets (both heaps), then the body (list heap) with the extended tables *)
Definition xeval_fn (cp : caps) (h : heap) (mh : mheap) (F : xfunc) (args : list Z) (j : nat) : heap * mheap * xoutcome :=
  let '(h1, mh1, r) := ev_binds cp (mkXE (xf_cs F) (xf_zs F) (xf_os F) (xf_ms F) args) h mh (xf_binds F) in
  match r with
  | None => (h1, mh1, XO OErr)
  | Some (cs, zs) =>
      match xf_body F with
      | XB b => let '(h2, o) := run_iso h1 (sc_eval cp (mkF cs zs b) args j) in (h2, mh1, XO o)
      | XBStr parts => (h1, mh1, XOStr (xs_render zs args parts))     (* no heap step *)
      end
  end.

Inductive xevent :=
| XEGen (p : xprog)                            (* another Generate call on the same generator *)
| XEEval (k : nat) (args : list Z) (j : nat)   (* evaluate function k, consume j elements of a list result *)
| XEListOps (ops : list op)                    (* anything else done with list objects of this heap by their holders *)
| XEMapOps (ops : list mop).                   (* anything else done with maps of this heap (value/map.go operations) *)
Arguments XEEval k%nat args%Z j%nat.

Definition xeval_in (cp : caps) (g : xgstate) (k : nat) (args : list Z) (j : nat) : heap * mheap * xoutcome :=
  match nth_error (xg_funcs g) k with
  | None => (xg_heap g, xg_mh g, XO OErr)
  | Some F => xeval_fn cp (xg_heap g) (xg_mh g) F args j
  end.

Definition xrun_event (cp : caps) (g : xgstate) (e : xevent) : xgstate :=
  match e with
  | XEGen p => xgenerate cp g p
  | XEEval k args j => let '(h1, mh1, _) := xeval_in cp g k args j in mkXG h1 mh1 (xg_funcs g)
  | XEListOps ops => mkXG (run_from (xg_heap g) ops) (xg_mh g) (xg_funcs g)
  | XEMapOps ops => mkXG (xg_heap g) (fold_left mstep ops (xg_mh g)) (xg_funcs g)
  end.

Definition xrun_hist (cp : caps) (g : xgstate) (hist : list xevent) : xgstate := fold_left (xrun_event cp) hist g.

Definition xeval_after (cp : caps) (g : xgstate) (hist : list xevent) (k : nat) (args : list Z) (j : nat) : xoutcome :=
  snd (xeval_in cp (xrun_hist cp g hist) k args j).

(* ------------------------------------------------------------------ maps without the map heap

   what the lets of an evaluation bind, computed from what the constant maps SHOW (their entries in iteration order),
   no entry array, no storage tree, and from what the lists of lists CONTAIN (lc: content of an object): the
   intermediate level of the proofs (Heap/MixStateProofs.v); list-valued entries and lists of lists still hold handles *)

Fixpoint pm_xm (en : xenv) (cvm : list (list entry)) (e : xmexp) : option (list entry) :=
  match e with
  | XMConst i => nth_error cvm i
  | XMLit es => match xvs_eval en es with Some ents => Some (pl_build ents) | None => None end
  | XMPut m k v =>
      match pm_xm en cvm m, xv_eval en v with
      | Some es, Some z => if phas es k then None else Some ((k, z) :: es)
      | _, _ => None
      end
  | XMMerge a b =>
      match pm_xm en cvm a with
      | None => None
      | Some ea => match pm_xm en cvm b with
                   | None => None
                   | Some eb => if existsb (fun e => phas ea (fst e)) eb then None else Some (ea ++ eb)
                   end
      end
  end.

Fixpoint pm_binds (en : xenv) (cvm : list (list entry)) (lc : nat -> list Z) (bs : list xbind) : option (list nat * list Z) :=
  match bs with
  | [] => Some (xe_cs en, xe_zs en)
  | XBList m k :: r =>
      match pm_xm en cvm m with
      | None => None
      | Some es => match assoc k es with
                   | Some z => if in_scope (xe_cs en) z
                               then pm_binds (mkXE (xe_cs en ++ [Z.to_nat z]) (xe_zs en) (xe_os en) (xe_ms en) (xe_args en)) cvm lc r
                               else None
                   | None => None
                   end
      end
  | XBInt m k :: r =>
      match pm_xm en cvm m with
      | None => None
      | Some es => match assoc k es with
                   | Some z => pm_binds (mkXE (xe_cs en) (xe_zs en ++ [z]) (xe_os en) (xe_ms en) (xe_args en)) cvm lc r
                   | None => None
                   end
      end
  | XBSize m :: r =>
      match pm_xm en cvm m with
      | None => None
      | Some es => pm_binds (mkXE (xe_cs en) (xe_zs en ++ [Z.of_nat (length es)]) (xe_os en) (xe_ms en) (xe_args en)) cvm lc r
      end
  | XBIndex o i :: r =>
      match nth_error (xe_os en) o with
      | None => None
      | Some a =>
          match sp_body (mkSE [lc a] (xe_zs en) (xe_args en)) (index_body i) 0 with
          | OInt z => if in_scope (xe_cs en) z
                      then pm_binds (mkXE (xe_cs en ++ [Z.to_nat z]) (xe_zs en) (xe_os en) (xe_ms en) (xe_args en)) cvm lc r
                      else None
          | _ => None
          end
      end
  | XBOSize o :: r =>
      match nth_error (xe_os en) o with
      | None => None
      | Some a =>
          match sp_body (mkSE [lc a] (xe_zs en) (xe_args en)) osize_body 0 with
          | OInt z => pm_binds (mkXE (xe_cs en) (xe_zs en ++ [z]) (xe_os en) (xe_ms en) (xe_args en)) cvm lc r
          | _ => None
          end
      end
  end.

(* what function F denotes on the state (h, mh) it was generated on: lets from the entries its constant maps show in
   mh, body from the CONTENT its list constants have in h *)
Definition xfunc_denotes (h : heap) (mh : mheap) (F : xfunc) (args : list Z) (j : nat) : xoutcome :=
  match pm_binds (mkXE (xf_cs F) (xf_zs F) (xf_os F) (xf_ms F) args) (map (miter (mh_arrs mh)) (xf_ms F)) (icontent h) (xf_binds F) with
  | None => XO OErr
  | Some (cs, zs) =>
      match xf_body F with
      | XB b => XO (sp_body (func_senv h (mkF cs zs b) args) b j)
      | XBStr parts => XOStr (xs_render zs args parts)
      end
  end.

(* ------------------------------------------------------------------ specification side

   no heap, no handle: an entry holds an integer or the CONTENT of a list; the outcome is a function of
   (program text, arguments, consumption) *)

Inductive xsv := SVI (z : Z) | SVL (xs : list Z).
Definition sentry := (str * xsv)%type.

Record xsenv := mkXSE { xs_cv : list (list Z); xs_zs : list Z; xs_ov : list (list (list Z)); xs_mv : list (list sentry); xs_args : list Z }.

Definition sp_xv (se : xsenv) (v : xval) : option xsv :=
  match v with
  | XVInt e => Some (SVI (sp_s (mkSE [] (xs_zs se) (xs_args se)) e))
  | XVList i => match nth_error (xs_cv se) i with Some xs => Some (SVL xs) | None => None end
  end.

Fixpoint sp_put (es : list sentry) (k : str) (v : xsv) : list sentry :=
  match es with
  | [] => [(k, v)]
  | (k', v') :: r => if str_eqb k' k then (k', v) :: r else (k', v') :: sp_put r k v
  end.

Fixpoint sp_xvs (se : xsenv) (es : list (str * xval)) (acc : list sentry) : option (list sentry) :=
  match es with
  | [] => Some acc
  | (k, v) :: r => match sp_xv se v with Some x => sp_xvs se r (sp_put acc k x) | None => None end
  end.

Definition shas (es : list sentry) (k : str) : bool := match assoc k es with Some _ => true | None => false end.

Fixpoint sp_xm (se : xsenv) (e : xmexp) : option (list sentry) :=
  match e with
  | XMConst i => nth_error (xs_mv se) i
  | XMLit es => sp_xvs se es []
  | XMPut m k v =>
      match sp_xm se m, sp_xv se v with
      | Some es, Some x => if shas es k then None else Some ((k, x) :: es)
      | _, _ => None
      end
  | XMMerge a b =>
      match sp_xm se a with
      | None => None
      | Some ea => match sp_xm se b with
                   | None => None
                   | Some eb => if existsb (fun e => shas ea (fst e)) eb then None else Some (ea ++ eb)
                   end
      end
  end.

Fixpoint sp_binds (se : xsenv) (bs : list xbind) : option (list (list Z) * list Z) :=
  match bs with
  | [] => Some (xs_cv se, xs_zs se)
  | XBList m k :: r =>
      match sp_xm se m with
      | None => None
      | Some es => match assoc k es with
                   | Some (SVL xs) => sp_binds (mkXSE (xs_cv se ++ [xs]) (xs_zs se) (xs_ov se) (xs_mv se) (xs_args se)) r
                   | _ => None
                   end
      end
  | XBInt m k :: r =>
      match sp_xm se m with
      | None => None
      | Some es => match assoc k es with
                   | Some (SVI z) => sp_binds (mkXSE (xs_cv se) (xs_zs se ++ [z]) (xs_ov se) (xs_mv se) (xs_args se)) r
                   | _ => None
                   end
      end
  | XBSize m :: r =>
      match sp_xm se m with
      | None => None
      | Some es => sp_binds (mkXSE (xs_cv se) (xs_zs se ++ [Z.of_nat (length es)]) (xs_ov se) (xs_mv se) (xs_args se)) r
      end
  | XBIndex o i :: r =>
      match nth_error (xs_ov se) o with
      | None => None
      | Some ll =>
          let iv := sp_s (mkSE [] (xs_zs se) (xs_args se)) i in
          if (iv <? 0)%Z then None
          else match nth_error ll (Z.to_nat iv) with
               | Some xs => sp_binds (mkXSE (xs_cv se ++ [xs]) (xs_zs se) (xs_ov se) (xs_mv se) (xs_args se)) r
               | None => None
               end
      end
  | XBOSize o :: r =>
      match nth_error (xs_ov se) o with
      | None => None
      | Some ll => sp_binds (mkXSE (xs_cv se) (xs_zs se ++ [Z.of_nat (length ll)]) (xs_ov se) (xs_mv se) (xs_args se)) r
      end
  end.

Fixpoint sp_inner (cv : list (list Z)) (d : list nat) : option (list (list Z)) :=
  match d with
  | [] => Some []
  | i :: r => match nth_error cv i, sp_inner cv r with Some xs, Some ll => Some (xs :: ll) | _, _ => None end
  end.

Fixpoint sp_odefs (cv : list (list Z)) (ods : list (list nat)) : option (list (list (list Z))) :=
  match ods with
  | [] => Some []
  | d :: r => match sp_inner cv d, sp_odefs cv r with Some ll, Some ov => Some (ll :: ov) | _, _ => None end
  end.

Fixpoint sp_mdefs (se : xsenv) (ds : list xmexp) : option (list (list sentry)) :=
  match ds with
  | [] => Some (xs_mv se)
  | d :: r => match sp_xm se d with
              | None => None
              | Some es => sp_mdefs (mkXSE (xs_cv se) (xs_zs se) (xs_ov se) (xs_mv se ++ [es]) (xs_args se)) r
              end
  end.

(* THE SPECIFICATION of a mixed program *)
Definition sp_xprog (p : xprog) (args : list Z) (j : nat) : option xoutcome :=
  match sp_defs (xp_defs p) [] [] with
  | None => None
  | Some (cv, zs) =>
      match sp_odefs cv (xp_odefs p) with
      | None => None
      | Some ov =>
          match sp_mdefs (mkXSE cv zs ov [] []) (xp_mdefs p) with
          | None => None
          | Some mv =>
              Some (match sp_binds (mkXSE cv zs ov mv args) (xp_binds p) with
                    | None => XO OErr
                    | Some (cv', zs') =>
                        match xp_body p with
                        | XB b => XO (sp_body (mkSE cv' zs' args) b j)
                        | XBStr parts => XOStr (xs_render zs' args parts)
                        end
                    end)
          end
      end
  end.

(* ------------------------------------------------------------------ the well-typed programs

   the model's handles are untyped (an entry value is a Z: an integer or the number of a list object); the faithful
   fragment - and the one for which the model is PROVED to give the specification's outcome - is delimited by a naming
   discipline: the key of a list-valued entry / let starts with `l`, every other key does not *)
Definition is_lkey (k : str) : bool := match k with c :: _ => N.eqb c 108 | [] => false end.
Definition xval_typed (kv : str * xval) : bool :=
  match snd kv with XVList _ => is_lkey (fst kv) | XVInt _ => negb (is_lkey (fst kv)) end.
Fixpoint xm_typed (e : xmexp) : bool :=
  match e with
  | XMConst _ => true
  | XMLit es => forallb xval_typed es
  | XMPut m k v => xm_typed m && xval_typed (k, v)
  | XMMerge a b => xm_typed a && xm_typed b
  end.
Definition xb_typed (b : xbind) : bool :=
  match b with
  | XBList m k => xm_typed m && is_lkey k
  | XBInt m k => xm_typed m && negb (is_lkey k)
  | XBSize m => xm_typed m
  | XBIndex _ _ | XBOSize _ => true
  end.
Definition xprog_wt (p : xprog) : bool := forallb xm_typed (xp_mdefs p) && forallb xb_typed (xp_binds p).
