(* C10 / C11 - the state that survives an evaluation of a generated function.

   Executable model of what `Generate` leaves behind and of what `Func.Eval` does to it:

     funcGen/generator.go  Func.Eval            every evaluation allocates a fresh stack (NewEmptyStack().Init): the
                                                 stack is private to the evaluation and is not part of the surviving state
     funcGen/generator.go  GenerateFunc *Const  a constant node returns the SAME Go object on every evaluation
     parser2.go            parseLet             `let c = <constant expression>;` is folded by the optimizer and the
                                                 resulting object is substituted for every use of c
     funcGen/optimizer.go  Optimize             method calls / list accesses with constant receiver and arguments run at
                                                 Generate time, on the heap of list objects (value/list.go)
     value/list.go         List.Eval, Append... every list operation is a heap step of Heap/ListHeap.v (`step`): Eval
                                                 materialises IN PLACE (writes items/itemsPresent/iterable of a possibly
                                                 shared object), Append writes into spare capacity once and caps the parent

   A program is a list of constant definitions (`let c = ...;` folded at Generate time) and a body over the
   arguments.  An evaluation is a SCRIPT: a sequence of atomic heap steps, each continuation chosen from what the
   step read.  Scripts are run alone (run_iso: C10, histories) or interleaved under a schedule (Heap/Concurrent.v:
   C11).  List elements are integers (ListHeap.val = Z); the capacity Go's append chooses is a parameter (caps).

   The specification side (what the properties demand) is the pure evaluator sp_* at the end of the file:
   constants are bound to their CONTENT, there is no heap, no history, no representation. *)
From P2 Require Import Base.Prelude Heap.ListHeap.
Local Open Scope nat_scope.

(* ------------------------------------------------------------------ programs *)

(* scalar expressions without effects: closure bodies (e->e+k), counts, literals *)
Inductive sexp :=
| SArg (i : nat)                 (* i-th argument of the generated function *)
| SLit (z : Z)
| SCst (i : nat)                 (* i-th scalar constant (`let n = c.size();` folded at Generate time) *)
| SAdd (a b : sexp)
| SMul (a b : sexp).

Inductive lexp :=
| LConst (i : nat)               (* i-th list constant: the shared object *)
| LLit (xs : list Z)             (* [1,2,3] *)
| LSingle (z : zexp)             (* [z] *)
| LNumbers (n : sexp)            (* numbers(n) *)
| LAppend (l : lexp) (x : zexp)  (* l.append(x) *)
| LMap (k : sexp) (l : lexp)     (* l.map(e->e+k) *)
| LAccept (k : sexp) (l : lexp)  (* l.accept(e->e<k) *)
| LTop (n : sexp) (l : lexp)     (* l.top(n) *)
| LSkip (n : sexp) (l : lexp)    (* l.skip(n) *)
| LConcat (a b : lexp)           (* a+b *)
| LReverse (l : lexp)            (* l.reverse() *)
| LForce (l : lexp)              (* l.eval() *)
| LGuard (v : sexp) (l : lexp)   (* l.map(e->e+0%(e-v)): lazy; the closure fails (modulo by zero) on elements equal to v *)
| LStage (st : stage) (a b : lexp) (* the stateful lazy stages of Heap/ListHeap.v: a.merge(b,(x,y)->x<y), a.cross(b,(x,y)->x+y),
                                    a.combine((x,y)->x+y), combine3, combineN(2,w->w.sum()), compact((x,y)->x=y), number((i,e)->i+e),
                                    iir(e->e,(i,o)->o+i), iirCombine(e->e,(i0,i1,o)->o+i1); the one-list stages are written with b = a
                                    and evaluate their receiver once *)
| LOrder (l : lexp)              (* l.order(e->e): CopyToSlice (materialises the receiver), sort, NewList *)
with zexp :=
| ZS (e : sexp)
| ZAdd (a b : zexp)
| ZMul (a b : zexp)
| ZIndex (l : lexp) (i : zexp)   (* l[i]: the index is evaluated first (GenerateFunc *ListAccess) *)
| ZSize (l : lexp)               (* l.size() *)
| ZSum (l : lexp)                (* l.sum(): iterates, does not materialise; error on the empty list *)
| ZFirst (l : lexp)              (* l.first() *)
| ZThrow                         (* throw("t") *)
| ZTry (a b : zexp)              (* try a catch b *)
| ZIfLt (a b t e : zexp)         (* if a<b then t else e *)
| ZCall (a b : sexp) (x : zexp). (* (y->y*a+b)(x): a closure object created by THIS evaluation, capturing the values a and b
                                    (its arguments) in a context of its own (createClosureLiteralFunc: make([]V, n) per
                                    creation), applied once: nothing of it outlives the evaluation *)

Inductive def :=
| DL (e : lexp)                  (* let c_k = e;          e closed: folded to a constant object at Generate time *)
| DS (i : nat).                  (* let n_k = c_i.size(); folded to an integer, materialises c_i at Generate time *)

Inductive body := BZ (e : zexp) | BL (e : lexp).   (* the function returns an integer / returns a list to the host *)

Record prog := mkP { p_defs : list def; p_body : body }.

(* a generated function: the constant tables (object ids of the list constants, values of the scalar ones) + body *)
Record func := mkF { f_cs : list nat; f_zs : list Z; f_body : body }.

Arguments SArg i%nat.
Arguments SLit z%Z.
Arguments SCst i%nat.
Arguments LConst i%nat.
Arguments LLit xs%Z.
Arguments DS i%nat.

(* ------------------------------------------------------------------ capacities *)

(* c_eval n: capacity of the array List.Eval's append loop ends with for n elements; c_app n: capacity append
   chooses when it has to allocate room for n elements.  Both are inputs: the theorems hold for every policy. *)
Record caps := mkCaps { c_eval : nat -> nat; c_app : nat -> nat }.

(* ------------------------------------------------------------------ scripts *)

Inductive outcome := OErr | OInt (z : Z) | OList (xs : list Z).

Inductive script (R : Type) :=
| Done (r : R)
| Do (f : heap -> heap * script R).      (* one atomic heap step; the rest is chosen from what the step saw *)
Arguments OInt z%Z.
Arguments OList xs%Z.
Arguments Done {R} r.
Arguments Do {R} f.

(* run a script alone (no other activity on the heap) *)
Fixpoint run_iso {R} (h : heap) (s : script R) : heap * R :=
  match s with
  | Done r => (h, r)
  | Do f => let (h', s') := f h in run_iso h' s'
  end.

Record env := mkEnv { e_cp : caps; e_cs : list nat; e_zs : list Z; e_args : list Z }.

Fixpoint ev_s (en : env) (e : sexp) : Z :=
  match e with
  | SArg i => nth i (e_args en) 0%Z
  | SLit z => z
  | SCst i => nth i (e_zs en) 0%Z
  | SAdd a b => (ev_s en a + ev_s en b)%Z
  | SMul a b => (ev_s en a * ev_s en b)%Z
  end.

Definition sum_list (xs : list Z) : option Z :=
  match xs with [] => None | x :: r => Some (fold_left Z.add r x) end.

(* the operations as single heap steps (ListHeap.step), with the capacities the policy picks *)
Definition force_op (cp : caps) (h : heap) (a : nat) : op := OForce a (c_eval cp (length (icontent h a))).
Definition append_op (cp : caps) (h : heap) (a : nat) (v : Z) : op :=
  OAppend a v (c_eval cp (length (icontent h a))) (c_app cp (S (length (icontent h a)))).

(* top(n): firstN in value/list.go stops when its counter EQUALS n: a negative n yields everything *)
Definition top_op (n : Z) (a : nat) : op := if (n <? 0)%Z then OSkip 0 a else OTop (Z.to_nat n) a.
Definition sp_top (n : Z) (xs : list Z) : list Z := if (n <? 0)%Z then xs else firstn (Z.to_nat n) xs.

(* consumers of a list whose iteration may FAIL (poison elements, see Heap/ListHeap.v).
   List.Eval (size, [i], append, reverse, eval): `for v, err := range l.iterable(st) { if err != nil { return err } ...`
   - the failure path returns BEFORE items / itemsPresent / iterable are written: a failing materialisation is a
   step that leaves the heap exactly as it was (eval_guarded), whoever shares the object. *)
Definition sum_ok (xs : list Z) : option Z := if poisoned xs then None else sum_list xs.
Definition first_ok (xs : list Z) : option Z :=
  match xs with [] => None | x :: _ => if is_poison x then None else Some x end.
Definition pull (j : nat) (xs : list Z) : outcome := if poisoned (firstn j xs) then OErr else OList (firstn j xs).

Definition one_list_stage (st : stage) : bool := match st with StMerge | StCross => false | _ => true end.

(* allocate: perform op, hand the id of the object it created to the continuation *)
Definition alloc {R} (mk : heap -> op) (k : option nat -> script R) : script R :=
  Do (fun h => (step h (mk h), k (Some (nobjs h)))).

(* the same for operations that start with List.Eval on object a: if materialising a fails, the operation
   returns the error and the heap is untouched *)
Definition alloc_eval {R} (a : nat) (mk : heap -> op) (k : option nat -> script R) : script R :=
  Do (fun h => if poisoned (icontent h a) then (h, k None) else (step h (mk h), k (Some (nobjs h)))).

(* compile to a script in continuation-passing style; the order of the steps is the order in which the
   generated Go closures run: receiver, then arguments, then the method; index before list *)
Fixpoint sc_l {R} (en : env) (e : lexp) (k : option nat -> script R) {struct e} : script R :=
  match e with
  | LConst i => k (nth_error (e_cs en) i)
  | LLit xs => alloc (fun _ => OLit xs 0) k
  | LSingle z => sc_z en z (fun r => match r with None => k None | Some v => alloc (fun _ => OLit [v] 0) k end)
  | LNumbers n => alloc (fun _ => ONumbers (Z.to_nat (ev_s en n))) k
  | LAppend l x =>
      sc_l en l (fun rl => match rl with None => k None | Some a =>
        sc_z en x (fun rx => match rx with None => k None | Some v =>
          alloc_eval a (fun h => append_op (e_cp en) h a v) k end) end)
  | LMap kk l => sc_l en l (fun rl => match rl with None => k None | Some a => alloc (fun _ => OMap (ev_s en kk) a) k end)
  | LAccept kk l => sc_l en l (fun rl => match rl with None => k None | Some a => alloc (fun _ => OAccept (ev_s en kk) a) k end)
  | LTop n l => sc_l en l (fun rl => match rl with None => k None | Some a => alloc (fun _ => top_op (ev_s en n) a) k end)
  | LSkip n l => sc_l en l (fun rl => match rl with None => k None | Some a => alloc (fun _ => OSkip (Z.to_nat (ev_s en n)) a) k end)
  | LConcat a b =>
      sc_l en a (fun ra => match ra with None => k None | Some x =>
        sc_l en b (fun rb => match rb with None => k None | Some y => alloc (fun _ => OConcat x y) k end) end)
  | LReverse l => sc_l en l (fun rl => match rl with None => k None | Some a =>
        alloc_eval a (fun h => OReverse a (c_eval (e_cp en) (length (icontent h a)))) k end)
  | LForce l => sc_l en l (fun rl => match rl with None => k None | Some a =>
        Do (fun h => if poisoned (icontent h a) then (h, k None) else (step h (force_op (e_cp en) h a), k (Some a))) end)
  | LGuard v l => sc_l en l (fun rl => match rl with None => k None | Some a => alloc (fun _ => OGuard (ev_s en v) a) k end)
  | LStage st a b =>
      if one_list_stage st then
        sc_l en a (fun ra => match ra with None => k None | Some x => alloc (fun _ => OStage st x x) k end)
      else
        sc_l en a (fun ra => match ra with None => k None | Some x =>
          sc_l en b (fun rb => match rb with None => k None | Some y => alloc (fun _ => OStage st x y) k end) end)
  | LOrder l => sc_l en l (fun rl => match rl with None => k None | Some a =>
        alloc_eval a (fun h => OOrder a (c_eval (e_cp en) (length (icontent h a)))) k end)
  end
with sc_z {R} (en : env) (e : zexp) (k : option Z -> script R) {struct e} : script R :=
  match e with
  | ZS s => k (Some (ev_s en s))
  | ZAdd a b => sc_z en a (fun ra => match ra with None => k None | Some x =>
        sc_z en b (fun rb => match rb with None => k None | Some y => k (Some (x + y)%Z) end) end)
  | ZMul a b => sc_z en a (fun ra => match ra with None => k None | Some x =>
        sc_z en b (fun rb => match rb with None => k None | Some y => k (Some (x * y)%Z) end) end)
  | ZIndex l i =>
      sc_z en i (fun ri => match ri with None => k None | Some iv =>
        sc_l en l (fun rl => match rl with None => k None | Some a =>
          if (iv <? 0)%Z then k None                    (* AccessList: negative index, the list is not touched *)
          else Do (fun h => if poisoned (icontent h a) then (h, k None) else     (* l.Size(): Eval fails *)
                            let h1 := step h (force_op (e_cp en) h a) in
                            (h1, k (nth_error (items_content h1 a) (Z.to_nat iv)))) end) end)
  | ZSize l => sc_l en l (fun rl => match rl with None => k None | Some a =>
        Do (fun h => if poisoned (icontent h a) then (h, k None) else
                     let h1 := step h (force_op (e_cp en) h a) in (h1, k (Some (Z.of_nat (length (items_content h1 a)))))) end)
  | ZSum l => sc_l en l (fun rl => match rl with None => k None | Some a =>
        Do (fun h => (h, k (sum_ok (icontent h a)))) end)                     (* iterates, writes nothing *)
  | ZFirst l => sc_l en l (fun rl => match rl with None => k None | Some a =>
        Do (fun h => (h, k (first_ok (icontent h a)))) end)
  | ZThrow => k None
  | ZTry a b => sc_z en a (fun ra => match ra with Some v => k (Some v) | None => sc_z en b k end)
  | ZIfLt a b t e =>
      sc_z en a (fun ra => match ra with None => k None | Some x =>
        sc_z en b (fun rb => match rb with None => k None | Some y =>
          if (x <? y)%Z then sc_z en t k else sc_z en e k end) end)
  | ZCall a b x => sc_z en x (fun rx => match rx with None => k None | Some v => k (Some (v * ev_s en a + ev_s en b)%Z) end)
  end.

(* Generate: the definitions are folded in order; every folded list is a new constant object.  A definition
   whose folding fails would stay a run-time `let` in the Go code: not modelled (None). *)
Fixpoint sc_defs {R} (cp : caps) (ds : list def) (cs : list nat) (zs : list Z)
         (k : option (list nat * list Z) -> script R) : script R :=
  match ds with
  | [] => k (Some (cs, zs))
  | DL e :: r => sc_l (mkEnv cp cs zs []) e (fun ro => match ro with None => k None | Some a => sc_defs cp r (cs ++ [a]) zs k end)
  | DS i :: r =>
      match nth_error cs i with
      | None => k None
      | Some a => Do (fun h => if poisoned (icontent h a) then (h, k None) else
                               let h1 := step h (force_op cp h a) in
                               (h1, sc_defs cp r cs (zs ++ [Z.of_nat (length (items_content h1 a))]) k))
      end
  end.

Definition sc_generate (cp : caps) (p : prog) : script (option func) :=
  sc_defs cp (p_defs p) [] [] (fun r => Done (match r with None => None | Some (cs, zs) => Some (mkF cs zs (p_body p)) end)).

(* Func.Eval(args...) followed by what the host does with the result: an integer is taken as it is; of a
   returned (lazy) list the host pulls at most j elements and stops (j = 0: the result is dropped) *)
Definition sc_eval (cp : caps) (F : func) (args : list Z) (j : nat) : script outcome :=
  let en := mkEnv cp (f_cs F) (f_zs F) args in
  match f_body F with
  | BZ e => sc_z en e (fun r => Done (match r with None => OErr | Some v => OInt v end))
  | BL e => sc_l en e (fun r => match r with None => Done OErr | Some a =>
        Do (fun h => (h, Done (pull j (icontent h a)))) end)
  end.

(* ------------------------------------------------------------------ one generator, many functions, a history *)

(* the state of a generator that survives between calls: the heap of list objects reachable from the
   constants of the functions generated so far, the functions, and the optimizer's scratch stack storage
   (funcGen.New: NewOptimizer(NewEmptyStack(), g)) - evaluations never see the latter: Func.Eval allocates
   its own storage *)
Record gstate := mkG { g_heap : heap; g_funcs : list func; g_scratch : list Z }.

Inductive event :=
| EGen (p : prog)                          (* another Generate call on the same generator *)
| EEval (k : nat) (args : list Z) (j : nat)(* evaluate function k, consume j elements of a list result *)
| EScratch (junk : list Z)                 (* the optimizer leaves values on its scratch stack *)
| EOps (ops : list op).                    (* anything else done with list objects of this heap by their holders *)

Arguments EEval k%nat args%Z j%nat.
Arguments EScratch junk%Z.

Definition eval_in (cp : caps) (g : gstate) (k : nat) (args : list Z) (j : nat) : heap * outcome :=
  match nth_error (g_funcs g) k with
  | None => (g_heap g, OErr)
  | Some F => run_iso (g_heap g) (sc_eval cp F args j)
  end.

Definition run_event (cp : caps) (g : gstate) (e : event) : gstate :=
  match e with
  | EGen p =>
      let (h', r) := run_iso (g_heap g) (sc_generate cp p) in
      mkG h' (g_funcs g ++ match r with Some F => [F] | None => [] end) (g_scratch g)
  | EEval k args j => mkG (fst (eval_in cp g k args j)) (g_funcs g) (g_scratch g)
  | EScratch junk => mkG (g_heap g) (g_funcs g) (junk ++ g_scratch g)
  | EOps ops => mkG (run_from (g_heap g) ops) (g_funcs g) (g_scratch g)
  end.

Definition run_hist (cp : caps) (g : gstate) (hist : list event) : gstate := fold_left (run_event cp) hist g.

(* the outcome of evaluating function k with args after a history *)
Definition eval_after (cp : caps) (g : gstate) (hist : list event) (k : nat) (args : list Z) (j : nat) : outcome :=
  snd (eval_in cp (run_hist cp g hist) k args j).

Definition new_generator : gstate := mkG empty_heap [] [].

(* the whole session with every outcome, as the correspondence run observes it *)
Fixpoint run_session (cp : caps) (g : gstate) (hist : list event) : list (option outcome) :=
  match hist with
  | [] => []
  | e :: r =>
      (match e with EEval k args j => Some (snd (eval_in cp g k args j)) | _ => None end)
      :: run_session cp (run_event cp g e) r
  end.

(* representation state of an object, as the hook value.VerifListState reports it: present, len, cap *)
Definition repr (h : heap) (o : nat) : bool * nat * nat :=
  match get_obj h o with
  | Some ob => (o_present ob, s_len (o_items ob), s_cap (o_items ob))
  | None => (false, 0, 0)
  end.

(* ------------------------------------------------------------------ shared and private, frozen *)

(* the part of the heap that existed when the evaluations started: objects < n0, arrays < a0 *)
Definition shared_same (n0 a0 : nat) (h h' : heap) : Prop :=
  firstn n0 (h_objs h') = firstn n0 (h_objs h) /\ firstn a0 (h_arrs h') = firstn a0 (h_arrs h).

(* every shared object is materialised and has no spare capacity *)
Definition frozen (n0 : nat) (h : heap) : Prop :=
  forall o ob, o < n0 -> get_obj h o = Some ob -> o_present ob = true /\ s_cap (o_items ob) = s_len (o_items ob).

Definition frozenb (n0 : nat) (h : heap) : bool :=
  forallb (fun ob => o_present ob && (s_cap (o_items ob) =? s_len (o_items ob))) (firstn n0 (h_objs h)).

(* private objects with spare capacity own private arrays *)
Definition priv_ok (n0 a0 : nat) (h : heap) : Prop :=
  forall o ob, n0 <= o -> get_obj h o = Some ob -> o_present ob = true -> s_cap (o_items ob) <= s_len (o_items ob) \/ a0 <= s_arr (o_items ob).

Definition fz (n0 a0 : nat) (h : heap) : Prop :=
  frozen n0 h /\ n0 <= nobjs h /\ a0 <= length (h_arrs h) /\ priv_ok n0 a0 h.

(* ------------------------------------------------------------------ specification side *)

Record senv := mkSE { s_cv : list (list Z); s_zs : list Z; s_args : list Z }.

Definition sp_s (se : senv) (e : sexp) : Z := ev_s (mkEnv (mkCaps (fun n => n) (fun n => n)) [] (s_zs se) (s_args se)) e.

Fixpoint sp_l (se : senv) (e : lexp) : option (list Z) :=
  match e with
  | LConst i => nth_error (s_cv se) i
  | LLit xs => Some xs
  | LSingle z => match sp_z se z with None => None | Some v => Some [v] end
  | LNumbers n => Some (map Z.of_nat (seq 0 (Z.to_nat (sp_s se n))))
  | LAppend l x => match sp_l se l with None => None | Some xs =>
                     match sp_z se x with None => None | Some v => if poisoned xs then None else Some (xs ++ [v]) end end
  | LMap k l => match sp_l se l with None => None | Some xs => Some (map (Z.add (sp_s se k)) xs) end
  | LAccept k l => match sp_l se l with None => None | Some xs => Some (filter (fun e => Z.ltb e (sp_s se k)) xs) end
  | LTop n l => match sp_l se l with None => None | Some xs => Some (sp_top (sp_s se n) xs) end
  | LSkip n l => match sp_l se l with None => None | Some xs => Some (skipn (Z.to_nat (sp_s se n)) xs) end
  | LConcat a b => match sp_l se a with None => None | Some xs =>
                     match sp_l se b with None => None | Some ys => Some (xs ++ ys) end end
  | LReverse l => match sp_l se l with None => None | Some xs => if poisoned xs then None else Some (rev xs) end
  | LForce l => match sp_l se l with None => None | Some xs => if poisoned xs then None else Some xs end
  | LGuard v l => match sp_l se l with None => None | Some xs => Some (map (guard_elem (sp_s se v)) xs) end
  | LStage st a b =>
      if one_list_stage st then match sp_l se a with None => None | Some xs => Some (stage_sem st xs xs) end
      else match sp_l se a with None => None | Some xs =>
             match sp_l se b with None => None | Some ys => Some (stage_sem st xs ys) end end
  | LOrder l => match sp_l se l with None => None | Some xs => if poisoned xs then None else Some (sort_vals xs) end
  end
with sp_z (se : senv) (e : zexp) : option Z :=
  match e with
  | ZS s => Some (sp_s se s)
  | ZAdd a b => match sp_z se a with None => None | Some x => match sp_z se b with None => None | Some y => Some (x + y)%Z end end
  | ZMul a b => match sp_z se a with None => None | Some x => match sp_z se b with None => None | Some y => Some (x * y)%Z end end
  | ZIndex l i => match sp_z se i with None => None | Some iv =>
                    match sp_l se l with None => None | Some xs =>
                      if (iv <? 0)%Z then None else if poisoned xs then None else nth_error xs (Z.to_nat iv) end end
  | ZSize l => match sp_l se l with None => None | Some xs => if poisoned xs then None else Some (Z.of_nat (length xs)) end
  | ZSum l => match sp_l se l with None => None | Some xs => sum_ok xs end
  | ZFirst l => match sp_l se l with None => None | Some xs => first_ok xs end
  | ZThrow => None
  | ZTry a b => match sp_z se a with Some v => Some v | None => sp_z se b end
  | ZIfLt a b t e => match sp_z se a with None => None | Some x =>
                       match sp_z se b with None => None | Some y =>
                         if (x <? y)%Z then sp_z se t else sp_z se e end end
  | ZCall a b x => match sp_z se x with None => None | Some v => Some (v * sp_s se a + sp_s se b)%Z end
  end.

Definition sp_body (se : senv) (b : body) (j : nat) : outcome :=
  match b with
  | BZ e => match sp_z se e with None => OErr | Some v => OInt v end
  | BL e => match sp_l se e with None => OErr | Some xs => pull j xs end
  end.

(* the constants of a program, as values *)
Fixpoint sp_defs (ds : list def) (cv : list (list Z)) (zs : list Z) : option (list (list Z) * list Z) :=
  match ds with
  | [] => Some (cv, zs)
  | DL e :: r => match sp_l (mkSE cv zs []) e with None => None | Some xs => sp_defs r (cv ++ [xs]) zs end
  | DS i :: r => match nth_error cv i with None => None | Some xs =>
                   if poisoned xs then None else sp_defs r cv (zs ++ [Z.of_nat (length xs)]) end
  end.

(* THE SPECIFICATION: the outcome of evaluating program p with args, consuming j elements - a function of
   (p, args, j) alone *)
Definition sp_prog (p : prog) (args : list Z) (j : nat) : option outcome :=
  match sp_defs (p_defs p) [] [] with
  | None => None
  | Some (cv, zs) => Some (sp_body (mkSE cv zs args) (p_body p) j)
  end.

(* what a generated function denotes, read off the heap it was generated on: its constants by content *)
Definition func_senv (h : heap) (F : func) (args : list Z) : senv := mkSE (map (icontent h) (f_cs F)) (f_zs F) args.
