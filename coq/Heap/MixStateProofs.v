(* Proofs about Heap/MixState.v: the lets of an evaluation (map literals built per evaluation, put / + wrappers,
   field reads yielding shared list objects) bind what the entries of the function's constant maps determine - in
   ANY map heap reachable from the one the function was generated on (MapHeap's persistence, C09); the body then is
   an evaluation of Heap/FuncState.v with extended constant tables (C10_outcome_depends_on_content_only); hence the
   outcome after any history on both heaps is the outcome with no history. *)
From P2 Require Import Base.Prelude Heap.ListHeap Heap.ListHeapProofs Heap.MapHeap Heap.MapHeapProofs.
From P2 Require Import Heap.FuncState Heap.FuncStateProofs Heap.MixState.
Require Import Lia.
Local Open Scope nat_scope.

(* ------------------------------------------------------------------ association lists *)

Lemma assoc_app : forall A k (a b : list (str * A)),
  assoc k (a ++ b) = match assoc k a with Some v => Some v | None => assoc k b end.
Proof.
  intros A k a b. induction a as [|[k' v] a IH]; cbn; [reflexivity|]. destruct (str_eqb k k'); auto.
Qed.

Lemma forall2_nth_error : forall A B (R : A -> B -> Prop) l l' i, Forall2 R l l' ->
  match nth_error l i, nth_error l' i with
  | Some a, Some b => R a b
  | None, None => True
  | _, _ => False
  end.
Proof.
  intros A B R l l' i F. revert i. induction F as [|a b l l' H F IH]; intros [|i]; cbn; auto. apply IH.
Qed.

(* ------------------------------------------------------------------ the builder of a map literal *)

Lemma lm_build_as_script : forall arrs size es,
  lm_build arrs size es = lm_script arrs size (map (fun e => MBAppend (fst e) (snd e) 0) es).
Proof.
  intros arrs size es. unfold lm_build, lm_script. generalize (lm_new arrs size).
  induction es as [|e es IH]; intros st; cbn [map fold_left]; [reflexivity|]. rewrite IH. reflexivity.
Qed.

Lemma script_entries_map : forall es : list entry, script_entries (map (fun e => MBAppend (fst e) (snd e) 0) es) = es.
Proof. induction es as [|[k v] es IH]; cbn; [reflexivity|]. f_equal. exact IH. Qed.

Lemma lm_script_state : forall arrs size script,
  lmstate_ok (length arrs) arrs (lm_script arrs size script) (pl_build (script_entries script)).
Proof.
  intros arrs size script. unfold lm_script, pl_build. rewrite <- pl_build_fold.
  assert (H0 : lmstate_ok (length arrs) arrs (lm_new arrs size) []).
  { unfold lmstate_ok, lm_new. cbn [fst snd lm_arr lm_len lm_cap].
    split; [apply keeps_snoc; lia|]. split; [lia|]. split; [rewrite app_length; cbn; lia|]. split; [lia|].
    split; [rewrite app_nth2 by lia; rewrite Nat.sub_diag; cbn; rewrite repeat_length; lia|reflexivity]. }
  revert H0. generalize (lm_new arrs size). generalize (@nil entry).
  induction script as [|[k v c] script IH]; intros es st H; cbn [fold_left]; [exact H|].
  apply IH. cbn [mbstep_run]. apply mbstep_ok. exact H.
Qed.

Lemma lm_build_state : forall arrs size es, lmstate_ok (length arrs) arrs (lm_build arrs size es) (pl_build es).
Proof.
  intros arrs size es. rewrite lm_build_as_script.
  pose proof (lm_script_state arrs size (map (fun e => MBAppend (fst e) (snd e) 0) es)) as H.
  rewrite script_entries_map in H. exact H.
Qed.

(* ------------------------------------------------------------------ what a storage shows *)

(* storage s, living in map heap mh, shows the entries es: iteration, lookup and size agree with the association list *)
Definition sabs (mh : mheap) (s : mstore) (es : list entry) : Prop :=
  store_ok (length (mh_arrs mh)) s /\ miter (mh_arrs mh) s = es /\
  (forall k, mget (mh_arrs mh) s k = assoc k es) /\ msize (mh_arrs mh) s = length es.

Definition sok (mh : mheap) (s : mstore) : Prop := sabs mh s (miter (mh_arrs mh) s).

Lemma sabs_mono : forall mh mh' s es, mgood mh mh' -> sabs mh s es -> sabs mh' s es.
Proof.
  intros mh mh' s es (_ & K & _) (Ho & Hi & Hg & Hs).
  destruct (store_reads_kept _ _ _ s K Ho) as (G & I & S). pose proof K as [L _].
  split; [eapply store_ok_mono; eauto|]. split; [congruence|]. split; [|congruence].
  intros k. rewrite G. apply Hg.
Qed.

Lemma sok_mono : forall mh mh' s, mgood mh mh' -> sok mh s -> sabs mh' s (miter (mh_arrs mh) s).
Proof. intros mh mh' s G H. eapply sabs_mono; eauto. Qed.

Lemma sabs_sok : forall mh s es, sabs mh s es -> sok mh s.
Proof. intros mh s es H. unfold sok. destruct H as (A & B & C & D). rewrite B. split; auto. Qed.

Lemma forall2_sabs_mono : forall mh mh' ms cvm, mgood mh mh' -> Forall2 (sabs mh) ms cvm -> Forall2 (sabs mh') ms cvm.
Proof. intros mh mh' ms cvm G F. induction F; constructor; auto. eapply sabs_mono; eauto. Qed.

Lemma has_key_phas : forall mh s es k, sabs mh s es -> has_key (mh_arrs mh) s k = phas es k.
Proof. intros mh s es k (_ & _ & G & _). unfold has_key, phas. rewrite G. reflexivity. Qed.

Definition xm_rel (mh : mheap) (r : option mstore) (p : option (list entry)) : Prop :=
  match r, p with
  | Some s, Some es => sabs mh s es
  | None, None => True
  | _, _ => False
  end.

(* a map expression, run in ANY well-formed map heap in which the constants show cvm, takes only good map steps and
   yields a storage that shows what the heap-free evaluation computes *)
Lemma ev_xm_abs : forall e en mh cvm, mwf mh -> Forall2 (sabs mh) (xe_ms en) cvm ->
  mgood mh (fst (ev_xm en mh e)) /\ xm_rel (fst (ev_xm en mh e)) (snd (ev_xm en mh e)) (pm_xm en cvm e).
Proof.
  induction e as [i|es|m IH k v|a IHa b IHb]; intros en mh cvm Hw HF; cbn [ev_xm pm_xm].
  - cbn [fst snd]. split; [apply mgood_refl; auto|]. unfold xm_rel.
    pose proof (forall2_nth_error _ _ _ _ _ i HF) as H.
    destruct (nth_error (xe_ms en) i), (nth_error cvm i); auto.
  - destruct (xvs_eval en es) as [ents|]; [|cbn [fst snd]; split; [apply mgood_refl; auto|exact I]].
    pose proof (lm_build_state (mh_arrs mh) (length ents) ents) as (K & Hn & Hlt & Hlc & Hcl & Hrd).
    destruct (lm_build (mh_arrs mh) (length ents) ents) as [arrs' l]. cbn [fst snd] in *.
    assert (G : mgood mh (add_map mh arrs' (SList l))) by (apply add_map_good; auto).
    split; [exact G|]. unfold xm_rel, sabs. cbn [add_map mh_arrs store_ok miter mget msize].
    split; [exact Hlt|]. split; [exact Hrd|]. split; [intros k; rewrite Hrd; reflexivity|].
    rewrite <- Hrd. unfold lm_rd. rewrite firstn_length_le; [reflexivity|lia].
  - destruct (IH en mh cvm Hw HF) as [G R]. destruct (ev_xm en mh m) as [mh1 r]. cbn [fst snd] in *.
    unfold xm_rel in R. destruct r as [s|], (pm_xm en cvm m) as [es|]; try contradiction;
      [|cbn [fst snd]; split; [exact G|exact I]].
    destruct (xv_eval en v) as [z|]; [|cbn [fst snd]; split; [exact G|exact I]].
    rewrite (has_key_phas mh1 s es k R). destruct (phas es k); cbn [fst snd]; (split; [exact G|]); [exact I|].
    unfold xm_rel. destruct R as (Ho & Hi & Hg & Hs). unfold sabs. cbn [store_ok miter mget msize].
    split; [exact Ho|]. split; [rewrite Hi; reflexivity|]. split; [|rewrite Hs; reflexivity].
    intros k0. cbn [assoc]. rewrite Hg. reflexivity.
  - destruct (IHa en mh cvm Hw HF) as [Ga Ra]. destruct (ev_xm en mh a) as [mh1 ra]. cbn [fst snd] in *.
    unfold xm_rel in Ra. destruct ra as [sa|], (pm_xm en cvm a) as [ea|]; try contradiction;
      [|cbn [fst snd]; split; [exact Ga|exact I]].
    pose proof Ga as (Hw1 & _).
    destruct (IHb en mh1 cvm Hw1 (forall2_sabs_mono _ _ _ _ Ga HF)) as [Gb Rb].
    destruct (ev_xm en mh1 b) as [mh2 rb]. cbn [fst snd] in *.
    assert (G : mgood mh mh2) by (eapply mgood_trans; eauto).
    unfold xm_rel in Rb. destruct rb as [sb|], (pm_xm en cvm b) as [eb|]; try contradiction;
      [|cbn [fst snd]; split; [exact G|exact I]].
    pose proof (sabs_mono _ _ _ _ Gb Ra) as Ra2.
    assert (E : existsb (fun e => has_key (mh_arrs mh2) sa (fst e)) (miter (mh_arrs mh2) sb) =
                existsb (fun e => phas ea (fst e)) eb).
    { destruct Rb as (_ & Hi & _). rewrite Hi. clear -Ra2. induction eb as [|e eb IH]; cbn; [reflexivity|].
      rewrite (has_key_phas _ _ _ _ Ra2), IH. reflexivity. }
    rewrite E. destruct (existsb (fun e => phas ea (fst e)) eb); cbn [fst snd]; (split; [exact G|]); [exact I|].
    unfold xm_rel, sabs. destruct Ra2 as (Hoa & Hia & Hga & Hsa). destruct Rb as (Hob & Hib & Hgb & Hsb).
    cbn [store_ok miter mget msize]. split; [split; auto|]. split; [rewrite Hia, Hib; reflexivity|].
    split; [|rewrite Hsa, Hsb, app_length; reflexivity].
    intros k. rewrite assoc_app, Hga, Hgb. reflexivity.
Qed.

(* the run-time lets: good steps only on both heaps, and the tables they bind are those of the heap-free evaluation
   on the content the lists of lists had in h0 *)
Lemma ev_binds_abs : forall cp h0 cvm bs en h mh, inv h0 -> good h0 h -> Forall (fun a => a < nobjs h0) (xe_os en) ->
  mwf mh -> Forall2 (sabs mh) (xe_ms en) cvm ->
  good h (fst (fst (ev_binds cp en h mh bs))) /\ mgood mh (snd (fst (ev_binds cp en h mh bs))) /\
  snd (ev_binds cp en h mh bs) = pm_binds en cvm (icontent h0) bs.
Proof.
  intros cp h0 cvm. induction bs as [|b bs IH]; intros en h mh Hinv G Hos Hw HF; cbn [ev_binds pm_binds].
  - cbn [fst snd]. split; [apply good_refl; apply G|]. split; [apply mgood_refl; auto|reflexivity].
  - assert (Hih : inv h) by apply G.
    destruct b as [m k|m k|m|o i|o].
    + destruct (ev_xm_abs m en mh cvm Hw HF) as [GM R]. destruct (ev_xm en mh m) as [mh1 r]. cbn [fst snd] in *.
      unfold xm_rel in R. destruct r as [s|], (pm_xm en cvm m) as [es|]; try contradiction;
        [|cbn [fst snd]; split; [apply good_refl; auto|split; [exact GM|reflexivity]]].
      pose proof R as (_ & _ & Hg & _). rewrite Hg.
      destruct (assoc k es) as [z|]; [|cbn [fst snd]; split; [apply good_refl; auto|split; [exact GM|reflexivity]]].
      destruct (in_scope (xe_cs en) z); [|cbn [fst snd]; split; [apply good_refl; auto|split; [exact GM|reflexivity]]].
      pose proof GM as (Hw1 & _).
      destruct (IH (mkXE (xe_cs en ++ [Z.to_nat z]) (xe_zs en) (xe_os en) (xe_ms en) (xe_args en)) h mh1 Hinv G Hos Hw1
                   (forall2_sabs_mono _ _ _ _ GM HF)) as (G2 & GM2 & E2).
      split; [exact G2|]. split; [eapply mgood_trans; eauto|exact E2].
    + destruct (ev_xm_abs m en mh cvm Hw HF) as [GM R]. destruct (ev_xm en mh m) as [mh1 r]. cbn [fst snd] in *.
      unfold xm_rel in R. destruct r as [s|], (pm_xm en cvm m) as [es|]; try contradiction;
        [|cbn [fst snd]; split; [apply good_refl; auto|split; [exact GM|reflexivity]]].
      pose proof R as (_ & _ & Hg & _). rewrite Hg.
      destruct (assoc k es) as [z|]; [|cbn [fst snd]; split; [apply good_refl; auto|split; [exact GM|reflexivity]]].
      pose proof GM as (Hw1 & _).
      destruct (IH (mkXE (xe_cs en) (xe_zs en ++ [z]) (xe_os en) (xe_ms en) (xe_args en)) h mh1 Hinv G Hos Hw1
                   (forall2_sabs_mono _ _ _ _ GM HF)) as (G2 & GM2 & E2).
      split; [exact G2|]. split; [eapply mgood_trans; eauto|exact E2].
    + destruct (ev_xm_abs m en mh cvm Hw HF) as [GM R]. destruct (ev_xm en mh m) as [mh1 r]. cbn [fst snd] in *.
      unfold xm_rel in R. destruct r as [s|], (pm_xm en cvm m) as [es|]; try contradiction;
        [|cbn [fst snd]; split; [apply good_refl; auto|split; [exact GM|reflexivity]]].
      pose proof R as (_ & _ & _ & Hs). rewrite Hs.
      pose proof GM as (Hw1 & _).
      destruct (IH (mkXE (xe_cs en) (xe_zs en ++ [Z.of_nat (length es)]) (xe_os en) (xe_ms en) (xe_args en)) h mh1 Hinv G Hos Hw1
                   (forall2_sabs_mono _ _ _ _ GM HF)) as (G2 & GM2 & E2).
      split; [exact G2|]. split; [eapply mgood_trans; eauto|exact E2].
    + destruct (nth_error (xe_os en) o) as [a|] eqn:Eo;
        [|cbn [fst snd]; split; [apply good_refl; auto|split; [apply mgood_refl; auto|reflexivity]]].
      assert (Ha : a < nobjs h0) by (rewrite Forall_forall in Hos; apply Hos; eapply nth_error_In; eauto).
      assert (Hf : func_ok h0 (mkF [a] (xe_zs en) (index_body i))) by (constructor; [exact Ha|constructor]).
      destruct (outcome_content_only_lemma cp h0 (mkF [a] (xe_zs en) (index_body i)) (xe_args en) 0 Hinv Hf h G) as [A B].
      unfold oeval. destruct (run_iso h (sc_eval cp (mkF [a] (xe_zs en) (index_body i)) (xe_args en) 0)) as [h1 out].
      cbn [fst snd] in A, B. unfold func_senv in A. cbn [f_cs f_zs f_body map] in A. unfold val in *. rewrite <- A.
      destruct out as [|z|xs]; try (cbn [fst snd]; split; [exact B|split; [apply mgood_refl; auto|reflexivity]]).
      destruct (in_scope (xe_cs en) z); [|cbn [fst snd]; split; [exact B|split; [apply mgood_refl; auto|reflexivity]]].
      destruct (IH (mkXE (xe_cs en ++ [Z.to_nat z]) (xe_zs en) (xe_os en) (xe_ms en) (xe_args en)) h1 mh Hinv
                   (good_trans _ _ _ G B) Hos Hw HF) as (G2 & GM2 & E2).
      split; [eapply good_trans; eauto|]. split; [exact GM2|exact E2].
    + destruct (nth_error (xe_os en) o) as [a|] eqn:Eo;
        [|cbn [fst snd]; split; [apply good_refl; auto|split; [apply mgood_refl; auto|reflexivity]]].
      assert (Ha : a < nobjs h0) by (rewrite Forall_forall in Hos; apply Hos; eapply nth_error_In; eauto).
      assert (Hf : func_ok h0 (mkF [a] (xe_zs en) osize_body)) by (constructor; [exact Ha|constructor]).
      destruct (outcome_content_only_lemma cp h0 (mkF [a] (xe_zs en) osize_body) (xe_args en) 0 Hinv Hf h G) as [A B].
      unfold oeval. destruct (run_iso h (sc_eval cp (mkF [a] (xe_zs en) osize_body) (xe_args en) 0)) as [h1 out].
      cbn [fst snd] in A, B. unfold func_senv in A. cbn [f_cs f_zs f_body map] in A. unfold val in *. rewrite <- A.
      destruct out as [|z|xs]; try (cbn [fst snd]; split; [exact B|split; [apply mgood_refl; auto|reflexivity]]).
      destruct (IH (mkXE (xe_cs en) (xe_zs en ++ [z]) (xe_os en) (xe_ms en) (xe_args en)) h1 mh Hinv
                   (good_trans _ _ _ G B) Hos Hw HF) as (G2 & GM2 & E2).
      split; [eapply good_trans; eauto|]. split; [exact GM2|exact E2].
Qed.

(* the map definitions of Generate: good map steps, and every constant storage is well formed in the resulting heap *)
Lemma ev_mdefs_abs : forall ds en mh cvm, mwf mh -> Forall2 (sabs mh) (xe_ms en) cvm ->
  mgood mh (fst (ev_mdefs en mh ds)) /\
  match snd (ev_mdefs en mh ds) with Some ms => Forall (sok (fst (ev_mdefs en mh ds))) ms | None => True end.
Proof.
  induction ds as [|d ds IH]; intros en mh cvm Hw HF; cbn [ev_mdefs].
  - cbn [fst snd]. split; [apply mgood_refl; auto|].
    clear -HF. induction HF; constructor; auto. eapply sabs_sok; eauto.
  - destruct (ev_xm_abs d en mh cvm Hw HF) as [G R]. destruct (ev_xm en mh d) as [mh1 r]. cbn [fst snd] in *.
    unfold xm_rel in R. destruct r as [s|], (pm_xm en cvm d) as [es|]; try contradiction;
      [|cbn [fst snd]; split; [exact G|exact I]].
    pose proof G as (Hw1 & _).
    destruct (IH (mkXE (xe_cs en) (xe_zs en) (xe_os en) (xe_ms en ++ [s]) (xe_args en)) mh1 (cvm ++ [es]) Hw1) as [G2 E2].
    { cbn [xe_ms]. apply Forall2_app; [eapply forall2_sabs_mono; eauto|constructor; [exact R|constructor]]. }
    split; [eapply mgood_trans; eauto|exact E2].
Qed.

(* a list-valued let binds one of the lists already in scope *)
Lemma in_scope_in : forall cs z, in_scope cs z = true -> In (Z.to_nat z) cs.
Proof.
  intros cs z H. unfold in_scope in H. apply existsb_exists in H. destruct H as (a & Ha & E).
  apply Z.eqb_eq in E. subst z. rewrite Nat2Z.id. exact Ha.
Qed.

Lemma pm_binds_scope : forall (P : nat -> Prop) lc bs en cvm cs zs, pm_binds en cvm lc bs = Some (cs, zs) ->
  Forall P (xe_cs en) -> Forall P cs.
Proof.
  intros P lc. induction bs as [|b bs IH]; intros en cvm cs zs H HP; cbn [pm_binds] in H.
  - inversion H. subst. exact HP.
  - destruct b as [m k|m k|m|o i|o].
    + destruct (pm_xm en cvm m) as [es|]; try discriminate.
      destruct (assoc k es) as [z|]; [|discriminate]. destruct (in_scope (xe_cs en) z) eqn:Ei; [|discriminate].
      apply (IH _ _ _ _ H). cbn [xe_cs]. apply Forall_app. split; [exact HP|]. constructor; [|constructor].
      rewrite Forall_forall in HP. apply HP. apply in_scope_in. exact Ei.
    + destruct (pm_xm en cvm m) as [es|]; try discriminate.
      destruct (assoc k es) as [z|]; [|discriminate]. apply (IH _ _ _ _ H). exact HP.
    + destruct (pm_xm en cvm m) as [es|]; try discriminate. apply (IH _ _ _ _ H). exact HP.
    + destruct (nth_error (xe_os en) o) as [a|]; [|discriminate].
      destruct (sp_body _ (index_body i) 0) as [|z|xs]; try discriminate.
      destruct (in_scope (xe_cs en) z) eqn:Ei; [|discriminate].
      apply (IH _ _ _ _ H). cbn [xe_cs]. apply Forall_app. split; [exact HP|]. constructor; [|constructor].
      rewrite Forall_forall in HP. apply HP. apply in_scope_in. exact Ei.
    + destruct (nth_error (xe_os en) o) as [a|]; [|discriminate].
      destruct (sp_body _ osize_body 0) as [|z|xs]; try discriminate.
      apply (IH _ _ _ _ H). exact HP.
Qed.

(* the lists of lists of Generate: good steps (a fresh literal each), and the new objects exist *)
Lemma ev_odefs_ok : forall cs ods h os, inv h -> Forall (fun a => a < nobjs h) os ->
  good h (fst (ev_odefs cs h ods os)) /\
  match snd (ev_odefs cs h ods os) with
  | Some os' => Forall (fun a => a < nobjs (fst (ev_odefs cs h ods os))) os'
  | None => True
  end.
Proof.
  intros cs. induction ods as [|d ods IH]; intros h os Hinv Hos; cbn [ev_odefs].
  - cbn [fst snd]. split; [apply good_refl; auto|exact Hos].
  - destruct (handles cs d) as [zs|]; [|cbn [fst snd]; split; [apply good_refl; auto|exact I]].
    pose proof (proj1 (gstep_step 0 0 h (OLit zs 0) Hinv I)) as Gs.
    assert (Hn : nobjs (step h (OLit zs 0)) = S (nobjs h)).
    { unfold step, add_fresh, nobjs. cbn [h_objs]. rewrite app_length. cbn [length]. lia. }
    destruct (IH (step h (OLit zs 0)) (os ++ [nobjs h])) as [G2 H2]; [apply Gs| |].
    { rewrite Hn. apply Forall_app. split; [eapply Forall_impl; [|exact Hos]; intros a Ha; cbn beta in *; lia|].
      constructor; [lia|constructor]. }
    split; [eapply good_trans; eauto|exact H2].
Qed.

(* ------------------------------------------------------------------ one evaluation *)

Definition xfunc_ok (h : heap) (mh : mheap) (F : xfunc) : Prop :=
  Forall (fun a => a < nobjs h) (xf_cs F) /\ Forall (fun a => a < nobjs h) (xf_os F) /\ Forall (sok mh) (xf_ms F).

Lemma xfunc_ok_mono : forall h h' mh mh' F, good h h' -> mgood mh mh' -> xfunc_ok h mh F -> xfunc_ok h' mh' F.
Proof.
  intros h h' mh mh' F (_ & L & _) G (A & O & B). split; [|split].
  - eapply Forall_impl; [|exact A]. cbn. intros; lia.
  - eapply Forall_impl; [|exact O]. cbn. intros; lia.
  - eapply Forall_impl; [|exact B]. intros s Hs. eapply sabs_sok. eapply sok_mono; eauto.
Qed.

(* THE KEY FACT: started in any list heap reachable from h0 by good steps and any map heap reachable from mh0 by good
   map steps, an evaluation of F yields what F denotes on (h0, mh0), and takes only good steps on both heaps *)
Lemma xeval_fn_spec : forall cp h0 mh0 F args j h mh, inv h0 -> mwf mh0 -> xfunc_ok h0 mh0 F ->
  good h0 h -> mgood mh0 mh ->
  snd (xeval_fn cp h mh F args j) = xfunc_denotes h0 mh0 F args j /\
  good h (fst (fst (xeval_fn cp h mh F args j))) /\ mgood mh (snd (fst (xeval_fn cp h mh F args j))).
Proof.
  intros cp h0 mh0 F args j h mh Hinv Hw0 (Hc & Hos & Hm) G GM. unfold xeval_fn, xfunc_denotes.
  set (en := mkXE (xf_cs F) (xf_zs F) (xf_os F) (xf_ms F) args).
  set (cvm := map (miter (mh_arrs mh0)) (xf_ms F)).
  assert (HF : Forall2 (sabs mh) (xe_ms en) cvm).
  { subst en cvm. cbn [xe_ms]. clear -Hm GM. induction Hm as [|s l Hs Hm IH]; cbn [map]; constructor; auto.
    eapply sok_mono; eauto. }
  pose proof GM as (Hw & _).
  destruct (ev_binds_abs cp h0 cvm (xf_binds F) en h mh Hinv G Hos Hw HF) as (G1 & GM1 & E1).
  destruct (ev_binds cp en h mh (xf_binds F)) as [[h1 mh1] r]. cbn [fst snd] in *. rewrite <- E1.
  destruct r as [[cs zs]|]; [|cbn [fst snd]; split; [reflexivity|]; split; [exact G1|exact GM1]].
  destruct (xf_body F) as [b|parts]; [|cbn [fst snd]; split; [reflexivity|]; split; [exact G1|exact GM1]].
  assert (Hf : func_ok h0 (mkF cs zs b)).
  { unfold func_ok. cbn [f_cs]. symmetry in E1. apply (pm_binds_scope _ _ _ _ _ _ _ E1). exact Hc. }
  destruct (outcome_content_only_lemma cp h0 (mkF cs zs b) args j Hinv Hf h1 (good_trans _ _ _ G G1)) as [A B].
  destruct (run_iso h1 (sc_eval cp (mkF cs zs b) args j)) as [h2 o]. cbn [fst snd] in *.
  cbn [f_body] in A. split; [rewrite A; reflexivity|]. split; [eapply good_trans; eauto|exact GM1].
Qed.

(* ------------------------------------------------------------------ histories *)

Definition xgstate_ok (g : xgstate) : Prop :=
  inv (xg_heap g) /\ mwf (xg_mh g) /\ Forall (xfunc_ok (xg_heap g) (xg_mh g)) (xg_funcs g).

Lemma xrun_event_ok : forall cp g e, xgstate_ok g ->
  good (xg_heap g) (xg_heap (xrun_event cp g e)) /\ mgood (xg_mh g) (xg_mh (xrun_event cp g e)) /\
  xgstate_ok (xrun_event cp g e) /\
  (forall k F, nth_error (xg_funcs g) k = Some F -> nth_error (xg_funcs (xrun_event cp g e)) k = Some F).
Proof.
  intros cp g e (Hinv & Hw & Hfs).
  assert (Old : forall h' mh', good (xg_heap g) h' -> mgood (xg_mh g) mh' -> Forall (xfunc_ok h' mh') (xg_funcs g)).
  { intros h' mh' G GM. eapply Forall_impl; [|exact Hfs]. intros F. apply xfunc_ok_mono; auto. }
  destruct e as [p|k args j|ops|ops]; cbn [xrun_event].
  - unfold xgenerate.
    destruct (yields_run_iso 0 0 _ _ _ _ (generate_yields 0 0 cp (mkP (xp_defs p) (BZ ZThrow)) (xg_heap g) Hinv) Hinv) as [[G _] Hq].
    destruct (run_iso (xg_heap g) (sc_generate cp (mkP (xp_defs p) (BZ ZThrow)))) as [h1 r]. cbn [fst snd] in *.
    destruct r as [F|].
    + unfold generated_ok in Hq. cbn [p_defs p_body] in Hq.
      destruct (sp_defs (xp_defs p) [] []) as [[cv zs]|]; [|contradiction]. destruct Hq as (_ & _ & Hq).
      destruct (ev_odefs_ok (f_cs F) (xp_odefs p) h1 [] (proj1 G) (Forall_nil _)) as [G2 Hos].
      destruct (ev_odefs (f_cs F) h1 (xp_odefs p) []) as [h2 ro]. cbn [fst snd] in *.
      assert (G12 : good (xg_heap g) h2) by (eapply good_trans; eauto).
      destruct ro as [os|].
      2:{ cbn [xg_heap xg_mh xg_funcs]. split; [exact G12|]. split; [apply mgood_refl; auto|]. split; [|auto].
          split; [apply G12|]. split; [exact Hw|]. apply Old; [exact G12|apply mgood_refl; auto]. }
      destruct (ev_mdefs_abs (xp_mdefs p) (mkXE (f_cs F) (f_zs F) os [] []) (xg_mh g) [] Hw (Forall2_nil _)) as [GM Hms].
      destruct (ev_mdefs (mkXE (f_cs F) (f_zs F) os [] []) (xg_mh g) (xp_mdefs p)) as [mh1 rm]. cbn [fst snd] in *.
      cbn [xg_heap xg_mh xg_funcs]. split; [exact G12|]. split; [exact GM|]. split.
      * split; [apply G12|]. split; [apply GM|]. apply Forall_app. split; [apply Old; auto|].
        destruct rm as [ms|]; [|constructor]. constructor; [|constructor].
        split; [|split]; cbn [xf_cs xf_os xf_ms]; [|exact Hos|exact Hms].
        pose proof (forall2_func_ok _ _ _ Hq) as Hc. destruct G2 as (_ & L2 & _).
        eapply Forall_impl; [|exact Hc]. cbn. intros; lia.
      * intros k F' Hk. rewrite nth_error_app1; [exact Hk|]. apply nth_error_Some. congruence.
    + cbn [xg_heap xg_mh xg_funcs]. split; [exact G|]. split; [apply mgood_refl; auto|]. split; [|auto].
      split; [apply G|]. split; [exact Hw|]. apply Old; [exact G|apply mgood_refl; auto].
  - unfold xeval_in. destruct (nth_error (xg_funcs g) k) as [F|] eqn:Ek.
    + assert (Hf : xfunc_ok (xg_heap g) (xg_mh g) F).
      { rewrite Forall_forall in Hfs. apply Hfs. eapply nth_error_In; eauto. }
      destruct (xeval_fn_spec cp (xg_heap g) (xg_mh g) F args j (xg_heap g) (xg_mh g) Hinv Hw Hf
                  (good_refl _ Hinv) (mgood_refl _ Hw)) as (_ & G & GM).
      destruct (xeval_fn cp (xg_heap g) (xg_mh g) F args j) as [[h1 mh1] o]. cbn [fst snd] in *.
      cbn [xg_heap xg_mh xg_funcs]. split; [exact G|]. split; [exact GM|]. split; [|auto].
      split; [apply G|]. split; [apply GM|]. apply Old; auto.
    + cbn [xg_heap xg_mh xg_funcs]. split; [apply good_refl; auto|]. split; [apply mgood_refl; auto|]. split; [|auto].
      split; [auto|]. split; [auto|]. exact Hfs.
  - cbn [xg_heap xg_mh xg_funcs]. destruct (run_from_good ops (xg_heap g) Hinv) as [G _].
    split; [exact G|]. split; [apply mgood_refl; auto|]. split; [|auto].
    split; [apply G|]. split; [exact Hw|]. apply Old; [exact G|apply mgood_refl; auto].
  - cbn [xg_heap xg_mh xg_funcs]. pose proof (mrun_from_good ops (xg_mh g) Hw) as GM.
    split; [apply good_refl; auto|]. split; [exact GM|]. split; [|auto].
    split; [exact Hinv|]. split; [apply GM|]. apply Old; [apply good_refl; auto|exact GM].
Qed.

Lemma xrun_hist_ok : forall cp hist g, xgstate_ok g ->
  good (xg_heap g) (xg_heap (xrun_hist cp g hist)) /\ mgood (xg_mh g) (xg_mh (xrun_hist cp g hist)) /\
  xgstate_ok (xrun_hist cp g hist) /\
  (forall k F, nth_error (xg_funcs g) k = Some F -> nth_error (xg_funcs (xrun_hist cp g hist)) k = Some F).
Proof.
  intros cp hist. induction hist as [|e hist IH]; intros g Hg; cbn [xrun_hist fold_left].
  - destruct Hg as (Hinv & Hw & Hfs). split; [apply good_refl; auto|]. split; [apply mgood_refl; auto|].
    split; [split; auto|auto].
  - destruct (xrun_event_ok cp g e Hg) as (G1 & M1 & O1 & K1).
    destruct (IH _ O1) as (G2 & M2 & O2 & K2). fold (xrun_hist cp (xrun_event cp g e) hist).
    split; [eapply good_trans; eauto|]. split; [eapply mgood_trans; eauto|]. split; auto.
Qed.

(* the outcome of evaluating function k after ANY history on its generator is what the function denotes on the
   state before the history *)
Lemma xeval_after_spec : forall cp g hist k F args j, xgstate_ok g -> nth_error (xg_funcs g) k = Some F ->
  xeval_after cp g hist k args j = xfunc_denotes (xg_heap g) (xg_mh g) F args j.
Proof.
  intros cp g hist k F args j Hg Hk. unfold xeval_after, xeval_in.
  destruct (xrun_hist_ok cp hist g Hg) as (G & GM & _ & K). rewrite (K _ _ Hk).
  destruct Hg as (Hinv & Hw & Hfs).
  assert (Hf : xfunc_ok (xg_heap g) (xg_mh g) F).
  { rewrite Forall_forall in Hfs. apply Hfs. eapply nth_error_In; eauto. }
  apply (xeval_fn_spec cp (xg_heap g) (xg_mh g) F args j _ _ Hinv Hw Hf G GM).
Qed.

Lemma mixed_eval_history_independent_lemma : forall cp g hist k args j, xgstate_ok g -> k < length (xg_funcs g) ->
  xeval_after cp g hist k args j = xeval_after cp g [] k args j.
Proof.
  intros cp g hist k args j Hg Hk. destruct (nth_error (xg_funcs g) k) as [F|] eqn:E.
  - rewrite (xeval_after_spec cp g hist k F args j Hg E), (xeval_after_spec cp g [] k F args j Hg E). reflexivity.
  - apply nth_error_None in E. lia.
Qed.

Lemma new_xgenerator_ok : xgstate_ok new_xgenerator.
Proof. split; [apply inv_empty|]. split; [apply mwf_empty|constructor]. Qed.

Lemma mixed_reachable_ok_lemma : forall cp hist, xgstate_ok (xrun_hist cp new_xgenerator hist).
Proof. intros. apply (xrun_hist_ok cp hist new_xgenerator new_xgenerator_ok). Qed.

(* the outcome is determined by the entries the constant maps show and the content of the list constants, in whatever
   state of the two heaps the evaluation starts *)
Lemma mixed_outcome_content_only_lemma : forall cp h0 mh0 F args j h mh, inv h0 -> mwf mh0 -> xfunc_ok h0 mh0 F ->
  good h0 h -> mgood mh0 mh ->
  snd (xeval_fn cp h mh F args j) = xfunc_denotes h0 mh0 F args j.
Proof. intros. eapply xeval_fn_spec; eauto. Qed.
