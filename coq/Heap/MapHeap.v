(* C09 - maps are persistent values.  Executable model of listMap/listMap.go and of the map storages of
   value/map.go, as far as persistence is concerned.

   A ListMap is a Go slice of (key, value) entries: a view (array id, len, cap) into a heap of entry arrays.
   ListMap.Append is NOT persistent by itself: it overwrites the value of an existing key in place and
   appends into the spare capacity of the shared backing array (lm_append below follows it branch by
   branch).  The map values of the expression language are persistent because value/map.go only ever
   calls ListMap.Append on a ListMap it has just created (a builder: map literal, map(), accept(),
   replace()'s flattening), and derives put / merge (+) / replace by wrapping the parent's storage
   (AppendMap, MergeMap, ReplaceMap) without touching it. *)
From P2 Require Import Base.Prelude Heap.ListHeap.
Local Open Scope nat_scope.

Definition entry := (str * val)%type.
Definition marrays := list (list entry).
Definition dummy_entry : entry := ([], 0%Z).

Record lm := mkLM { lm_arr : nat; lm_len : nat; lm_cap : nat }.
Definition lm_rd (arrs : marrays) (l : lm) : list entry := firstn (lm_len l) (nth (lm_arr l) arrs []).

(* listMap.New(size) = make(ListMap, 0, size) *)
Definition lm_new (arrs : marrays) (size : nat) : marrays * lm :=
  (arrs ++ [repeat dummy_entry size], mkLM (length arrs) 0 size).

Fixpoint find_key (k : str) (es : list entry) (i : nat) : option nat :=
  match es with
  | [] => None
  | (k', _) :: r => if str_eqb k' k then Some i else find_key k r (S i)
  end.

Definition mwrite (arrs : marrays) (a i : nat) (e : entry) : marrays := set_nth arrs a (set_nth (nth a arrs []) i e).

(* ListMap.Append:  for i, e := range l { if e.key == key { l[i].value = v; return l } }; return append(l, entry) *)
Definition lm_append (arrs : marrays) (l : lm) (k : str) (v : val) (newcap : nat) : marrays * lm :=
  match find_key k (lm_rd arrs l) 0 with
  | Some i => (mwrite arrs (lm_arr l) i (k, v), l)
  | None =>
      if lm_len l <? lm_cap l then (mwrite arrs (lm_arr l) (lm_len l) (k, v), mkLM (lm_arr l) (S (lm_len l)) (lm_cap l))
      else let c := Nat.max newcap (S (lm_len l)) in
           (arrs ++ [lm_rd arrs l ++ (k, v) :: repeat dummy_entry (c - S (lm_len l))], mkLM (length arrs) (S (lm_len l)) c)
  end.

(* a builder: New(size) followed by Append of every entry, the ListMap being used linearly *)
Definition lm_build (arrs : marrays) (size : nat) (es : list entry) : marrays * lm :=
  fold_left (fun st e => lm_append (fst st) (snd st) (fst e) (snd e) 0) es (lm_new arrs size).

(* a builder script with ARBITRARY growth decisions: New(size), then any sequence of Append, each with the capacity
   the runtime chooses should it have to allocate (lm_build is the script in which every choice is minimal) *)
Inductive mbstep := MBAppend (k : str) (v : val) (c : nat).
Arguments MBAppend k v%Z c%nat.

Definition mbstep_run (st : marrays * lm) (b : mbstep) : marrays * lm :=
  match b with MBAppend k v c => lm_append (fst st) (snd st) k v c end.
Definition lm_script (arrs : marrays) (size : nat) (script : list mbstep) : marrays * lm :=
  fold_left mbstep_run script (lm_new arrs size).
Definition script_entries (script : list mbstep) : list entry :=
  map (fun b => match b with MBAppend k v _ => (k, v) end) script.

(* ------------------------------------------------------------------ map storages *)

Inductive mstore :=
| SList (l : lm)                               (* listMap.ListMap: the slice header is held by value *)
| SReal (es : list entry)                      (* RealMap (Go map, never written after creation); iteration order is
                                                  unspecified in Go, so observations are compared sorted by key *)
| SAppend (k : str) (v : val) (p : mstore)     (* AppendMap *)
| SMerge (a b : mstore)                        (* MergeMap *)
| SReplace (o r : mstore) (depth : nat).       (* ReplaceMap *)

Fixpoint mget (arrs : marrays) (m : mstore) (k : str) : option val :=
  match m with
  | SList l => assoc k (lm_rd arrs l)
  | SReal es => assoc k es
  | SAppend k' v p => if str_eqb k k' then Some v else mget arrs p k
  | SMerge a b => match mget arrs a k with Some v => Some v | None => mget arrs b k end
  | SReplace o r _ => match mget arrs r k with Some v => Some v | None => mget arrs o k end
  end.

Fixpoint miter (arrs : marrays) (m : mstore) : list entry :=
  match m with
  | SList l => lm_rd arrs l
  | SReal es => es
  | SAppend k v p => (k, v) :: miter arrs p
  | SMerge a b => miter arrs a ++ miter arrs b
  | SReplace o r _ => map (fun e => match mget arrs r (fst e) with Some v' => (fst e, v') | None => e end) (miter arrs o)
  end.

Fixpoint msize (arrs : marrays) (m : mstore) : nat :=
  match m with
  | SList l => lm_len l
  | SReal es => length es
  | SAppend _ _ p => S (msize arrs p)
  | SMerge a b => msize arrs a + msize arrs b
  | SReplace o _ _ => msize arrs o
  end.

Fixpoint insert_entry (e : entry) (l : list entry) : list entry :=
  match l with
  | [] => [e]
  | f :: r => if str_ltb (fst f) (fst e) then f :: insert_entry e r else e :: l
  end.
Definition sort_entries (l : list entry) : list entry := fold_right insert_entry [] l.

(* THE ABSTRACTION: the entries a map shows when it is iterated, in key order *)
Definition mcontent (arrs : marrays) (m : mstore) : list entry := sort_entries (miter arrs m).

Record mheap := mkMH { mh_arrs : marrays; mh_maps : list mstore }.
Definition empty_mheap : mheap := mkMH [] [].
Definition nmaps (h : mheap) : nat := length (mh_maps h).
Definition get_map (h : mheap) (i : nat) : option mstore := nth_error (mh_maps h) i.

(* ------------------------------------------------------------------ operations of value/map.go *)

Inductive mop :=
| MLit (es : list entry)                 (* map literal: listMap.New(n) + Append per entry; FromMap *)
| MLitN (size : nat) (es : list entry)   (* a library builder: listMap.New(size) + Append per entry, e.g. minMax: New(3)
                                            and five entries - the resulting ListMap may have spare capacity *)
| MPut (a : nat) (k : str) (v : val)     (* put(k, v): AppendMap, error when the key exists *)
| MMerge (a b : nat)                     (* a + b: MergeMap, error when a key of b exists in a *)
| MReplace (a : nat) (k : str) (v : val) (* replace(m->{k:v}) *)
| MMapV (a : nat) (d : Z)                (* map((k,v)->v+d): builder *)
| MAccept (a : nat) (d : Z)              (* accept((k,v)->v<d): builder *)
| MEval (a : nat)                        (* eval(): RealMap *)
| MScript (size : nat) (script : list mbstep).  (* any builder: New(size) + Appends with arbitrary growth *)
Arguments MLitN size%nat es.
Arguments MScript size%nat script.
Arguments MPut a%nat k v%Z.
Arguments MMerge a%nat b%nat.
Arguments MReplace a%nat k v%Z.
Arguments MMapV a%nat d%Z.
Arguments MAccept a%nat d%Z.
Arguments MEval a%nat.

Definition add_map (h : mheap) (arrs : marrays) (m : mstore) : mheap := mkMH arrs (mh_maps h ++ [m]).

Definition depth_of (m : mstore) : nat := match m with SReplace _ _ d => d | _ => 0 end.

Definition has_key (arrs : marrays) (m : mstore) (k : str) : bool :=
  match mget arrs m k with Some _ => true | None => false end.

Definition mstep (h : mheap) (o : mop) : mheap :=
  let arrs := mh_arrs h in
  match o with
  | MLit es => let '(arrs', l) := lm_build arrs (length es) es in add_map h arrs' (SList l)
  | MLitN size es => let '(arrs', l) := lm_build arrs size es in add_map h arrs' (SList l)
  | MScript size script => let '(arrs', l) := lm_script arrs size script in add_map h arrs' (SList l)
  | MPut a k v =>
      match get_map h a with
      | Some m => if has_key arrs m k then h else add_map h arrs (SAppend k v m)
      | None => h
      end
  | MMerge a b =>
      match get_map h a, get_map h b with
      | Some ma, Some mb =>
          if existsb (fun e => has_key arrs ma (fst e)) (miter arrs mb) then h else add_map h arrs (SMerge ma mb)
      | _, _ => h
      end
  | MReplace a k v =>
      match get_map h a with
      | Some m =>
          (* the closure builds the replacement map {k:v} *)
          let '(arrs1, l) := lm_build arrs 1 [(k, v)] in
          let rep := SList l in
          let depth := Nat.max (depth_of m) (depth_of rep) in
          let rm := SReplace m rep (S depth) in
          if 10 <=? depth then
            (* createFlat *)
            let size := msize arrs1 rm in
            if 20 <? size then add_map h arrs1 (SReal (miter arrs1 rm))
            else let '(arrs2, l2) := lm_build arrs1 size (miter arrs1 rm) in add_map h arrs2 (SList l2)
          else add_map h arrs1 rm
      | None => h
      end
  | MMapV a d =>
      match get_map h a with
      | Some m => let '(arrs', l) := lm_build arrs (msize arrs m) (map (fun e => (fst e, (snd e + d)%Z)) (miter arrs m)) in
                  add_map h arrs' (SList l)
      | None => h
      end
  | MAccept a d =>
      match get_map h a with
      | Some m => let '(arrs', l) := lm_build arrs (msize arrs m) (filter (fun e => Z.ltb (snd e) d) (miter arrs m)) in
                  add_map h arrs' (SList l)
      | None => h
      end
  | MEval a =>
      match get_map h a with
      | Some m => add_map h arrs (SReal (miter arrs m))
      | None => h
      end
  end.

Definition mrun (ops : list mop) : mheap := fold_left mstep ops empty_mheap.

(* every ListMap leaf of a storage lives in an existing array *)
Fixpoint store_ok (n : nat) (m : mstore) : Prop :=
  match m with
  | SList l => lm_arr l < n
  | SReal _ => True
  | SAppend _ _ p => store_ok n p
  | SMerge a b => store_ok n a /\ store_ok n b
  | SReplace o r _ => store_ok n o /\ store_ok n r
  end.
Definition mwf (h : mheap) : Prop := forall i m, get_map h i = Some m -> store_ok (length (mh_arrs h)) m.

(* ------------------------------------------------------------------ specification side *)

Definition mpstate := list (list entry).       (* handle -> entries in key order, bound once *)

Fixpoint pl_put (es : list entry) (k : str) (v : val) : list entry :=
  match es with
  | [] => [(k, v)]
  | (k', v') :: r => if str_eqb k' k then (k', v) :: r else (k', v') :: pl_put r k v
  end.
Definition pl_build (es : list entry) : list entry := fold_left (fun acc e => pl_put acc (fst e) (snd e)) es [].

Definition phas (es : list entry) (k : str) : bool := match assoc k es with Some _ => true | None => false end.

Definition mpstep (ps : mpstate) (o : mop) : mpstate :=
  let get a := nth a ps [] in
  let have a := a <? length ps in
  match o with
  | MLit es => ps ++ [sort_entries (pl_build es)]
  | MLitN _ es => ps ++ [sort_entries (pl_build es)]
  | MScript _ script => ps ++ [sort_entries (pl_build (script_entries script))]
  | MPut a k v => if have a && negb (phas (get a) k) then ps ++ [sort_entries ((k, v) :: get a)] else ps
  | MMerge a b => if have a && have b && negb (existsb (fun e => phas (get a) (fst e)) (get b))
                  then ps ++ [sort_entries (get a ++ get b)] else ps
  | MReplace a k v => if have a then ps ++ [map (fun e => if str_eqb (fst e) k then (fst e, v) else e) (get a)] else ps
  | MMapV a d => if have a then ps ++ [map (fun e => (fst e, (snd e + d)%Z)) (get a)] else ps
  | MAccept a d => if have a then ps ++ [filter (fun e => Z.ltb (snd e) d) (get a)] else ps
  | MEval a => if have a then ps ++ [get a] else ps
  end.
