(* C11 - several evaluations of generated functions running at the same time on one heap of list objects.

   An evaluation is a script (Heap/FuncState.v): a sequence of heap steps.  Concurrent evaluation is an
   interleaving of the steps of several scripts under an explicit schedule (a list of thread numbers), so
   "for every schedule" is a forall.  Each thread's stack and the objects it allocates are private by
   construction: a handle to a new object is only ever handed to the continuation of the thread that created it
   (funcGen/generator.go Func.Eval: NewEmptyStack per evaluation; value/list.go: every method returns a new *List).

   The WRITE LOG of a step is computed, not declared: the shared locations (list objects < n0: their
   items/itemsPresent/iterable fields; cells of arrays < a0) whose value after the step differs from the value
   before.  Every other access of a step to a shared location is a read.

   Steps are atomic in this model.  For the Go code that is true of steps that only READ shared state (reads of
   immutable data commute) and of writes to private objects; it is NOT true of List.Eval and List.Append writing
   to a shared object (value/list.go: several unsynchronised field writes) - which is why the theorems about
   all interleavings are stated on a frozen heap, where no step writes shared state, and why the micro-step
   model racy_append at the end of the file exists. *)
From P2 Require Import Base.Prelude Heap.ListHeap Heap.FuncState.
Local Open Scope nat_scope.

(* ------------------------------------------------------------------ interleaving *)

Definition step_thread {R} (h : heap) (s : script R) : heap * script R :=
  match s with Done r => (h, Done r) | Do f => f h end.

(* run the threads under a schedule: thread i takes one step whenever i comes up *)
Fixpoint run_sched {R} (h : heap) (ts : list (script R)) (sched : list nat) : heap * list (script R) :=
  match sched with
  | [] => (h, ts)
  | i :: r =>
      match nth_error ts i with
      | None => run_sched h ts r
      | Some s => let (h', s') := step_thread h s in run_sched h' (set_nth ts i s') r
      end
  end.

Definition result_of {R} (s : script R) : option R := match s with Done r => Some r | Do _ => None end.

(* ------------------------------------------------------------------ write log *)

Inductive loc := LObj (o : nat) | LCell (a i : nat).

Definition slice_eqb (s t : slice) : bool :=
  (s_arr s =? s_arr t) && (s_off s =? s_off t) && (s_len s =? s_len t) && (s_cap s =? s_cap t).

Definition producer_eqb (p q : producer) : bool :=
  match p, q with
  | PSlice a o n, PSlice a' o' n' => (a =? a') && (o =? o') && (n =? n')
  | PNumbers n, PNumbers n' => n =? n'
  | PConcat a b, PConcat a' b' => (a =? a') && (b =? b')
  | PMap k a, PMap k' a' => Z.eqb k k' && (a =? a')
  | PAccept k a, PAccept k' a' => Z.eqb k k' && (a =? a')
  | PTop n a, PTop n' a' => (n =? n') && (a =? a')
  | PSkip n a, PSkip n' a' => (n =? n') && (a =? a')
  | PGuard v a, PGuard v' a' => Z.eqb v v' && (a =? a')
  | PStage st a b, PStage st' a' b' => stage_eqb st st' && (a =? a') && (b =? b')
  | _, _ => false
  end.

Definition lobj_eqb (x y : lobj) : bool :=
  slice_eqb (o_items x) (o_items y) && Bool.eqb (o_present x) (o_present y) && producer_eqb (o_iter x) (o_iter y).

Definition obj_writes (n0 : nat) (h h' : heap) : list loc :=
  flat_map (fun o => match nth_error (h_objs h) o, nth_error (h_objs h') o with
                     | Some x, Some y => if lobj_eqb x y then [] else [LObj o]
                     | None, None => []
                     | _, _ => [LObj o]
                     end) (seq 0 n0).

Definition cell_writes (a0 : nat) (h h' : heap) : list loc :=
  flat_map (fun a =>
     let old := nth a (h_arrs h) [] in
     let new := nth a (h_arrs h') [] in
     flat_map (fun i => if Z.eqb (nth i old 0%Z) (nth i new 0%Z) then [] else [LCell a i]) (seq 0 (length old)))
     (seq 0 a0).

Definition writes (n0 a0 : nat) (h h' : heap) : list loc := obj_writes n0 h h' ++ cell_writes a0 h h'.

(* the write log of a whole interleaved run: (thread, shared locations written by that step) *)
Fixpoint sched_log {R} (n0 a0 : nat) (h : heap) (ts : list (script R)) (sched : list nat) : list (nat * list loc) :=
  match sched with
  | [] => []
  | i :: r =>
      match nth_error ts i with
      | None => sched_log n0 a0 h ts r
      | Some s => let (h', s') := step_thread h s in (i, writes n0 a0 h h') :: sched_log n0 a0 h' (set_nth ts i s') r
      end
  end.

(* the write log of one script run alone *)
Fixpoint iso_log {R} (n0 a0 : nat) (fuel : nat) (h : heap) (s : script R) : list (list loc) :=
  match fuel with
  | O => []
  | S f => match s with
           | Done _ => []
           | Do g => let (h', s') := g h in writes n0 a0 h h' :: iso_log n0 a0 f h' s'
           end
  end.

Definition loc_eqb (x y : loc) : bool :=
  match x, y with
  | LObj a, LObj b => a =? b
  | LCell a i, LCell b j => (a =? b) && (i =? j)
  | _, _ => false
  end.

(* two threads conflict when both write the same shared location (the second thread's accesses to that
   location are unordered with respect to the first thread's write) *)
Definition common_writes (l1 l2 : list loc) : list loc := filter (fun x => existsb (loc_eqb x) l2) l1.

(* ------------------------------------------------------------------ the shared state of a generated function *)

(* evaluate function F with each argument tuple of argss as a thread of its own *)
Definition eval_threads (cp : caps) (F : func) (argss : list (list Z)) (j : nat) : list (script outcome) :=
  map (fun args => sc_eval cp F args j) argss.

(* does any of these evaluations, run alone on h, write a shared location?  (the model's prediction
   "this program has a non-frozen constant that the evaluation touches") *)
Definition writes_shared (cp : caps) (h : heap) (F : func) (args : list Z) (j : nat) : list loc :=
  concat (iso_log (nobjs h) (length (h_arrs h)) 2000 h (sc_eval cp F args j)).

(* ------------------------------------------------------------------ the code as it is: List.Append is not atomic *)

(* value/list.go List.Append on a materialised receiver, as three separate memory accesses:
     R   s := l.items                         read the slice header
     W1  append(s, x)                         len < cap: write cell off+len of the shared array
     W2  l.items = s[:len:len]                cap the receiver
   Two goroutines that both perform R before either performs W2 write the same cell. *)
Definition racy_append_pair (h : heap) (a : nat) (x y : Z) : list Z * list Z :=
  match get_obj h a with
  | None => ([], [])
  | Some ob =>
      let s := o_items ob in                                   (* R by both *)
      if s_len s <? s_cap s then
        let arrs1 := write (h_arrs h) (s_arr s) (s_off s + s_len s) x in    (* W1 by the first *)
        let arrs2 := write arrs1 (s_arr s) (s_off s + s_len s) y in         (* W1 by the second *)
        let r := mkS (s_arr s) (s_off s) (S (s_len s)) (s_cap s) in          (* both new lists alias the cell *)
        (rd_slice arrs2 r, rd_slice arrs2 r)
      else (rd_slice (h_arrs h) s ++ [x], rd_slice (h_arrs h) s ++ [y])
  end.

(* ------------------------------------------------------------------ a constant that is a CLOSURE with a captured cell *)

(* Pure built-ins that return closures (createLowPass, createInterpolation, linearReg) are folded at Generate time:
   the Go closure and everything it captured is a constant shared by all evaluations.  As the code is, they
   capture immutable data only (frozen, in the sense of the theorems).  The shape that breaks C11 is a captured
   MUTABLE cell - e.g. an "interval of the previous call" hint in an interpolation closure:
       check   if x is not in interval *last then *last = search(x)
       use     interpolate with points[*last], points[*last+1]
   Two evaluations sharing the cell: A checks, B checks (stores its interval), A uses B's interval. *)
Definition find_interval (xs : list Z) (x : Z) : nat := length (filter (fun p => Z.leb p x) xs) - 1.
Definition in_interval (xs : list Z) (i : nat) (x : Z) : bool := Z.leb (nth i xs 0%Z) x && Z.ltb x (nth (S i) xs 0%Z).
Definition hint_check (xs : list Z) (x : Z) (last : nat) : nat := if in_interval xs last x then last else find_interval xs x.
Definition hint_use (ys : list Z) (last : nat) : Z := nth last ys 0%Z.       (* the value of the interval's left end *)

(* isolated: check, then use *)
Definition lookup_isolated (xs ys : list Z) (x : Z) (last : nat) : Z := hint_use ys (hint_check xs x last).
(* schedule  A.check ; B.check ; A.use  on the shared cell *)
Definition lookup_interleaved (xs ys : list Z) (xa xb : Z) (last : nat) : Z :=
  let l1 := hint_check xs xa last in let l2 := hint_check xs xb l1 in hint_use ys l2.
