(* The map fragment of C10 / C11: an evaluation's outcome is a function of what its constant maps SHOW (get, iteration,
   size), and MapHeap's persistence (C09: every operation keeps what existing maps show) makes it independent of
   anything that happened on the map heap in between. *)
From P2 Require Import Base.Prelude Heap.ListHeap Heap.MapHeap Heap.MapHeapProofs Heap.FuncState Heap.MapState.
Require Import Lia.
Local Open Scope nat_scope.

Lemma has_key_kept : forall n arrs arrs' m k, keeps n arrs arrs' -> store_ok n m -> has_key arrs' m k = has_key arrs m k.
Proof. intros n arrs arrs' m k K O. unfold has_key. destruct (store_reads_kept n arrs arrs' m K O) as (G & _). rewrite G. reflexivity. Qed.

Lemma existsb_ext_all : forall A (f g : A -> bool) l, (forall x, f x = g x) -> existsb f l = existsb g l.
Proof. intros A f g l H. induction l as [|x l IH]; cbn; auto. rewrite H, IH. reflexivity. Qed.

(* map-valued expressions build the SAME storage tree whatever happened to the entry arrays in between, and that
   tree only refers to arrays that existed when the constants were created *)
Lemma ev_m_kept : forall n arrs arrs' cs args e, keeps n arrs arrs' -> Forall (store_ok n) cs ->
  ev_m arrs' cs args e = ev_m arrs cs args e /\ forall s, ev_m arrs cs args e = Some s -> store_ok n s.
Proof.
  intros n arrs arrs' cs args e K F. induction e as [i|m IH k v|a IHa b IHb]; cbn [ev_m].
  - split; auto. intros s Hs. rewrite Forall_forall in F. apply F. eapply nth_error_In; eauto.
  - destruct IH as [E O]. rewrite E. destruct (ev_m arrs cs args m) as [s|]; [|split; [auto|intros; discriminate]].
    rewrite (has_key_kept n arrs arrs' s k K (O s eq_refl)).
    destruct (has_key arrs s k); (split; [reflexivity|]); intros s' Hs; try discriminate Hs. inversion Hs. cbn. apply O. reflexivity.
  - destruct IHa as [Ea Oa], IHb as [Eb Ob]. rewrite Ea, Eb.
    destruct (ev_m arrs cs args a) as [sa|]; [|split; [auto|intros; discriminate]].
    destruct (ev_m arrs cs args b) as [sb|]; [|split; [auto|intros; discriminate]].
    destruct (store_reads_kept n arrs arrs' sb K (Ob sb eq_refl)) as (_ & I & _). rewrite I.
    assert (X : existsb (fun e => has_key arrs' sa (fst e)) (miter arrs sb) = existsb (fun e => has_key arrs sa (fst e)) (miter arrs sb)).
    { apply existsb_ext_all. intros e. apply (has_key_kept n arrs arrs' sa (fst e) K (Oa sa eq_refl)). }
    rewrite X. destruct (existsb (fun e => has_key arrs sa (fst e)) (miter arrs sb)); (split; [reflexivity|]); intros s' Hs; try discriminate Hs.
    inversion Hs. cbn. split; [apply Oa|apply Ob]; reflexivity.
Qed.

Lemma ev_mz_kept : forall n arrs arrs' cs args e, keeps n arrs arrs' -> Forall (store_ok n) cs ->
  ev_mz arrs' cs args e = ev_mz arrs cs args e.
Proof.
  intros n arrs arrs' cs args e K F. induction e as [s|m k|m|a IHa b IHb|a IHa b IHb]; cbn [ev_mz]; auto.
  - destruct (ev_m_kept n arrs arrs' cs args m K F) as [E O]. rewrite E. destruct (ev_m arrs cs args m) as [s|]; auto.
    destruct (store_reads_kept n arrs arrs' s K (O s eq_refl)) as (G & _). apply G.
  - destruct (ev_m_kept n arrs arrs' cs args m K F) as [E O]. rewrite E. destruct (ev_m arrs cs args m) as [s|]; auto.
    destruct (store_reads_kept n arrs arrs' s K (O s eq_refl)) as (_ & _ & S). rewrite S. reflexivity.
  - rewrite IHa, IHb. reflexivity.
  - rewrite IHa, IHb. reflexivity.
Qed.

Definition consts_of (h : mheap) (cs : list mstore) : Prop := forall s, In s cs -> exists i, get_map h i = Some s.

(* all histories of map operations (evaluations of other functions, Generate calls folding map constants, ...):
   the outcome of an evaluation is the outcome with no history *)
Lemma map_eval_history_independent_lemma : forall h ops cs args b, mwf h -> consts_of h cs ->
  meval_on (fold_left mstep ops h) cs args b = meval_on h cs args b.
Proof.
  intros h ops cs args b W C. unfold meval_on. destruct (mrun_from_good ops h W) as (_ & K & _).
  apply (ev_mz_kept (length (mh_arrs h))); auto.
  rewrite Forall_forall. intros s Hs. destruct (C s Hs) as [i Hi]. apply (W i s Hi).
Qed.

(* the heap Generate leaves: well-formed, and the function's constants are maps of it *)
Lemma mgen_defs_wf : forall ds h h', mwf h -> mgen_defs h ds = Some h' -> mwf h' /\ mgood h h'.
Proof.
  induction ds as [|d r IH]; intros h h' W G; cbn in G.
  - inversion G. subst. split; auto. apply mgood_refl. auto.
  - destruct (nmaps (mstep h d) =? S (nmaps h)); [|discriminate].
    pose proof (mstep_good h d W) as G1. destruct G1 as (W1 & K1 & M1).
    destruct (IH _ _ W1 G) as [W2 G2]. split; auto. eapply mgood_trans; [split; [exact W1|split; [exact K1|exact M1]]|exact G2].
Qed.

Lemma generated_maps_ok : forall p h, mgenerate p = Some h -> mwf h /\ consts_of h (mh_maps h).
Proof.
  intros p h G. destruct (mgen_defs_wf _ _ _ mwf_empty G) as [W _]. split; auto.
  intros s Hs. destruct (In_nth_error _ _ Hs) as [i Hi]. exists i. exact Hi.
Qed.

(* Generate(p), any history on the generator's map heap, Eval(args) = Eval(args) right after Generate *)
Lemma map_generated_history_independent_lemma : forall p h ops args, mgenerate p = Some h ->
  meval_on (fold_left mstep ops h) (mh_maps h) args (mp_body p) = meval_on h (mh_maps h) args (mp_body p).
Proof. intros p h ops args G. destruct (generated_maps_ok p h G) as [W C]. apply map_eval_history_independent_lemma; auto. Qed.
