(* Proofs about Heap/Concurrent.v: under EVERY schedule the threads of an interleaved run keep the property
   `yields` (Heap/FuncStateProofs.v): each takes only good steps, so each ends with the outcome it would have
   alone; on a frozen heap no step writes a shared location (the write log stays empty) and the heap stays frozen. *)
From P2 Require Import Base.Prelude Heap.ListHeap Heap.ListHeapProofs Heap.FuncState Heap.FuncStateProofs Heap.Concurrent.
Require Import Lia.
Local Open Scope nat_scope.

(* ------------------------------------------------------------------ the write log of a step that leaves the shared part alone *)

Lemma flat_map_nil : forall A B (f : A -> list B) l, (forall x, In x l -> f x = []) -> flat_map f l = [].
Proof.
  induction l as [|x l IH]; intros H; cbn; auto. rewrite (H x (or_introl eq_refl)). apply IH. intros; apply H; right; auto.
Qed.

Lemma slice_eqb_refl : forall s, slice_eqb s s = true.
Proof. intros. unfold slice_eqb. rewrite !Nat.eqb_refl. reflexivity. Qed.

Lemma producer_eqb_refl : forall p, producer_eqb p p = true.
Proof. destruct p; cbn; rewrite ?Nat.eqb_refl, ?Z.eqb_refl; try reflexivity. destruct st; reflexivity. Qed.

Lemma lobj_eqb_refl : forall x, lobj_eqb x x = true.
Proof. intros. unfold lobj_eqb. rewrite slice_eqb_refl, producer_eqb_refl, Bool.eqb_reflx. reflexivity. Qed.

Lemma nth_firstn_lt : forall A (l : list A) n i d, i < n -> nth i (firstn n l) d = nth i l d.
Proof. induction l as [|y l IH]; intros [|n] [|i] d H; cbn; auto; try lia. apply IH. lia. Qed.

Lemma shared_same_no_writes : forall n0 a0 h h', shared_same n0 a0 h h' -> writes n0 a0 h h' = [].
Proof.
  intros n0 a0 h h' [Ho Ha]. unfold writes, obj_writes, cell_writes.
  rewrite !flat_map_nil; auto.
  - intros a Hin. apply in_seq in Hin.
    assert (E : nth a (h_arrs h') [] = nth a (h_arrs h) []).
    { rewrite <- (nth_firstn_lt _ (h_arrs h') a0 a [] ) by lia. rewrite Ha. apply nth_firstn_lt. lia. }
    rewrite E. apply flat_map_nil. intros i _. rewrite Z.eqb_refl. reflexivity.
  - intros o Hin. apply in_seq in Hin.
    assert (E : nth_error (h_objs h') o = nth_error (h_objs h) o).
    { rewrite <- (nth_error_firstn_lt _ (h_objs h') n0 o) by lia. rewrite Ho. apply nth_error_firstn_lt. lia. }
    rewrite E. destruct (nth_error (h_objs h) o); auto. rewrite lobj_eqb_refl. reflexivity.
Qed.

(* ------------------------------------------------------------------ every schedule *)

(* thread s, resumed in any heap reachable from h by good steps, yields o *)
Definition thr_ok (n0 a0 : nat) {R} (h : heap) (s : script R) (o : R) : Prop :=
  forall h2, gstep n0 a0 h h2 -> yields n0 a0 (fun r _ => r = o) s h2.

Lemma Forall2_set_nth : forall A B (P : A -> B -> Prop) l l' i x y,
  Forall2 P l l' -> nth_error l' i = Some y -> P x y -> Forall2 P (set_nth l i x) l'.
Proof.
  intros A B P l l' i x y F. revert i. induction F as [|a b l l' Hab F IH]; intros [|i] Hn Hp; cbn in *; try discriminate.
  - inversion Hn. subst. constructor; auto.
  - constructor; auto.
Qed.

Lemma Forall2_nth_error : forall A B (P : A -> B -> Prop) l l' i x,
  Forall2 P l l' -> nth_error l i = Some x -> exists y, nth_error l' i = Some y /\ P x y.
Proof.
  intros A B P l l' i x F. revert i. induction F as [|a b l l' Hab F IH]; intros [|i] Hn; cbn in *; try discriminate.
  - inversion Hn. subst. eauto.
  - apply IH. auto.
Qed.

Lemma yields_do_inv : forall n0 a0 R (Q : R -> heap -> Prop) f h, yields n0 a0 Q (Do f) h ->
  gstep n0 a0 h (fst (f h)) /\ forall h2, gstep n0 a0 (fst (f h)) h2 -> yields n0 a0 Q (snd (f h)) h2.
Proof. intros n0 a0 R Q f h Y. inversion Y; subst. split; assumption. Qed.

Lemma yields_done_inv : forall n0 a0 R (Q : R -> heap -> Prop) r h, yields n0 a0 Q (Done r) h -> Q r h.
Proof. intros n0 a0 R Q r h Y. inversion Y; subst. assumption. Qed.

Lemma thr_ok_mono : forall n0 a0 R h h' (s : script R) o, gstep n0 a0 h h' -> thr_ok n0 a0 h s o -> thr_ok n0 a0 h' s o.
Proof. intros n0 a0 R h h' s o G T h2 G2. apply T. eapply gstep_trans; eauto. Qed.

(* one step of one thread *)
Lemma step_thread_ok : forall n0 a0 R h (s : script R) o, inv h -> thr_ok n0 a0 h s o ->
  gstep n0 a0 h (fst (step_thread h s)) /\ thr_ok n0 a0 (fst (step_thread h s)) (snd (step_thread h s)) o.
Proof.
  intros n0 a0 R h s o Hinv T. pose proof (T h (gstep_refl n0 a0 h Hinv)) as Y. destruct s as [r|f]; cbn [step_thread fst snd].
  - split; [apply gstep_refl; auto|exact T].
  - destruct (yields_do_inv _ _ _ _ _ _ Y) as [G K]. destruct (f h) as [h' s']. cbn [fst snd] in *. split; auto.
Qed.

Lemma sched_invariant : forall n0 a0 R sched h (ts : list (script R)) outs, inv h ->
  Forall2 (thr_ok n0 a0 h) ts outs ->
  gstep n0 a0 h (fst (run_sched h ts sched)) /\
  Forall2 (thr_ok n0 a0 (fst (run_sched h ts sched))) (snd (run_sched h ts sched)) outs /\
  (fz n0 a0 h -> Forall (fun e => snd e = []) (sched_log n0 a0 h ts sched)).
Proof.
  intros n0 a0 R sched. induction sched as [|i sched IH]; intros h ts outs Hinv F; cbn [run_sched sched_log].
  - split; [apply gstep_refl; auto|]. split; [exact F|]. intros; constructor.
  - destruct (nth_error ts i) as [s|] eqn:Es; [|apply IH; auto].
    destruct (Forall2_nth_error _ _ _ _ _ _ _ F Es) as (o & Eo & T).
    destruct (step_thread_ok n0 a0 R h s o Hinv T) as [G T'].
    destruct (step_thread h s) as [h' s'] eqn:Est. cbn [fst snd] in *.
    assert (F' : Forall2 (thr_ok n0 a0 h') (set_nth ts i s') outs).
    { eapply Forall2_set_nth; [|exact Eo|exact T'].
      clear -F G. induction F; constructor; auto. eapply thr_ok_mono; eauto. }
    destruct (IH h' (set_nth ts i s') outs (gstep_inv _ _ _ _ G) F') as (G2 & F2 & L2).
    split; [eapply gstep_trans; eauto|]. split; [exact F2|].
    intros Hfz. destruct G as [_ Hp]. destruct (Hp Hfz) as [Hs Hfz'].
    constructor; [cbn; apply shared_same_no_writes; exact Hs|apply L2; exact Hfz'].
Qed.

(* ------------------------------------------------------------------ evaluations of generated functions *)

Record call := mkCall { c_fun : func; c_args : list Z; c_j : nat }.

Definition call_script (cp : caps) (c : call) : script outcome := sc_eval cp (c_fun c) (c_args c) (c_j c).
Definition call_spec (h : heap) (c : call) : outcome := sp_body (func_senv h (c_fun c) (c_args c)) (f_body (c_fun c)) (c_j c).

Lemma calls_thr_ok : forall n0 a0 cp h calls, inv h -> Forall (fun c => func_ok h (c_fun c)) calls ->
  Forall2 (thr_ok n0 a0 h) (map (call_script cp) calls) (map (call_spec h) calls).
Proof.
  intros n0 a0 cp h calls Hinv Hf. induction Hf as [|c l Hc Hf IH]; cbn; constructor; auto.
  intros h2 G. apply eval_yields; auto.
Qed.

Lemma whole_heap_fz : forall h, frozen (nobjs h) h -> fz (nobjs h) (length (h_arrs h)) h.
Proof.
  intros h Fr. split; [exact Fr|]. split; [lia|]. split; [lia|].
  intros o ob Ho Hg _. pose proof (get_obj_lt _ _ _ Hg). lia.
Qed.

Lemma frozenb_sound : forall n0 h, n0 <= nobjs h -> frozenb n0 h = true -> frozen n0 h.
Proof.
  intros n0 h Hn Hb o ob Ho Hg. unfold frozenb in Hb. rewrite forallb_forall in Hb.
  assert (Hin : In ob (firstn n0 (h_objs h))).
  { unfold get_obj in Hg. rewrite <- (nth_error_firstn_lt _ (h_objs h) n0 o Ho) in Hg. eapply nth_error_In; eauto. }
  specialize (Hb ob Hin). apply andb_true_iff in Hb. destruct Hb as [Hp Hc]. apply Nat.eqb_eq in Hc. auto.
Qed.

(* ALL schedules, any number of threads, any invariant-satisfying heap, ATOMIC steps: every thread that has
   finished shows the specification's outcome for its own call = the outcome of its isolated evaluation *)
Lemma concurrent_equals_isolated_lemma : forall cp h calls sched i r, inv h ->
  Forall (fun c => func_ok h (c_fun c)) calls ->
  nth_error (snd (run_sched h (map (call_script cp) calls) sched)) i = Some (Done r) ->
  exists c, nth_error calls i = Some c /\ r = call_spec h c /\ r = snd (run_iso h (call_script cp c)).
Proof.
  intros cp h calls sched i r Hinv Hf Hn.
  destruct (sched_invariant 0 0 _ sched h _ _ Hinv (calls_thr_ok 0 0 cp h calls Hinv Hf)) as (G & F & _).
  destruct (Forall2_nth_error _ _ _ _ _ _ _ F Hn) as (o & Eo & T).
  pose proof (yields_done_inv _ _ _ _ _ _ (T _ (gstep_refl 0 0 _ (gstep_inv _ _ _ _ G)))) as Hr. cbn in Hr.
  destruct (nth_error calls i) as [c|] eqn:Ec.
  - rewrite (map_nth_error _ _ _ Ec) in Eo. inversion Eo. subst o. exists c. split; auto. split; auto.
    assert (Hfc : func_ok h (c_fun c)) by (rewrite Forall_forall in Hf; apply Hf; eapply nth_error_In; eauto).
    destruct (eval_run_iso 0 0 cp h (c_fun c) (c_args c) (c_j c) Hinv Hfc h (gstep_refl 0 0 h Hinv)) as [E _].
    unfold call_script. rewrite E. symmetry. exact H0.
  - apply nth_error_None in Ec. assert (nth_error (map (call_spec h) calls) i = None) by (apply nth_error_None; rewrite map_length; auto). congruence.
Qed.

(* on a FROZEN heap, under all schedules: no step of any thread writes a shared location (every entry of the
   write log is empty: all accesses to shared objects and arrays are reads, all writes go to objects and
   arrays allocated during the run), the shared part is identical afterwards and the heap is still frozen *)
Lemma frozen_readonly_lemma : forall cp h calls sched, inv h ->
  Forall (fun c => func_ok h (c_fun c)) calls -> frozen (nobjs h) h ->
  let n0 := nobjs h in let a0 := length (h_arrs h) in
  let ts := map (call_script cp) calls in
  Forall (fun e => snd e = []) (sched_log n0 a0 h ts sched) /\
  shared_same n0 a0 h (fst (run_sched h ts sched)) /\
  frozen n0 (fst (run_sched h ts sched)).
Proof.
  intros cp h calls sched Hinv Hf Fr n0 a0 ts.
  destruct (sched_invariant n0 a0 _ sched h _ _ Hinv (calls_thr_ok n0 a0 cp h calls Hinv Hf)) as ([_ Hp] & _ & L).
  pose proof (whole_heap_fz h Fr) as Hfz. destruct (Hp Hfz) as [Hs [Fr' _]].
  split; [apply L; exact Hfz|]. split; auto.
Qed.

(* Generate on a new generator leaves a heap that satisfies the hypotheses of the lemmas above *)
Lemma generated_heap_ok : forall cp p,
  inv (fst (run_iso empty_heap (sc_generate cp p))) /\
  forall F, snd (run_iso empty_heap (sc_generate cp p)) = Some F -> func_ok (fst (run_iso empty_heap (sc_generate cp p))) F.
Proof.
  intros cp p.
  destruct (yields_run_iso 0 0 _ _ _ _ (generate_yields 0 0 cp p empty_heap inv_empty) inv_empty) as [G Hq].
  split; [eapply gstep_inv; eauto|]. intros F E. rewrite E in Hq. unfold generated_ok in Hq.
  destruct (sp_defs (p_defs p) [] []) as [[cv zs]|]; [|contradiction].
  destruct Hq as (_ & _ & Hq). eapply forall2_func_ok; eauto.
Qed.

(* ------------------------------------------------------------------ what does not hold at this commit *)

Definition cp2 : caps := mkCaps (fun n => 2 * n) (fun n => 2 * n).

(* let c0=[1,2,3]; let c1=c0.map(e->e+1); c1[a0]+c1.append(a0).size() *)
Definition lazy_prog : prog :=
  mkP [DL (LLit [1; 2; 3]%Z); DL (LMap (SLit 1) (LConst 0))]
      (BZ (ZAdd (ZIndex (LConst 1) (ZS (SArg 0))) (ZSize (LAppend (LConst 1) (ZS (SArg 0)))))).

(* let c0=[1,2]; let c1=c0.append(3); c1.append(a0) *)
Definition spare_prog : prog :=
  mkP [DL (LLit [1; 2]%Z); DL (LAppend (LConst 0) (ZS (SLit 3)))] (BL (LAppend (LConst 1) (ZS (SArg 0)))).

(* constant folding leaves a constant that is not frozen, and the first evaluation WRITES it *)
Lemma frozen_value_refuted_lemma : exists cp p args j F,
  snd (run_iso empty_heap (sc_generate cp p)) = Some F /\
  let h := fst (run_iso empty_heap (sc_generate cp p)) in
  frozenb (nobjs h) h = false /\ writes_shared cp h F args j <> [].
Proof.
  exists cp2, lazy_prog, [0%Z], 0. eexists. split; [vm_compute; reflexivity|].
  vm_compute. split; [reflexivity|discriminate].
Qed.

(* two evaluations that both start before either has finished write the same shared locations: the cell behind
   the constant's last element and the constant's own slice header *)
Lemma two_evals_conflict_refuted_lemma : exists cp p args1 args2 j F,
  snd (run_iso empty_heap (sc_generate cp p)) = Some F /\
  let h := fst (run_iso empty_heap (sc_generate cp p)) in
  common_writes (writes_shared cp h F args1 j) (writes_shared cp h F args2 j) = [LObj 1; LCell 1 3].
Proof.
  exists cp2, spare_prog, [7%Z], [8%Z], 0. eexists. split; [vm_compute; reflexivity|]. vm_compute. reflexivity.
Qed.

Lemma two_lazy_evals_conflict_refuted_lemma : exists cp p args1 args2 j F,
  snd (run_iso empty_heap (sc_generate cp p)) = Some F /\
  let h := fst (run_iso empty_heap (sc_generate cp p)) in
  In (LObj 1) (common_writes (writes_shared cp h F args1 j) (writes_shared cp h F args2 j)).
Proof.
  exists cp2, lazy_prog, [0%Z], [1%Z], 0. eexists. split; [vm_compute; reflexivity|]. vm_compute. left. reflexivity.
Qed.

(* List.Append as it is (three unsynchronised accesses): the first goroutine's result shows the second one's element *)
Lemma lost_update_refuted_lemma : exists ops a x y, let h := run ops in
  inv h /\ a < nobjs h /\
  fst (racy_append_pair h a x y) <> icontent h a ++ [x] /\
  fst (racy_append_pair h a x y) = icontent h a ++ [y].
Proof.
  exists [OLit [1; 2]%Z 0; OAppend 0 3 0 4], 1, 7%Z, 8%Z. cbv zeta. split; [apply run_inv|].
  vm_compute. split; [lia|]. split; [discriminate|reflexivity].
Qed.

(* ---- the statements of Props/C11.v that are projections of the lemmas above *)
Lemma frozen_is_preserved_lemma : forall cp h calls sched, inv h ->
  Forall (fun c => func_ok h (c_fun c)) calls -> frozen (nobjs h) h ->
  frozen (nobjs h) (fst (run_sched h (map (call_script cp) calls) sched)).
Proof. intros cp h calls sched Hi Hf Fr. apply (frozen_readonly_lemma cp h calls sched Hi Hf Fr). Qed.

Lemma concurrent_equals_isolated_partial_lemma : forall cp h calls sched i r, inv h ->
  Forall (fun c => func_ok h (c_fun c)) calls -> frozen (nobjs h) h ->
  nth_error (snd (run_sched h (map (call_script cp) calls) sched)) i = Some (Done r) ->
  exists c, nth_error calls i = Some c /\ r = call_spec h c /\ r = snd (run_iso h (call_script cp c)).
Proof. intros cp h calls sched i r Hi Hf _ Hn. eapply concurrent_equals_isolated_lemma; eauto. Qed.

(* the hint is validated before use, so alone the closure is a function of x whatever the cell held ... *)
Lemma hint_isolated_independent_example :
  forallb (fun last => Z.eqb (lookup_isolated [0; 10; 20; 30]%Z [0; 100; 400; 900]%Z 25 last) 400) [0; 1; 2] = true.
Proof. vm_compute. reflexivity. Qed.

(* ... but two evaluations sharing the cell: A (x = 25, interval 2) gets B's interval (x = 5, interval 0) *)
Lemma constant_with_state_lemma : exists xs ys xa xb last,
  lookup_isolated xs ys xa last = 400%Z /\ lookup_interleaved xs ys xa xb last = 0%Z.
Proof. exists [0; 10; 20; 30]%Z, [0; 100; 400; 900]%Z, 25%Z, 5%Z, 0. split; vm_compute; reflexivity. Qed.
