(* C10, the stack leg: whatever earlier activity left on a stack storage (garbage above and below the frame) is
   irrelevant to an evaluation.  Func.Eval in fact allocates a fresh storage per evaluation
   (funcGen/generator.go: NewEmptyStack().Init(args...)); the optimizer's scratch stack (funcGen.New) is a
   storage of its own.  This lemma shows that even an evaluation started on a storage full of residue gives
   the outcome of the reference semantics - which has no stack at all.  Instance of C01's simulation theorem. *)
From P2 Require Import Base.Prelude Sem.Num Sem.Syntax Sem.Ops Sem.Lib Sem.Ref Sem.Gen Sem.Sim
     Sem.RelProofs Sem.OpsProofs Sem.LibProofs Sem.GenProofs.

Lemma fo_all_vrel : forall args, forallb fo args = true -> Forall2 vrel args args.
Proof.
  induction args as [|v args IH]; simpl; intros Hf; auto.
  apply andb_true_iff in Hf. destruct Hf. constructor; auto. apply fo_vrel; auto.
Qed.

Lemma stack_residue_lemma : forall known fuel a argnames args stk base,
  wf (map Some argnames) [] a -> forallb fo args = true -> length args = length argnames ->
  base + length argnames <= length stk -> pushedv stk base args ->
  let r := eval known fuel (combine argnames args) a in
  orel r (fst (exec known fuel (map Some argnames) [] stk base (length argnames) [] a)) /\
  orel r (fst (exec known fuel (map Some argnames) [] args 0 (length args) [] a)).
Proof.
  intros known fuel a argnames args stk base W Hf L Hb Hp.
  destruct (call_frame_independent_lemma known fuel argnames a [] [] [] [] args args stk base
              (program_closure _ _ W) (fo_all_vrel _ Hf) L Hb Hp) as (H1 & H2 & _).
  cbn [r_app g_app g_call self_binding clo_cm clo_cs map app] in H1, H2. rewrite L in H1, H2.
  rewrite Nat.eqb_refl, app_nil_r in H1. rewrite Nat.eqb_refl, app_nil_r in H2. intros r. rewrite L. split; assumption.
Qed.
