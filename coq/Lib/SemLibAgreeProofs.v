(* The eager list stages of Sem/Lib.v (the pool that exec_sim and the optimizer proof cover) compute
   what C07's implementation models of the same Go loops (Lib/Builtins.v, lazy streams) yield when the
   stream is collected, for the callback  cb args := app f args.
   Stateless stages and scans: number, combine, combine3, iir, iirCombine, cross. *)
From P2 Require Import Base.Prelude Sem.Num Sem.Syntax Sem.Ops Sem.Lib Lib.Names Lib.Builtins.
Require Import Lia.
Local Open Scope Z_scope.

Section Agree.
Variable app : value -> list value -> res value.
Variable f : value.

Lemma collect_sbind {A} (r : res A) (k : A -> strm) :
  collect (sbind r k) = bind r (fun y => collect (k y)).
Proof. destruct r; reflexivity. Qed.

Lemma number_agree : forall l i,
  collect (s_number (fun a b => app f [a; b]) i (of_list l)) = mapargs_app app f (number_args i l).
Proof.
  induction l as [|x l IH]; intros i; cbn [of_list s_number number_args mapargs_app]; [reflexivity|].
  rewrite collect_sbind. destruct (app f [VInt i; x]); cbn [bind collect]; try reflexivity.
  rewrite IH. reflexivity.
Qed.

Lemma combine_from_agree : forall l last,
  collect (s_combine_from (fun a b => app f [a; b]) last (of_list l)) = mapargs_app app f (pair_args last l).
Proof.
  induction l as [|x l IH]; intros last; cbn [of_list s_combine_from pair_args mapargs_app]; [reflexivity|].
  rewrite collect_sbind. destruct (app f [last; x]); cbn [bind collect]; try reflexivity.
  rewrite IH. reflexivity.
Qed.

Lemma combine_agree l :
  collect (s_combine (fun a b => app f [a; b]) (of_list l)) =
  mapargs_app app f (match l with [] => [] | x :: r => pair_args x r end).
Proof. destruct l as [|x r]; [reflexivity|]. cbn [of_list s_combine]. apply combine_from_agree. Qed.

Lemma combine3_from_agree : forall l a b,
  collect (s_combine3_from (fun a b c => app f [a; b; c]) a b (of_list l)) = mapargs_app app f (triple_args a b l).
Proof.
  induction l as [|x l IH]; intros a b; cbn [of_list s_combine3_from triple_args mapargs_app]; [reflexivity|].
  rewrite collect_sbind. destruct (app f [a; b; x]); cbn [bind collect]; try reflexivity.
  rewrite IH. reflexivity.
Qed.

Lemma combine3_agree l :
  collect (s_combine3 (fun a b c => app f [a; b; c]) (of_list l)) =
  mapargs_app app f (match l with x :: y :: r => triple_args x y r | _ => [] end).
Proof.
  destruct l as [|x [|y r]]; try reflexivity. cbn [of_list s_combine3]. apply combine3_from_agree.
Qed.

(* iir hands (item, last) to the function, iirCombine (lastItem, item, last) *)
Definition step_of (three : bool) : cb3 :=
  fun item lastItem last => app f (if three then [lastItem; item; last] else [item; last]).

Lemma scan_agree three : forall l li la,
  collect (s_iir_from (step_of three) li la (of_list l)) = scan_app app three f li la l.
Proof.
  induction l as [|x l IH]; intros li la; cbn [of_list s_iir_from scan_app]; [reflexivity|].
  rewrite collect_sbind. unfold step_of at 1.
  destruct (app f (if three then [li; x; la] else [x; la])); cbn [bind collect]; try reflexivity.
  rewrite IH. reflexivity.
Qed.

Lemma iir_agree three ini l :
  collect (s_iirmap (fun x => app ini [x]) (step_of three) (of_list l)) = iir_app app three ini f l.
Proof.
  destruct l as [|x r]; [reflexivity|]. cbn [of_list s_iirmap iir_app].
  rewrite collect_sbind. destruct (app ini [x]); cbn [bind collect]; try reflexivity.
  rewrite scan_agree. reflexivity.
Qed.

Lemma cross_row_agree : forall l2 a k,
  collect (cross_row (fun b => app f [a; b]) l2 k) =
  bind (mapargs_app app f (map (fun b => [a; b]) l2)) (fun ys => bind (collect k) (fun zs => Ok (ys ++ zs))).
Proof.
  induction l2 as [|b l2 IH]; intros a k; cbn [cross_row map mapargs_app bind].
  - destruct (collect k); reflexivity.
  - rewrite collect_sbind. destruct (app f [a; b]); cbn [bind collect]; try reflexivity.
    rewrite IH. destruct (mapargs_app app f (map (fun b0 => [a; b0]) l2)); cbn [bind]; try reflexivity.
    destruct (collect k); reflexivity.
Qed.

Lemma mapargs_app_app : forall a b,
  mapargs_app app f (a ++ b) =
  bind (mapargs_app app f a) (fun ys => bind (mapargs_app app f b) (fun zs => Ok (ys ++ zs))).
Proof.
  induction a as [|x a IH]; intros b; cbn [List.app mapargs_app bind].
  - destruct (mapargs_app app f b); reflexivity.
  - destruct (app f x); cbn [bind]; try reflexivity. rewrite IH.
    destruct (mapargs_app app f a); cbn [bind]; try reflexivity.
    destruct (mapargs_app app f b); reflexivity.
Qed.

Lemma cross_agree : forall l1 l2,
  collect (s_cross (fun a b => app f [a; b]) (of_list l1) l2) = mapargs_app app f (cross_args l1 l2).
Proof.
  induction l1 as [|a l1 IH]; intros l2; cbn [of_list s_cross cross_args]; [reflexivity|].
  rewrite cross_row_agree, mapargs_app_app, IH. reflexivity.
Qed.

(* ---------- stages whose callback must answer a bool: compact, merge ----------
   C07's as_bool turns every non-bool answer into an error; Sem/Lib.v keeps the opaque text of a caught
   error (VErrText) outside the modelled fragment (Unsup).  The two agree whenever the callback does
   not answer such a text. *)
Hypothesis Hne : forall args t, app f args <> Ok (VErrText t).

Lemma collect_of_list l : collect (of_list l) = Ok l.
Proof. induction l as [|x l IH]; cbn [of_list collect]; [reflexivity|]. rewrite IH. reflexivity. Qed.

Lemma compact_from_agree : forall l last,
  collect (s_compact_from (fun a b => app f [a; b]) last (of_list l)) = compact_app app f last l.
Proof.
  induction l as [|x l IH]; intros last; cbn [of_list s_compact_from compact_app]; [reflexivity|].
  rewrite collect_sbind. unfold as_bool.
  destruct (app f [last; x]) as [v| | | |] eqn:E; cbn [bind]; try reflexivity.
  destruct v; cbn [bind collect]; try reflexivity.
  - destruct b; [apply IH|]. cbn [collect]. rewrite IH. reflexivity.
  - exfalso. exact (Hne _ _ E).
Qed.

Lemma compact_agree l :
  collect (s_compact (fun a b => app f [a; b]) (of_list l)) =
  match l with [] => Ok [] | x :: r => bind (compact_app app f x r) (fun ys => Ok (x :: ys)) end.
Proof.
  destruct l as [|x r]; [reflexivity|]. cbn [of_list s_compact collect]. rewrite compact_from_agree. reflexivity.
Qed.

Lemma merge_agree : forall l1 l2,
  collect (s_merge (fun a b => app f [a; b]) (of_list l1) l2) = merge_app app f l1 l2.
Proof.
  induction l1 as [|a l1 IH1]; intros l2.
  - destruct l2 as [|b l2]; cbn [of_list s_merge merge_app]; [reflexivity|exact (collect_of_list (b :: l2))].
  - induction l2 as [|b l2 IH2]; cbn [of_list s_merge merge_app].
    + cbn [collect]. rewrite collect_of_list. reflexivity.
    + rewrite collect_sbind. unfold as_bool.
      destruct (app f [a; b]) as [v| | | |] eqn:E; cbn [bind]; try reflexivity.
      destruct v; cbn [bind collect]; try reflexivity.
      * destruct b0; cbn [collect].
        -- rewrite IH1. reflexivity.
        -- f_equal. exact IH2.
      * exfalso. exact (Hne _ _ E).
Qed.

(* ---------- minMax: no bool, no text: the same loop ---------- *)

Lemma minmax_map_same mn mx mni mxi b : Builtins.minmax_map mn mx mni mxi b = Lib.minmax_map mn mx mni mxi b.
Proof. reflexivity. Qed.

Lemma minMax_from_agree : forall l mn mx mni mxi,
  t_minMax_from (fun x => app f [x]) mn mx mni mxi (of_list l) = minmax_app app f mn mx mni mxi l.
Proof.
  induction l as [|x l IH]; intros mn mx mni mxi; cbn [of_list t_minMax_from minmax_app]; [reflexivity|].
  destruct (app f [x]) as [k| | | |]; cbn [bind]; try reflexivity.
  destruct (vless k mn) as [le| | | |]; cbn [bind]; try reflexivity.
  destruct (vless mx k) as [gr| | | |]; cbn [bind]; try reflexivity.
  apply IH.
Qed.

Lemma minMax_agree l :
  t_minMax (fun x => app f [x]) (of_list l) =
  match l with
  | [] => Ok (Lib.minmax_map (VInt 0) (VInt 0) (VInt 0) (VInt 0) false)
  | x :: r => bind (app f [x]) (fun k => minmax_app app f k k x x r)
  end.
Proof.
  destruct l as [|x r]; [reflexivity|]. cbn [of_list t_minMax].
  destruct (app f [x]); cbn [bind]; try reflexivity. apply minMax_from_agree.
Qed.

(* ---------- combineN: the ring buffer of the last n items against the windows of the list ---------- *)

Lemma windows_short n : forall l, (length l < n)%nat -> windows n l = [].
Proof.
  intros l H. destruct l as [|x l]; [reflexivity|]. cbn [windows].
  destruct (Nat.leb n (length (x :: l))) eqn:E; [|reflexivity]. apply Nat.leb_le in E. lia.
Qed.

Lemma windows_full n w r :
  length w = n -> (1 <= n)%nat -> windows n (w ++ r) = [VList w] :: windows n (tl w ++ r).
Proof.
  intros L N. destruct w as [|a w]; [cbn in L; lia|].
  cbn [List.app windows tl].
  assert (E : Nat.leb n (length (a :: w ++ r)) = true).
  { apply Nat.leb_le. cbn [length] in *. rewrite app_length. lia. }
  rewrite E. f_equal. f_equal. f_equal.
  change (a :: w ++ r) with ((a :: w) ++ r). rewrite firstn_app, L, Nat.sub_diag. cbn [firstn].
  rewrite app_nil_r. rewrite <- L. apply firstn_all.
Qed.

Lemma combineN_from_agree n (N : (1 <= n)%nat) : forall l win,
  (length win <= n)%nat ->
  collect (s_combineN_from n (fun w => app f [w]) win (of_list l)) =
  mapargs_app app f (windows n (if Nat.ltb (length win) n then win ++ l else tl win ++ l)).
Proof.
  induction l as [|x l IH]; intros win Lw; cbn [of_list s_combineN_from].
  - cbn [collect]. rewrite !app_nil_r.
    destruct (Nat.ltb (length win) n) eqn:E.
    + apply Nat.ltb_lt in E. rewrite windows_short by lia. reflexivity.
    + apply Nat.ltb_ge in E. rewrite windows_short; [reflexivity|].
      destruct win; cbn [tl length] in *; lia.
  - set (win' := if Nat.ltb (length win) n then win ++ [x] else tl win ++ [x]).
    assert (Lw' : (length win' <= n)%nat).
    { unfold win'. destruct (Nat.ltb (length win) n) eqn:E.
      - apply Nat.ltb_lt in E. rewrite app_length. cbn [length]. lia.
      - rewrite app_length. cbn [length]. destruct win; cbn [tl length] in *; lia. }
    assert (Eq : (if Nat.ltb (length win) n then win ++ x :: l else tl win ++ x :: l) = win' ++ l).
    { unfold win'. destruct (Nat.ltb (length win) n); rewrite <- app_assoc; reflexivity. }
    rewrite Eq.
    destruct (Nat.eqb (length win') n) eqn:En.
    + apply Nat.eqb_eq in En.
      rewrite (windows_full n win' l En N). cbn [mapargs_app].
      rewrite collect_sbind. destruct (app f [VList win']); cbn [bind]; try reflexivity.
      cbn [collect]. rewrite (IH win' Lw').
      assert (Ef : Nat.ltb (length win') n = false) by (apply Nat.ltb_ge; lia).
      rewrite Ef. reflexivity.
    + apply Nat.eqb_neq in En. rewrite (IH win' Lw').
      assert (Ef : Nat.ltb (length win') n = true) by (apply Nat.ltb_lt; lia).
      rewrite Ef. reflexivity.
Qed.

Lemma combineN_agree n l : (1 <= n)%nat ->
  collect (s_combineN n (fun w => app f [w]) (of_list l)) = mapargs_app app f (windows n l).
Proof.
  intros N. unfold s_combineN. rewrite (combineN_from_agree n N l []) by (cbn; lia).
  cbn [length]. assert (E : Nat.ltb 0 n = true) by (apply Nat.ltb_lt; lia). rewrite E. reflexivity.
Qed.

End Agree.

(* all ten stages at once *)
Theorem lib_agrees_lemma : forall (app : value -> list value -> res value) (f : value),
  (forall l i, collect (s_number (fun a b => app f [a; b]) i (of_list l)) = mapargs_app app f (number_args i l)) /\
  (forall l, collect (s_combine (fun a b => app f [a; b]) (of_list l)) =
             mapargs_app app f (match l with [] => [] | x :: r => pair_args x r end)) /\
  (forall l, collect (s_combine3 (fun a b c => app f [a; b; c]) (of_list l)) =
             mapargs_app app f (match l with x :: y :: r => triple_args x y r | _ => [] end)) /\
  (forall n l, (1 <= n)%nat ->
             collect (s_combineN n (fun w => app f [w]) (of_list l)) = mapargs_app app f (windows n l)) /\
  (forall three ini l, collect (s_iirmap (fun x => app ini [x]) (step_of app f three) (of_list l)) =
                       iir_app app three ini f l) /\
  (forall l1 l2, collect (s_cross (fun a b => app f [a; b]) (of_list l1) l2) = mapargs_app app f (cross_args l1 l2)) /\
  (forall l, t_minMax (fun x => app f [x]) (of_list l) =
             match l with
             | [] => Ok (Lib.minmax_map (VInt 0) (VInt 0) (VInt 0) (VInt 0) false)
             | x :: r => bind (app f [x]) (fun k => minmax_app app f k k x x r)
             end) /\
  ((forall args t, app f args <> Ok (VErrText t)) ->
   (forall l, collect (s_compact (fun a b => app f [a; b]) (of_list l)) =
              match l with [] => Ok [] | x :: r => bind (compact_app app f x r) (fun ys => Ok (x :: ys)) end) /\
   (forall l1 l2, collect (s_merge (fun a b => app f [a; b]) (of_list l1) l2) = merge_app app f l1 l2)).
Proof.
  intros app f. repeat split; intros.
  - apply number_agree.
  - apply combine_agree.
  - apply combine3_agree.
  - apply combineN_agree; assumption.
  - apply iir_agree.
  - apply cross_agree.
  - apply minMax_agree.
  - apply compact_agree; assumption.
  - apply merge_agree; assumption.
Qed.

Print Assumptions lib_agrees_lemma.

(* ---------- first-order built-ins added to the pool: string methods, List.Visit, List.Set ---------- *)

(* the string methods of the pool (Sem/StrLib.v run_str_method) are, on well-typed arguments, exactly the
   string functions of C07's implementation model (Run/C07Run.v run_string applies the same functions
   str_trim ... str_to_int, which Lib/BuiltinsProofs.v / Lib/StringProofs.v relate to the documented model) *)
Lemma str_to_int_is_int s v : str_to_int s = Ok v -> exists z, v = VInt z.
Proof.
  unfold str_to_int.
  repeat match goal with
         | |- context [match ?x with _ => _ end] => destruct x
         end; intros E; try discriminate; inversion E; eauto.
Qed.

Theorem str_pool_agrees : forall (app : value -> list value -> res value) (s : str),
  run_method app (VStr s) n_trim [] = bind (str_trim s) (fun r => Ok (VStr r)) /\
  run_method app (VStr s) n_toLower [] = bind (str_lower s) (fun r => Ok (VStr r)) /\
  run_method app (VStr s) n_toUpper [] = bind (str_upper s) (fun r => Ok (VStr r)) /\
  (forall p, run_method app (VStr s) n_contains [VStr p] = Ok (VBool (contains_str s p))) /\
  (forall p, run_method app (VStr s) n_indexOf [VStr p] = Ok (VInt (index_of s p 0))) /\
  (forall p, run_method app (VStr s) n_split [VStr p] = Ok (VList (map VStr (str_split s p)))) /\
  (forall p n, run_method app (VStr s) n_cut [VInt p; VInt n] = Ok (VStr (str_cut s p n))) /\
  (forall o n, run_method app (VStr s) n_replace [VStr o; VStr n] = Ok (VStr (str_replace s o n))) /\
  run_method app (VStr s) n_toInt [] = str_to_int s.
Proof.
  intros app s. repeat split; intros; cbn; unfold run_str_method, run_str_core; cbn; try reflexivity.
  - destruct (str_trim s); reflexivity.
  - destruct (str_lower s); reflexivity.
  - destruct (str_upper s); reflexivity.
  - destruct (str_to_int s) as [v| | | |] eqn:E; cbn; try reflexivity.
    destruct (str_to_int_is_int _ _ E) as [z ->]. reflexivity.
Qed.

(* List.Visit is the loop of iterator.MapReduce (C07: t_fold); List.Set is C07's m_set *)
Lemma fold_agree (app : value -> list value -> res value) f : forall l acc,
  t_fold (fun a b => app f [a; b]) acc (of_list l) = fold_app app f acc l.
Proof.
  induction l as [|x l IH]; intros acc; cbn [of_list t_fold fold_app]; [reflexivity|].
  destruct (app f [acc; x]); cbn [bind]; auto.
Qed.

Theorem visit_set_agree : forall (app : value -> list value -> res value) (f : value),
  (forall l init, is_func f 2 = true ->
     run_method app (VList l) n_visit [init; f] = t_fold (fun a b => app f [a; b]) init (of_list l)) /\
  (forall l i x, run_method app (VList l) n_set [VInt i; x] = bind (m_set i x l) (fun r => Ok (VList r))).
Proof.
  intros app f. split.
  - intros l init F. rewrite fold_agree. cbn. rewrite F. reflexivity.
  - intros l i x. cbn. unfold m_set. destruct ((i <? 0) || (Z.of_nat (length l) <=? i)); reflexivity.
Qed.

Print Assumptions str_pool_agrees.
Print Assumptions visit_set_agree.

