(* The eager list stages of Sem/Lib.v (the pool that exec_sim and the optimizer proof cover) compute
   what C07's implementation models of the same Go loops (Lib/Builtins.v, lazy streams) yield when the
   stream is collected, for the callback  cb args := app f args.
   Stateless stages and scans: number, combine, combine3, iir, iirCombine, cross. *)
From P2 Require Import Base.Prelude Sem.Num Sem.Syntax Sem.Ops Sem.Lib Lib.Names Lib.Builtins.
Local Open Scope Z_scope.

Section Agree.
Variable app : value -> list value -> res value.
Variable f : value.

Lemma collect_sbind (r : res value) (k : value -> strm) :
  collect (sbind r k) = bind r (fun y => collect (k y)).
Proof. destruct r; reflexivity. Qed.

Lemma number_agree : forall l i,
  collect (s_number (fun a b => app f [a; b]) i (of_list l)) = mapargs_app app f (number_args i l).
Proof.
  induction l as [|x l IH]; intros i; cbn [of_list s_number number_args mapargs_app]; [reflexivity|].
  rewrite collect_sbind. destruct (app f [VInt i; x]); cbn [bind collect]; try reflexivity.
  rewrite IH. reflexivity.
Qed.

Lemma combine_from_agree : forall l last,
  collect (s_combine_from (fun a b => app f [a; b]) last (of_list l)) = mapargs_app app f (pair_args last l).
Proof.
  induction l as [|x l IH]; intros last; cbn [of_list s_combine_from pair_args mapargs_app]; [reflexivity|].
  rewrite collect_sbind. destruct (app f [last; x]); cbn [bind collect]; try reflexivity.
  rewrite IH. reflexivity.
Qed.

Lemma combine_agree l :
  collect (s_combine (fun a b => app f [a; b]) (of_list l)) =
  mapargs_app app f (match l with [] => [] | x :: r => pair_args x r end).
Proof. destruct l as [|x r]; [reflexivity|]. cbn [of_list s_combine]. apply combine_from_agree. Qed.

Lemma combine3_from_agree : forall l a b,
  collect (s_combine3_from (fun a b c => app f [a; b; c]) a b (of_list l)) = mapargs_app app f (triple_args a b l).
Proof.
  induction l as [|x l IH]; intros a b; cbn [of_list s_combine3_from triple_args mapargs_app]; [reflexivity|].
  rewrite collect_sbind. destruct (app f [a; b; x]); cbn [bind collect]; try reflexivity.
  rewrite IH. reflexivity.
Qed.

Lemma combine3_agree l :
  collect (s_combine3 (fun a b c => app f [a; b; c]) (of_list l)) =
  mapargs_app app f (match l with x :: y :: r => triple_args x y r | _ => [] end).
Proof.
  destruct l as [|x [|y r]]; try reflexivity. cbn [of_list s_combine3]. apply combine3_from_agree.
Qed.

(* iir hands (item, last) to the function, iirCombine (lastItem, item, last) *)
Definition step_of (three : bool) : cb3 :=
  fun item lastItem last => app f (if three then [lastItem; item; last] else [item; last]).

Lemma scan_agree three : forall l li la,
  collect (s_iir_from (step_of three) li la (of_list l)) = scan_app app three f li la l.
Proof.
  induction l as [|x l IH]; intros li la; cbn [of_list s_iir_from scan_app]; [reflexivity|].
  rewrite collect_sbind. unfold step_of at 1.
  destruct (app f (if three then [li; x; la] else [x; la])); cbn [bind collect]; try reflexivity.
  rewrite IH. reflexivity.
Qed.

Lemma iir_agree three ini l :
  collect (s_iirmap (fun x => app ini [x]) (step_of three) (of_list l)) = iir_app app three ini f l.
Proof.
  destruct l as [|x r]; [reflexivity|]. cbn [of_list s_iirmap iir_app].
  rewrite collect_sbind. destruct (app ini [x]); cbn [bind collect]; try reflexivity.
  rewrite scan_agree. reflexivity.
Qed.

Lemma cross_row_agree : forall l2 a k,
  collect (cross_row (fun b => app f [a; b]) l2 k) =
  bind (mapargs_app app f (map (fun b => [a; b]) l2)) (fun ys => bind (collect k) (fun zs => Ok (ys ++ zs))).
Proof.
  induction l2 as [|b l2 IH]; intros a k; cbn [cross_row map mapargs_app bind].
  - destruct (collect k); reflexivity.
  - rewrite collect_sbind. destruct (app f [a; b]); cbn [bind collect]; try reflexivity.
    rewrite IH. destruct (mapargs_app app f (map (fun b0 => [a; b0]) l2)); cbn [bind]; try reflexivity.
    destruct (collect k); reflexivity.
Qed.

Lemma mapargs_app_app : forall a b,
  mapargs_app app f (a ++ b) =
  bind (mapargs_app app f a) (fun ys => bind (mapargs_app app f b) (fun zs => Ok (ys ++ zs))).
Proof.
  induction a as [|x a IH]; intros b; cbn [List.app mapargs_app bind].
  - destruct (mapargs_app app f b); reflexivity.
  - destruct (app f x); cbn [bind]; try reflexivity. rewrite IH.
    destruct (mapargs_app app f a); cbn [bind]; try reflexivity.
    destruct (mapargs_app app f b); reflexivity.
Qed.

Lemma cross_agree : forall l1 l2,
  collect (s_cross (fun a b => app f [a; b]) (of_list l1) l2) = mapargs_app app f (cross_args l1 l2).
Proof.
  induction l1 as [|a l1 IH]; intros l2; cbn [of_list s_cross cross_args]; [reflexivity|].
  rewrite cross_row_agree, mapargs_app_app, IH. reflexivity.
Qed.

End Agree.

Print Assumptions cross_agree.
Print Assumptions iir_agree.
