(* C07 - groupBy* / unique*: the implementation model's answer always passes the checkers
   (check_groups / check_unique), and the checkers accept every first-occurrence grouping.
   Keys live in an abstract type K with a boolean equivalence eqk; inj embeds them into values such that
   the = of the language (veq) decides eqk on embedded keys (K = Z for groupByInt/uniqueInt, K = str for
   groupByString/uniqueString, any such K for groupByEqual). *)
From P2 Require Import Base.Prelude Base.PreludeProofs Sem.Num Sem.Syntax Sem.Ops Lib.Names Lib.Builtins Lib.ListLib.
From Coq Require Import Lia.

Section Pure.
Context {A K : Type}.
Variable eqk : K -> K -> bool.
Hypothesis eqk_refl : forall a, eqk a a = true.
Hypothesis eqk_sym : forall a b, eqk a b = eqk b a.
Hypothesis eqk_trans : forall a b c, eqk a b = true -> eqk b c = true -> eqk a c = true.
Variable key : A -> K.

(* the grouping loop without failures: groups in order of first occurrence *)
Fixpoint pg_add (k : K) (x : A) (gs : list (K * list A)) : list (K * list A) :=
  match gs with
  | [] => [(k, [x])]
  | (k', vs) :: r => if eqk k' k then (k', vs ++ [x]) :: r else (k', vs) :: pg_add k x r
  end.

Fixpoint pg_all (gs : list (K * list A)) (l : list A) : list (K * list A) :=
  match l with [] => gs | x :: r => pg_all (pg_add (key x) x gs) r end.

Definition keyb (x : A) (k : K) : bool := eqk (key x) k.

(* invariant of the loop after the items [pre] *)
Record ginv (pre : list A) (gs : list (K * list A)) : Prop := {
  g_groups : forall k vs, In (k, vs) gs -> vs <> [] /\ vs = filter (fun x => keyb x k) pre;
  g_nodup : nodup_b eqk (map fst gs) = true;
  g_cover : forall y, In y pre -> exists k vs, In (k, vs) gs /\ keyb y k = true
}.

Lemma mem_b_false : forall k ks, mem_b eqk k ks = false <-> forall k', In k' ks -> eqk k k' = false.
Proof.
  intros k. induction ks as [|a r IH]; cbn [mem_b]; [split; [intros _ k' []|reflexivity]|].
  rewrite Bool.orb_false_iff, IH. split.
  - intros [H1 H2] k' [<-|H]; auto.
  - intros H. split; [apply H; left; reflexivity|intros k' Hk; apply H; right; exact Hk].
Qed.

Lemma pg_add_keys : forall k x gs,
  map fst (pg_add k x gs) = if mem_b eqk k (map fst gs) then map fst gs else map fst gs ++ [k].
Proof.
  intros k x. induction gs as [|[k' vs] r IH]; cbn [pg_add map fst mem_b]; [reflexivity|].
  rewrite (eqk_sym k k'). destruct (eqk k' k); cbn [orb map fst]; [reflexivity|].
  rewrite IH. destruct (mem_b eqk k (map fst r)); reflexivity.
Qed.

Lemma nodup_b_snoc : forall ks k, nodup_b eqk ks = true -> mem_b eqk k ks = false -> nodup_b eqk (ks ++ [k]) = true.
Proof.
  induction ks as [|a r IH]; intros k Hn Hm; cbn [app nodup_b mem_b]; [reflexivity|].
  cbn [nodup_b mem_b] in Hn, Hm. apply Bool.andb_true_iff in Hn. destruct Hn as [Ha Hr].
  apply Bool.orb_false_iff in Hm. destruct Hm as [Hka Hkr].
  apply Bool.andb_true_iff. split; [|apply IH; assumption].
  apply Bool.negb_true_iff. apply Bool.negb_true_iff in Ha.
  apply mem_b_false. intros k' Hin. apply in_app_or in Hin. destruct Hin as [Hin|[<-|[]]].
  - eapply mem_b_false in Ha; eauto.
  - rewrite eqk_sym. exact Hka.
Qed.

Lemma pg_add_split : forall k x gs,
  (mem_b eqk k (map fst gs) = false /\ pg_add k x gs = gs ++ [(k, [x])]) \/
  (exists g1 k' vs g2, gs = g1 ++ (k', vs) :: g2 /\ eqk k' k = true /\
     (forall g, In g g1 -> eqk (fst g) k = false) /\ pg_add k x gs = g1 ++ (k', vs ++ [x]) :: g2).
Proof.
  intros k x. induction gs as [|[k' vs] r IH]; cbn [pg_add map fst mem_b].
  - left. split; reflexivity.
  - destruct (eqk k' k) eqn:E.
    + right. exists [], k', vs, r. repeat split; auto. intros g [].
    + destruct IH as [[Hm He]|[g1 [k1 [vs1 [g2 [Hgs [Hk [Hg1 He]]]]]]]].
      * left. rewrite (eqk_sym k k'), E, Hm, He. split; reflexivity.
      * right. exists ((k', vs) :: g1), k1, vs1, g2. rewrite Hgs at 1. rewrite He. repeat split; auto.
        intros g [<-|Hg]; [exact E|apply Hg1; exact Hg].
Qed.

Lemma nodup_b_app_cons : forall (g1 : list K) k' g2, nodup_b eqk (g1 ++ k' :: g2) = true ->
  forall k0, In k0 g2 -> eqk k' k0 = false.
Proof.
  induction g1 as [|a r IH]; intros k' g2 H k0 Hin; cbn [app nodup_b] in H;
    apply Bool.andb_true_iff in H; destruct H as [H1 H2].
  - apply Bool.negb_true_iff in H1. eapply mem_b_false in H1; eauto.
  - eapply IH; eauto.
Qed.

Lemma filter_snoc : forall (p : A -> bool) l x,
  filter p (l ++ [x]) = filter p l ++ (if p x then [x] else []).
Proof. intros p l x. rewrite filter_app. reflexivity. Qed.

Lemma filter_none : forall (p : A -> bool) l, (forall y, In y l -> p y = false) -> filter p l = [].
Proof.
  intros p. induction l as [|a r IH]; intros H; cbn [filter]; [reflexivity|].
  rewrite (H a (or_introl eq_refl)). apply IH. intros y Hy. apply H. right. exact Hy.
Qed.

Lemma ginv_step : forall pre gs x, ginv pre gs -> ginv (pre ++ [x]) (pg_add (key x) x gs).
Proof.
  intros pre gs x [Hg Hn Hc]. set (k := key x).
  destruct (pg_add_split k x gs) as [[Hm He]|[g1 [k' [vs [g2 [Hgs [Hk [Hg1 He]]]]]]]]; rewrite He.
  - (* a new group at the end *)
    assert (Hnew : forall k0, In k0 (map fst gs) -> eqk k k0 = false) by (apply mem_b_false; exact Hm).
    constructor.
    + intros k0 vs0 Hin. apply in_app_or in Hin. destruct Hin as [Hin|[Hin|[]]].
      * destruct (Hg _ _ Hin) as [Hne Hf]. split; [exact Hne|].
        rewrite filter_snoc. unfold keyb at 2. fold k.
        rewrite (Hnew k0) by (apply (in_map fst) in Hin; exact Hin). rewrite app_nil_r. exact Hf.
      * injection Hin as <- <-. split; [discriminate|]. rewrite filter_snoc. unfold keyb at 2. fold k.
        rewrite eqk_refl. rewrite filter_none; [reflexivity|].
        intros y Hy. destruct (Hc y Hy) as [k1 [vs1 [Hin1 Hk1]]]. unfold keyb in *.
        destruct (eqk (key y) k) eqn:E; [|reflexivity]. exfalso.
        assert (eqk k k1 = true) by (eapply eqk_trans; [rewrite eqk_sym; exact E|exact Hk1]).
        rewrite (Hnew k1) in H; [discriminate|]. apply (in_map fst) in Hin1. exact Hin1.
    + rewrite map_app. cbn [map fst]. apply nodup_b_snoc; assumption.
    + intros y Hy. apply in_app_or in Hy. destruct Hy as [Hy|[<-|[]]].
      * destruct (Hc y Hy) as [k1 [vs1 [Hin1 Hk1]]]. exists k1, vs1. split; [apply in_or_app; left; exact Hin1|exact Hk1].
      * exists k, [x]. split; [apply in_or_app; right; left; reflexivity|apply eqk_refl].
  - (* x joins the first group whose key matches *)
    assert (Hkeys : map fst (g1 ++ (k', vs ++ [x]) :: g2) = map fst gs).
    { rewrite Hgs, !map_app. reflexivity. }
    constructor.
    + intros k0 vs0 Hin. apply in_app_or in Hin. destruct Hin as [Hin|[Hin|Hin]].
      * assert (Hin' : In (k0, vs0) gs) by (rewrite Hgs; apply in_or_app; left; exact Hin).
        destruct (Hg _ _ Hin') as [Hne Hf]. split; [exact Hne|].
        pose proof (Hg1 _ Hin) as Hx. cbn [fst] in Hx.
        rewrite filter_snoc. unfold keyb at 2. fold k. rewrite eqk_sym, Hx. rewrite app_nil_r. exact Hf.
      * injection Hin as <- <-.
        assert (Hin' : In (k', vs) gs) by (rewrite Hgs; apply in_or_app; right; left; reflexivity).
        destruct (Hg _ _ Hin') as [Hne Hf]. split; [destruct vs; discriminate|].
        rewrite filter_snoc. unfold keyb at 2. fold k. rewrite eqk_sym, Hk. rewrite <- Hf. reflexivity.
      * assert (Hin' : In (k0, vs0) gs) by (rewrite Hgs; apply in_or_app; right; right; exact Hin).
        destruct (Hg _ _ Hin') as [Hne Hf]. split; [exact Hne|].
        rewrite filter_snoc. unfold keyb at 2. fold k.
        assert (Hkk : eqk k' k0 = false).
        { rewrite Hgs, map_app in Hn. cbn [map fst] in Hn.
          eapply nodup_b_app_cons; [exact Hn|]. apply (in_map fst) in Hin. exact Hin. }
        destruct (eqk k k0) eqn:E; [|rewrite app_nil_r; exact Hf]. exfalso.
        rewrite (eqk_trans _ _ _ Hk E) in Hkk. discriminate.
    + rewrite Hkeys. exact Hn.
    + intros y Hy. apply in_app_or in Hy. destruct Hy as [Hy|[<-|[]]].
      * destruct (Hc y Hy) as [k1 [vs1 [Hin1 Hk1]]]. rewrite Hgs in Hin1.
        apply in_app_or in Hin1. destruct Hin1 as [Hin1|[Hin1|Hin1]].
        -- exists k1, vs1. split; [apply in_or_app; left; exact Hin1|exact Hk1].
        -- injection Hin1 as <- <-. exists k', (vs ++ [x]). split; [apply in_or_app; right; left; reflexivity|exact Hk1].
        -- exists k1, vs1. split; [apply in_or_app; right; right; exact Hin1|exact Hk1].
      * exists k', (vs ++ [x]). split; [apply in_or_app; right; left; reflexivity|].
        unfold keyb. fold k. rewrite eqk_sym. exact Hk.
Qed.

Lemma ginv_all : forall l pre gs, ginv pre gs -> ginv (pre ++ l) (pg_all gs l).
Proof.
  induction l as [|x r IH]; intros pre gs H; cbn [pg_all]; [rewrite app_nil_r; exact H|].
  replace (pre ++ x :: r) with ((pre ++ [x]) ++ r) by (rewrite <- app_assoc; reflexivity).
  apply IH. apply ginv_step. exact H.
Qed.

Lemma ginv_nil : ginv [] [].
Proof. constructor; [intros k vs []|reflexivity|intros y []]. Qed.

Lemma pg_add_size : forall k x gs,
  length (concat (map snd (pg_add k x gs))) = S (length (concat (map snd gs))).
Proof.
  intros k x. induction gs as [|[k' vs] r IH]; cbn [pg_add map snd concat]; [reflexivity|].
  destruct (eqk k' k); cbn [map snd concat]; rewrite !app_length.
  - cbn [length]. lia.
  - rewrite IH. lia.
Qed.

Lemma pg_all_size : forall l gs,
  length (concat (map snd (pg_all gs l))) = (length (concat (map snd gs)) + length l)%nat.
Proof.
  induction l as [|x r IH]; intros gs; cbn [pg_all length]; [lia|]. rewrite IH, pg_add_size. lia.
Qed.

(* ----- unique*: the distinct keys in order of first occurrence ----- *)
Fixpoint pu_add (k : K) (ks : list K) : list K :=
  match ks with
  | [] => [k]
  | k' :: r => if eqk k' k then ks else k' :: pu_add k r
  end.

Fixpoint pu_all (ks : list K) (l : list A) : list K :=
  match l with [] => ks | x :: r => pu_all (pu_add (key x) ks) r end.

Lemma pu_add_split : forall k ks,
  (mem_b eqk k ks = false /\ pu_add k ks = ks ++ [k]) \/
  (exists k', In k' ks /\ eqk k' k = true /\ pu_add k ks = ks).
Proof.
  intros k. induction ks as [|k' r IH]; cbn [pu_add mem_b]; [left; split; reflexivity|].
  destruct (eqk k' k) eqn:E.
  - right. exists k'. repeat split; auto. left. reflexivity.
  - destruct IH as [[Hm He]|[k1 [Hin [Hk He]]]].
    + left. rewrite (eqk_sym k k'), E, Hm, He. split; reflexivity.
    + right. exists k1. rewrite He. repeat split; auto. right. exact Hin.
Qed.

Record uinv (pre : list A) (ks : list K) : Prop := {
  u_nodup : nodup_b eqk ks = true;
  u_occurs : forall k, In k ks -> exists x, In x pre /\ keyb x k = true;
  u_cover : forall y, In y pre -> exists k, In k ks /\ keyb y k = true
}.

Lemma uinv_step : forall pre ks x, uinv pre ks -> uinv (pre ++ [x]) (pu_add (key x) ks).
Proof.
  intros pre ks x [Hn Ho Hc]. set (k := key x).
  destruct (pu_add_split k ks) as [[Hm He]|[k' [Hin [Hk He]]]]; rewrite He; constructor.
  - apply nodup_b_snoc; assumption.
  - intros k0 Hk0. apply in_app_or in Hk0. destruct Hk0 as [Hk0|[<-|[]]].
    + destruct (Ho _ Hk0) as [y [Hy Hky]]. exists y. split; [apply in_or_app; left; exact Hy|exact Hky].
    + exists x. split; [apply in_or_app; right; left; reflexivity|apply eqk_refl].
  - intros y Hy. apply in_app_or in Hy. destruct Hy as [Hy|[<-|[]]].
    + destruct (Hc _ Hy) as [k1 [Hin1 Hk1]]. exists k1. split; [apply in_or_app; left; exact Hin1|exact Hk1].
    + exists k. split; [apply in_or_app; right; left; reflexivity|apply eqk_refl].
  - exact Hn.
  - intros k0 Hk0. destruct (Ho _ Hk0) as [y [Hy Hky]]. exists y. split; [apply in_or_app; left; exact Hy|exact Hky].
  - intros y Hy. apply in_app_or in Hy. destruct Hy as [Hy|[<-|[]]].
    + apply Hc. exact Hy.
    + exists k'. split; [exact Hin|]. unfold keyb. fold k. rewrite eqk_sym. exact Hk.
Qed.

Lemma uinv_all : forall l pre ks, uinv pre ks -> uinv (pre ++ l) (pu_all ks l).
Proof.
  induction l as [|x r IH]; intros pre ks H; cbn [pu_all]; [rewrite app_nil_r; exact H|].
  replace (pre ++ x :: r) with ((pre ++ [x]) ++ r) by (rewrite <- app_assoc; reflexivity).
  apply IH. apply uinv_step. exact H.
Qed.

(* the unique loop always produces a key list that check_unique accepts *)
Theorem pu_all_passes_checker : forall l, check_unique eqk keyb l (pu_all [] l) = true.
Proof.
  intros l. assert (H0 : uinv [] []) by (constructor; [reflexivity|intros k []|intros y []]).
  destruct (uinv_all l [] [] H0) as [Hn Ho Hc]. cbn [app] in *.
  unfold check_unique. rewrite Hn. cbn [andb]. apply Bool.andb_true_iff. split.
  - apply forallb_forall. intros k Hk. apply existsb_exists. apply Ho. exact Hk.
  - apply forallb_forall. intros y Hy. apply existsb_exists. apply Hc. exact Hy.
Qed.

Variable eqA : A -> A -> bool.
Hypothesis eqA_refl : forall a, eqA a a = true.

Lemma list_eqb_refl : forall l, list_eqb eqA l l = true.
Proof. induction l as [|a r IH]; cbn [list_eqb]; [reflexivity|]. rewrite eqA_refl, IH. reflexivity. Qed.

(* the grouping loop always produces a grouping that check_groups accepts *)
Theorem pg_all_passes_checker : forall l, check_groups eqA eqk keyb l (pg_all [] l) = true.
Proof.
  intros l. destruct (ginv_all l [] [] ginv_nil) as [Hg Hn Hc]. cbn [app] in *.
  unfold check_groups. rewrite Hn. rewrite pg_all_size. cbn [map concat length plus]. rewrite Nat.eqb_refl.
  rewrite !Bool.andb_true_r. apply forallb_forall. intros [k vs] Hin.
  destruct (Hg _ _ Hin) as [Hne Hf]. unfold group_ok. cbn [fst snd].
  destruct vs as [|a t]; [congruence|]. rewrite <- Hf. apply list_eqb_refl.
Qed.

(* completeness: every grouping whose groups are non-empty, hold exactly the items of their key in
   input order, have pairwise different keys and lose no item is accepted (the converse of
   check_groups_sound); with pg_all_passes_checker this covers the first-occurrence grouping *)
Theorem check_groups_complete : forall inp gs,
  (forall g, In g gs -> snd g <> [] /\ snd g = filter (fun x => keyb x (fst g)) inp) ->
  nodup_b eqk (map fst gs) = true ->
  length (concat (map snd gs)) = length inp ->
  check_groups eqA eqk keyb inp gs = true.
Proof.
  intros inp gs Hg Hn Hl. unfold check_groups. rewrite Hn, Hl, Nat.eqb_refl, !Bool.andb_true_r.
  apply forallb_forall. intros g Hin. destruct (Hg g Hin) as [Hne Hf]. unfold group_ok.
  destruct (snd g) as [|a t] eqn:E; [congruence|]. rewrite <- Hf. apply list_eqb_refl.
Qed.

End Pure.

(* ---------- the implementation model (with failing key functions and the = of the language) ---------- *)
Section Model.
Context {K : Type}.
Variable eqk : K -> K -> bool.
Variable inj : K -> value.
Hypothesis inj_eq : forall a b, veq (inj a) (inj b) = Ok (eqk a b).
Variable key : value -> K.

Definition injg (g : K * list value) : value * list value := (inj (fst g), snd g).

Lemma group_add_pure : forall k x gs,
  group_add (inj k) x (map injg gs) = Ok (map injg (pg_add eqk k x gs)).
Proof.
  intros k x. induction gs as [|[k' vs] r IH]; cbn [map injg group_add pg_add fst snd]; [reflexivity|].
  rewrite inj_eq. cbn [bind]. destruct (eqk k' k); [reflexivity|].
  rewrite IH. reflexivity.
Qed.

Lemma group_all_pure : forall keyf l gs, (forall x, In x l -> keyf x = Ok (inj (key x))) ->
  group_all keyf (map injg gs) l = Ok (map injg (pg_all eqk key gs l)).
Proof.
  intros keyf. induction l as [|x r IH]; intros gs H; cbn [group_all pg_all]; [reflexivity|].
  rewrite (H x (or_introl eq_refl)). cbn [bind]. rewrite group_add_pure. cbn [bind].
  apply IH. intros y Hy. apply H. right. exact Hy.
Qed.

Lemma uniq_add_pure : forall k ks, uniq_add (inj k) (map inj ks) = Ok (map inj (pu_add eqk k ks)).
Proof.
  intros k. induction ks as [|k' r IH]; cbn [map uniq_add pu_add]; [reflexivity|].
  rewrite inj_eq. cbn [bind]. destruct (eqk k' k); [reflexivity|]. rewrite IH. reflexivity.
Qed.

Lemma unique_from_pure : forall keyf l ks, (forall x, In x l -> keyf x = Ok (inj (key x))) ->
  m_unique_from keyf (map inj ks) l = Ok (map inj (pu_all eqk key ks l)).
Proof.
  intros keyf. induction l as [|x r IH]; intros ks H; cbn [m_unique_from pu_all]; [reflexivity|].
  rewrite (H x (or_introl eq_refl)). cbn [bind]. rewrite uniq_add_pure. cbn [bind].
  apply IH. intros y Hy. apply H. right. exact Hy.
Qed.

Hypothesis eqk_refl : forall a, eqk a a = true.
Hypothesis eqk_sym : forall a b, eqk a b = eqk b a.
Hypothesis eqk_trans : forall a b c, eqk a b = true -> eqk b c = true -> eqk a c = true.
Variable eqA : value -> value -> bool.
Hypothesis eqA_refl : forall a, eqA a a = true.

(* groupBy*: whenever the key function answers embedded keys, the model answers a grouping (never a
   failure) and that grouping passes check_groups *)
Theorem group_model_passes_checker : forall keyf l,
  (forall x, In x l -> keyf x = Ok (inj (key x))) ->
  exists gs, group_all keyf [] l = Ok (map injg gs) /\
             check_groups eqA eqk (keyb eqk key) l gs = true.
Proof.
  intros keyf l H. exists (pg_all eqk key [] l). split.
  - apply (group_all_pure keyf l [] H).
  - apply pg_all_passes_checker; assumption.
Qed.

Theorem unique_model_passes_checker : forall keyf l,
  (forall x, In x l -> keyf x = Ok (inj (key x))) ->
  exists ks, m_unique keyf l = Ok (map inj ks) /\ check_unique eqk (keyb eqk key) l ks = true.
Proof.
  intros keyf l H. exists (pu_all eqk key [] l). split.
  - apply (unique_from_pure keyf l [] H).
  - apply pu_all_passes_checker; assumption.
Qed.

End Model.

(* the two instances used by groupByInt/uniqueInt and groupByString/uniqueString *)
Lemma veq_int : forall a b, veq (VInt a) (VInt b) = Ok (Z.eqb a b).
Proof. reflexivity. Qed.
Lemma veq_str : forall a b, veq (VStr a) (VStr b) = Ok (str_eqb a b).
Proof. reflexivity. Qed.

Lemma zeqb_trans : forall a b c, Z.eqb a b = true -> Z.eqb b c = true -> Z.eqb a c = true.
Proof. intros a b c H1 H2. apply Z.eqb_eq in H1, H2. subst. apply Z.eqb_refl. Qed.
Lemma streqb_trans : forall a b c, str_eqb a b = true -> str_eqb b c = true -> str_eqb a c = true.
Proof. intros a b c H1 H2. apply str_eqb_eq in H1, H2. subst. apply str_eqb_refl. Qed.

Theorem groupByInt_passes_checker : forall (key : value -> Z) eqA, (forall a, eqA a a = true) ->
  forall keyf l, (forall x, In x l -> keyf x = Ok (VInt (key x))) ->
  exists gs, group_all keyf [] l = Ok (map (injg VInt) gs) /\
             check_groups eqA Z.eqb (keyb Z.eqb key) l gs = true.
Proof.
  intros key eqA HA keyf l H.
  exact (group_model_passes_checker Z.eqb VInt veq_int key Z.eqb_refl Z.eqb_sym zeqb_trans eqA HA keyf l H).
Qed.

Theorem groupByString_passes_checker : forall (key : value -> str) eqA, (forall a, eqA a a = true) ->
  forall keyf l, (forall x, In x l -> keyf x = Ok (VStr (key x))) ->
  exists gs, group_all keyf [] l = Ok (map (injg VStr) gs) /\
             check_groups eqA str_eqb (keyb str_eqb key) l gs = true.
Proof.
  intros key eqA HA keyf l H.
  exact (group_model_passes_checker str_eqb VStr veq_str key str_eqb_refl str_eqb_sym streqb_trans eqA HA keyf l H).
Qed.
