(* Closure counts of the lazy machine against the eager prefix specification: the observation of
   Lib/StreamRefine.v with the number of calls of the closures named id (Section variable). *)
From P2 Require Import Base.Prelude Lib.Stream Lib.StreamProofs Lib.StreamRefine.
Require Import Lia.
Local Open Scope Z_scope.

Section Count.
Variable id : N.

(* yc p q items st c: as yields, c = number of events with identifier id in the logs of the steps taken *)
Inductive yc (p : pipe) : pstate -> list Z -> status -> nat -> Prop :=
| C_open : forall q, yc p q [] Open O
| C_done : forall q l, next p q = (l, Done) -> yc p q [] Closed (count id l)
| C_fail : forall q l e, next p q = (l, Fail e) -> yc p q [] (Failed e) (count id l)
| C_skip : forall q l q' items st c, next p q = (l, Skip q') -> yc p q' items st c -> yc p q items st (count id l + c)
| C_item : forall q l v q' items st c, next p q = (l, Item v q') -> yc p q' items st c ->
    yc p q (v :: items) st (count id l + c).

Definition ycB (p : pipe) (q : pstate) (pl : partial) (B : nat) : Prop :=
  exists c, yc p q (fst pl) (snd pl) c /\ (c <= B)%nat.

Lemma ycB_mono : forall p q pl B B', ycB p q pl B -> (B <= B')%nat -> ycB p q pl B'.
Proof. intros p q pl B B' [c [H Hc]] Hle. exists c. split; [exact H|lia]. Qed.

(* ------------------------------------------------------------------ consumers *)

Lemma loop_decided_count : forall p t q items st c, yc p q items st c ->
  forall s o, tdec t s items st = Some o ->
  exists F, forall fuel, (F <= fuel)%nat -> exists l n, loop fuel p t q s = (l, o, n) /\
    (count id l <= c + occ_term id t * length items)%nat.
Proof.
  intros p t q items st c Hy. induction Hy as [q|q l H|q l e H|q l q' items st c H Hy IH|q l v q' items st c H Hy IH];
    intros s o Hd; cbn [tdec] in Hd.
  - discriminate.
  - inversion Hd; subst. exists 1%nat. intros fuel Hf. destruct fuel as [|f]; [lia|]. cbn [loop]. rewrite H.
    eexists. eexists. split; [reflexivity|lia].
  - inversion Hd; subst. exists 1%nat. intros fuel Hf. destruct fuel as [|f]; [lia|]. cbn [loop]. rewrite H.
    eexists. eexists. split; [reflexivity|lia].
  - destruct (IH s o Hd) as [F HF]. exists (S F). intros fuel Hf. destruct fuel as [|f]; [lia|].
    cbn [loop]. rewrite H. destruct (HF f) as [l' [n' [E Hc]]]; [lia|]. rewrite E.
    eexists. eexists. split; [reflexivity|]. rewrite count_app. lia.
  - pose proof (term_item_count id t s v) as Hti.
    destruct (term_item t s v) as [l1 tr] eqn:Et. cbn [snd] in Hd. cbn [fst] in Hti. cbn [length].
    destruct tr as [s'|o'].
    + destruct (IH s' o Hd) as [F HF]. exists (S F). intros fuel Hf. destruct fuel as [|f]; [lia|].
      cbn [loop]. rewrite H, Et. destruct (HF f) as [l' [n' [E Hc]]]; [lia|]. rewrite E.
      eexists. eexists. split; [reflexivity|]. rewrite !count_app. lia.
    + inversion Hd; subst. exists 1%nat. intros fuel Hf. destruct fuel as [|f]; [lia|]. cbn [loop]. rewrite H, Et.
      eexists. eexists. split; [reflexivity|]. rewrite count_app. lia.
Qed.

(* ------------------------------------------------------------------ sources, through, + *)

Lemma numbers_open_c : forall n k i, i + Z.of_nat k <= n -> yc (PNumbers n) (QNum i) (zrange i k) Open O.
Proof.
  intros n. induction k as [|k IH]; intros i H; cbn [zrange].
  - apply C_open.
  - apply (C_item _ _ [] i (QNum (i + 1)) _ _ O).
    + cbn [next]. destruct (Z.ltb_spec i n); [reflexivity|lia].
    + apply IH. lia.
Qed.

Lemma numbers_closed_c : forall n k i, Z.of_nat k = Z.max 0 (n - i) -> yc (PNumbers n) (QNum i) (zrange i k) Closed O.
Proof.
  intros n. induction k as [|k IH]; intros i H; cbn [zrange].
  - apply (C_done _ _ []). cbn [next]. destruct (Z.ltb_spec i n); [lia|reflexivity].
  - apply (C_item _ _ [] i (QNum (i + 1)) _ _ O).
    + cbn [next]. destruct (Z.ltb_spec i n); [reflexivity|lia].
    + apply IH. lia.
Qed.

Lemma list_open_c : forall l0 l k, yc (PList l0) (QList l) (firstn k l) Open O.
Proof.
  intros l0. induction l as [|x r IH]; intros k.
  - destruct k; cbn; apply C_open.
  - destruct k; cbn [firstn]; [apply C_open|].
    apply (C_item _ _ [] x (QList r) _ _ O); [reflexivity|apply IH].
Qed.

Lemma list_closed_c : forall l0 l, yc (PList l0) (QList l) l Closed O.
Proof.
  intros l0. induction l as [|x r IH].
  - apply (C_done _ _ []). reflexivity.
  - apply (C_item _ _ [] x (QList r) _ _ O); [reflexivity|exact IH].
Qed.

Lemma through_c : forall cx p q items st c, yc p q items st c -> yc (PThrough cx p) q items st c.
Proof.
  intros cx p q items st c H. induction H.
  - apply C_open.
  - eapply C_done. cbn [next]. eassumption.
  - eapply C_fail. cbn [next]. eassumption.
  - eapply C_skip; [cbn [next]; eassumption|assumption].
  - eapply C_item; [cbn [next]; eassumption|assumption].
Qed.

Lemma app_right_c : forall p1 p2 q1 q2 items st c, yc p2 q2 items st c -> yc (PApp p1 p2) (QApp true q1 q2) items st c.
Proof.
  intros p1 p2 q1 q2 items st c H. induction H.
  - apply C_open.
  - eapply C_done. cbn [next]. rewrite H. reflexivity.
  - eapply C_fail. cbn [next]. rewrite H. reflexivity.
  - eapply C_skip; [cbn [next]; rewrite H; reflexivity|assumption].
  - eapply C_item; [cbn [next]; rewrite H; reflexivity|assumption].
Qed.

Lemma app_left_c : forall p1 p2 q1 q2 items st c1, yc p1 q1 items st c1 ->
  forall items2 st2 c2, (st = Closed -> yc p2 q2 items2 st2 c2) ->
  exists c, yc (PApp p1 p2) (QApp false q1 q2)
    (match st with Closed => items ++ items2 | _ => items end)
    (match st with Closed => st2 | _ => st end) c /\ (c <= c1 + c2)%nat.
Proof.
  intros p1 p2 q1 q2 items st c1 H. induction H; intros items2 st2 c2 H2.
  - exists O. split; [apply C_open|lia].
  - cbn [app]. eexists. split.
    + eapply C_skip; [cbn [next]; rewrite H; reflexivity|]. apply app_right_c. apply H2. reflexivity.
    + lia.
  - eexists. split; [eapply C_fail; cbn [next]; rewrite H; reflexivity|lia].
  - destruct (IHyc items2 st2 c2 H2) as [c' [Hy Hc]]. eexists. split.
    + eapply C_skip; [cbn [next]; rewrite H; reflexivity|exact Hy].
    + lia.
  - destruct (IHyc items2 st2 c2 H2) as [c' [Hy Hc]]. eexists. split.
    + destruct st; cbn [app] in *; (eapply C_item; [cbn [next]; rewrite H; reflexivity|exact Hy]).
    + lia.
Qed.

(* ------------------------------------------------------------------ stages *)

Lemma ycB_item : forall P Q L o Q' pl B B', next P Q = (L, Item o Q') -> ycB P Q' pl B ->
  (count id L + B <= B')%nat -> ycB P Q (o :: fst pl, snd pl) B'.
Proof.
  intros P Q L o Q' pl B B' H [c [Hy Hc]] Hle. exists (count id L + c)%nat. cbn [fst snd].
  split; [eapply C_item; eassumption|lia].
Qed.

Lemma ycB_skip : forall P Q L Q' pl B B', next P Q = (L, Skip Q') -> ycB P Q' pl B ->
  (count id L + B <= B')%nat -> ycB P Q pl B'.
Proof.
  intros P Q L Q' pl B B' H [c [Hy Hc]] Hle. exists (count id L + c)%nat.
  split; [eapply C_skip; eassumption|lia].
Qed.

Lemma ycB_fail : forall P Q L e B', next P Q = (L, Fail e) -> (count id L <= B')%nat -> ycB P Q ([], Failed e) B'.
Proof. intros P Q L e B' H Hle. exists (count id L). cbn [fst snd]. split; [eapply C_fail; eassumption|lia]. Qed.

Lemma ycB_done : forall P Q L B', next P Q = (L, Done) -> (count id L <= B')%nat -> ycB P Q ([], Closed) B'.
Proof. intros P Q L B' H Hle. exists (count id L). cbn [fst snd]. split; [eapply C_done; eassumption|lia]. Qed.

Lemma ycB_open : forall P Q B', ycB P Q ([], Open) B'.
Proof. intros P Q B'. exists O. cbn [fst snd]. split; [apply C_open|lia]. Qed.

(* K = occ_stage id s: what one call of the stage's closure may add *)
Lemma stage_item_c : forall s p q l v q' items st ss c,
  stage_done s ss = false -> next p q = (l, Item v q') ->
  (forall ss', ycB (PStage s p) (QStage ss' q') (sfun s ss' items st) (c + occ_stage id s * length items)) ->
  ycB (PStage s p) (QStage ss q) (sfun s ss (v :: items) st)
      (count id l + c + occ_stage id s * length (v :: items)).
Proof.
  intros s p q l v q' items st ss c Hd Hn IH.
  pose proof (next_stage_live s p ss q l _ Hd Hn) as E. cbn beta iota in E.
  pose proof (stage_item_count id s ss l v q') as HL. rewrite <- E in HL.
  cbn [length]. rewrite Nat.mul_succ_r.
  destruct s as [i f|i pr|i g|i g|i0 f0 i g|i eq|n|n]; cbn [stage_item] in E; cbn [sfun].
  - cbn [map_until]. destruct (f v) as [y|e].
    + specialize (IH ss). cbn [sfun] in IH. destruct (map_until f items) as [ys e]. rewrite cut_cons.
      rewrite E in HL. cbn [fst] in HL. eapply ycB_item; [exact E|exact IH|lia].
    + cbn [cut]. rewrite E in HL. cbn [fst] in HL. eapply ycB_fail; [exact E|lia].
  - cbn [filter_until]. destruct (pr v) as [[|]|e].
    + specialize (IH ss). cbn [sfun] in IH. destruct (filter_until pr items) as [ys e]. rewrite cut_cons.
      rewrite E in HL. cbn [fst] in HL. eapply ycB_item; [exact E|exact IH|lia].
    + specialize (IH ss). cbn [sfun] in IH. destruct (filter_until pr items) as [ys e].
      rewrite E in HL. cbn [fst] in HL. eapply ycB_skip; [exact E|exact IH|lia].
    + cbn [cut]. rewrite E in HL. cbn [fst] in HL. eapply ycB_fail; [exact E|lia].
  - destruct (lastv ss) as [a|] eqn:El.
    + cbn [pairs_until]. destruct (g a v) as [y|e].
      * specialize (IH (mk_sst (cnt ss) (Some v) (lastr ss))). cbn [sfun lastv] in IH.
        destruct (pairs_until g v items) as [ys e]. rewrite cut_cons.
        rewrite E in HL. cbn [fst] in HL. eapply ycB_item; [exact E|exact IH|lia].
      * cbn [cut]. rewrite E in HL. cbn [fst] in HL. eapply ycB_fail; [exact E|lia].
    + cbn [spec_stage]. specialize (IH (mk_sst (cnt ss) (Some v) (lastr ss))). cbn [sfun lastv] in IH.
      rewrite E in HL. cbn [fst] in HL. eapply ycB_skip; [exact E|exact IH|lia].
  - cbn [number_until]. destruct (g (cnt ss) v) as [y|e].
    + specialize (IH (mk_sst (cnt ss + 1) (lastv ss) (lastr ss))). cbn [sfun cnt] in IH.
      destruct (number_until g (cnt ss + 1) items) as [ys e]. rewrite cut_cons.
      rewrite E in HL. cbn [fst] in HL. eapply ycB_item; [exact E|exact IH|lia].
    + cbn [cut]. rewrite E in HL. cbn [fst] in HL. eapply ycB_fail; [exact E|lia].
  - destruct (lastr ss) as [r|] eqn:El.
    + cbn [scan_until]. destruct (g v r) as [y|e].
      * specialize (IH (mk_sst (cnt ss) (Some v) (Some y))). cbn [sfun lastr] in IH.
        destruct (scan_until g y items) as [ys e]. rewrite cut_cons.
        rewrite E in HL. cbn [fst] in HL. eapply ycB_item; [exact E|exact IH|lia].
      * cbn [cut]. rewrite E in HL. cbn [fst] in HL. eapply ycB_fail; [exact E|lia].
    + cbn [spec_stage]. destruct (f0 v) as [y|e].
      * specialize (IH (mk_sst (cnt ss) (Some v) (Some y))). cbn [sfun lastr] in IH.
        destruct (scan_until g y items) as [ys e]. rewrite cut_cons.
        rewrite E in HL. cbn [fst] in HL. eapply ycB_item; [exact E|exact IH|lia].
      * rewrite E in HL. cbn [fst] in HL. eapply ycB_fail; [exact E|lia].
  - destruct (lastv ss) as [a|] eqn:El.
    + cbn [compact_until]. destruct (eq a v) as [[|]|e].
      * specialize (IH ss). cbn [sfun] in IH. rewrite El in IH.
        rewrite E in HL. cbn [fst] in HL. eapply ycB_skip; [exact E|exact IH|lia].
      * specialize (IH (mk_sst (cnt ss) (Some v) (lastr ss))). cbn [sfun lastv] in IH.
        destruct (compact_until eq v items) as [ys e]. rewrite cut_cons.
        rewrite E in HL. cbn [fst] in HL. eapply ycB_item; [exact E|exact IH|lia].
      * cbn [cut]. rewrite E in HL. cbn [fst] in HL. eapply ycB_fail; [exact E|lia].
    + cbn [spec_stage]. specialize (IH (mk_sst (cnt ss) (Some v) (lastr ss))). cbn [sfun lastv] in IH.
      destruct (compact_until eq v items) as [ys e]. rewrite cut_cons.
      rewrite E in HL. cbn [fst] in HL. eapply ycB_item; [exact E|exact IH|lia].
  - destruct (Z.ltb_spec (cnt ss) n) as [Hlt|Hge].
    + specialize (IH (mk_sst (cnt ss + 1) (lastv ss) (lastr ss))). cbn [sfun cnt] in IH.
      replace (Z.to_nat (n - cnt ss)) with (S (Z.to_nat (n - (cnt ss + 1)))) by lia. cbn [skipn].
      rewrite E in HL. cbn [fst] in HL. eapply ycB_skip; [exact E|exact IH|lia].
    + specialize (IH ss). cbn [sfun] in IH.
      replace (Z.to_nat (n - cnt ss)) with O in * by lia. cbn [skipn] in *.
      rewrite E in HL. cbn [fst] in HL.
      eapply (ycB_item _ _ _ _ _ (items, st)); [exact E|exact IH|lia].
  - cbn [stage_done] in Hd. cbn [top_from]. rewrite Hd.
    specialize (IH (mk_sst (cnt ss + 1) (lastv ss) (lastr ss))). cbn [sfun cnt] in IH.
    destruct (top_from n (cnt ss + 1) items st) as [ys st'].
    rewrite E in HL. cbn [fst] in HL.
    eapply (ycB_item _ _ _ _ _ (ys, st')); [exact E|exact IH|lia].
Qed.

Lemma stage_done_c : forall s p ss q items st B, stage_done s ss = true ->
  ycB (PStage s p) (QStage ss q) (sfun s ss items st) B.
Proof.
  intros s p ss q items st B Ed. destruct s; try discriminate. cbn [stage_done] in Ed. cbn [sfun].
  rewrite top_from_done by exact Ed. eapply (ycB_done _ _ []); [|cbn; lia].
  cbn [next stage_done]. rewrite Ed. reflexivity.
Qed.

Lemma stage_c : forall s p q items st c, yc p q items st c ->
  forall ss, ycB (PStage s p) (QStage ss q) (sfun s ss items st) (c + occ_stage id s * length items).
Proof.
  intros s p q items st c H.
  induction H as [q|q l H|q l e H|q l q' items st c H Hy IH|q l v q' items st c H Hy IH]; intros ss;
    (destruct (stage_done s ss) eqn:Ed; [apply stage_done_c; exact Ed|]).
  - rewrite sfun_nil by exact Ed. apply ycB_open.
  - rewrite sfun_nil by exact Ed. eapply ycB_done; [rewrite (next_stage_live s p ss q l _ Ed H); reflexivity|lia].
  - rewrite sfun_nil by exact Ed. eapply ycB_fail; [rewrite (next_stage_live s p ss q l _ Ed H); reflexivity|lia].
  - eapply ycB_skip; [rewrite (next_stage_live s p ss q l _ Ed H); reflexivity|apply IH|lia].
  - eapply ycB_mono; [eapply stage_item_c; eassumption|lia].
Qed.

End Count.

(* ------------------------------------------------------------------ cross *)

Section CrossC.
  Variables (id ci : N) (g : fn2) (p1 p2 : pipe) (lb : list Z) (stb : status) (c2 : nat).
  Hypothesis H2 : yc id p2 (init p2) lb stb c2.
  Let PC := PCross ci g p1 p2.
  Let k := b2n (N.eqb ci id).

  Lemma cross_row_c : forall a q1 K BK, (forall q2x, ycB id PC (QCross None q1 q2x) K BK) ->
    forall q2 l2 c, yc id p2 q2 l2 stb c ->
    ycB id PC (QCross (Some a) q1 q2) (row_result g stb a l2 K) (c + k * length l2 + BK).
  Proof.
    intros a q1 K BK HK q2 l2 c H. unfold row_result.
    remember stb as st0 eqn:Est in H.
    induction H as [q|q l H|q l e H|q l q' items st c H Hy IH|q l v q' items st c H Hy IH].
    - cbn [map_until]. rewrite <- Est. apply ycB_open.
    - cbn [map_until app]. rewrite <- Est.
      eapply (ycB_skip id _ _ _ _ K); [unfold PC; cbn [next]; rewrite H; reflexivity|apply HK|lia].
    - cbn [map_until]. rewrite <- Est.
      eapply ycB_fail; [unfold PC; cbn [next]; rewrite H; reflexivity|lia].
    - specialize (IH Est). eapply ycB_skip; [unfold PC; cbn [next]; rewrite H; reflexivity|exact IH|lia].
    - specialize (IH Est). cbn [map_until length]. destruct (g a v) as [o|e] eqn:Eg.
      + destruct (map_until (g a) items) as [r e].
        assert (En : next PC (QCross (Some a) q1 q) = (l ++ [Ev ci [a; v]], Item o (QCross (Some a) q1 q'))).
        { unfold PC. cbn [next]. rewrite H, Eg. reflexivity. }
        assert (Hc : count id (l ++ [Ev ci [a; v]]) = (count id l + k)%nat).
        { rewrite count_app, count_one. reflexivity. }
        destruct e as [e|].
        * eapply (ycB_item id _ _ _ _ _ (r, Failed e)); [exact En|exact IH|rewrite Hc; nia].
        * destruct stb; cbn [app].
          -- eapply (ycB_item id _ _ _ _ _ (r, Open)); [exact En|exact IH|rewrite Hc; nia].
          -- eapply (ycB_item id _ _ _ _ _ (r ++ fst K, snd K)); [exact En|exact IH|rewrite Hc; nia].
          -- eapply (ycB_item id _ _ _ _ _ (r, Failed e)); [exact En|exact IH|rewrite Hc; nia].
      + eapply ycB_fail; [unfold PC; cbn [next]; rewrite H, Eg; reflexivity|].
        rewrite count_app, count_one. fold k. nia.
  Qed.

  Lemma cross_outer_c : forall q1 la sta c1, yc id p1 q1 la sta c1 ->
    forall q2, ycB id PC (QCross None q1 q2) (crossF g lb stb la sta) (c1 + length la * (c2 + k * length lb)).
  Proof.
    intros q1 la sta c1 H.
    induction H as [q|q l H|q l e H|q l q' items st c H Hy IH|q l v q' items st c H Hy IH]; intros q2;
      cbn [crossF].
    - apply ycB_open.
    - eapply ycB_done; [unfold PC; cbn [next]; rewrite H; reflexivity|lia].
    - eapply ycB_fail; [unfold PC; cbn [next]; rewrite H; reflexivity|lia].
    - eapply ycB_skip; [unfold PC; cbn [next]; rewrite H; reflexivity|apply IH|lia].
    - eapply ycB_skip; [unfold PC; cbn [next]; rewrite H; reflexivity| |].
      + apply cross_row_c; [exact IH|exact H2].
      + cbn [length]. nia.
  Qed.
End CrossC.

(* ------------------------------------------------------------------ merge *)

Section MergeC.
  Variables (id ci : N) (less : pr2) (p1 p2 : pipe).
  Let PM := PMerge ci less p1 p2.
  Let k := b2n (N.eqb ci id).

  Lemma merge_b_ended_c : forall q1 la sta c1, yc id p1 q1 la sta c1 ->
    forall q2, ycB id PM (QMerge false true None None q1 q2) (la, sta) c1.
  Proof.
    intros q1 la sta c1 H.
    induction H as [q|q l H|q l e H|q l q' items st c H Hy IH|q l v q' items st c H Hy IH]; intros q2.
    - apply ycB_open.
    - eapply (ycB_skip id _ _ _ _ ([], Closed) O); [unfold PM; cbn [next]; rewrite H; reflexivity| |lia].
      eapply (ycB_done id _ _ []); [unfold PM; cbn [next]; reflexivity|cbn; lia].
    - eapply ycB_fail; [unfold PM; cbn [next]; rewrite H; reflexivity|lia].
    - eapply ycB_skip; [unfold PM; cbn [next]; rewrite H; reflexivity|apply IH|lia].
    - eapply (ycB_skip id _ _ _ _ (v :: items, st) c); [unfold PM; cbn [next]; rewrite H; reflexivity| |lia].
      eapply (ycB_item id _ _ [] _ _ (items, st)); [unfold PM; cbn [next]; reflexivity|apply IH|cbn; lia].
  Qed.

  Lemma merge_a_ended_none_c : forall q2 lb stb c2, yc id p2 q2 lb stb c2 ->
    forall q1, ycB id PM (QMerge true false None None q1 q2) (lb, stb) c2.
  Proof.
    intros q2 lb stb c2 H.
    induction H as [q|q l H|q l e H|q l q' items st c H Hy IH|q l v q' items st c H Hy IH]; intros q1.
    - apply ycB_open.
    - eapply (ycB_skip id _ _ _ _ ([], Closed) O); [unfold PM; cbn [next]; rewrite H; reflexivity| |lia].
      eapply (ycB_done id _ _ []); [unfold PM; cbn [next]; reflexivity|cbn; lia].
    - eapply ycB_fail; [unfold PM; cbn [next]; rewrite H; reflexivity|lia].
    - eapply ycB_skip; [unfold PM; cbn [next]; rewrite H; reflexivity|apply IH|lia].
    - eapply (ycB_skip id _ _ _ _ (v :: items, st) c); [unfold PM; cbn [next]; rewrite H; reflexivity| |lia].
      eapply (ycB_item id _ _ [] _ _ (items, st)); [unfold PM; cbn [next]; reflexivity|apply IH|cbn; lia].
  Qed.

  Lemma merge_a_ended_c : forall q2 lb stb c2, yc id p2 q2 lb stb c2 ->
    forall b q1, ycB id PM (QMerge true false None b q1 q2) (ob b ++ lb, stb) c2.
  Proof.
    intros q2 lb stb c2 H b q1. destruct b as [y|]; cbn [ob app].
    - eapply (ycB_item id _ _ [] _ _ (lb, stb) c2); [unfold PM; cbn [next]; reflexivity| |cbn; lia].
      apply merge_a_ended_none_c. exact H.
    - apply merge_a_ended_none_c. exact H.
  Qed.

  Lemma merge_a_waiting_c : forall x la sta q1 cA,
    (forall b q2 lb stb c2, yc id p2 q2 lb stb c2 ->
       ycB id PM (QMerge false false None b q1 q2) (mergeF less la sta (ob b ++ lb) stb)
           (cA + c2 + k * (length la + length (ob b ++ lb)))) ->
    (forall q2, ycB id PM (QMerge false true None None q1 q2) (la, sta) cA) ->
    forall q2 lb stb c2, yc id p2 q2 lb stb c2 ->
    ycB id PM (QMerge false false (Some x) None q1 q2) (mergeF less (x :: la) sta lb stb)
        (cA + c2 + k * (S (length la) + length lb)).
  Proof.
    intros x la sta q1 cA IHA HE q2 lb stb c2 H.
    induction H as [q|q l H|q l e H|q l q' items st c H Hy IH|q l v q' items st c H Hy IH].
    - rewrite mergeF_cons_nil. apply ycB_open.
    - rewrite mergeF_cons_nil. cbn [end_side].
      eapply (ycB_skip id _ _ _ _ (x :: la, sta) cA); [unfold PM; cbn [next]; rewrite H; reflexivity| |lia].
      eapply (ycB_item id _ _ [] _ _ (la, sta)); [unfold PM; cbn [next]; reflexivity|apply HE|cbn; lia].
    - rewrite mergeF_cons_nil. cbn [end_side].
      eapply ycB_fail; [unfold PM; cbn [next]; rewrite H; reflexivity|lia].
    - eapply ycB_skip; [unfold PM; cbn [next]; rewrite H; reflexivity|exact IH|lia].
    - rewrite mergeF_cons_cons. cbn [length].
      assert (Hk : count id [Ev ci [x; v]] = k) by (rewrite count_one; reflexivity).
      destruct (less x v) as [[|]|e] eqn:El.
      + eapply (ycB_skip id _ _ _ _ _ (k + (cA + c + k * (length la + S (length items)))));
          [unfold PM; cbn [next]; rewrite H; reflexivity| |nia].
        eapply (ycB_item id _ _ [Ev ci [x; v]]); [unfold PM; cbn [next]; rewrite El; reflexivity
          |apply (IHA (Some v) q' items st c Hy)|rewrite Hk; cbn [ob app length]; lia].
      + eapply (ycB_skip id _ _ _ _ _ (k + (cA + c + k * (S (length la) + length items))));
          [unfold PM; cbn [next]; rewrite H; reflexivity| |nia].
        eapply (ycB_item id _ _ [Ev ci [x; v]]); [unfold PM; cbn [next]; rewrite El; reflexivity|exact IH|rewrite Hk; lia].
      + eapply (ycB_skip id _ _ _ _ _ k); [unfold PM; cbn [next]; rewrite H; reflexivity| |nia].
        eapply ycB_fail; [unfold PM; cbn [next]; rewrite El; reflexivity|rewrite Hk; lia].
  Qed.

  Lemma merge_main_c : forall q1 la sta c1, yc id p1 q1 la sta c1 ->
    forall b q2 lb stb c2, yc id p2 q2 lb stb c2 ->
    ycB id PM (QMerge false false None b q1 q2) (mergeF less la sta (ob b ++ lb) stb)
        (c1 + c2 + k * (length la + length (ob b ++ lb))).
  Proof.
    intros q1 la sta c1 H.
    induction H as [q|q l H|q l e H|q l q' items st c H Hy IH|q l v q' items st c H Hy IH];
      intros b q2 lb stb c2 H2.
    - apply ycB_open.
    - cbn [mergeF end_side]. eapply ycB_skip; [unfold PM; cbn [next]; rewrite H; reflexivity| |].
      + apply merge_a_ended_c. exact H2.
      + lia.
    - cbn [mergeF end_side]. eapply ycB_fail; [unfold PM; cbn [next]; rewrite H; reflexivity|lia].
    - eapply ycB_skip; [unfold PM; cbn [next]; rewrite H; reflexivity|apply IH; exact H2|lia].
    - assert (HE : forall q2x, ycB id PM (QMerge false true None None q' q2x) (items, st) c).
      { intros q2x. apply merge_b_ended_c. exact Hy. }
      cbn [length].
      destruct b as [y|]; cbn [ob app length].
      + rewrite mergeF_cons_cons.
        assert (Hk : count id [Ev ci [v; y]] = k) by (rewrite count_one; reflexivity).
        destruct (less v y) as [[|]|e] eqn:El.
        * eapply (ycB_skip id _ _ _ _ _ (k + (c + c2 + k * (length items + length (ob (Some y) ++ lb)))));
            [unfold PM; cbn [next]; rewrite H; reflexivity| |cbn [ob app length]; nia].
          eapply (ycB_item id _ _ [Ev ci [v; y]]); [unfold PM; cbn [next]; rewrite El; reflexivity
            |apply (IH (Some y) q2 lb stb c2 H2)|rewrite Hk; lia].
        * eapply (ycB_skip id _ _ _ _ _ (k + (c + c2 + k * (S (length items) + length lb))));
            [unfold PM; cbn [next]; rewrite H; reflexivity| |nia].
          eapply (ycB_item id _ _ [Ev ci [v; y]]); [unfold PM; cbn [next]; rewrite El; reflexivity
            |apply merge_a_waiting_c; [exact IH|exact HE|exact H2]|rewrite Hk; lia].
        * eapply (ycB_skip id _ _ _ _ _ k); [unfold PM; cbn [next]; rewrite H; reflexivity| |nia].
          eapply ycB_fail; [unfold PM; cbn [next]; rewrite El; reflexivity|rewrite Hk; lia].
      + eapply ycB_skip; [unfold PM; cbn [next]; rewrite H; reflexivity| |].
        * apply merge_a_waiting_c; [exact IH|exact HE|exact H2].
        * lia.
  Qed.
End MergeC.

(* ------------------------------------------------------------------ all pipelines *)

Section Final.
  Variable id : N.

  (* calls of the closures named id in the eager evaluation of the prefix N0: every stage calls its
     closure at most once per item of its input; cross iterates its second list once per row *)
  Fixpoint obs_bound (N0 : nat) (p : pipe) : nat :=
    match p with
    | PNumbers _ | PList _ => O
    | PStage s p' => (obs_bound N0 p' + occ_stage id s * length (fst (spec_pipe N0 p')))%nat
    | PApp a b => (obs_bound N0 a + obs_bound N0 b)%nat
    | PCross ci _ a b =>
        (obs_bound N0 a + length (fst (spec_pipe N0 a)) *
           (obs_bound N0 b + b2n (N.eqb ci id) * length (fst (spec_pipe N0 b))))%nat
    | PMerge ci _ a b =>
        (obs_bound N0 a + obs_bound N0 b +
           b2n (N.eqb ci id) * (length (fst (spec_pipe N0 a)) + length (fst (spec_pipe N0 b))))%nat
    | PThrough _ p' => obs_bound N0 p'
    end.

  Lemma pipe_yc_all : forall p N0, ycB id p (init p) (spec_pipe N0 p) (obs_bound N0 p).
  Proof.
    induction p as [n|l|s p IH|p1 IH1 p2 IH2|ci g p1 IH1 p2 IH2|ci less p1 IH1 p2 IH2|cx p IH]; intros N0;
      cbn [init spec_pipe obs_bound].
    - exists O. split; [|lia]. destruct (Z.ltb_spec (Z.of_nat N0) n); cbn [fst snd].
      + apply numbers_open_c. lia.
      + apply numbers_closed_c. lia.
    - exists O. split; [|lia]. destruct (Nat.ltb_spec N0 (length l)); cbn [fst snd].
      + apply list_open_c.
      + apply list_closed_c.
    - destruct (IH N0) as [c [Hy Hc]]. destruct (spec_pipe N0 p) as [items st]. cbn [fst snd] in *.
      rewrite <- sfun_init. eapply ycB_mono; [apply stage_c; exact Hy|]. nia.
    - destruct (IH1 N0) as [c1 [Hy1 Hc1]]. destruct (IH2 N0) as [c2 [Hy2 Hc2]].
      destruct (spec_pipe N0 p1) as [i1 st1]. destruct (spec_pipe N0 p2) as [i2 st2]. cbn [fst snd] in *.
      destruct (app_left_c id p1 p2 (init p1) (init p2) i1 st1 c1 Hy1 i2 st2 c2 (fun _ => Hy2)) as [c [Hy Hc]].
      exists c. split; [|lia]. destruct st1; exact Hy.
    - destruct (IH1 N0) as [c1 [Hy1 Hc1]]. destruct (IH2 N0) as [c2 [Hy2 Hc2]].
      pose proof (pipe_yields_all p2 N0) as Hp2.
      destruct (spec_pipe N0 p1) as [la sta]. destruct (spec_pipe N0 p2) as [lb stb].
      unfold yieldsP in Hp2. cbn [fst snd] in *.
      rewrite <- (crossF_spec g p2 lb stb Hp2 la sta).
      eapply ycB_mono; [apply (cross_outer_c id ci g p1 p2 lb stb c2 Hy2 (init p1) la sta c1 Hy1)|]. nia.
    - destruct (IH1 N0) as [c1 [Hy1 Hc1]]. destruct (IH2 N0) as [c2 [Hy2 Hc2]].
      destruct (spec_pipe N0 p1) as [la sta]. destruct (spec_pipe N0 p2) as [lb stb]. cbn [fst snd] in *.
      rewrite spec_merge_mergeF by lia.
      eapply ycB_mono;
        [apply (merge_main_c id ci less p1 p2 (init p1) la sta c1 Hy1 None (init p2) lb stb c2 Hy2)|].
      cbn [ob app]. nia.
    - destruct (IH N0) as [c [Hy Hc]]. exists c. split; [apply through_c; exact Hy|exact Hc].
  Qed.

  (* outcome and closure counts together *)
  Lemma run_refines_spec_count : forall p t N0 o,
    spec_term t (spec_pipe N0 p) = Some o ->
    exists F, forall fuel, (F <= fuel)%nat -> exists l n, run fuel t p = (l, o, n) /\
      (count id l <= obs_bound N0 p + occ_term id t * length (fst (spec_pipe N0 p)))%nat.
  Proof.
    intros p t N0 o Hs. destruct (term_none_dec' t) as [E|E].
    - subst t. destruct (spec_pipe N0 p). cbn in Hs. inversion Hs; subst. exists O. intros fuel _.
      eexists. eexists. split; [reflexivity|]. cbn. lia.
    - destruct (pipe_yc_all p N0) as [c [Hy Hc]]. destruct (spec_pipe N0 p) as [items st]. cbn [fst snd] in *.
      rewrite <- (tdec_spec t items st E) in Hs.
      destruct (loop_decided_count id p t (init p) items st c Hy tst0 o Hs) as [F HF].
      exists F. intros fuel Hf. destruct (HF fuel Hf) as [l [n [El Hl]]]. exists l, n.
      split; [destruct t; try congruence; exact El|lia].
  Qed.

  (* ... and that bound is the one c08_is evaluates (spec_bound, which allows one call more) *)
  Definition sumf (L : list (N * nat)) : nat :=
    fold_right (fun (e : N * nat) acc => if N.eqb (fst e) id then (snd e + acc)%nat else acc) O L.

  Lemma sumf_app : forall a b, sumf (a ++ b) = (sumf a + sumf b)%nat.
  Proof.
    induction a as [|e a IH]; intros b; cbn [app sumf fold_right]; [reflexivity|].
    fold (sumf (a ++ b)). fold (sumf a). rewrite IH. destruct (N.eqb (fst e) id); lia.
  Qed.

  Lemma sumf_scale : forall m L, sumf (map (fun e : N * nat => (fst e, (snd e * m)%nat)) L) = (sumf L * m)%nat.
  Proof.
    intros m. induction L as [|e L IH]; cbn [map sumf fold_right fst snd]; [reflexivity|].
    fold (sumf (map (fun e : N * nat => (fst e, (snd e * m)%nat)) L)). fold (sumf L). rewrite IH.
    destruct (N.eqb (fst e) id); lia.
  Qed.

  Lemma sumf_ids_stage : forall s n, sumf (map (fun i => (i, n)) (ids_stage s)) = (occ_stage id s * n)%nat.
  Proof.
    intros s n. destruct s; cbn [ids_stage map sumf fold_right fst snd occ_stage];
      repeat match goal with |- context [N.eqb ?a id] => destruct (N.eqb a id) end; cbn [b2n]; lia.
  Qed.

  Lemma sumf_ids_term : forall t n, sumf (map (fun i => (i, n)) (ids_term t)) = (occ_term id t * n)%nat.
  Proof.
    intros t n. destruct t; cbn [ids_term map sumf fold_right fst snd occ_term];
      repeat match goal with |- context [N.eqb ?a id] => destruct (N.eqb a id) end; cbn [b2n]; lia.
  Qed.

  Lemma obs_bound_inputs : forall p N0, (obs_bound N0 p <= sumf (spec_inputs N0 p))%nat.
  Proof.
    induction p as [n|l|s p IH|p1 IH1 p2 IH2|ci g p1 IH1 p2 IH2|ci less p1 IH1 p2 IH2|cx p IH]; intros N0;
      cbn [obs_bound spec_inputs].
    - cbn. lia.
    - cbn. lia.
    - rewrite sumf_app, sumf_ids_stage. specialize (IH N0). lia.
    - rewrite sumf_app. specialize (IH1 N0). specialize (IH2 N0). lia.
    - specialize (IH1 N0). specialize (IH2 N0).
      cbn [sumf fold_right fst snd]. fold (sumf (spec_inputs N0 p1 ++
        map (fun e : N * nat => (fst e, (snd e * Nat.max 1 (length (fst (spec_pipe N0 p1))))%nat)) (spec_inputs N0 p2))).
      rewrite sumf_app, sumf_scale.
      destruct (N.eqb ci id); cbn [b2n]; nia.
    - specialize (IH1 N0). specialize (IH2 N0).
      cbn [sumf fold_right fst snd]. fold (sumf (spec_inputs N0 p1 ++ spec_inputs N0 p2)).
      rewrite sumf_app. destruct (N.eqb ci id); cbn [b2n]; nia.
    - apply IH.
  Qed.

  Lemma run_refines_spec_bound : forall p t N0 o,
    spec_term t (spec_pipe N0 p) = Some o ->
    exists F, forall fuel, (F <= fuel)%nat -> exists l n, run fuel t p = (l, o, n) /\
      (count id l <= spec_bound N0 t p id)%nat.
  Proof.
    intros p t N0 o Hs. destruct (run_refines_spec_count p t N0 o Hs) as [F HF]. exists F.
    intros fuel Hf. destruct (HF fuel Hf) as [l [n [E Hc]]]. exists l, n. split; [exact E|].
    unfold spec_bound. fold (sumf (spec_inputs N0 p ++ map (fun i => (i, length (fst (spec_pipe N0 p)))) (ids_term t))).
    rewrite sumf_app, sumf_ids_term. pose proof (obs_bound_inputs p N0). lia.
  Qed.
End Final.

Lemma run_refines_spec_need_bound : forall id B p t N0 o,
  spec_need B t p = Some (N0, o) ->
  exists F, forall fuel, (F <= fuel)%nat -> exists l n, run fuel t p = (l, o, n) /\
    (count id l <= spec_bound N0 t p id)%nat.
Proof. intros id B p t N0 o H. apply run_refines_spec_bound. eapply spec_need_sound. exact H. Qed.
