(* Proofs about the binning model (Lib/Binning.v): the index is the unique bin of the statement, mass is
   conserved, descriptions match the elements received, binning is additive and collectBinning over the
   binnings of the parts is the binning of the whole (1-d and 2-d). *)
From Coq Require Import QArith Qround Lia Setoid Morphisms.
From P2 Require Import Base.Prelude Lib.Binning.
Local Open Scope Q_scope.

(* ------------------------------------------------------------------------------------------ *)
(* Rationals: floor and division against integer multiples                                      *)
(* ------------------------------------------------------------------------------------------ *)

Lemma floor_ge_iff : forall (k : Z) (q : Q), (k <= Qfloor q)%Z <-> inject_Z k <= q.
Proof.
  intros k q. split; intro H.
  - apply Qle_trans with (inject_Z (Qfloor q)).
    + rewrite <- Zle_Qle. exact H.
    + apply Qfloor_le.
  - assert (Hlt : inject_Z k < inject_Z (Qfloor q + 1)).
    { apply Qle_lt_trans with q; [exact H | apply Qlt_floor]. }
    rewrite <- Zlt_Qlt in Hlt. lia.
Qed.

Lemma div_ge_iff : forall a b c : Q, 0 < c -> (a <= b / c <-> a * c <= b).
Proof.
  intros a b c Hc. split; intro H.
  - assert (Hne : ~ c == 0) by (intro E; rewrite E in Hc; exact (Qlt_irrefl 0 Hc)).
    assert (E : b == (b / c) * c) by (field; exact Hne).
    rewrite E. apply Qmult_le_compat_r; [exact H | apply Qlt_le_weak; exact Hc].
  - apply Qle_shift_div_l; assumption.
Qed.

Lemma size_nonzero : forall z : Q, 0 < z -> Qeq_bool z 0 = false.
Proof.
  intros z Hz. destruct (Qeq_bool z 0) eqn:E; [| reflexivity].
  apply Qeq_bool_eq in E. rewrite E in Hz. exfalso. exact (Qlt_irrefl 0 Hz).
Qed.

(* the k-th edge is at or below v  <->  k <= floor((v-start)/size) *)
Lemma edge_le_iff : forall (a : axis) (v : Q) (k : Z), 0 < a_size a ->
  ((k <= Qfloor ((v - a_start a) / a_size a))%Z <-> edge a k <= v).
Proof.
  intros a v k Hz. rewrite floor_ge_iff. rewrite (div_ge_iff _ _ _ Hz). unfold edge.
  split; intro H.
  - apply Qplus_le_l with (z := - a_start a).
    setoid_replace (a_start a + inject_Z k * a_size a + - a_start a) with (inject_Z k * a_size a) by ring.
    exact H.
  - apply Qplus_le_l with (z := a_start a).
    setoid_replace (inject_Z k * a_size a + a_start a) with (a_start a + inject_Z k * a_size a) by ring.
    setoid_replace (v - a_start a + a_start a) with v by ring.
    exact H.
Qed.

Lemma edge_succ_lt : forall (a : axis) (k : Z), 0 < a_size a -> edge a k < edge a (k + 1).
Proof.
  intros a k Hz. unfold edge. rewrite inject_Z_plus.
  setoid_replace (a_start a + (inject_Z k + inject_Z 1) * a_size a)
    with (a_start a + inject_Z k * a_size a + a_size a) by ring.
  rewrite <- (Qplus_0_r (a_start a + inject_Z k * a_size a)) at 1.
  apply Qplus_lt_r. exact Hz.
Qed.

Lemma edge_mono : forall (a : axis) (j k : Z), 0 < a_size a -> (j <= k)%Z -> edge a j <= edge a k.
Proof.
  intros a j k Hz Hjk. unfold edge. apply Qplus_le_r.
  apply Qmult_le_compat_r; [rewrite <- Zle_Qle; exact Hjk | apply Qlt_le_weak; exact Hz].
Qed.

(* ------------------------------------------------------------------------------------------ *)
(* getIndex                                                                                      *)
(* ------------------------------------------------------------------------------------------ *)

(* the index never leaves the slice (no "index out of range" in Add), for every size *)
Lemma get_index_range : forall (a : axis) (v : Q), (2 <= a_bins a)%Z ->
  (0 <= get_index a v < a_bins a)%Z.
Proof.
  intros a v Hb. unfold get_index.
  destruct (Qeq_bool (a_size a) 0).
  - destruct (Qpos_b (v - a_start a)); lia.
  - cbv zeta.
    destruct (Z.leb_spec (a_bins a - 1) (Qfloor ((v - a_start a) / a_size a) + 1)); [lia |].
    destruct (Z.ltb_spec 0 (Qfloor ((v - a_start a) / a_size a) + 1)); lia.
Qed.

(* for a positive size the index is floor((v-start)/size)+1 clamped into 0..bins-1 *)
Lemma get_index_clamp : forall (a : axis) (v : Q), 0 < a_size a -> (2 <= a_bins a)%Z ->
  get_index a v = Z.max 0 (Z.min (a_bins a - 1) (Qfloor ((v - a_start a) / a_size a) + 1)).
Proof.
  intros a v Hz Hb. unfold get_index. rewrite (size_nonzero _ Hz). cbv zeta.
  destruct (Z.leb_spec (a_bins a - 1) (Qfloor ((v - a_start a) / a_size a) + 1)).
  - destruct (Z.ltb_spec 0 (Qfloor ((v - a_start a) / a_size a) + 1)); lia.
  - destruct (Z.ltb_spec 0 (Qfloor ((v - a_start a) / a_size a) + 1)); lia.
Qed.

(* the key fact: edge k <= v  <->  k < index, for every edge k = 0..count *)
Lemma edge_le_index : forall (a : axis) (v : Q) (k : Z), 0 < a_size a -> (2 <= a_bins a)%Z ->
  (0 <= k <= count_of a)%Z -> (edge a k <= v <-> (k < get_index a v)%Z).
Proof.
  intros a v k Hz Hb Hk. rewrite <- (edge_le_iff a v k Hz). rewrite (get_index_clamp a v Hz Hb).
  unfold count_of in Hk. lia.
Qed.

(* C20 index_spec: exactly the bin of the statement *)
Lemma index_spec : forall (start size : Q) (count : N) (v : Q), 0 < size ->
  let a := new_axis start size count in
  let c := Z.of_N count in
  (get_index a v = 0%Z <-> v < start) /\
  (forall i : Z, (1 <= i <= c)%Z ->
     (get_index a v = i <-> start + inject_Z (i - 1) * size <= v /\ v < start + inject_Z i * size)) /\
  (get_index a v = (c + 1)%Z <-> start + inject_Z c * size <= v).
Proof.
  intros start size count v Hz a c.
  assert (Hza : 0 < a_size a) by exact Hz.
  assert (Hb : (2 <= a_bins a)%Z) by (unfold a, new_axis; cbn [a_bins]; lia).
  assert (Hc : count_of a = c) by (unfold count_of, a, new_axis; cbn [a_bins]; lia).
  assert (Hr := get_index_range a v Hb).
  assert (Hbins : a_bins a = (c + 2)%Z) by (unfold a, new_axis; cbn [a_bins]; lia).
  assert (HE : forall k, (0 <= k <= c)%Z -> (start + inject_Z k * size <= v <-> (k < get_index a v)%Z)).
  { intros k Hk. apply (edge_le_index a v k Hza Hb). rewrite Hc. exact Hk. }
  split; [| split].
  - assert (H0 := HE 0%Z ltac:(lia)).
    setoid_replace (start + inject_Z 0 * size) with start in H0 by ring.
    split; intro H.
    + apply Qnot_le_lt. intro Hle. apply H0 in Hle. lia.
    + destruct (Z.eq_dec (get_index a v) 0) as [E | NE]; [exact E |].
      exfalso. assert (Hlt : (0 < get_index a v)%Z) by lia.
      apply H0 in Hlt. exact (Qlt_not_le _ _ H Hlt).
  - intros i Hi.
    assert (H1 := HE (i - 1)%Z ltac:(lia)). assert (H2 := HE i ltac:(lia)).
    split; intro H.
    + split.
      * apply H1. lia.
      * apply Qnot_le_lt. intro Hle. apply H2 in Hle. lia.
    + destruct H as [Ha Hb']. apply H1 in Ha.
      assert (~ (i < get_index a v)%Z) by (intro Hlt; apply H2 in Hlt; exact (Qlt_not_le _ _ Hb' Hlt)).
      lia.
  - assert (H1 := HE c ltac:(lia)). split; intro H.
    + apply H1. lia.
    + apply H1 in H. lia.
Qed.

(* ---- the specification's index: number of edges 0..count at or below v ---- *)

Lemma zrange_from_length : forall n s, length (zrange_from s n) = n.
Proof. induction n as [| n IH]; intros s; cbn [zrange_from length]; [reflexivity | rewrite IH; reflexivity]. Qed.

Lemma zrange_length : forall n, length (zrange n) = n.
Proof. intro n. apply zrange_from_length. Qed.

(* a predicate that is true exactly below a threshold t selects t - s elements of s, s+1, ..., s+n-1 *)
Lemma count_below_threshold : forall (P : Z -> bool) (t : Z) (n : nat) (s : Z),
  (forall k, (s <= k < s + Z.of_nat n)%Z -> (P k = true <-> (k < t)%Z)) ->
  (s <= t <= s + Z.of_nat n)%Z ->
  Z.of_nat (length (filter P (zrange_from s n))) = (t - s)%Z.
Proof.
  intros P t n. induction n as [| n IH]; intros s HP Ht.
  - cbn [zrange_from filter length]. lia.
  - cbn [zrange_from filter].
    destruct (P s) eqn:E.
    + assert (Hs : (s < t)%Z) by (apply (HP s); [lia | exact E]).
      cbn [length]. rewrite Nat2Z.inj_succ. rewrite (IH (s + 1)%Z); [lia | | lia].
      intros k Hk. apply HP. lia.
    + assert (Hs : ~ (s < t)%Z) by (intro Hlt; apply (HP s) in Hlt; [congruence | lia]).
      assert (t = s) by lia. subst t.
      (* nothing further is selected *)
      assert (Hnone : forall m s', (s < s')%Z ->
                (forall k, (s' <= k < s' + Z.of_nat m)%Z -> P k = false) ->
                filter P (zrange_from s' m) = []).
      { induction m as [| m IHm]; intros s' Hs' Hf; cbn [zrange_from filter]; [reflexivity |].
        rewrite (Hf s') by lia. apply IHm; [lia |]. intros k Hk. apply Hf. lia. }
      rewrite (Hnone n (s + 1)%Z); [cbn [length]; lia | lia |].
      intros k Hk. destruct (P k) eqn:Ek; [| reflexivity].
      apply (HP k) in Ek; lia.
Qed.

Lemma get_index_is_spec : forall (a : axis) (v : Q), 0 < a_size a -> (2 <= a_bins a)%Z ->
  get_index a v = spec_index a v.
Proof.
  intros a v Hz Hb. unfold spec_index, zrange.
  assert (Hr := get_index_range a v Hb).
  rewrite (count_below_threshold (fun k => Qle_bool (edge a k) v) (get_index a v)).
  - lia.
  - intros k Hk. rewrite Qle_bool_iff. apply edge_le_index; [exact Hz | exact Hb |].
    unfold count_of in *. lia.
  - unfold count_of. lia.
Qed.
