(* Proofs about the binning model (Lib/Binning.v): the index is the unique bin of the statement, mass is
   conserved, descriptions match the elements received, binning is additive and collectBinning over the
   binnings of the parts is the binning of the whole (1-d and 2-d). *)
From Coq Require Import QArith Qround Lia Setoid Morphisms.
From P2 Require Import Base.Prelude Lib.Binning.
Local Open Scope Q_scope.

(* ------------------------------------------------------------------------------------------ *)
(* Rationals: floor and division against integer multiples                                      *)
(* ------------------------------------------------------------------------------------------ *)

Lemma floor_ge_iff : forall (k : Z) (q : Q), (k <= Qfloor q)%Z <-> inject_Z k <= q.
Proof.
  intros k q. split; intro H.
  - apply Qle_trans with (inject_Z (Qfloor q)).
    + rewrite <- Zle_Qle. exact H.
    + apply Qfloor_le.
  - assert (Hlt : inject_Z k < inject_Z (Qfloor q + 1)).
    { apply Qle_lt_trans with q; [exact H | apply Qlt_floor]. }
    rewrite <- Zlt_Qlt in Hlt. lia.
Qed.

Lemma div_ge_iff : forall a b c : Q, 0 < c -> (a <= b / c <-> a * c <= b).
Proof.
  intros a b c Hc. split; intro H.
  - assert (Hne : ~ c == 0) by (intro E; rewrite E in Hc; exact (Qlt_irrefl 0 Hc)).
    assert (E : b == (b / c) * c) by (field; exact Hne).
    rewrite E. apply Qmult_le_compat_r; [exact H | apply Qlt_le_weak; exact Hc].
  - apply Qle_shift_div_l; assumption.
Qed.

Lemma size_nonzero : forall z : Q, 0 < z -> Qeq_bool z 0 = false.
Proof.
  intros z Hz. destruct (Qeq_bool z 0) eqn:E; [| reflexivity].
  apply Qeq_bool_eq in E. rewrite E in Hz. exfalso. exact (Qlt_irrefl 0 Hz).
Qed.

(* the k-th edge is at or below v  <->  k <= floor((v-start)/size) *)
Lemma edge_le_iff : forall (a : axis) (v : Q) (k : Z), 0 < a_size a ->
  ((k <= Qfloor ((v - a_start a) / a_size a))%Z <-> edge a k <= v).
Proof.
  intros a v k Hz. rewrite floor_ge_iff. rewrite (div_ge_iff _ _ _ Hz). unfold edge.
  split; intro H.
  - apply Qplus_le_l with (z := - a_start a).
    setoid_replace (a_start a + inject_Z k * a_size a + - a_start a) with (inject_Z k * a_size a) by ring.
    exact H.
  - apply Qplus_le_l with (z := a_start a).
    setoid_replace (inject_Z k * a_size a + a_start a) with (a_start a + inject_Z k * a_size a) by ring.
    setoid_replace (v - a_start a + a_start a) with v by ring.
    exact H.
Qed.

Lemma edge_succ_lt : forall (a : axis) (k : Z), 0 < a_size a -> edge a k < edge a (k + 1).
Proof.
  intros a k Hz. unfold edge. rewrite inject_Z_plus.
  setoid_replace (a_start a + (inject_Z k + inject_Z 1) * a_size a)
    with (a_start a + inject_Z k * a_size a + a_size a) by ring.
  rewrite <- (Qplus_0_r (a_start a + inject_Z k * a_size a)) at 1.
  apply Qplus_lt_r. exact Hz.
Qed.

Lemma edge_mono : forall (a : axis) (j k : Z), 0 < a_size a -> (j <= k)%Z -> edge a j <= edge a k.
Proof.
  intros a j k Hz Hjk. unfold edge. apply Qplus_le_r.
  apply Qmult_le_compat_r; [rewrite <- Zle_Qle; exact Hjk | apply Qlt_le_weak; exact Hz].
Qed.

(* ------------------------------------------------------------------------------------------ *)
(* getIndex                                                                                      *)
(* ------------------------------------------------------------------------------------------ *)

(* the index never leaves the slice (no "index out of range" in Add), for every size *)
Lemma get_index_range : forall (a : axis) (v : Q), (2 <= a_bins a)%Z ->
  (0 <= get_index a v < a_bins a)%Z.
Proof.
  intros a v Hb. unfold get_index.
  destruct (Qeq_bool (a_size a) 0).
  - destruct (Qpos_b (v - a_start a)); lia.
  - cbv zeta.
    destruct (Z.leb_spec (a_bins a - 1) (Qfloor ((v - a_start a) / a_size a) + 1)); [lia |].
    destruct (Z.ltb_spec 0 (Qfloor ((v - a_start a) / a_size a) + 1)); lia.
Qed.

(* for a positive size the index is floor((v-start)/size)+1 clamped into 0..bins-1 *)
Lemma get_index_clamp : forall (a : axis) (v : Q), 0 < a_size a -> (2 <= a_bins a)%Z ->
  get_index a v = Z.max 0 (Z.min (a_bins a - 1) (Qfloor ((v - a_start a) / a_size a) + 1)).
Proof.
  intros a v Hz Hb. unfold get_index. rewrite (size_nonzero _ Hz). cbv zeta.
  destruct (Z.leb_spec (a_bins a - 1) (Qfloor ((v - a_start a) / a_size a) + 1)).
  - destruct (Z.ltb_spec 0 (Qfloor ((v - a_start a) / a_size a) + 1)); lia.
  - destruct (Z.ltb_spec 0 (Qfloor ((v - a_start a) / a_size a) + 1)); lia.
Qed.

(* the key fact: edge k <= v  <->  k < index, for every edge k = 0..count *)
Lemma edge_le_index : forall (a : axis) (v : Q) (k : Z), 0 < a_size a -> (2 <= a_bins a)%Z ->
  (0 <= k <= count_of a)%Z -> (edge a k <= v <-> (k < get_index a v)%Z).
Proof.
  intros a v k Hz Hb Hk. rewrite <- (edge_le_iff a v k Hz). rewrite (get_index_clamp a v Hz Hb).
  unfold count_of in Hk. lia.
Qed.

(* C20 index_spec: exactly the bin of the statement *)
Lemma index_spec : forall (start size : Q) (count : N) (v : Q), 0 < size ->
  let a := new_axis start size count in
  let c := Z.of_N count in
  (get_index a v = 0%Z <-> v < start) /\
  (forall i : Z, (1 <= i <= c)%Z ->
     (get_index a v = i <-> start + inject_Z (i - 1) * size <= v /\ v < start + inject_Z i * size)) /\
  (get_index a v = (c + 1)%Z <-> start + inject_Z c * size <= v).
Proof.
  intros start size count v Hz a c.
  assert (Hza : 0 < a_size a) by exact Hz.
  assert (Hb : (2 <= a_bins a)%Z) by (unfold a, new_axis; cbn [a_bins]; lia).
  assert (Hc : count_of a = c) by (unfold count_of, a, new_axis; cbn [a_bins]; lia).
  assert (Hr := get_index_range a v Hb).
  assert (Hbins : a_bins a = (c + 2)%Z) by (unfold a, new_axis; cbn [a_bins]; lia).
  assert (HE : forall k, (0 <= k <= c)%Z -> (start + inject_Z k * size <= v <-> (k < get_index a v)%Z)).
  { intros k Hk. apply (edge_le_index a v k Hza Hb). rewrite Hc. exact Hk. }
  split; [| split].
  - assert (H0 := HE 0%Z ltac:(lia)).
    setoid_replace (start + inject_Z 0 * size) with start in H0 by ring.
    split; intro H.
    + apply Qnot_le_lt. intro Hle. apply H0 in Hle. lia.
    + destruct (Z.eq_dec (get_index a v) 0) as [E | NE]; [exact E |].
      exfalso. assert (Hlt : (0 < get_index a v)%Z) by lia.
      apply H0 in Hlt. exact (Qlt_not_le _ _ H Hlt).
  - intros i Hi.
    assert (H1 := HE (i - 1)%Z ltac:(lia)). assert (H2 := HE i ltac:(lia)).
    split; intro H.
    + split.
      * apply H1. lia.
      * apply Qnot_le_lt. intro Hle. apply H2 in Hle. lia.
    + destruct H as [Ha Hb']. apply H1 in Ha.
      assert (~ (i < get_index a v)%Z) by (intro Hlt; apply H2 in Hlt; exact (Qlt_not_le _ _ Hb' Hlt)).
      lia.
  - assert (H1 := HE c ltac:(lia)). split; intro H.
    + apply H1. lia.
    + apply H1 in H. lia.
Qed.

(* ---- the specification's index: number of edges 0..count at or below v ---- *)

Lemma zrange_from_length : forall n s, length (zrange_from s n) = n.
Proof. induction n as [| n IH]; intros s; cbn [zrange_from length]; [reflexivity | rewrite IH; reflexivity]. Qed.

Lemma zrange_length : forall n, length (zrange n) = n.
Proof. intro n. apply zrange_from_length. Qed.

(* a predicate that is true exactly below a threshold t selects t - s elements of s, s+1, ..., s+n-1 *)
Lemma count_below_threshold : forall (P : Z -> bool) (t : Z) (n : nat) (s : Z),
  (forall k, (s <= k < s + Z.of_nat n)%Z -> (P k = true <-> (k < t)%Z)) ->
  (s <= t <= s + Z.of_nat n)%Z ->
  Z.of_nat (length (filter P (zrange_from s n))) = (t - s)%Z.
Proof.
  intros P t n. induction n as [| n IH]; intros s HP Ht.
  - cbn [zrange_from filter length]. lia.
  - cbn [zrange_from filter].
    destruct (P s) eqn:E.
    + assert (Hs : (s < t)%Z) by (apply (HP s); [lia | exact E]).
      cbn [length]. rewrite Nat2Z.inj_succ. rewrite (IH (s + 1)%Z); [lia | | lia].
      intros k Hk. apply HP. lia.
    + assert (Hs : ~ (s < t)%Z) by (intro Hlt; apply (HP s) in Hlt; [congruence | lia]).
      assert (t = s) by lia. subst t.
      (* nothing further is selected *)
      assert (Hnone : forall m s', (s < s')%Z ->
                (forall k, (s' <= k < s' + Z.of_nat m)%Z -> P k = false) ->
                filter P (zrange_from s' m) = []).
      { induction m as [| m IHm]; intros s' Hs' Hf; cbn [zrange_from filter]; [reflexivity |].
        rewrite (Hf s') by lia. apply IHm; [lia |]. intros k Hk. apply Hf. lia. }
      rewrite (Hnone n (s + 1)%Z); [cbn [length]; lia | lia |].
      intros k Hk. destruct (P k) eqn:Ek; [| reflexivity].
      apply (HP k) in Ek; lia.
Qed.

Lemma get_index_is_spec : forall (a : axis) (v : Q), 0 < a_size a -> (2 <= a_bins a)%Z ->
  get_index a v = spec_index a v.
Proof.
  intros a v Hz Hb. unfold spec_index, zrange.
  assert (Hr := get_index_range a v Hb).
  rewrite (count_below_threshold (fun k => Qle_bool (edge a k) v) (get_index a v)).
  - lia.
  - intros k Hk. rewrite Qle_bool_iff. apply edge_le_index; [exact Hz | exact Hb |].
    unfold count_of in *. lia.
  - unfold count_of. lia.
Qed.

(* ------------------------------------------------------------------------------------------ *)
(* Lists of rationals up to Qeq                                                                 *)
(* ------------------------------------------------------------------------------------------ *)

Lemma leq_refl : forall a, leq a a.
Proof. induction a as [| x a IH]; constructor; [reflexivity | exact IH]. Qed.

Lemma leq_sym : forall a b, leq a b -> leq b a.
Proof. intros a b H. induction H as [| x y a b Hxy _ IH]; constructor; [symmetry; exact Hxy | exact IH]. Qed.

Lemma leq_trans : forall a b c, leq a b -> leq b c -> leq a c.
Proof.
  intros a b c Hab. revert c. induction Hab as [| x y a b Hxy _ IH]; intros c Hbc.
  - inversion Hbc. constructor.
  - inversion Hbc as [| y' z b' c' Hyz Hbc' E1 E2]; subst. constructor.
    + rewrite Hxy. exact Hyz.
    + apply IH. exact Hbc'.
Qed.

Lemma leq_length : forall a b, leq a b -> length a = length b.
Proof. intros a b H. induction H as [| x y a b _ _ IH]; cbn [length]; [reflexivity | rewrite IH; reflexivity]. Qed.

Lemma leq_of_nth : forall a b, length a = length b ->
  (forall i, (i < length a)%nat -> nth i a 0 == nth i b 0) -> leq a b.
Proof.
  induction a as [| x a IH]; intros b Hl Hn; destruct b as [| y b]; cbn [length] in Hl; try discriminate.
  - constructor.
  - constructor.
    + apply (Hn O). cbn [length]. lia.
    + apply IH; [lia |]. intros i Hi. apply (Hn (S i)). cbn [length]. lia.
Qed.

Lemma leq_nth : forall a b i, leq a b -> nth i a 0 == nth i b 0.
Proof.
  intros a b i H. revert i. induction H as [| x y a b Hxy _ IH]; intros i; destruct i; cbn [nth]; try reflexivity.
  - exact Hxy.
  - apply IH.
Qed.

Lemma Qsum_app : forall a b, Qsum (a ++ b) == Qsum a + Qsum b.
Proof.
  induction a as [| x a IH]; intros b; cbn [app Qsum].
  - ring.
  - rewrite IH. ring.
Qed.

Lemma Qsum_leq : forall a b, leq a b -> Qsum a == Qsum b.
Proof. intros a b H. induction H as [| x y a b Hxy _ IH]; cbn [Qsum]; [reflexivity | rewrite Hxy, IH; reflexivity]. Qed.

Lemma zeros_length : forall n, length (zeros n) = n.
Proof. intro n. apply repeat_length. Qed.

Lemma nth_zeros : forall n i, nth i (zeros n) 0 = 0.
Proof.
  induction n as [| n IH]; intros i; destruct i; cbn [zeros repeat nth]; try reflexivity. apply IH.
Qed.

Lemma Qsum_zeros : forall n, Qsum (zeros n) == 0.
Proof.
  induction n as [| n IH]; cbn [zeros repeat Qsum]; [reflexivity |].
  change (repeat 0 n) with (zeros n). rewrite IH. ring.
Qed.

(* ---- add_at ---- *)

Lemma add_at_length : forall l i d, length (add_at l i d) = length l.
Proof.
  induction l as [| x l IH]; intros i d; destruct i; cbn [add_at length]; try reflexivity.
  rewrite IH. reflexivity.
Qed.

Lemma nth_add_at_same : forall l i d, (i < length l)%nat -> nth i (add_at l i d) 0 = nth i l 0 + d.
Proof.
  induction l as [| x l IH]; intros i d Hi; cbn [length] in Hi; [lia |].
  destruct i; cbn [add_at nth]; [reflexivity |]. apply IH. lia.
Qed.

Lemma nth_add_at_other : forall l i j d, i <> j -> nth j (add_at l i d) 0 = nth j l 0.
Proof.
  induction l as [| x l IH]; intros i j d Hij; destruct i; destruct j; cbn [add_at nth]; try reflexivity.
  - congruence.
  - apply IH. congruence.
Qed.

Lemma Qsum_add_at : forall l i d, (i < length l)%nat -> Qsum (add_at l i d) == Qsum l + d.
Proof.
  induction l as [| x l IH]; intros i d Hi; cbn [length] in Hi; [lia |].
  destruct i; cbn [add_at Qsum].
  - ring.
  - rewrite IH by lia. ring.
Qed.

(* ---- zip_add ---- *)

Lemma zip_add_length : forall a b, length a = length b -> length (zip_add a b) = length a.
Proof.
  induction a as [| x a IH]; intros b Hl; destruct b as [| y b]; cbn [length] in Hl; try discriminate; cbn [zip_add length].
  - reflexivity.
  - rewrite IH by lia. reflexivity.
Qed.

Lemma nth_zip_add : forall a b i, length a = length b -> (i < length a)%nat ->
  nth i (zip_add a b) 0 = nth i a 0 + nth i b 0.
Proof.
  induction a as [| x a IH]; intros b i Hl Hi; destruct b as [| y b]; cbn [length] in Hl, Hi; try discriminate; try lia.
  destruct i; cbn [zip_add nth]; [reflexivity |]. apply IH; lia.
Qed.

Lemma zip_add_leq : forall a a' b b', leq a a' -> leq b b' -> leq (zip_add a b) (zip_add a' b').
Proof.
  intros a a' b b' Ha. revert b b'. induction Ha as [| x x' a a' Hx _ IH]; intros b b' Hb.
  - destruct b; destruct b'; cbn [zip_add]; constructor.
  - destruct Hb as [| y y' b b' Hy Hb]; cbn [zip_add]; constructor.
    + rewrite Hx, Hy. reflexivity.
    + apply IH. exact Hb.
Qed.

Lemma zip_add_zeros_l : forall v, leq (zip_add (zeros (length v)) v) v.
Proof.
  induction v as [| x v IH]; cbn [length zeros repeat zip_add]; constructor.
  - ring.
  - exact IH.
Qed.

Lemma Qsum_zip_add : forall a b, length a = length b -> Qsum (zip_add a b) == Qsum a + Qsum b.
Proof.
  induction a as [| x a IH]; intros b Hl; destruct b as [| y b]; cbn [length] in Hl; try discriminate; cbn [zip_add Qsum].
  - ring.
  - rewrite IH by lia. ring.
Qed.

(* ------------------------------------------------------------------------------------------ *)
(* One dimension                                                                                 *)
(* ------------------------------------------------------------------------------------------ *)

Definition idx (a : axis) (v : Q) : nat := Z.to_nat (get_index a v).

(* the values of the elements that Add sends to slot i *)
Definition sel (a : axis) (i : nat) (xs : list (Q * Q)) : list Q :=
  map snd (filter (fun e => Nat.eqb (idx a (fst e)) i) xs).

Lemma sel_app : forall a i xs ys, sel a i (xs ++ ys) = sel a i xs ++ sel a i ys.
Proof. intros. unfold sel. rewrite filter_app, map_app. reflexivity. Qed.

Lemma fold1_length : forall a xs init, length (fold1 a xs init) = length init.
Proof.
  intros a xs. induction xs as [| e xs IH]; intros init; cbn [fold1 fold_left]; [reflexivity |].
  change (fold_left (add1 a) xs (add1 a init e)) with (fold1 a xs (add1 a init e)).
  rewrite IH. unfold add1. apply add_at_length.
Qed.

Lemma fold1_app : forall a xs ys init, fold1 a (xs ++ ys) init = fold1 a ys (fold1 a xs init).
Proof. intros. unfold fold1. apply fold_left_app. Qed.

(* slot i of the result = what it held + the values sent to it *)
Lemma fold1_nth : forall a xs init i, (i < length init)%nat ->
  nth i (fold1 a xs init) 0 == nth i init 0 + Qsum (sel a i xs).
Proof.
  intros a xs. induction xs as [| e xs IH]; intros init i Hi.
  - cbn [fold1 fold_left sel filter map Qsum]. ring.
  - cbn [fold1 fold_left].
    change (fold_left (add1 a) xs (add1 a init e)) with (fold1 a xs (add1 a init e)).
    rewrite IH by (unfold add1; rewrite add_at_length; exact Hi).
    unfold sel at 2. cbn [filter]. unfold add1. fold (idx a (fst e)).
    destruct (Nat.eqb_spec (idx a (fst e)) i) as [E | NE].
    + rewrite E. rewrite nth_add_at_same by exact Hi. cbn [map Qsum]. fold (sel a i xs). ring.
    + rewrite nth_add_at_other by exact NE. fold (sel a i xs). reflexivity.
Qed.

Lemma idx_range : forall a v, (2 <= a_bins a)%Z -> (idx a v < Z.to_nat (a_bins a))%nat.
Proof. intros a v Hb. unfold idx. assert (H := get_index_range a v Hb). lia. Qed.

Lemma fold1_mass : forall a xs init, (2 <= a_bins a)%Z -> length init = Z.to_nat (a_bins a) ->
  Qsum (fold1 a xs init) == Qsum init + Qsum (map snd xs).
Proof.
  intros a xs. induction xs as [| e xs IH]; intros init Hb Hl.
  - cbn [fold1 fold_left map Qsum]. ring.
  - cbn [fold1 fold_left].
    change (fold_left (add1 a) xs (add1 a init e)) with (fold1 a xs (add1 a init e)).
    rewrite IH; [| exact Hb | unfold add1; rewrite add_at_length; exact Hl].
    unfold add1. rewrite Qsum_add_at.
    + cbn [map Qsum]. ring.
    + rewrite Hl. apply idx_range. exact Hb.
Qed.

Lemma binning1_length : forall a xs, length (binning1 a xs) = Z.to_nat (a_bins a).
Proof. intros. unfold binning1. rewrite fold1_length. apply zeros_length. Qed.

(* C20 mass_conserved, one dimension: every grid (any size, count >= 0) *)
Lemma mass_conserved1 : forall (start size : Q) (count : N) (xs : list (Q * Q)),
  Qsum (snd (binning (new_axis start size count) xs)) == Qsum (map snd xs).
Proof.
  intros start size count xs. cbn [binning result1 snd]. unfold binning1.
  rewrite fold1_mass.
  - rewrite Qsum_zeros. ring.
  - cbn [new_axis a_bins]. lia.
  - apply zeros_length.
Qed.

Lemma binning1_nth : forall a xs i, (i < Z.to_nat (a_bins a))%nat ->
  nth i (binning1 a xs) 0 == Qsum (sel a i xs).
Proof.
  intros a xs i Hi. unfold binning1. rewrite fold1_nth by (rewrite zeros_length; exact Hi).
  rewrite nth_zeros. ring.
Qed.

(* C20 binning_additive, one dimension *)
Lemma binning1_app : forall a xs ys,
  leq (binning1 a (xs ++ ys)) (zip_add (binning1 a xs) (binning1 a ys)).
Proof.
  intros a xs ys. apply leq_of_nth.
  - rewrite zip_add_length; rewrite !binning1_length; reflexivity.
  - intros i Hi. rewrite binning1_length in Hi.
    rewrite nth_zip_add; [| rewrite !binning1_length; reflexivity | rewrite binning1_length; exact Hi].
    rewrite !binning1_nth by exact Hi. rewrite sel_app, Qsum_app. reflexivity.
Qed.

Lemma binning_additive1 : forall (start size : Q) (count : N) (xs ys : list (Q * Q)),
  let a := new_axis start size count in
  fst (binning a (xs ++ ys)) = fst (binning a xs) /\
  leq (snd (binning a (xs ++ ys))) (zip_add (snd (binning a xs)) (snd (binning a ys))).
Proof.
  intros start size count xs ys a. split.
  - cbn [binning result1 fst]. rewrite !binning1_length. reflexivity.
  - cbn [binning result1 snd]. apply binning1_app.
Qed.

(* ---- descriptions ---- *)

Lemma from_is_edge : forall a i, a_start a + inject_Z i * a_size a - a_size a == edge a (i - 1).
Proof.
  intros a i. unfold edge. unfold Z.sub. rewrite inject_Z_plus, inject_Z_opp.
  change (inject_Z 1) with 1. ring.
Qed.

Lemma count_bins : forall a, (count_of a + 1 = a_bins a - 1)%Z.
Proof. intro a. unfold count_of. lia. Qed.

(* the description the code attaches to slot i is the one the statement gives to bin i *)
Lemma get_descr_spec : forall a i, (2 <= a_bins a)%Z -> bdescr_eq (get_descr a i) (spec_descr a i).
Proof.
  intros a i Hb. unfold get_descr, spec_descr, bdescr_eq. rewrite count_bins.
  destruct (Z.eqb_spec i 0) as [E0 | N0].
  - subst i. cbn [fst snd]. split; [exact I |].
    destruct (Z.eqb_spec 0 (a_bins a - 1)); cbn [fst snd].
    + lia.   (* bins = 1 cannot happen for count >= 0 *)
    + unfold edge. reflexivity.
  - destruct (Z.eqb_spec i (a_bins a - 1)); cbn [fst snd].
    + split; [apply from_is_edge | exact I].
    + split; [apply from_is_edge | unfold edge; reflexivity].
Qed.

Lemma in_descr_b_iff : forall d v, in_descr_b d v = true <-> in_descr d v.
Proof.
  intros [mn mx] v. unfold in_descr_b, in_descr. cbn [fst snd]. rewrite andb_true_iff.
  assert (H1 : match mn with Some m => Qle_bool m v | None => true end = true <->
               match mn with Some m => m <= v | None => True end).
  { destruct mn as [m |]; [apply Qle_bool_iff | tauto]. }
  assert (H2 : match mx with Some m => negb (Qle_bool m v) | None => true end = true <->
               match mx with Some m => v < m | None => True end).
  { destruct mx as [m |]; [| tauto]. rewrite negb_true_iff. split; intro H.
    - apply Qnot_le_lt. intro Hle. apply Qle_bool_iff in Hle. congruence.
    - destruct (Qle_bool m v) eqn:E; [| reflexivity]. apply Qle_bool_iff in E.
      exfalso. exact (Qlt_not_le _ _ H E). }
  tauto.
Qed.

(* slot i receives exactly the values its description admits *)
Lemma index_in_descr_iff : forall (a : axis) (v : Q) (i : Z), 0 < a_size a -> (2 <= a_bins a)%Z ->
  (0 <= i < a_bins a)%Z -> (get_index a v = i <-> in_descr (get_descr a i) v).
Proof.
  intros a v i Hz Hb Hi.
  assert (Hr := get_index_range a v Hb).
  assert (HE : forall k, (0 <= k <= count_of a)%Z -> (edge a k <= v <-> (k < get_index a v)%Z))
    by (intros k Hk; apply edge_le_index; assumption).
  assert (Hc : count_of a = (a_bins a - 2)%Z) by reflexivity.
  unfold get_descr, in_descr.
  destruct (Z.eqb_spec i 0) as [E0 | N0]; [| destruct (Z.eqb_spec i (a_bins a - 1)) as [E1 | N1]]; cbn [fst snd].
  - subst i. change (a_start a + inject_Z 0 * a_size a) with (edge a 0).
    assert (H0 := HE 0%Z ltac:(lia)). split; intro H.
    + split; [exact I |]. apply Qnot_le_lt. intro Hle. apply H0 in Hle. lia.
    + destruct H as [_ H]. destruct (Z.eq_dec (get_index a v) 0) as [E | NE]; [exact E | exfalso].
      assert (Hlt : (0 < get_index a v)%Z) by lia. apply H0 in Hlt. exact (Qlt_not_le _ _ H Hlt).
  - rewrite from_is_edge. assert (H1 := HE (i - 1)%Z ltac:(lia)). split; intro H.
    + split; [| exact I]. apply H1. lia.
    + destruct H as [H _]. apply H1 in H. lia.
  - rewrite from_is_edge. change (a_start a + inject_Z i * a_size a) with (edge a i).
    assert (H1 := HE (i - 1)%Z ltac:(lia)). assert (H2 := HE i ltac:(lia)). split; intro H.
    + split; [apply H1; lia |]. apply Qnot_le_lt. intro Hle. apply H2 in Hle. lia.
    + destruct H as [Ha Hb']. apply H1 in Ha.
      assert (~ (i < get_index a v)%Z) by (intro Hlt; apply H2 in Hlt; exact (Qlt_not_le _ _ Hb' Hlt)).
      lia.
Qed.

(* C20 descr_matches (a): every element satisfies the bounds of the bin it is counted in *)
Lemma descr_matches_elem : forall (start size : Q) (count : N) (v : Q), 0 < size ->
  let a := new_axis start size count in in_descr (get_descr a (get_index a v)) v.
Proof.
  intros start size count v Hz a.
  assert (Hb : (2 <= a_bins a)%Z) by (unfold a; cbn [new_axis a_bins]; lia).
  apply (index_in_descr_iff a v (get_index a v) Hz Hb (get_index_range a v Hb)). reflexivity.
Qed.

(* ... and no other described bin admits it *)
Lemma descr_unique : forall (start size : Q) (count : N) (v : Q) (i : Z), 0 < size ->
  let a := new_axis start size count in
  (0 <= i < a_bins a)%Z -> in_descr (get_descr a i) v -> i = get_index a v.
Proof.
  intros start size count v i Hz a Hi Hin.
  assert (Hb : (2 <= a_bins a)%Z) by (unfold a; cbn [new_axis a_bins]; lia).
  symmetry. apply (index_in_descr_iff a v i Hz Hb Hi). exact Hin.
Qed.

Lemma sel_is_admitted : forall a i xs, 0 < a_size a -> (2 <= a_bins a)%Z -> (i < Z.to_nat (a_bins a))%nat ->
  sel a i xs = map snd (filter (fun e => in_descr_b (get_descr a (Z.of_nat i)) (fst e)) xs).
Proof.
  intros a i xs Hz Hb Hi. unfold sel. f_equal. apply filter_ext. intros e.
  assert (Hr := get_index_range a (fst e) Hb).
  assert (Hiff : get_index a (fst e) = Z.of_nat i <-> in_descr (get_descr a (Z.of_nat i)) (fst e))
    by (apply index_in_descr_iff; [exact Hz | exact Hb | lia]).
  rewrite <- in_descr_b_iff in Hiff. unfold idx.
  destruct (Nat.eqb_spec (Z.to_nat (get_index a (fst e))) i) as [E | NE];
    destruct (in_descr_b (get_descr a (Z.of_nat i)) (fst e)) eqn:D; try reflexivity.
  - assert (get_index a (fst e) = Z.of_nat i) by lia. apply Hiff in H. congruence.
  - assert (get_index a (fst e) = Z.of_nat i) by (apply Hiff; reflexivity). lia.
Qed.

(* C20 descr_matches (b): bin i holds exactly the sum of the elements its description admits *)
Lemma bins_hold_admitted : forall (start size : Q) (count : N) (xs : list (Q * Q)) (i : nat), 0 < size ->
  let a := new_axis start size count in
  (i < length (snd (binning a xs)))%nat ->
  nth i (snd (binning a xs)) 0 ==
  Qsum (map snd (filter (fun e => in_descr_b (nth i (fst (binning a xs)) (None, None)) (fst e)) xs)).
Proof.
  intros start size count xs i Hz a Hi.
  assert (Hb : (2 <= a_bins a)%Z) by (unfold a; cbn [new_axis a_bins]; lia).
  cbn [binning result1 fst snd] in *. rewrite binning1_length in *.
  rewrite binning1_nth by exact Hi.
  rewrite (sel_is_admitted a i xs Hz Hb Hi).
  assert (Hd : nth i (map (get_descr a) (zrange (Z.to_nat (a_bins a)))) (None, None) = get_descr a (Z.of_nat i)).
  { unfold zrange.
    assert (G : forall n s k, (k < n)%nat ->
              nth k (map (get_descr a) (zrange_from s n)) (None, None) = get_descr a (s + Z.of_nat k)).
    { induction n as [| n IH]; intros s' k Hk; [lia |].
      destruct k; cbn [zrange_from map nth].
      - f_equal. lia.
      - rewrite IH by lia. f_equal. lia. }
    rewrite G by exact Hi. f_equal. }
  rewrite Hd. reflexivity.
Qed.

(* ---- the bins are the specification's values ---- *)

Lemma nth_map_zrange_from : forall {A} (f : Z -> A) (d : A) (n : nat) (s : Z) (k : nat), (k < n)%nat ->
  nth k (map f (zrange_from s n)) d = f (s + Z.of_nat k)%Z.
Proof.
  intros A f d. induction n as [| n IH]; intros s k Hk; [lia |].
  destruct k; cbn [zrange_from map nth].
  - f_equal. lia.
  - rewrite IH by lia. f_equal. lia.
Qed.

Lemma spec_sel : forall a i xs, 0 < a_size a -> (2 <= a_bins a)%Z ->
  map snd (filter (fun e => Z.eqb (fst e) (Z.of_nat i)) (map (fun e => (spec_index a (fst e), snd e)) xs))
  = sel a i xs.
Proof.
  intros a i xs Hz Hb. unfold sel. induction xs as [| e xs IH]; [reflexivity |].
  cbn [map filter fst snd]. rewrite <- (get_index_is_spec a (fst e) Hz Hb).
  assert (Hr := get_index_range a (fst e) Hb). unfold idx.
  destruct (Z.eqb_spec (get_index a (fst e)) (Z.of_nat i)) as [E | NE];
    destruct (Nat.eqb_spec (Z.to_nat (get_index a (fst e))) i) as [E' | NE']; try lia.
  - cbn [map snd]. rewrite IH. reflexivity.
  - exact IH.
Qed.

Lemma values_are_spec : forall (start size : Q) (count : N) (xs : list (Q * Q)), 0 < size ->
  let a := new_axis start size count in leq (snd (binning a xs)) (spec_values a xs).
Proof.
  intros start size count xs Hz a.
  assert (Hb : (2 <= a_bins a)%Z) by (unfold a; cbn [new_axis a_bins]; lia).
  cbn [binning result1 snd]. unfold spec_values. apply leq_of_nth.
  - rewrite binning1_length, map_length, zrange_length. reflexivity.
  - intros i Hi. rewrite binning1_length in Hi. rewrite binning1_nth by exact Hi.
    unfold zrange. rewrite nth_map_zrange_from by exact Hi. rewrite Z.add_0_l.
    rewrite (spec_sel a i xs Hz Hb). reflexivity.
Qed.

(* ---- collectBinning over one-dimensional results ---- *)

Lemma collect1_loop_whole : forall (a : axis) (rest : list (list (Q * Q))) (done : list (Q * Q)) (c : list Q),
  leq c (binning1 a done) ->
  exists v, collect1_loop (Some c) (map (binning a) rest) = COk (Some v) /\
            leq v (binning1 a (done ++ concat rest)).
Proof.
  intros a rest. induction rest as [| p rest IH]; intros done c Hc.
  - exists c. split; [reflexivity |]. cbn [concat]. rewrite app_nil_r. exact Hc.
  - cbn [map collect1_loop]. unfold collect1_add. cbn [binning result1 snd].
    assert (Hl : length c = length (binning1 a p)).
    { rewrite (leq_length _ _ Hc). rewrite !binning1_length. reflexivity. }
    rewrite Hl, Nat.eqb_refl.
    destruct (IH (done ++ p) (zip_add c (binning1 a p))) as [v [Hv Hleq]].
    + apply leq_trans with (zip_add (binning1 a done) (binning1 a p)).
      * apply zip_add_leq; [exact Hc | apply leq_refl].
      * apply leq_sym. apply binning1_app.
    + exists v. split; [exact Hv |]. cbn [concat]. rewrite app_assoc. exact Hleq.
Qed.

Lemma binning_descr_fixed : forall a xs ys, fst (binning a xs) = fst (binning a ys).
Proof. intros. cbn [binning result1 fst]. rewrite !binning1_length. reflexivity. Qed.

(* C20 collect_is_whole, one dimension: for every grid and every non-empty list of parts *)
Lemma collect_is_whole1 : forall (start size : Q) (count : N) (parts : list (list (Q * Q))), parts <> [] ->
  let a := new_axis start size count in
  exists v, collect1 (map (binning a) parts) = COk (fst (binning a (concat parts)), v) /\
            leq v (snd (binning a (concat parts))).
Proof.
  intros start size count parts Hne a. destruct parts as [| p ps]; [congruence |].
  cbn [map collect1 collect1_loop]. unfold collect1_add at 1. cbn [binning result1 snd].
  destruct (collect1_loop_whole a ps p (zip_add (zeros (length (binning1 a p))) (binning1 a p))) as [v [Hv Hleq]].
  - apply zip_add_zeros_l.
  - change (map (fun xs => result1 a (binning1 a xs)) ps) with (map (binning a) ps).
    rewrite Hv. exists v. split.
    + f_equal. f_equal. change (fst (binning a p) = fst (binning a (concat (p :: ps)))). apply binning_descr_fixed.
    + exact Hleq.
Qed.

(* ------------------------------------------------------------------------------------------ *)
(* Two dimensions: row i of binning2 is the 1-d binning (over y) of the elements whose x-index is i *)
(* ------------------------------------------------------------------------------------------ *)

Definition selx (ax : axis) (i : nat) (xs : list (Q * Q * Q)) : list (Q * Q) :=
  map (fun e => (snd (fst e), snd e)) (filter (fun e => Nat.eqb (idx ax (fst (fst e))) i) xs).

Lemma selx_app : forall ax i xs ys, selx ax i (xs ++ ys) = selx ax i xs ++ selx ax i ys.
Proof. intros. unfold selx. rewrite filter_app, map_app. reflexivity. Qed.

Lemma selx_cons : forall ax i e xs,
  selx ax i (e :: xs) = if Nat.eqb (idx ax (fst (fst e))) i then (snd (fst e), snd e) :: selx ax i xs
                        else selx ax i xs.
Proof.
  intros. unfold selx. cbn [filter]. destruct (Nat.eqb (idx ax (fst (fst e))) i); reflexivity.
Qed.

Lemma upd_row_length : forall b i f, length (upd_row b i f) = length b.
Proof.
  induction b as [| r b IH]; intros i f; destruct i; cbn [upd_row length]; try reflexivity.
  rewrite IH. reflexivity.
Qed.

Lemma nth_upd_row_same : forall b i f, (i < length b)%nat -> nth i (upd_row b i f) [] = f (nth i b []).
Proof.
  induction b as [| r b IH]; intros i f Hi; cbn [length] in Hi; [lia |].
  destruct i; cbn [upd_row nth]; [reflexivity |]. apply IH. lia.
Qed.

Lemma nth_upd_row_other : forall b i j f, i <> j -> nth j (upd_row b i f) [] = nth j b [].
Proof.
  induction b as [| r b IH]; intros i j f Hij; destruct i; destruct j; cbn [upd_row nth]; try reflexivity.
  - congruence.
  - apply IH. congruence.
Qed.

Lemma fold2_length : forall ax ay xs init, length (fold2 ax ay xs init) = length init.
Proof.
  intros ax ay xs. induction xs as [| e xs IH]; intros init; cbn [fold2 fold_left]; [reflexivity |].
  change (fold_left (add2 ax ay) xs (add2 ax ay init e)) with (fold2 ax ay xs (add2 ax ay init e)).
  rewrite IH. unfold add2. apply upd_row_length.
Qed.

Lemma fold2_row : forall ax ay xs init i, (i < length init)%nat ->
  nth i (fold2 ax ay xs init) [] = fold1 ay (selx ax i xs) (nth i init []).
Proof.
  intros ax ay xs. induction xs as [| e xs IH]; intros init i Hi.
  - reflexivity.
  - cbn [fold2 fold_left].
    change (fold_left (add2 ax ay) xs (add2 ax ay init e)) with (fold2 ax ay xs (add2 ax ay init e)).
    rewrite IH by (unfold add2; rewrite upd_row_length; exact Hi).
    rewrite selx_cons. unfold add2. fold (idx ax (fst (fst e))). fold (idx ay (snd (fst e))).
    destruct (Nat.eqb_spec (idx ax (fst (fst e))) i) as [E | NE].
    + rewrite E. rewrite nth_upd_row_same by exact Hi.
      cbn [fold1 fold_left]. unfold add1 at 2. cbn [fst snd]. reflexivity.
    + rewrite nth_upd_row_other by exact NE. reflexivity.
Qed.

Lemma nth_zeros2 : forall n m i, (i < n)%nat -> nth i (zeros2 n m) [] = zeros m.
Proof.
  induction n as [| n IH]; intros m i Hi; [lia |].
  destruct i; cbn [zeros2 repeat nth]; [reflexivity |]. apply IH. lia.
Qed.

Lemma binning2_length : forall ax ay xs, length (binning2 ax ay xs) = Z.to_nat (a_bins ax).
Proof. intros. unfold binning2. rewrite fold2_length. apply repeat_length. Qed.

Lemma binning2_row : forall ax ay xs i, (i < Z.to_nat (a_bins ax))%nat ->
  nth i (binning2 ax ay xs) [] = binning1 ay (selx ax i xs).
Proof.
  intros ax ay xs i Hi. unfold binning2.
  rewrite fold2_row by (unfold zeros2; rewrite repeat_length; exact Hi).
  rewrite nth_zeros2 by exact Hi. reflexivity.
Qed.

(* ---- lists of rows ---- *)

Lemma leq2_of_nth : forall a b, length a = length b ->
  (forall i, (i < length a)%nat -> leq (nth i a []) (nth i b [])) -> leq2 a b.
Proof.
  induction a as [| x a IH]; intros b Hl Hn; destruct b as [| y b]; cbn [length] in Hl; try discriminate.
  - constructor.
  - constructor.
    + apply (Hn O). cbn [length]. lia.
    + apply IH; [lia |]. intros i Hi. apply (Hn (S i)). cbn [length]. lia.
Qed.

Lemma leq2_refl : forall a, leq2 a a.
Proof. induction a as [| x a IH]; constructor; [apply leq_refl | exact IH]. Qed.

Lemma leq2_sym : forall a b, leq2 a b -> leq2 b a.
Proof. intros a b H. induction H as [| x y a b Hxy _ IH]; constructor; [apply leq_sym; exact Hxy | exact IH]. Qed.

Lemma leq2_trans : forall a b c, leq2 a b -> leq2 b c -> leq2 a c.
Proof.
  intros a b c Hab. revert c. induction Hab as [| x y a b Hxy _ IH]; intros c Hbc.
  - inversion Hbc. constructor.
  - inversion Hbc as [| y' z b' c' Hyz Hbc' E1 E2]; subst. constructor.
    + apply leq_trans with y; assumption.
    + apply IH. exact Hbc'.
Qed.

Lemma leq2_length : forall a b, leq2 a b -> length a = length b.
Proof. intros a b H. induction H as [| x y a b _ _ IH]; cbn [length]; [reflexivity | rewrite IH; reflexivity]. Qed.

Lemma zip_add2_length : forall a b, length a = length b -> length (zip_add2 a b) = length a.
Proof.
  induction a as [| x a IH]; intros b Hl; destruct b as [| y b]; cbn [length] in Hl; try discriminate; cbn [zip_add2 length].
  - reflexivity.
  - rewrite IH by lia. reflexivity.
Qed.

Lemma nth_zip_add2 : forall a b i, length a = length b -> (i < length a)%nat ->
  nth i (zip_add2 a b) [] = zip_add (nth i a []) (nth i b []).
Proof.
  induction a as [| x a IH]; intros b i Hl Hi; destruct b as [| y b]; cbn [length] in Hl, Hi; try discriminate; try lia.
  destruct i; cbn [zip_add2 nth]; [reflexivity |]. apply IH; lia.
Qed.

Lemma zip_add2_leq : forall a a' b b', leq2 a a' -> leq2 b b' -> leq2 (zip_add2 a b) (zip_add2 a' b').
Proof.
  intros a a' b b' Ha. revert b b'. induction Ha as [| x x' a a' Hx _ IH]; intros b b' Hb.
  - destruct b; destruct b'; cbn [zip_add2]; constructor.
  - destruct Hb as [| y y' b b' Hy Hb]; cbn [zip_add2]; constructor.
    + apply zip_add_leq; assumption.
    + apply IH. exact Hb.
Qed.

(* C20 binning_additive, two dimensions *)
Lemma binning2_app : forall ax ay xs ys,
  leq2 (binning2 ax ay (xs ++ ys)) (zip_add2 (binning2 ax ay xs) (binning2 ax ay ys)).
Proof.
  intros ax ay xs ys. apply leq2_of_nth.
  - rewrite zip_add2_length; rewrite !binning2_length; reflexivity.
  - intros i Hi. rewrite binning2_length in Hi.
    rewrite nth_zip_add2; [| rewrite !binning2_length; reflexivity | rewrite binning2_length; exact Hi].
    rewrite !binning2_row by exact Hi. rewrite selx_app. apply binning1_app.
Qed.

(* ---- mass in two dimensions ---- *)

Lemma Qsum2_upd_row : forall b i j d, (i < length b)%nat -> (j < length (nth i b []))%nat ->
  Qsum2 (upd_row b i (fun r => add_at r j d)) == Qsum2 b + d.
Proof.
  unfold Qsum2. induction b as [| r b IH]; intros i j d Hi Hj; cbn [length] in Hi; [lia |].
  destruct i; cbn [upd_row map Qsum nth] in *.
  - rewrite Qsum_add_at by exact Hj. ring.
  - rewrite IH by (try lia; exact Hj). ring.
Qed.

Definition rows_len (m : nat) (b : list (list Q)) : Prop := forall i, (i < length b)%nat -> length (nth i b []) = m.

Lemma rows_len_upd : forall m b i j d, rows_len m b -> rows_len m (upd_row b i (fun r => add_at r j d)).
Proof.
  intros m b i j d H k Hk. rewrite upd_row_length in Hk.
  destruct (Nat.eq_dec i k) as [E | NE].
  - subst k. rewrite nth_upd_row_same by exact Hk. rewrite add_at_length. apply H. exact Hk.
  - rewrite nth_upd_row_other by exact NE. apply H. exact Hk.
Qed.

Lemma fold2_mass : forall ax ay xs init, (2 <= a_bins ax)%Z -> (2 <= a_bins ay)%Z ->
  length init = Z.to_nat (a_bins ax) -> rows_len (Z.to_nat (a_bins ay)) init ->
  Qsum2 (fold2 ax ay xs init) == Qsum2 init + Qsum (map snd xs).
Proof.
  intros ax ay xs. induction xs as [| e xs IH]; intros init Hbx Hby Hl Hr.
  - cbn [fold2 fold_left map Qsum]. ring.
  - cbn [fold2 fold_left].
    change (fold_left (add2 ax ay) xs (add2 ax ay init e)) with (fold2 ax ay xs (add2 ax ay init e)).
    rewrite IH; [| exact Hbx | exact Hby | unfold add2; rewrite upd_row_length; exact Hl
                 | unfold add2; apply rows_len_upd; exact Hr].
    unfold add2. rewrite Qsum2_upd_row.
    + cbn [map Qsum]. ring.
    + rewrite Hl. apply idx_range. exact Hbx.
    + rewrite Hr by (rewrite Hl; apply idx_range; exact Hbx). apply idx_range. exact Hby.
Qed.

Lemma Qsum2_zeros2 : forall n m, Qsum2 (zeros2 n m) == 0.
Proof.
  unfold Qsum2. induction n as [| n IH]; intros m; cbn [zeros2 repeat map Qsum]; [reflexivity |].
  change (repeat (zeros m) n) with (zeros2 n m). rewrite IH, Qsum_zeros. ring.
Qed.

(* C20 mass_conserved, two dimensions *)
Lemma mass_conserved2 : forall (xstart xsize : Q) (xcount : N) (ystart ysize : Q) (ycount : N) (xs : list (Q * Q * Q)),
  Qsum2 (map snd (snd (binning_2d (new_axis xstart xsize xcount) (new_axis ystart ysize ycount) xs)))
  == Qsum (map snd xs).
Proof.
  intros xstart xsize xcount ystart ysize ycount xs.
  set (ax := new_axis xstart xsize xcount). set (ay := new_axis ystart ysize ycount).
  assert (Hs : forall a s rows, map snd (with_descr a s rows) = rows).
  { intros a s rows. revert s. induction rows as [| r rows IH]; intros s; cbn [with_descr map snd]; [reflexivity |].
    rewrite IH. reflexivity. }
  cbn [binning_2d result2 snd]. rewrite Hs. unfold binning2.
  rewrite fold2_mass.
  - rewrite Qsum2_zeros2. ring.
  - unfold ax. cbn [new_axis a_bins]. lia.
  - unfold ay. cbn [new_axis a_bins]. lia.
  - unfold zeros2. apply repeat_length.
  - intros i Hi. unfold zeros2 in Hi. rewrite repeat_length in Hi. rewrite nth_zeros2 by exact Hi. apply zeros_length.
Qed.

(* ---- descriptions in two dimensions ---- *)

Lemma idx_eqb_in_descr : forall a i v, 0 < a_size a -> (2 <= a_bins a)%Z -> (i < Z.to_nat (a_bins a))%nat ->
  Nat.eqb (idx a v) i = in_descr_b (get_descr a (Z.of_nat i)) v.
Proof.
  intros a i v Hz Hb Hi.
  assert (Hr := get_index_range a v Hb).
  assert (Hiff : get_index a v = Z.of_nat i <-> in_descr (get_descr a (Z.of_nat i)) v)
    by (apply index_in_descr_iff; [exact Hz | exact Hb | lia]).
  rewrite <- in_descr_b_iff in Hiff. unfold idx.
  destruct (Nat.eqb_spec (Z.to_nat (get_index a v)) i) as [E | NE];
    destruct (in_descr_b (get_descr a (Z.of_nat i)) v) eqn:D; try reflexivity.
  - assert (get_index a v = Z.of_nat i) by lia. apply Hiff in H. congruence.
  - assert (get_index a v = Z.of_nat i) by (apply Hiff; reflexivity). lia.
Qed.

Lemma sel_selx : forall ax ay i j xs,
  sel ay j (selx ax i xs) =
  map snd (filter (fun e => Nat.eqb (idx ax (fst (fst e))) i && Nat.eqb (idx ay (snd (fst e))) j) xs).
Proof.
  intros ax ay i j xs. induction xs as [| e xs IH]; [reflexivity |].
  rewrite selx_cons. cbn [filter].
  destruct (Nat.eqb (idx ax (fst (fst e))) i); cbn [andb].
  - unfold sel. cbn [filter fst]. fold (sel ay j (selx ax i xs)).
    destruct (Nat.eqb (idx ay (snd (fst e))) j); cbn [map snd].
    + rewrite <- IH. reflexivity.
    + exact IH.
  - exact IH.
Qed.

(* C20 descr_matches, two dimensions: cell (i,j) holds exactly the sum of the elements that the
   x-description of row i and the y-description of column j admit *)
Lemma cells_hold_admitted : forall (xstart xsize : Q) (xcount : N) (ystart ysize : Q) (ycount : N)
  (xs : list (Q * Q * Q)) (i j : nat), 0 < xsize -> 0 < ysize ->
  let ax := new_axis xstart xsize xcount in
  let ay := new_axis ystart ysize ycount in
  (i < Z.to_nat (a_bins ax))%nat -> (j < Z.to_nat (a_bins ay))%nat ->
  nth j (nth i (binning2 ax ay xs) []) 0 ==
  Qsum (map snd (filter (fun e => in_descr_b (get_descr ax (Z.of_nat i)) (fst (fst e))
                                 && in_descr_b (get_descr ay (Z.of_nat j)) (snd (fst e))) xs)).
Proof.
  intros xstart xsize xcount ystart ysize ycount xs i j Hzx Hzy ax ay Hi Hj.
  assert (Hbx : (2 <= a_bins ax)%Z) by (unfold ax; cbn [new_axis a_bins]; lia).
  assert (Hby : (2 <= a_bins ay)%Z) by (unfold ay; cbn [new_axis a_bins]; lia).
  rewrite binning2_row by exact Hi. rewrite binning1_nth by exact Hj. rewrite sel_selx.
  assert (E : filter (fun e => Nat.eqb (idx ax (fst (fst e))) i && Nat.eqb (idx ay (snd (fst e))) j) xs =
              filter (fun e => in_descr_b (get_descr ax (Z.of_nat i)) (fst (fst e))
                               && in_descr_b (get_descr ay (Z.of_nat j)) (snd (fst e))) xs).
  { apply filter_ext. intro e.
    rewrite (idx_eqb_in_descr ax i (fst (fst e)) Hzx Hbx Hi).
    rewrite (idx_eqb_in_descr ay j (snd (fst e)) Hzy Hby Hj). reflexivity. }
  rewrite E. reflexivity.
Qed.

(* ---- collectBinning over two-dimensional results ---- *)

Fixpoint zip_rows {X} (c rows : list (X * list Q)) : list (X * list Q) :=
  match c, rows with
  | (xd, cr) :: c', (_, r) :: rows' => (xd, zip_add cr r) :: zip_rows c' rows'
  | _, _ => []
  end.

Lemma rows_add_ok : forall X (c rows : list (X * list Q)),
  map (fun cr => length (snd cr)) c = map (fun r => length (snd r)) rows ->
  rows_add c rows = COk (zip_rows c rows).
Proof.
  intros X. induction c as [| [xd cr] c IH]; intros rows H; destruct rows as [| [xd' r] rows]; cbn [map] in H; try discriminate.
  - reflexivity.
  - cbn [snd] in H. injection H as Hl Ht. cbn [rows_add zip_rows].
    rewrite Hl, Nat.eqb_refl. rewrite (IH rows Ht). reflexivity.
Qed.

Lemma zip_rows_fst : forall X (c rows : list (X * list Q)), length c = length rows ->
  map fst (zip_rows c rows) = map fst c.
Proof.
  intros X. induction c as [| [xd cr] c IH]; intros rows H; destruct rows as [| [xd' r] rows]; cbn [length] in H; try discriminate.
  - reflexivity.
  - cbn [zip_rows map fst]. rewrite IH by lia. reflexivity.
Qed.

Lemma zip_rows_snd : forall X (c rows : list (X * list Q)),
  map snd (zip_rows c rows) = zip_add2 (map snd c) (map snd rows).
Proof.
  intros X. induction c as [| [xd cr] c IH]; intros rows; destruct rows as [| [xd' r] rows]; cbn [zip_rows map zip_add2 snd]; try reflexivity.
  rewrite IH. reflexivity.
Qed.

Lemma with_descr_snd : forall a s rows, map snd (with_descr a s rows) = rows.
Proof.
  intros a s rows. revert s. induction rows as [| r rows IH]; intros s; cbn [with_descr map snd]; [reflexivity |].
  rewrite IH. reflexivity.
Qed.

Lemma with_descr_fst : forall a s rows, map fst (with_descr a s rows) = map (get_descr a) (zrange_from s (length rows)).
Proof.
  intros a s rows. revert s. induction rows as [| r rows IH]; intros s; cbn [with_descr map fst length zrange_from]; [reflexivity |].
  rewrite IH. reflexivity.
Qed.

Lemma leq2_map_length : forall a b, leq2 a b -> map (@length Q) a = map (@length Q) b.
Proof.
  intros a b H. induction H as [| x y a b Hxy _ IH]; cbn [map]; [reflexivity |].
  rewrite (leq_length _ _ Hxy), IH. reflexivity.
Qed.

Lemma rows_len_map_length : forall m b, rows_len m b -> map (@length Q) b = repeat m (length b).
Proof.
  intros m. induction b as [| r b IH]; intros H; cbn [map length repeat]; [reflexivity |].
  assert (H0 : length r = m) by (apply (H O); cbn [length]; lia).
  rewrite H0. rewrite IH; [reflexivity |].
  intros i Hi. apply (H (S i)). cbn [length]. lia.
Qed.

Lemma binning2_rows_len : forall ax ay xs, rows_len (Z.to_nat (a_bins ay)) (binning2 ax ay xs).
Proof.
  intros ax ay xs i Hi. rewrite binning2_length in Hi. rewrite binning2_row by exact Hi. apply binning1_length.
Qed.

Lemma binning2_map_length : forall ax ay xs,
  map (@length Q) (binning2 ax ay xs) = repeat (Z.to_nat (a_bins ay)) (Z.to_nat (a_bins ax)).
Proof.
  intros. rewrite (rows_len_map_length _ _ (binning2_rows_len ax ay xs)). rewrite binning2_length. reflexivity.
Qed.

Lemma zeros_rows_leq2 : forall b, leq2 (map (fun r => zip_add (zeros (length r)) r) b) b.
Proof. induction b as [| r b IH]; cbn [map]; constructor; [apply zip_add_zeros_l | exact IH]. Qed.

Definition inv2 (ax ay : axis) (c : list (bdescr * list Q)) (done : list (Q * Q * Q)) : Prop :=
  map fst c = map (get_descr ax) (zrange (Z.to_nat (a_bins ax))) /\
  leq2 (map snd c) (binning2 ax ay done).

Lemma collect2_loop_whole : forall (ax ay : axis) (rest : list (list (Q * Q * Q))) (done : list (Q * Q * Q))
  (c : list (bdescr * list Q)),
  inv2 ax ay c done ->
  exists v, collect2_loop (Some c) (map (binning_2d ax ay) rest) = COk (Some v) /\
            inv2 ax ay v (done ++ concat rest).
Proof.
  intros ax ay rest. induction rest as [| p rest IH]; intros done c [Hd Hc].
  - exists c. split; [reflexivity |]. cbn [concat]. rewrite app_nil_r. split; assumption.
  - cbn [map collect2_loop]. unfold collect2_add. cbn [binning_2d result2 snd].
    set (rows := with_descr ax 0 (binning2 ax ay p)).
    assert (Hlc : length c = Z.to_nat (a_bins ax)).
    { rewrite <- (map_length snd c). rewrite (leq2_length _ _ Hc). apply binning2_length. }
    assert (Hlr : length rows = Z.to_nat (a_bins ax)).
    { rewrite <- (map_length snd rows). unfold rows. rewrite with_descr_snd. apply binning2_length. }
    rewrite Hlc, Hlr, Nat.eqb_refl.
    assert (Hlens : map (fun cr : bdescr * list Q => length (snd cr)) c =
                    map (fun r : bdescr * list Q => length (snd r)) rows).
    { rewrite <- (map_map snd (@length Q) c). rewrite <- (map_map snd (@length Q) rows).
      unfold rows. rewrite with_descr_snd. rewrite (leq2_map_length _ _ Hc).
      rewrite !binning2_map_length. reflexivity. }
    rewrite (rows_add_ok _ c rows Hlens).
    destruct (IH (done ++ p) (zip_rows c rows)) as [v [Hv Hinv]].
    + split.
      * rewrite zip_rows_fst by lia. exact Hd.
      * rewrite zip_rows_snd. unfold rows. rewrite with_descr_snd.
        apply leq2_trans with (zip_add2 (binning2 ax ay done) (binning2 ax ay p)).
        -- apply zip_add2_leq; [exact Hc | apply leq2_refl].
        -- apply leq2_sym. apply binning2_app.
    + exists v. split; [exact Hv |]. cbn [concat]. rewrite app_assoc. exact Hinv.
Qed.

Lemma binning_2d_ydescr_fixed : forall ax ay xs ys, (2 <= a_bins ax)%Z ->
  fst (binning_2d ax ay xs) = fst (binning_2d ax ay ys).
Proof.
  intros ax ay xs ys Hb. cbn [binning_2d result2 fst].
  assert (H : forall zs, length (hd [] (binning2 ax ay zs)) = Z.to_nat (a_bins ay)).
  { intro zs. assert (E : hd [] (binning2 ax ay zs) = nth 0 (binning2 ax ay zs) []) by (destruct (binning2 ax ay zs); reflexivity).
    rewrite E. rewrite binning2_row by lia. apply binning1_length. }
  rewrite !H. reflexivity.
Qed.

(* C20 collect_is_whole, two dimensions *)
Lemma collect_is_whole2 : forall (xstart xsize : Q) (xcount : N) (ystart ysize : Q) (ycount : N)
  (parts : list (list (Q * Q * Q))), parts <> [] ->
  let ax := new_axis xstart xsize xcount in
  let ay := new_axis ystart ysize ycount in
  let whole := binning_2d ax ay (concat parts) in
  exists v, collect2 (map (binning_2d ax ay) parts) = COk (fst whole, v) /\
            map fst v = map fst (snd whole) /\ leq2 (map snd v) (map snd (snd whole)).
Proof.
  intros xstart xsize xcount ystart ysize ycount parts Hne ax ay whole.
  assert (Hbx : (2 <= a_bins ax)%Z) by (unfold ax; cbn [new_axis a_bins]; lia).
  destruct parts as [| p ps]; [congruence |].
  cbn [map collect2 collect2_loop]. unfold collect2_add at 1.
  set (rows := snd (binning_2d ax ay p)).
  destruct (collect2_loop_whole ax ay ps p
              (map (fun xr : bdescr * list Q => (fst xr, zip_add (zeros (length (snd xr))) (snd xr))) rows))
    as [v [Hv [Hd Hleq]]].
  - unfold rows. cbn [binning_2d result2 snd]. split.
    + rewrite map_map. cbn [fst]. rewrite <- (map_map fst (fun x => x)). rewrite map_id.
      rewrite with_descr_fst. rewrite binning2_length. reflexivity.
    + rewrite map_map. cbn [snd].
      rewrite <- (map_map snd (fun r => zip_add (zeros (length r)) r)). rewrite with_descr_snd.
      apply zeros_rows_leq2.
  - rewrite Hv. exists v. split; [| split].
    + f_equal. f_equal. unfold whole. apply binning_2d_ydescr_fixed. exact Hbx.
    + rewrite Hd. unfold whole. cbn [binning_2d result2 snd]. rewrite with_descr_fst, binning2_length. reflexivity.
    + unfold whole. cbn [binning_2d result2 snd]. rewrite with_descr_snd. exact Hleq.
Qed.

Lemma binning_additive2 : forall (xstart xsize : Q) (xcount : N) (ystart ysize : Q) (ycount : N)
  (xs ys : list (Q * Q * Q)),
  let ax := new_axis xstart xsize xcount in
  let ay := new_axis ystart ysize ycount in
  leq2 (binning2 ax ay (xs ++ ys)) (zip_add2 (binning2 ax ay xs) (binning2 ax ay ys)).
Proof. intros. apply binning2_app. Qed.

(* ---- the cells are the specification's values (two dimensions) ---- *)

Lemma eqb_idx : forall (z : Z) (i : nat), (0 <= z)%Z -> Z.eqb z (Z.of_nat i) = Nat.eqb (Z.to_nat z) i.
Proof.
  intros z i Hz. destruct (Z.eqb_spec z (Z.of_nat i)); destruct (Nat.eqb_spec (Z.to_nat z) i); try reflexivity; lia.
Qed.

Lemma spec_sel2 : forall ax ay i j xs, 0 < a_size ax -> (2 <= a_bins ax)%Z -> 0 < a_size ay -> (2 <= a_bins ay)%Z ->
  map snd (filter (fun e : Z * Z * Q => Z.eqb (fst (fst e)) (Z.of_nat i) && Z.eqb (snd (fst e)) (Z.of_nat j))
            (map (fun e : Q * Q * Q => (spec_index ax (fst (fst e)), spec_index ay (snd (fst e)), snd e)) xs))
  = map snd (filter (fun e : Q * Q * Q => Nat.eqb (idx ax (fst (fst e))) i && Nat.eqb (idx ay (snd (fst e))) j) xs).
Proof.
  intros ax ay i j xs Hzx Hbx Hzy Hby. induction xs as [| e xs IH]; [reflexivity |].
  cbn [map filter fst snd].
  rewrite <- (get_index_is_spec ax (fst (fst e)) Hzx Hbx). rewrite <- (get_index_is_spec ay (snd (fst e)) Hzy Hby).
  assert (Hrx := get_index_range ax (fst (fst e)) Hbx). assert (Hry := get_index_range ay (snd (fst e)) Hby).
  rewrite (eqb_idx (get_index ax (fst (fst e))) i) by lia. rewrite (eqb_idx (get_index ay (snd (fst e))) j) by lia.
  fold (idx ax (fst (fst e))). fold (idx ay (snd (fst e))).
  destruct (Nat.eqb (idx ax (fst (fst e))) i && Nat.eqb (idx ay (snd (fst e))) j).
  - cbn [map snd]. rewrite IH. reflexivity.
  - exact IH.
Qed.

Lemma values2_are_spec : forall (xstart xsize : Q) (xcount : N) (ystart ysize : Q) (ycount : N)
  (xs : list (Q * Q * Q)), 0 < xsize -> 0 < ysize ->
  let ax := new_axis xstart xsize xcount in
  let ay := new_axis ystart ysize ycount in
  leq2 (binning2 ax ay xs) (spec_values2 ax ay xs).
Proof.
  intros xstart xsize xcount ystart ysize ycount xs Hzx Hzy ax ay.
  assert (Hbx : (2 <= a_bins ax)%Z) by (unfold ax; cbn [new_axis a_bins]; lia).
  assert (Hby : (2 <= a_bins ay)%Z) by (unfold ay; cbn [new_axis a_bins]; lia).
  unfold spec_values2. apply leq2_of_nth.
  - rewrite binning2_length, map_length, zrange_length. reflexivity.
  - intros i Hi. rewrite binning2_length in Hi. unfold zrange.
    rewrite (nth_map_zrange_from _ [] (Z.to_nat (a_bins ax)) 0%Z i Hi). rewrite Z.add_0_l.
    rewrite binning2_row by exact Hi. apply leq_of_nth.
    + rewrite binning1_length, map_length, zrange_length. reflexivity.
    + intros j Hj. rewrite binning1_length in Hj.
      rewrite (nth_map_zrange_from _ 0 (Z.to_nat (a_bins ay)) 0%Z j Hj). rewrite Z.add_0_l.
      rewrite binning1_nth by exact Hj. rewrite sel_selx.
      rewrite (spec_sel2 ax ay i j xs Hzx Hbx Hzy Hby). reflexivity.
Qed.

(* ------------------------------------------------------------------------------------------ *)
(* Histories of collects, and the map observers of a bin description                            *)
(* ------------------------------------------------------------------------------------------ *)

(* In the model a partial result is a value: nothing can change it, so "every partial result still is the
   binning of its own part after any number of collects" holds by construction and is not a theorem the
   model could violate (the correspondence run checks it on the real objects, which are mutable Go slices).
   What remains is: EVERY collect of a history - any selection of the parts, in any order, with repetition -
   returns the binning of the concatenation of the selected parts. *)
Lemma collect_history1 : forall (start size : Q) (count : N) (parts : list (list (Q * Q))) (steps : list (list nat)),
  let a := new_axis start size count in
  Forall (fun idxs => idxs <> [] ->
            let sel := map (fun i => nth i parts []) idxs in
            exists v, collect1 (map (binning a) sel) = COk (fst (binning a (concat sel)), v) /\
                      leq v (snd (binning a (concat sel)))) steps.
Proof.
  intros start size count parts steps a. apply Forall_forall. intros idxs _ Hne sel.
  apply collect_is_whole1. unfold sel. destruct idxs; [congruence | cbn [map]; discriminate].
Qed.

Lemma collect_history2 : forall (xstart xsize : Q) (xcount : N) (ystart ysize : Q) (ycount : N)
  (parts : list (list (Q * Q * Q))) (steps : list (list nat)),
  let ax := new_axis xstart xsize xcount in
  let ay := new_axis ystart ysize ycount in
  Forall (fun idxs => idxs <> [] ->
            let sel := map (fun i => nth i parts []) idxs in
            let whole := binning_2d ax ay (concat sel) in
            exists v, collect2 (map (binning_2d ax ay) sel) = COk (fst whole, v) /\
                      map fst v = map fst (snd whole) /\ leq2 (map snd v) (map snd (snd whole))) steps.
Proof.
  intros xstart xsize xcount ystart ysize ycount parts steps ax ay. apply Forall_forall. intros idxs _ Hne sel.
  apply collect_is_whole2. unfold sel. destruct idxs; [congruence | cbn [map]; discriminate].
Qed.

(* the record getDescr builds shows exactly the description used in the theorems above *)
Lemma descr_of_get_bin : forall a i, descr_of_bin (get_bin a i) = get_descr a i.
Proof.
  intros a i. unfold get_bin, get_descr, descr_of_bin.
  destruct (i =? 0)%Z; [reflexivity |]. destruct (i =? a_bins a - 1)%Z; reflexivity.
Qed.

Definition opt_num (o : option Q) : option bval := match o with Some q => Some (BNum q) | None => None end.

(* facts about the observers of ANY bin record *)
Lemma bin_avail_flags : forall b, map_is_avail b [KMin] = b_ismin b /\ map_is_avail b [KMax] = b_ismax b /\
  map_is_avail b [KStr] = true /\ map_is_avail b [KOther] = false.
Proof. intros [im mn ix mx]. cbn. rewrite !andb_true_r. repeat split. Qed.

Lemma bin_get_descr : forall b, map_get b KMin = opt_num (fst (descr_of_bin b)) /\
  map_get b KMax = opt_num (snd (descr_of_bin b)) /\ map_get b KStr = Some BStr /\ map_get b KOther = None.
Proof. intros [im mn ix mx]. destruct im; destruct ix; cbn; repeat split. Qed.

Lemma bin_contains_avail : forall b k, map_contains b k = map_is_avail b [k].
Proof. intros b k. unfold map_contains, map_is_avail. cbn [forallb]. rewrite andb_true_r. reflexivity. Qed.

Lemma bin_iter_get : forall b k, kv_get (bin_iter b) k = map_get b k.
Proof. intros [im mn ix mx] k. destruct im; destruct ix; destruct k; reflexivity. Qed.

Lemma bin_size_iter : forall b, bin_size b = N.of_nat (length (bin_iter b)).
Proof. intros [im mn ix mx]. destruct im; destruct ix; reflexivity. Qed.

Lemma bin_equals_self_true : forall b, bin_equals_self b = true.
Proof.
  intros [im mn ix mx]. destruct im; destruct ix; unfold bin_equals_self; cbn; rewrite ?Qeq_bool_refl; reflexivity.
Qed.

Lemma get_bin_flags : forall a i, (2 <= a_bins a)%Z ->
  b_ismin (get_bin a i) = negb (i =? 0)%Z /\ b_ismax (get_bin a i) = negb (i =? a_bins a - 1)%Z.
Proof.
  intros a i Hb. unfold get_bin.
  destruct (Z.eqb_spec i 0) as [E0 | N0].
  - subst i. destruct (Z.eqb_spec 0 (a_bins a - 1)); [lia | split; reflexivity].
  - destruct (Z.eqb_spec i (a_bins a - 1)); split; reflexivity.
Qed.

(* every map observer of the description of bin i answers from the description: a bound is available,
   gettable, contained, listed and counted exactly when the description has it (min unless i = 0, max
   unless i = count+1), str always, any other key never *)
Lemma descr_observers : forall (a : axis) (i : Z), (2 <= a_bins a)%Z ->
  let b := get_bin a i in
  let d := get_descr a i in
  (map_is_avail b [KMin] = true <-> i <> 0%Z) /\ (map_is_avail b [KMax] = true <-> i <> (a_bins a - 1)%Z) /\
  map_is_avail b [KStr] = true /\ map_is_avail b [KOther] = false /\
  map_get b KMin = opt_num (fst d) /\ map_get b KMax = opt_num (snd d) /\
  map_get b KStr = Some BStr /\ map_get b KOther = None /\
  (forall k, map_contains b k = map_is_avail b [k]) /\
  (forall k, kv_get (bin_iter b) k = map_get b k) /\
  bin_size b = N.of_nat (length (bin_iter b)) /\
  bin_equals_self b = true.
Proof.
  intros a i Hb b d.
  destruct (bin_avail_flags b) as [A1 [A2 [A3 A4]]].
  destruct (bin_get_descr b) as [G1 [G2 [G3 G4]]].
  destruct (get_bin_flags a i Hb) as [F1 F2]. fold b in F1, F2.
  assert (Hd : descr_of_bin b = d) by apply descr_of_get_bin.
  rewrite Hd in G1, G2.
  split; [| split; [| split; [| split; [| split; [| split; [| split; [| split; [| split; [| split; [| split]]]]]]]]]].
  - rewrite A1, F1. destruct (Z.eqb_spec i 0); cbn; split; intro H; try congruence; try lia.
  - rewrite A2, F2. destruct (Z.eqb_spec i (a_bins a - 1)); cbn; split; intro H; try congruence; try lia.
  - exact A3.
  - exact A4.
  - exact G1.
  - exact G2.
  - exact G3.
  - exact G4.
  - apply bin_contains_avail.
  - apply bin_iter_get.
  - apply bin_size_iter.
  - apply bin_equals_self_true.
Qed.
