(* C07 - list.merge on ordered inputs.  The description: "The given function is called for the pair of the
   first, non processed items in both lists. If the return value is true the value of the original list is
   taken, otherwise the item from the other list. ... If the function returns true if a<b holds and both
   lists are ordered, also the new list is ordered."
   Stated for any boolean relation ltb the callback decides: the answer is the standard merge (a
   permutation of both lists that keeps the order inside each list); if ltb never says a<b and b<a at once
   and both inputs are ordered (no item is less than its left neighbour) then so is the answer.  On a tie
   (neither a<b nor b<a) the item of the OTHER list goes first. *)
From P2 Require Import Base.Prelude Sem.Num Sem.Syntax Sem.Ops Sem.Lib Lib.Names Lib.Builtins Lib.ListLib Lib.BuiltinsProofs.
From Coq Require Import Permutation Sorted.

(* the merge of the description on a boolean relation *)
Fixpoint pmerge (ltb : value -> value -> bool) (l1 : list value) : list value -> list value :=
  fix inner (l2 : list value) : list value :=
    match l1 with
    | [] => l2
    | a :: r1 =>
        match l2 with
        | [] => l1
        | b :: r2 => if ltb a b then a :: pmerge ltb r1 l2 else b :: inner r2
        end
    end.

(* out is an interleaving of l1 and l2: both keep their internal order *)
Inductive interleave : list value -> list value -> list value -> Prop :=
| il_nil : interleave [] [] []
| il_left : forall a l1 l2 out, interleave l1 l2 out -> interleave (a :: l1) l2 (a :: out)
| il_right : forall b l1 l2 out, interleave l1 l2 out -> interleave l1 (b :: l2) (b :: out).

Lemma interleave_nil_l : forall l, interleave [] l l.
Proof. induction l; constructor; assumption. Qed.

Lemma interleave_nil_r : forall l, interleave l [] l.
Proof. induction l; constructor; assumption. Qed.

Lemma interleave_perm : forall l1 l2 out, interleave l1 l2 out -> Permutation (l1 ++ l2) out.
Proof.
  intros l1 l2 out H. induction H; cbn [app].
  - constructor.
  - constructor. assumption.
  - eapply perm_trans; [apply Permutation_sym, Permutation_middle|]. constructor. assumption.
Qed.

Lemma d_merge_pure : forall (less : dcb2) ltb, (forall a b, less a b = Ok (VBool (ltb a b))) ->
  forall l1 l2, d_merge less l1 l2 = Ok (pmerge ltb l1 l2).
Proof.
  intros less ltb H. induction l1 as [|a r1 IH1]; intros l2.
  - destruct l2; reflexivity.
  - induction l2 as [|b r2 IH2]; [reflexivity|].
    cbn [d_merge pmerge]. rewrite H. cbn [d_bool bind]. destruct (ltb a b).
    + rewrite IH1. reflexivity.
    + cbn [d_merge pmerge] in IH2. rewrite IH2. reflexivity.
Qed.

Lemma pmerge_interleave : forall ltb l1 l2, interleave l1 l2 (pmerge ltb l1 l2).
Proof.
  intros ltb. induction l1 as [|a r1 IH1]; intros l2.
  - destruct l2; apply interleave_nil_l.
  - induction l2 as [|b r2 IH2]; [apply interleave_nil_r|].
    cbn [pmerge]. destruct (ltb a b).
    + apply il_left. apply IH1.
    + apply il_right. exact IH2.
Qed.

Definition not_before (ltb : value -> value -> bool) (x y : value) : Prop := ltb y x = false.

Lemma pmerge_hdrel : forall ltb x l1 l2, HdRel (not_before ltb) x l1 -> HdRel (not_before ltb) x l2 ->
  HdRel (not_before ltb) x (pmerge ltb l1 l2).
Proof.
  intros ltb x l1 l2 H1 H2. destruct l1 as [|a r1]; [destruct l2; exact H2|].
  destruct l2 as [|b r2]; [exact H1|]. cbn [pmerge]. destruct (ltb a b); constructor.
  - inversion H1; assumption.
  - inversion H2; assumption.
Qed.

Lemma pmerge_sorted : forall ltb, (forall a b, ltb a b = true -> ltb b a = false) ->
  forall l1 l2, Sorted (not_before ltb) l1 -> Sorted (not_before ltb) l2 ->
  Sorted (not_before ltb) (pmerge ltb l1 l2).
Proof.
  intros ltb Asym. induction l1 as [|a r1 IH1]; intros l2 S1 S2.
  - destruct l2; exact S2.
  - induction l2 as [|b r2 IH2]; [exact S1|].
    cbn [pmerge]. destruct (ltb a b) eqn:E.
    + inversion S1 as [|? ? S1' Hd1]; subst. constructor; [apply IH1; assumption|].
      apply pmerge_hdrel; [exact Hd1|]. constructor. unfold not_before. apply Asym. exact E.
    + inversion S2 as [|? ? S2' Hd2]; subst. constructor; [apply IH2; assumption|].
      change (HdRel (not_before ltb) b (pmerge ltb (a :: r1) r2)).
      apply pmerge_hdrel; [|exact Hd2]. constructor. exact E.
Qed.

(* the implementation model of list.merge (lazy stream stage) on two lists and a callback that decides ltb *)
Theorem merge_sorted : forall (f : dcb2) ltb, (forall a b, f a b = Ok (VBool (ltb a b))) ->
  forall l1 l2,
  collect (s_merge f (of_list l1) l2) = Ok (pmerge ltb l1 l2) /\
  interleave l1 l2 (pmerge ltb l1 l2) /\
  Permutation (l1 ++ l2) (pmerge ltb l1 l2) /\
  ((forall a b, ltb a b = true -> ltb b a = false) ->
   Sorted (not_before ltb) l1 -> Sorted (not_before ltb) l2 -> Sorted (not_before ltb) (pmerge ltb l1 l2)).
Proof.
  intros f ltb H l1 l2. split; [rewrite merge_spec; apply d_merge_pure; exact H|].
  split; [apply pmerge_interleave|]. split; [apply interleave_perm, pmerge_interleave|].
  intros A S1 S2. apply pmerge_sorted; assumption.
Qed.

(* ties: when neither a<b the item of the other list is taken first *)
Theorem merge_tie_takes_other : forall ltb a r1 b r2, ltb a b = false ->
  pmerge ltb (a :: r1) (b :: r2) = b :: pmerge ltb (a :: r1) r2.
Proof. intros ltb a r1 b r2 H. cbn [pmerge]. rewrite H. reflexivity. Qed.

(* list.eval: the content is unchanged (the implementation model evaluates the stream into a list) *)
Theorem eval_identity : forall l, collect (of_list l) = Ok l.
Proof. exact collect_of_list. Qed.
