From P2 Require Import Base.Prelude Lib.Stream Lib.StreamProofs Lib.Iterate.
Local Open Scope Z_scope.

Lemma loop_st_fst : forall fuel p t q s, fst (loop_st fuel p t q s) = loop fuel p t q s.
Proof.
  induction fuel as [|f IH]; intros p t q s; cbn [loop_st loop]; auto.
  destruct (next p q) as [l [ | q' | v q' | e]]; auto.
  - rewrite <- IH. destruct (loop_st f p t q' s) as [[[l' o] n] qf]. reflexivity.
  - destruct (term_item t s v) as [l1 [s'|o]]; auto.
    rewrite <- IH. destruct (loop_st f p t q' s') as [[[l' o] n] qf]. reflexivity.
Qed.

Lemma reseed_none : forall p q, reseed (fun _ => false) p q = init p.
Proof.
  (* no constructor names: the pipe type grows (PCross, PMerge, PThrough ...); reseed treats everything but
     stages and concatenation by its default branch *)
  induction p; intros q; cbn [reseed init]; auto; try (destruct q; reflexivity);
    destruct q; auto;
    repeat match goal with H : forall q, reseed _ ?p q = init ?p |- _ => rewrite H; clear H end; reflexivity.
Qed.

(* every traversal of a list value, after any number of earlier traversals by any consumers (complete ones,
   and ones that stopped early: first, present, indexWhere, ~), gives what a fresh traversal gives *)
Lemma iterate_twice_same_lemma : forall fuel p before t,
  last (iterate fuel p (before ++ [t])) ([], OutOfFuel, O) = run fuel t p.
Proof. intros. unfold iterate. rewrite map_app. cbn. apply last_last. Qed.

Lemma iterate_nth_lemma : forall fuel p ts k t, nth_error ts k = Some t ->
  nth_error (iterate fuel p ts) k = Some (run fuel t p).
Proof. intros fuel p ts k t H. unfold iterate. exact (map_nth_error (fun t => run fuel t p) k ts H). Qed.

(* ... and a value whose stages keep nothing between traversals IS the code as modelled: the executable
   state-threading semantics with keep = none coincides with iterate for all pipelines and consumers *)
Lemma iterate_from_none : forall fuel p ts q, q = init p ->
  iterate_from (fun _ => false) fuel p q ts = iterate fuel p ts.
Proof.
  intros fuel p ts. induction ts as [|t r IH]; intros q Hq; cbn [iterate_from iterate map]; auto.
  destruct t; try (rewrite IH by auto; reflexivity);
    (match goal with |- context [loop_st fuel p ?t q tst0] =>
       pose proof (loop_st_fst fuel p t q tst0) as E; destruct (loop_st fuel p t q tst0) as [res qf];
       cbn [fst] in E; rewrite E, IH by apply reseed_none; subst q; f_equal; symmetry; apply run_loop; discriminate
     end).
Qed.

Lemma iterate_shared_none_lemma : forall fuel p ts, iterate_shared (fun _ => false) fuel p ts = iterate fuel p ts.
Proof. intros. apply iterate_from_none. reflexivity. Qed.

(* the hoisted variable: [3,1,3].compact((a,b)->a=b), traversed by first() and then summed - the second
   traversal starts with lastPublished = 3 and drops the leading 3 *)
Lemma iterate_shared_refuted_lemma : exists p t1 t2,
  map (fun r => snd (fst r)) (iterate 20 p [t1; t2]) = [OInt 3; OInt 7] /\
  map (fun r => snd (fst r)) (iterate_shared is_compact 20 p [t1; t2]) = [OInt 3; OInt 4].
Proof.
  exists (PStage (SCompact 1 eq_pr) (PList [3; 1; 3])), TFirst, (TReduce 2 add_fn). split; vm_compute; reflexivity.
Qed.
