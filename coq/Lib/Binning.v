(* Model of value/binning.go over exact rationals (definitions only, proofs are in BinningProofs.v).

   Floats are modelled by Q: the model computes what the float code computes whenever every
   intermediate result is exactly representable (the domain of property C20; the harness skips and
   counts the other cases).  Part 1 follows the Go code branch by branch; part 2 is the
   specification side (what C20 demands), written independently of floor and division.

   Model of the code AFTER the repair "fix: binning clamps the bin index before converting to int":
   getIndex clamps the float and converts to int only when it is in range. *)
From Coq Require Import QArith Qround.
From P2 Require Import Base.Prelude.
Local Open Scope Q_scope.

(* ------------------------------------------------------------------------------------------ *)
(* Part 1: the implementation                                                                   *)
(* ------------------------------------------------------------------------------------------ *)

(* type axis struct { start, size float64; bins int }      bins = count+2 (newBinning / New2d) *)
Record axis := mkAxis { a_start : Q; a_size : Q; a_bins : Z }.

Definition new_axis (start size : Q) (count : N) : axis := mkAxis start size (Z.of_N count + 2).

Definition Qpos_b (q : Q) : bool := negb (Qle_bool q 0).          (* 0 < q *)

(* func (a *axis) getIndex(v float64) int
     f := math.Floor((v-a.start)/a.size) + 1
     if f >= float64(a.bins-1) { return a.bins-1 } else if f > 0 { return int(f) }; return 0
   size = 0 is the only place where the float code leaves the rationals: (v-start)/0 is +Inf, -Inf or
   NaN, Floor and +1 keep it, +Inf satisfies the first comparison, -Inf and NaN satisfy none. *)
Definition get_index (a : axis) (v : Q) : Z :=
  if Qeq_bool (a_size a) 0 then
    (if Qpos_b (v - a_start a) then a_bins a - 1 else 0)%Z
  else
    let f := (Qfloor ((v - a_start a) / a_size a) + 1)%Z in
    if (a_bins a - 1 <=? f)%Z then (a_bins a - 1)%Z
    else if (0 <? f)%Z then f
    else 0%Z.

(* type bin struct { IsMin bool; Min float64; IsMax bool; Max float64 }: observed through Get/Iter,
   which show min only if IsMin and max only if IsMax *)
Definition bdescr := (option Q * option Q)%type.

(* func (a *axis) getDescr(i int) bin *)
Definition get_descr (a : axis) (i : Z) : bdescr :=
  let to := a_start a + inject_Z i * a_size a in
  let from := to - a_size a in
  if (i =? 0)%Z then (None, Some to)
  else if (i =? a_bins a - 1)%Z then (Some from, None)
  else (Some from, Some to).

Definition zeros (n : nat) : list Q := repeat 0 n.

(* s.bins[i] += d.  Go panics when i is out of range; the model leaves the slice unchanged there, which
   would lose mass: get_index_range (BinningProofs.v) shows the index is always in range. *)
Fixpoint add_at (l : list Q) (i : nat) (d : Q) : list Q :=
  match l, i with
  | [], _ => []
  | x :: r, O => (x + d) :: r
  | x :: r, S j => x :: add_at r j d
  end.

(* func (s *BinningData) Add(value, toSum float64) *)
Definition add1 (a : axis) (bins : list Q) (e : Q * Q) : list Q :=
  add_at bins (Z.to_nat (get_index a (fst e))) (snd e).

(* the loop of Binning: b := newBinning(...); for v := range l { b.Add(ind(v), val(v)) } *)
Definition fold1 (a : axis) (xs : list (Q * Q)) (init : list Q) : list Q := fold_left (add1 a) xs init.
Definition binning1 (a : axis) (xs : list (Q * Q)) : list Q := fold1 a xs (zeros (Z.to_nat (a_bins a))).

Fixpoint zrange_from (s : Z) (n : nat) : list Z :=
  match n with O => [] | S k => s :: zrange_from (s + 1)%Z k end.
Definition zrange (n : nat) : list Z := zrange_from 0%Z n.

(* func (s *BinningData) Result: for i, v := range s.bins { yield(s.a.getDescr(i), v) };
   Binning() collects {descr: [...], values: [...]} *)
Definition result1 (a : axis) (bins : list Q) : list bdescr * list Q :=
  (map (get_descr a) (zrange (length bins)), bins).

Definition binning (a : axis) (xs : list (Q * Q)) : list bdescr * list Q := result1 a (binning1 a xs).

(* ---- two dimensions ---- *)

Fixpoint upd_row (b : list (list Q)) (i : nat) (f : list Q -> list Q) : list (list Q) :=
  match b, i with
  | [], _ => []
  | r :: t, O => f r :: t
  | r :: t, S j => r :: upd_row t j f
  end.

(* func (s *Binning2dData) Add(x, y, toSum float64): s.bins[xi][yi] += toSum *)
Definition add2 (ax ay : axis) (bins : list (list Q)) (e : Q * Q * Q) : list (list Q) :=
  let xi := Z.to_nat (get_index ax (fst (fst e))) in
  let yi := Z.to_nat (get_index ay (snd (fst e))) in
  upd_row bins xi (fun r => add_at r yi (snd e)).

Definition zeros2 (n m : nat) : list (list Q) := repeat (zeros m) n.
Definition fold2 (ax ay : axis) (xs : list (Q * Q * Q)) (init : list (list Q)) := fold_left (add2 ax ay) xs init.
Definition binning2 (ax ay : axis) (xs : list (Q * Q * Q)) : list (list Q) :=
  fold2 ax ay xs (zeros2 (Z.to_nat (a_bins ax)) (Z.to_nat (a_bins ay))).

Fixpoint with_descr (a : axis) (i : Z) (rows : list (list Q)) : list (bdescr * list Q) :=
  match rows with
  | [] => []
  | r :: t => (get_descr a i, r) :: with_descr a (i + 1)%Z t
  end.

(* Result (rows with xd) and DescrY (for i := range s.bins[0]); Binning2d() returns
   {yDescr: [...], values: [{xd:.., row:[..]}, ...]} *)
Definition result2 (ax ay : axis) (bins : list (list Q)) : list bdescr * list (bdescr * list Q) :=
  (map (get_descr ay) (zrange (length (hd [] bins))), with_descr ax 0%Z bins).

Definition binning_2d (ax ay : axis) (xs : list (Q * Q * Q)) := result2 ax ay (binning2 ax ay xs).

(* ---- collectBinning ---- *)

Inductive cres (A : Type) := COk (a : A) | CErr.
Arguments COk {A} a.
Arguments CErr {A}.

Fixpoint zip_add (a b : list Q) : list Q :=
  match a, b with
  | x :: a', y :: b' => (x + y) :: zip_add a' b'
  | _, _ => []
  end.

(* collectBinning1d.add: c.vals == nil -> make([]float64, len(entries)); else the lengths must agree;
   then c.vals[i] += entries[i].  The state is None while c.vals is nil. *)
Definition collect1_add (st : option (list Q)) (vals : list Q) : cres (option (list Q)) :=
  match st with
  | None => COk (Some (zip_add (zeros (length vals)) vals))
  | Some c => if Nat.eqb (length c) (length vals) then COk (Some (zip_add c vals)) else CErr
  end.

Fixpoint collect1_loop {D} (st : option (list Q)) (parts : list (D * list Q)) : cres (option (list Q)) :=
  match parts with
  | [] => COk st
  | p :: r => match collect1_add st (snd p) with
              | COk st' => collect1_loop st' r
              | CErr => CErr
              end
  end.

(* CollectBinning on a list of 1-d results: the first item fixes the kind and supplies descr;
   an empty list is the error "no items" *)
Definition collect1 {D} (parts : list (D * list Q)) : cres (D * list Q) :=
  match parts with
  | [] => CErr
  | p :: _ => match collect1_loop None parts with
              | COk (Some v) => COk (fst p, v)
              | COk None => COk (fst p, [])     (* unreachable: the loop ran at least once *)
              | CErr => CErr
              end
  end.

(* collectBinning2d.add: the first item allocates the rows (and takes every xd), later items must have
   the same number of rows and row lengths.  Inside one call every row is visited, so after the first
   item no row is nil: the "c.vals[i] == nil" branch is only taken during the first item. *)
Fixpoint rows_add {X} (c : list (X * list Q)) (rows : list (X * list Q)) : cres (list (X * list Q)) :=
  match c, rows with
  | [], [] => COk []
  | (xd, cr) :: c', (_, r) :: rows' =>
      if Nat.eqb (length cr) (length r) then
        match rows_add c' rows' with
        | COk t => COk ((xd, zip_add cr r) :: t)
        | CErr => CErr
        end
      else CErr
  | _, _ => CErr
  end.

Definition collect2_add {X} (st : option (list (X * list Q))) (rows : list (X * list Q))
  : cres (option (list (X * list Q))) :=
  match st with
  | None => COk (Some (map (fun xr => (fst xr, zip_add (zeros (length (snd xr))) (snd xr))) rows))
  | Some c => if Nat.eqb (length c) (length rows)
              then match rows_add c rows with COk t => COk (Some t) | CErr => CErr end
              else CErr
  end.

Fixpoint collect2_loop {D X} (st : option (list (X * list Q))) (parts : list (D * list (X * list Q)))
  : cres (option (list (X * list Q))) :=
  match parts with
  | [] => COk st
  | p :: r => match collect2_add st (snd p) with
              | COk st' => collect2_loop st' r
              | CErr => CErr
              end
  end.

Definition collect2 {D X} (parts : list (D * list (X * list Q))) : cres (D * list (X * list Q)) :=
  match parts with
  | [] => CErr
  | p :: _ => match collect2_loop None parts with
              | COk (Some v) => COk (fst p, v)
              | COk None => COk (fst p, [])
              | CErr => CErr
              end
  end.

(* ------------------------------------------------------------------------------------------ *)
(* Part 2: the specification side                                                               *)
(* ------------------------------------------------------------------------------------------ *)

(* the k-th bin edge, k = 0..count *)
Definition edge (a : axis) (k : Z) : Q := a_start a + inject_Z k * a_size a.

Definition count_of (a : axis) : Z := (a_bins a - 2)%Z.

(* "underflow below start, bin i for start+(i-1)*size <= x < start+i*size, overflow from
   start+count*size": the bin number is the number of edges 0..count that are <= x *)
Definition spec_index (a : axis) (v : Q) : Z :=
  Z.of_nat (length (filter (fun k => Qle_bool (edge a k) v) (zrange (Z.to_nat (count_of a + 1))))).

(* what bin i is said to contain *)
Definition spec_descr (a : axis) (i : Z) : bdescr :=
  (if (i =? 0)%Z then None else Some (edge a (i - 1)),
   if (i =? count_of a + 1)%Z then None else Some (edge a i)).

Definition in_descr (d : bdescr) (v : Q) : Prop :=
  match fst d with Some m => m <= v | None => True end /\
  match snd d with Some m => v < m | None => True end.

Definition in_descr_b (d : bdescr) (v : Q) : bool :=
  match fst d with Some m => Qle_bool m v | None => true end &&
  match snd d with Some m => negb (Qle_bool m v) | None => true end.

Fixpoint Qsum (l : list Q) : Q := match l with [] => 0 | x :: r => x + Qsum r end.
Definition Qsum2 (l : list (list Q)) : Q := Qsum (map Qsum l).

(* the value of bin i: the sum over the elements that belong to it *)
Definition spec_values (a : axis) (xs : list (Q * Q)) : list Q :=
  let ix := map (fun e => (spec_index a (fst e), snd e)) xs in
  map (fun i => Qsum (map snd (filter (fun e => Z.eqb (fst e) i) ix))) (zrange (Z.to_nat (a_bins a))).

Definition spec_values2 (ax ay : axis) (xs : list (Q * Q * Q)) : list (list Q) :=
  let ix := map (fun e => (spec_index ax (fst (fst e)), spec_index ay (snd (fst e)), snd e)) xs in
  map (fun i =>
         map (fun j => Qsum (map snd (filter (fun e => Z.eqb (fst (fst e)) i && Z.eqb (snd (fst e)) j) ix)))
             (zrange (Z.to_nat (a_bins ay))))
      (zrange (Z.to_nat (a_bins ax))).

Fixpoint zip_add2 (a b : list (list Q)) : list (list Q) :=
  match a, b with
  | x :: a', y :: b' => zip_add x y :: zip_add2 a' b'
  | _, _ => []
  end.

(* lists of rationals are compared up to Qeq *)
Definition leq (a b : list Q) : Prop := Forall2 Qeq a b.
Definition leq2 (a b : list (list Q)) : Prop := Forall2 leq a b.

Fixpoint leq_b (a b : list Q) : bool :=
  match a, b with
  | [], [] => true
  | x :: a', y :: b' => Qeq_bool x y && leq_b a' b'
  | _, _ => false
  end.

Fixpoint leq2_b (a b : list (list Q)) : bool :=
  match a, b with
  | [], [] => true
  | x :: a', y :: b' => leq_b x y && leq2_b a' b'
  | _, _ => false
  end.

Definition oq_eqb (a b : option Q) : bool :=
  match a, b with
  | None, None => true
  | Some x, Some y => Qeq_bool x y
  | _, _ => false
  end.

Definition bdescr_eqb (a b : bdescr) : bool := oq_eqb (fst a) (fst b) && oq_eqb (snd a) (snd b).

Fixpoint descrs_eqb (a b : list bdescr) : bool :=
  match a, b with
  | [], [] => true
  | x :: a', y :: b' => bdescr_eqb x y && descrs_eqb a' b'
  | _, _ => false
  end.

Definition bdescr_eq (a b : bdescr) : Prop :=
  match fst a, fst b with Some x, Some y => x == y | None, None => True | _, _ => False end /\
  match snd a, snd b with Some x, Some y => x == y | None, None => True | _, _ => False end.

(* ------------------------------------------------------------------------------------------ *)
(* Part 3: a bin description as a map (value.bin is a MapStorage) and the map observers on it     *)
(* ------------------------------------------------------------------------------------------ *)

(* type bin struct { IsMin bool; Min float64; IsMax bool; Max float64 }: the Go zero value 0 stays in
   Min/Max when the bound does not exist *)
Record bin := mkBin { b_ismin : bool; b_min : Q; b_ismax : bool; b_max : Q }.

(* func (a *axis) getDescr(i int) bin, as the record the code builds *)
Definition get_bin (a : axis) (i : Z) : bin :=
  let to := a_start a + inject_Z i * a_size a in
  let from := to - a_size a in
  if (i =? 0)%Z then mkBin false 0 true to
  else if (i =? a_bins a - 1)%Z then mkBin true from false 0
  else mkBin true from true to.

Definition descr_of_bin (b : bin) : bdescr :=
  (if b_ismin b then Some (b_min b) else None, if b_ismax b then Some (b_max b) else None).

(* the keys the observers are asked about, and the values a bin map holds (the text of str is not modelled) *)
Inductive bkey := KStr | KMin | KMax | KOther.
Inductive bval := BStr | BNum (q : Q).

Definition bkey_eqb (a b : bkey) : bool :=
  match a, b with KStr, KStr | KMin, KMin | KMax, KMax | KOther, KOther => true | _, _ => false end.

Definition bval_eqb (a b : bval) : bool :=
  match a, b with BStr, BStr => true | BNum x, BNum y => Qeq_bool x y | _, _ => false end.

(* func (b bin) Get(key string) (Value, bool): the value (None = Go nil) and the ok flag; for an absent
   bound the code returns the non-nil Float(0) together with false *)
Definition bin_get (b : bin) (k : bkey) : option bval * bool :=
  match k with
  | KStr => (Some BStr, true)
  | KMin => (Some (BNum (b_min b)), b_ismin b)
  | KMax => (Some (BNum (b_max b)), b_ismax b)
  | KOther => (None, false)
  end.

(* func (b bin) Iter: str, then min if IsMin, then max if IsMax *)
Definition bin_iter (b : bin) : list (bkey * bval) :=
  (KStr, BStr) :: (if b_ismin b then [(KMin, BNum (b_min b))] else [])
               ++ (if b_ismax b then [(KMax, BNum (b_max b))] else []).

(* func (b bin) Size *)
Definition bin_size (b : bin) : N :=
  (1 + (if b_ismin b then 1 else 0) + (if b_ismax b then 1 else 0))%N.

(* Map.IsAvail(keys...): every key must have the ok flag of MapStorage.Get *)
Definition map_is_avail (b : bin) (ks : list bkey) : bool := forallb (fun k => snd (bin_get b k)) ks.

(* Map.GetM (method get), member access d.min and Map.Get: the value when the ok flag is set, else an error *)
Definition map_get (b : bin) (k : bkey) : option bval :=
  if snd (bin_get b k) then fst (bin_get b k) else None.

(* "key" ~ d is Map.ContainsKey: the ok flag *)
Definition map_contains (b : bin) (k : bkey) : bool := snd (bin_get b k).

(* Map.Equals(d, other) where other is a plain key/value list: equal sizes, and every entry that Iter yields
   is found in other with an equal value *)
Fixpoint kv_get (l : list (bkey * bval)) (k : bkey) : option bval :=
  match l with
  | [] => None
  | (k', v) :: r => if bkey_eqb k k' then Some v else kv_get r k
  end.

Definition bin_equals_kv (b : bin) (other : list (bkey * bval)) : bool :=
  N.eqb (bin_size b) (N.of_nat (length other)) &&
  forallb (fun kv => match kv_get other (fst kv) with Some v => bval_eqb v (snd kv) | None => false end) (bin_iter b).

(* d = d *)
Definition bin_equals_self (b : bin) : bool :=
  forallb (fun kv => match map_get b (fst kv) with Some v => bval_eqb v (snd kv) | None => false end) (bin_iter b).

(* what the specification says bin i of the grid is, as a key/value list: str always, min unless i = 0,
   max unless i = count+1 *)
Definition spec_kv (a : axis) (i : Z) : list (bkey * bval) :=
  (KStr, BStr) :: (if (i =? 0)%Z then [] else [(KMin, BNum (edge a (i - 1)))])
               ++ (if (i =? count_of a + 1)%Z then [] else [(KMax, BNum (edge a i))]).
