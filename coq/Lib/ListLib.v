(* C07 - DOCUMENTED models: what the description of each built-in says, on eager lists, with the
   standard list functions (fold, firstn, skipn, rev, filter, map, zip of consecutive items,
   row-major product ...), and boolean CHECKERS for results that are specified relationally
   (a sorted permutation; a partition by key; the set of keys).
   No proofs here (Lib/BuiltinsProofs.v). *)
From P2 Require Import Base.Prelude Sem.Num Sem.Syntax Sem.Ops Lib.Names.
Local Open Scope Z_scope.

Definition dcb1 := value -> res value.
Definition dcb2 := value -> value -> res value.
Definition dcb3 := value -> value -> value -> res value.

Definition d_bool (r : res value) : res bool :=
  bind r (fun v => match v with VBool b => Ok b | _ => Err None end).

(* ---------- monadic list functions ---------- *)

Fixpoint mapM {A} (f : A -> res value) (l : list A) : res (list value) :=
  match l with
  | [] => Ok []
  | x :: r => bind (f x) (fun y => bind (mapM f r) (fun ys => Ok (y :: ys)))
  end.

Fixpoint filterM (p : value -> res bool) (l : list value) : res (list value) :=
  match l with
  | [] => Ok []
  | x :: r => bind (p x) (fun b => bind (filterM p r) (fun ys => Ok (if b then x :: ys else ys)))
  end.

Fixpoint foldM (f : dcb2) (acc : value) (l : list value) : res value :=
  match l with
  | [] => Ok acc
  | x :: r => bind (f acc x) (fun acc' => foldM f acc' r)
  end.

(* ---------- the documented results ---------- *)

Definition d_map (f : dcb1) (l : list value) := mapM f l.
Definition d_accept (f : dcb1) (l : list value) := filterM (fun x => d_bool (f x)) l.

(* "called with the first two items, the result is used as first argument for the third item ..." *)
Definition d_reduce (f : dcb2) (l : list value) : res value :=
  match l with [] => Err None | x :: r => foldM f x r end.

Definition d_mapReduce (init : value) (f : dcb2) (l : list value) : res value := foldM f init l.
Definition d_visit := d_mapReduce.

(* "Shorthand for reduce((a,b)->a+b)" *)
Definition d_sum (l : list value) : res value := d_reduce (calc op_add) l.

Definition d_mean (l : list value) : res value :=
  bind (d_sum l) (fun s => calc op_div s (VInt (Z.of_nat (length l)))).

(* the first minimal / maximal item by < *)
Definition d_min (l : list value) : res value :=
  d_reduce (fun m x => bind (vless x m) (fun b => Ok (if b then x else m))) l.
Definition d_max (l : list value) : res value :=
  d_reduce (fun m x => bind (vless m x) (fun b => Ok (if b then x else m))) l.

(* minMax: the first item with the minimal / maximal value of f *)
Definition d_pick_min (a b : value * value) : res (value * value) :=
  bind (vless (fst b) (fst a)) (fun lt => Ok (if lt then b else a)).
Definition d_pick_max (a b : value * value) : res (value * value) :=
  bind (vless (fst a) (fst b)) (fun lt => Ok (if lt then b else a)).

Fixpoint foldP (f : value * value -> value * value -> res (value * value)) (acc : value * value)
         (l : list (value * value)) : res (value * value) :=
  match l with
  | [] => Ok acc
  | x :: r => bind (f acc x) (fun acc' => foldP f acc' r)
  end.

Definition d_top (n : Z) (l : list value) : list value := firstn (Z.to_nat n) l.
Definition d_skip (n : Z) (l : list value) : list value := skipn (Z.to_nat n) l.

Definition d_first (l : list value) : res value := match l with x :: _ => Ok x | [] => Err None end.
Definition d_last (l : list value) : res value := match rev l with x :: _ => Ok x | [] => Err None end.
Definition d_single (l : list value) : res value := match l with [x] => Ok x | _ => Err None end.
Definition d_size (l : list value) : value := VInt (Z.of_nat (length l)).
Definition d_reverse (l : list value) : list value := rev l.
Definition d_append (l : list value) (x : value) : list value := l ++ [x].

Definition d_set (i : Z) (x : value) (l : list value) : res (list value) :=
  if (0 <=? i) && (i <? Z.of_nat (length l))
  then Ok (firstn (Z.to_nat i) l ++ x :: skipn (S (Z.to_nat i)) l) else Err None.

(* index of the first item for which p is true (p is asked for the items before it only) *)
Fixpoint d_indexWhere (p : dcb1) (l : list value) (i : Z) : res value :=
  match l with
  | [] => Ok (VInt (-1))
  | x :: r => bind (d_bool (p x)) (fun b => if b then Ok (VInt i) else d_indexWhere p r (i + 1))
  end.

Definition d_present (p : dcb1) (l : list value) : res value :=
  bind (d_indexWhere p l 0) (fun i => match i with VInt z => Ok (VBool (0 <=? z)) | _ => Err None end).

(* combine: f on each pair of consecutive items = zip of the list with its tail *)
Definition d_combine (f : dcb2) (l : list value) : res (list value) :=
  mapM (fun p => f (fst p) (snd p)) (combine l (tl l)).

Definition d_combine3 (f : dcb3) (l : list value) : res (list value) :=
  mapM (fun p => f (fst (fst p)) (snd (fst p)) (snd p)) (combine (combine l (tl l)) (tl (tl l))).

(* combineN: f on each group of n consecutive items, in list order *)
Fixpoint windows (n : nat) (l : list value) : list (list value) :=
  match l with
  | [] => []
  | _ :: r => if Nat.leb n (length l) then firstn n l :: windows n r else []
  end.

Definition d_combineN (n : nat) (f : dcb1) (l : list value) : res (list value) :=
  mapM (fun w => f (VList w)) (windows n l).

(* number: f(index, item) *)
Fixpoint d_number (f : dcb2) (i : Z) (l : list value) : res (list value) :=
  match l with
  | [] => Ok []
  | x :: r => bind (f (VInt i) x) (fun y => bind (d_number f (wrap64 (i + 1)) r) (fun ys => Ok (y :: ys)))
  end.

(* compact: an item is dropped when it equals the last item kept *)
Fixpoint d_compact_from (eq : dcb2) (last : value) (l : list value) : res (list value) :=
  match l with
  | [] => Ok []
  | x :: r => bind (d_bool (eq last x)) (fun b =>
                if b then d_compact_from eq last r
                else bind (d_compact_from eq x r) (fun ys => Ok (x :: ys)))
  end.

Definition d_compact (eq : dcb2) (l : list value) : res (list value) :=
  match l with [] => Ok [] | x :: r => bind (d_compact_from eq x r) (fun ys => Ok (x :: ys)) end.

(* cross: f on the row-major product *)
Definition d_cross (f : dcb2) (l1 l2 : list value) : res (list value) :=
  mapM (fun p => f (fst p) (snd p)) (list_prod l1 l2).

(* merge: take from the first list while less(a,b), otherwise from the second *)
Fixpoint d_merge (less : dcb2) (l1 : list value) : list value -> res (list value) :=
  fix inner (l2 : list value) : res (list value) :=
    match l1 with
    | [] => Ok l2
    | a :: r1 =>
        match l2 with
        | [] => Ok l1
        | b :: r2 =>
            bind (d_bool (less a b)) (fun lt =>
              if lt then bind (d_merge less r1 l2) (fun m => Ok (a :: m))
              else bind (inner r2) (fun m => Ok (b :: m)))
        end
    end.

(* iir family: a scan; step (item, previous item, previous result) *)
Fixpoint d_scan_from (step : dcb3) (lastItem last : value) (l : list value) : res (list value) :=
  match l with
  | [] => Ok []
  | x :: r => bind (step x lastItem last) (fun o => bind (d_scan_from step x o r) (fun ys => Ok (o :: ys)))
  end.

Definition d_scan (ini : dcb1) (step : dcb3) (l : list value) : res (list value) :=
  match l with
  | [] => Ok []
  | x :: r => bind (ini x) (fun o => bind (d_scan_from step x o r) (fun ys => Ok (o :: ys)))
  end.

Definition d_iir (ini : dcb1) (f : dcb2) := d_scan ini (fun item _ last => f item last).
Definition d_iirCombine (ini : dcb1) (f : dcb3) := d_scan ini (fun item lastItem last => f lastItem item last).
Definition state0 : value := VMap [(nm_state, VInt 0)].
Definition d_fsm (f : dcb2) := d_scan (fun item => f state0 item) (fun item _ last => f last item).

(* ---------- checkers for relational results ---------- *)

Section Checkers.
Context {A : Type}.
Variable eqb : A -> A -> bool.

Fixpoint remove_one (x : A) (l : list A) : option (list A) :=
  match l with
  | [] => None
  | y :: r => if eqb x y then Some r
              else match remove_one x r with Some r' => Some (y :: r') | None => None end
  end.

(* l1 is a permutation of l2 *)
Fixpoint check_perm (l1 l2 : list A) : bool :=
  match l1 with
  | [] => match l2 with [] => true | _ => false end
  | x :: r => match remove_one x l2 with Some l2' => check_perm r l2' | None => false end
  end.

Variable leb : A -> A -> bool.

Fixpoint check_sorted (l : list A) : bool :=
  match l with
  | [] => true
  | x :: r => match r with [] => true | y :: _ => leb x y && check_sorted r end
  end.

(* order / orderRev / orderLess: the output is a sorted permutation of the input *)
Definition check_order (inp out : list A) : bool := check_perm inp out && check_sorted out.

Fixpoint mem_b (x : A) (l : list A) : bool :=
  match l with [] => false | y :: r => eqb x y || mem_b x r end.

Fixpoint nodup_b (l : list A) : bool :=
  match l with [] => true | x :: r => negb (mem_b x r) && nodup_b r end.

End Checkers.

(* groupBy*: the groups are a partition of the input by key: every group is non-empty and holds,
   in input order, exactly the items whose key is the group's key; the group keys are pairwise
   different; and no item is lost (total size).  keyb x k = "the key of x is k". *)
Section Groups.
Context {A K : Type}.
Variable eqA : A -> A -> bool.
Variable eqK : K -> K -> bool.
Variable keyb : A -> K -> bool.

Fixpoint list_eqb (l1 l2 : list A) : bool :=
  match l1, l2 with
  | [], [] => true
  | x :: r1, y :: r2 => eqA x y && list_eqb r1 r2
  | _, _ => false
  end.

Definition group_ok (inp : list A) (g : K * list A) : bool :=
  match snd g with [] => false | _ => list_eqb (filter (fun x => keyb x (fst g)) inp) (snd g) end.

Definition check_groups (inp : list A) (gs : list (K * list A)) : bool :=
  forallb (group_ok inp) gs
  && nodup_b eqK (map fst gs)
  && Nat.eqb (length (concat (map snd gs))) (length inp).

(* unique*: the keys that occur, each once *)
Definition check_unique (inp : list A) (ks : list K) : bool :=
  nodup_b eqK ks
  && forallb (fun k => existsb (fun x => keyb x k) inp) ks
  && forallb (fun x => existsb (fun k => keyb x k) ks) inp.

End Groups.

(* ---------- movingWindow: "the inner lists contain all items that are close to each other ...
   similarity is the absolute difference being [at most] 1".  For keys that do not decrease along the
   list, the window of item i is every item up to i whose key is within 1 of item i's key (they form a
   run that ends at i).  close k_i k_j is supplied by the caller (exact float comparison). ---------- *)
Fixpoint d_windows_from {K} (close : K -> K -> bool) (seen : list (K * value)) (l : list (K * value)) : list value :=
  match l with
  | [] => []
  | (k, x) :: r =>
      let seen' := seen ++ [(k, x)] in
      VList (map snd (filter (fun p => close k (fst p)) seen')) :: d_windows_from close seen' r
  end.

Definition d_movingWindow {K} (close : K -> K -> bool) (kl : list (K * value)) : list value :=
  d_windows_from close [] kl.

(* ---------- finite maps: a map is its set of key/value pairs; canonical form = sorted by key ---------- *)
Fixpoint fm_insert (k : str) (v : value) (m : list (str * value)) : list (str * value) :=
  match m with
  | [] => [(k, v)]
  | (k', v') :: r => if str_ltb k k' then (k, v) :: m
                     else if str_eqb k k' then (k, v) :: r
                     else (k', v') :: fm_insert k v r
  end.

Definition fm_canon (m : list (str * value)) : list (str * value) :=
  fold_left (fun acc kv => fm_insert (fst kv) (snd kv) acc) m [].

Fixpoint fm_get (k : str) (m : list (str * value)) : option value :=
  match m with [] => None | (k', v) :: r => if str_eqb k k' then Some v else fm_get k r end.

(* put: a new key only *)
Definition fm_put (m : list (str * value)) (k : str) (v : value) : res (list (str * value)) :=
  match fm_get k m with Some _ => Err None | None => Ok (fm_insert k v m) end.

(* merge: disjoint key sets only *)
Definition fm_merge (a b : list (str * value)) : res (list (str * value)) :=
  if existsb (fun kv => match fm_get (fst kv) a with Some _ => true | None => false end) b then Err None
  else Ok (fold_left (fun acc kv => fm_insert (fst kv) (snd kv) acc) b a).

(* replace: the values of keys the map HAS are taken from the replacement; nothing is added *)
Definition fm_replace (m rep : list (str * value)) : list (str * value) :=
  map (fun kv => (fst kv, match fm_get (fst kv) rep with Some x => x | None => snd kv end)) m.

(* ---------- strings: documented models ---------- *)

(* join: the pieces with the separator between them (a split always has at least one piece) *)
Fixpoint d_join (sep : str) (l : list str) : str :=
  match l with
  | [] => []
  | [x] => x
  | x :: r => x ++ sep ++ d_join sep r
  end.
