(* C07 - IMPLEMENTATION models of the built-in list, map and string methods of value.New(), written
   after the Go loops in value/list.go, value/map.go, value/string.go and the iterator package
   (Map, Filter, Combine, Combine3, CombineN, IirMap, Cross, Merge, FirstN, Skip, Reduce, MapReduce).

   Callbacks are Coq functions (value -> res value etc.), so every model is a structural recursion.

   Lazy lists.  A Go list is a producer that yields (value, error) pairs.  Every consumer in list.go
   (Eval/ToSlice, First, Single, Last, IndexWhere, Present, Reduce, Sum, MapReduce, MinMax, Min, Max,
   Mean, Visit, groupBy, unique, ToString) returns at the first pair that carries an error, and every
   stage forwards an error pair at the position where it arrives (FirstN may cut it off).  What a
   producer would yield AFTER its first error pair is therefore unobservable, and a lazy list is
   modelled as a stream: the values yielded before the first error, ended by a clean end or by that
   failure.  Values stored inside other values are fully evaluated lists (VList). *)
From P2 Require Import Base.Prelude Sem.Num Sem.Syntax Sem.Ops Sem.Lib Lib.Names.
Local Open Scope Z_scope.

(* ---------- failures and streams ---------- *)

Inductive fail := FErr (t : option str) | FPanic | FOOF | FUnsup.

Definition fres {A} (f : fail) : res A :=
  match f with FErr t => Err t | FPanic => Panic | FOOF => OOF | FUnsup => Unsup end.

Inductive strm :=
| SEnd
| SFail (f : fail)
| SCons (v : value) (s : strm).

(* continue a stream with the value of r, or end it with r's failure *)
Definition sbind {A} (r : res A) (k : A -> strm) : strm :=
  match r with
  | Ok a => k a
  | Err t => SFail (FErr t)
  | Panic => SFail FPanic
  | OOF => SFail FOOF
  | Unsup => SFail FUnsup
  end.

Fixpoint of_list (l : list value) : strm :=
  match l with [] => SEnd | x :: r => SCons x (of_list r) end.

(* List.Eval / ToSlice *)
Fixpoint collect (s : strm) : res (list value) :=
  match s with
  | SEnd => Ok []
  | SFail f => fres f
  | SCons x r => bind (collect r) (fun l => Ok (x :: l))
  end.

Definition cb1 := value -> res value.
Definition cb2 := value -> value -> res value.
Definition cb3 := value -> value -> value -> res value.

(* "if b, ok := v.(Bool); ok ... else error" *)
Definition as_bool (r : res value) : res bool :=
  bind r (fun v => match v with VBool b => Ok b | _ => Err None end).

(* ---------- lazy stages ---------- *)

(* iterator.Map *)
Fixpoint s_map (f : cb1) (s : strm) : strm :=
  match s with
  | SEnd => SEnd
  | SFail e => SFail e
  | SCons x r => sbind (f x) (fun y => SCons y (s_map f r))
  end.

(* iterator.Filter with the bool check of List.Accept *)
Fixpoint s_accept (f : cb1) (s : strm) : strm :=
  match s with
  | SEnd => SEnd
  | SFail e => SFail e
  | SCons x r => sbind (as_bool (f x)) (fun b => if b then SCons x (s_accept f r) else s_accept f r)
  end.

(* List.Compact: compares with the last PUBLISHED item *)
Fixpoint s_compact_from (f : cb2) (last : value) (s : strm) : strm :=
  match s with
  | SEnd => SEnd
  | SFail e => SFail e
  | SCons x r =>
      sbind (as_bool (f last x)) (fun eq =>
        if eq then s_compact_from f last r else SCons x (s_compact_from f x r))
  end.

Definition s_compact (f : cb2) (s : strm) : strm :=
  match s with
  | SEnd => SEnd
  | SFail e => SFail e
  | SCons x r => SCons x (s_compact_from f x r)
  end.

(* iterator.Cross: for every item of the receiver, all items of the other list *)
Fixpoint cross_row (g : cb1) (l2 : list value) (k : strm) : strm :=
  match l2 with
  | [] => k
  | y :: r => sbind (g y) (fun o => SCons o (cross_row g r k))
  end.

Fixpoint s_cross (f : cb2) (s : strm) (l2 : list value) : strm :=
  match s with
  | SEnd => SEnd
  | SFail e => SFail e
  | SCons x r => cross_row (f x) l2 (s_cross f r l2)
  end.

(* iterator.Merge: a = pending item of the receiver, b = pending item of the other list;
   less(a,b) true takes a, otherwise b; an exhausted side copies the other one *)
Fixpoint s_merge (f : cb2) (s : strm) : list value -> strm :=
  fix inner (l2 : list value) : strm :=
    match s with
    | SEnd => of_list l2
    | SFail e => SFail e
    | SCons a r =>
        match l2 with
        | [] => SCons a r
        | b :: l2' =>
            sbind (as_bool (f a b)) (fun lt =>
              if lt then SCons a (s_merge f r l2) else SCons b (inner l2'))
        end
    end.

(* iterator.Combine *)
Fixpoint s_combine_from (f : cb2) (last : value) (s : strm) : strm :=
  match s with
  | SEnd => SEnd
  | SFail e => SFail e
  | SCons x r => sbind (f last x) (fun o => SCons o (s_combine_from f x r))
  end.

Definition s_combine (f : cb2) (s : strm) : strm :=
  match s with
  | SEnd => SEnd
  | SFail e => SFail e
  | SCons x r => s_combine_from f x r
  end.

(* iterator.Combine3 *)
Fixpoint s_combine3_from (f : cb3) (ll l : value) (s : strm) : strm :=
  match s with
  | SEnd => SEnd
  | SFail e => SFail e
  | SCons x r => sbind (f ll l x) (fun o => SCons o (s_combine3_from f l x r))
  end.

Definition s_combine3 (f : cb3) (s : strm) : strm :=
  match s with
  | SEnd => SEnd
  | SFail e => SFail e
  | SCons x r =>
      match r with
      | SEnd => SEnd
      | SFail e => SFail e
      | SCons y r' => s_combine3_from f x y r'
      end
  end.

(* iterator.CombineN with the callback of List.CombineN: the ring buffer is handed to the function
   as a list of its own in list order (oldest item first); win = the last (at most n) items *)
Fixpoint s_combineN_from (n : nat) (f : cb1) (win : list value) (s : strm) : strm :=
  match s with
  | SEnd => SEnd
  | SFail e => SFail e
  | SCons x r =>
      let win' := if Nat.ltb (length win) n then win ++ [x] else tl win ++ [x] in
      if Nat.eqb (length win') n
      then sbind (f (VList win')) (fun o => SCons o (s_combineN_from n f win' r))
      else s_combineN_from n f win' r
  end.

Definition s_combineN (n : nat) (f : cb1) (s : strm) : strm := s_combineN_from n f [] s.

(* iterator.IirMap: step gets (item, lastItem, last) *)
Fixpoint s_iir_from (step : cb3) (lastItem last : value) (s : strm) : strm :=
  match s with
  | SEnd => SEnd
  | SFail e => SFail e
  | SCons x r => sbind (step x lastItem last) (fun o => SCons o (s_iir_from step x o r))
  end.

Definition s_iirmap (ini : cb1) (step : cb3) (s : strm) : strm :=
  match s with
  | SEnd => SEnd
  | SFail e => SFail e
  | SCons x r => sbind (ini x) (fun o => SCons o (s_iir_from step x o r))
  end.

(* firstN of List.Top (value/list.go): nothing for n == 0, otherwise the loop returns right after the
   n-th yield; k = n - i; a negative n is never reached.  (iterator.FirstN, used before, read one pair
   ahead and dropped it: the same stream.) *)
Fixpoint s_top (k : Z) (s : strm) : strm :=
  if k =? 0 then SEnd else
  match s with
  | SEnd => SEnd
  | SFail e => SFail e
  | SCons x r => SCons x (s_top (k - 1) r)
  end.

(* iterator.Skip: error pairs inside the skipped part are still passed on *)
Fixpoint s_skip (k : Z) (s : strm) : strm :=
  match s with
  | SEnd => SEnd
  | SFail e => SFail e
  | SCons x r => if 0 <? k then s_skip (k - 1) r else s
  end.

(* List.Number *)
Fixpoint s_number (f : cb2) (i : Z) (s : strm) : strm :=
  match s with
  | SEnd => SEnd
  | SFail e => SFail e
  | SCons x r => sbind (f (VInt i) x) (fun o => SCons o (s_number f (wrap64 (i + 1)) r))
  end.

(* ---------- terminals ---------- *)

Definition t_first (s : strm) : res value :=
  match s with SCons x _ => Ok x | SFail e => fres e | SEnd => Err None end.

Definition t_single (s : strm) : res value :=
  match s with
  | SEnd => Err None
  | SFail e => fres e
  | SCons x SEnd => Ok x
  | SCons x (SFail e) => fres e
  | SCons x (SCons _ _) => Err None
  end.

Fixpoint t_last_from (last : value) (s : strm) : res value :=
  match s with
  | SEnd => Ok last
  | SFail e => fres e
  | SCons x r => t_last_from x r
  end.

Definition t_last (s : strm) : res value :=
  match s with SEnd => Err None | SFail e => fres e | SCons x r => t_last_from x r end.

Definition t_size (s : strm) : res value :=
  bind (collect s) (fun l => Ok (VInt (Z.of_nat (length l)))).

Fixpoint t_indexWhere (f : cb1) (i : Z) (s : strm) : res value :=
  match s with
  | SEnd => Ok (VInt (-1))
  | SFail e => fres e
  | SCons x r => bind (as_bool (f x)) (fun b => if b then Ok (VInt i) else t_indexWhere f (i + 1) r)
  end.

Fixpoint t_present (f : cb1) (s : strm) : res value :=
  match s with
  | SEnd => Ok (VBool false)
  | SFail e => fres e
  | SCons x r => bind (as_bool (f x)) (fun b => if b then Ok (VBool true) else t_present f r)
  end.

(* iterator.MapReduce; List.Visit is the same loop *)
Fixpoint t_fold (f : cb2) (acc : value) (s : strm) : res value :=
  match s with
  | SEnd => Ok acc
  | SFail e => fres e
  | SCons x r => bind (f acc x) (fun acc' => t_fold f acc' r)
  end.

(* iterator.Reduce *)
Definition t_reduce (f : cb2) (s : strm) : res value :=
  match s with SEnd => Err None | SFail e => fres e | SCons x r => t_fold f x r end.

(* List.Sum: the same loop with the + operator *)
Definition t_sum (s : strm) : res value := t_reduce (calc op_add) s.

(* List.Mean *)
Fixpoint t_mean_from (sum : value) (n : Z) (s : strm) : res value :=
  match s with
  | SEnd => calc op_div sum (VInt n)
  | SFail e => fres e
  | SCons x r => bind (calc op_add sum x) (fun sum' => t_mean_from sum' (n + 1) r)
  end.

Definition t_mean (s : strm) : res value :=
  match s with SEnd => Err None | SFail e => fres e | SCons x r => t_mean_from x 1 r end.

(* List.Min / List.Max *)
Fixpoint t_min_from (m : value) (s : strm) : res value :=
  match s with
  | SEnd => Ok m
  | SFail e => fres e
  | SCons x r => bind (vless x m) (fun le => t_min_from (if le then x else m) r)
  end.

Definition t_min (s : strm) : res value :=
  match s with SEnd => Err None | SFail e => fres e | SCons x r => t_min_from x r end.

Fixpoint t_max_from (m : value) (s : strm) : res value :=
  match s with
  | SEnd => Ok m
  | SFail e => fres e
  | SCons x r => bind (vless m x) (fun le => t_max_from (if le then x else m) r)
  end.

Definition t_max (s : strm) : res value :=
  match s with SEnd => Err None | SFail e => fres e | SCons x r => t_max_from x r end.

(* List.MinMax *)
Definition minmax_map (mn mx mni mxi : value) (valid : bool) : value :=
  VMap [(nm_min, mn); (nm_max, mx); (nm_minItem, mni); (nm_maxItem, mxi); (nm_valid, VBool valid)].

Fixpoint t_minMax_from (f : cb1) (mn mx mni mxi : value) (s : strm) : res value :=
  match s with
  | SEnd => Ok (minmax_map mn mx mni mxi true)
  | SFail e => fres e
  | SCons x r =>
      bind (f x) (fun k =>
      bind (vless k mn) (fun le =>
      let mn' := if le then k else mn in
      let mni' := if le then x else mni in
      bind (vless mx k) (fun gr =>
      let mx' := if gr then k else mx in
      let mxi' := if gr then x else mxi in
      t_minMax_from f mn' mx' mni' mxi' r)))
  end.

Definition t_minMax (f : cb1) (s : strm) : res value :=
  match s with
  | SEnd => Ok (minmax_map (VInt 0) (VInt 0) (VInt 0) (VInt 0) false)
  | SFail e => fres e
  | SCons x r => bind (f x) (fun k => t_minMax_from f k k x x r)
  end.

(* ---------- eager list methods (work on the evaluated slice) ---------- *)

(* sort.Sort on at most 12 items is insertionSort: for i, for j := i; j > a && less(j, j-1); j-- swap.
   A failing less answers false and the first failure is kept (registerError).  rp = the sorted
   prefix REVERSED (head = right neighbour to compare with first). *)
Definition first_fail (e : option fail) (f : fail) : option fail :=
  match e with Some _ => e | None => Some f end.

Definition cmp_t := value -> value -> res bool.

Fixpoint ins_rev (cmp : cmp_t) (x : value) (rp : list value) (e : option fail) : list value * option fail :=
  match rp with
  | [] => ([x], e)
  | y :: rp' =>
      match cmp x y with
      | Ok true => let '(l, e') := ins_rev cmp x rp' e in (y :: l, e')
      | Ok false => (x :: rp, e)
      | Err t => (x :: rp, first_fail e (FErr t))
      | Panic => (x :: rp, first_fail e FPanic)
      | OOF => (x :: rp, first_fail e FOOF)
      | Unsup => (x :: rp, first_fail e FUnsup)
      end
  end.

Fixpoint isort_rev (cmp : cmp_t) (rp : list value) (e : option fail) (l : list value) : list value * option fail :=
  match l with
  | [] => (rp, e)
  | x :: r => let '(rp', e') := ins_rev cmp x rp e in isort_rev cmp rp' e' r
  end.

Definition m_sort (cmp : cmp_t) (l : list value) : res (list value) :=
  if Nat.ltb 12 (length l) then Unsup      (* pdqsort proper: order of equal keys not modelled *)
  else
    let '(rp, e) := isort_rev cmp [] None l in
    match e with
    | None => Ok (rev rp)
    | Some f => fres f
    end.

(* Sortable.Less: both keys are picked, then fg.less (reversed for orderRev) *)
Definition cmp_key (f : cb1) (rev_ : bool) : cmp_t := fun a b =>
  match f a, f b with
  | Ok ka, Ok kb => if rev_ then vless kb ka else vless ka kb
  | Ok _, other => bind other (fun _ => Ok false)
  | other, _ => bind other (fun _ => Ok false)
  end.

Definition cmp_less (f : cb2) : cmp_t := fun a b => as_bool (f a b).

Definition m_order (f : cb1) (rev_ : bool) (l : list value) : res (list value) := m_sort (cmp_key f rev_) l.
Definition m_orderLess (f : cb2) (l : list value) : res (list value) := m_sort (cmp_less f) l.

Definition m_set (i : Z) (x : value) (l : list value) : res (list value) :=
  if (i <? 0) || (Z.of_nat (length l) <=? i) then Err None
  else Ok (firstn (Z.to_nat i) l ++ x :: skipn (S (Z.to_nat i)) l).

(* List.GroupByEqual: groups in order of first occurrence, compared with fg.equal(item.key, key) *)
Fixpoint group_add (key x : value) (gs : list (value * list value)) : res (list (value * list value)) :=
  match gs with
  | [] => Ok [(key, [x])]
  | (k, vs) :: r =>
      bind (veq k key) (fun eq =>
        if eq then Ok ((k, vs ++ [x]) :: r)
        else bind (group_add key x r) (fun r' => Ok ((k, vs) :: r')))
  end.

Fixpoint group_all (keyf : cb1) (gs : list (value * list value)) (l : list value) : res (list (value * list value)) :=
  match l with
  | [] => Ok gs
  | x :: r => bind (keyf x) (fun k => bind (group_add k x gs) (fun gs' => group_all keyf gs' r))
  end.

Definition group_value (g : value * list value) : value :=
  VMap [(nm_key, fst g); (nm_values, VList (snd g))].

Definition m_groupByEqual (keyf : cb1) (l : list value) : res (list value) :=
  bind (group_all keyf [] l) (fun gs => Ok (map group_value gs)).

(* groupBy / unique use a Go map keyed by the key VALUE (an Int or a String): the result order is
   Go's map iteration order - the model lists the groups in order of first occurrence and the
   comparison with the implementation is up to order *)
Definition key_int (f : cb1) : cb1 := fun x =>
  bind (f x) (fun k => match k with VInt _ => Ok k | _ => Err None end).

Definition key_string (f : cb1) : cb1 := fun x =>
  bind (f x) (fun k => bind (to_string k) (fun s => Ok (VStr s))).

Definition m_groupByKey (keyf : cb1) (l : list value) : res (list value) := m_groupByEqual keyf l.

Fixpoint uniq_add (key : value) (ks : list value) : res (list value) :=
  match ks with
  | [] => Ok [key]
  | k :: r => bind (veq k key) (fun eq => if eq then Ok ks else bind (uniq_add key r) (fun r' => Ok (k :: r')))
  end.

Fixpoint m_unique_from (keyf : cb1) (ks : list value) (l : list value) : res (list value) :=
  match l with
  | [] => Ok ks
  | x :: r => bind (keyf x) (fun k => bind (uniq_add k ks) (fun ks' => m_unique_from keyf ks' r))
  end.

Definition m_unique (keyf : cb1) (l : list value) : res (list value) := m_unique_from keyf [] l.

(* List.MovingWindow: keys are floats; the window drops items from its front while
   |val - key(front)| > 1; the current item is always the last of the window *)
Definition to_float (v : value) : res fl :=
  match v with
  | VInt z => match fl_of_int z with Some f => Ok f | None => Unsup end
  | VFloat f => Ok f
  | _ => Err None
  end.

Definition far_apart (a b : fl) : res bool :=      (* math.Abs(a-b) > 1 *)
  match fl_sub a b with
  | Some d => Ok (fl_ltb (FFin 1 0) (if sign_neg d then fl_neg d else d))
  | None => Unsup
  end.

Fixpoint drop_far (val : fl) (win : list (fl * value)) : res (list (fl * value)) :=
  match win with
  | [] => Ok []
  | (k, x) :: r => bind (far_apart val k) (fun far => if far then drop_far val r else Ok win)
  end.

Fixpoint mw_keys (f : cb1) (l : list value) : res (list (fl * value)) :=
  match l with
  | [] => Ok []
  | x :: r => bind (bind (f x) to_float) (fun k => bind (mw_keys f r) (fun ks => Ok ((k, x) :: ks)))
  end.

Fixpoint mw_loop (win : list (fl * value)) (l : list (fl * value)) : res (list value) :=
  match l with
  | [] => Ok []
  | (k, x) :: r =>
      bind (drop_far k (win ++ [(k, x)])) (fun win' =>
      bind (mw_loop win' r) (fun out => Ok (VList (map snd win') :: out)))
  end.

Definition m_movingWindow (f : cb1) (l : list value) : res (list value) :=
  bind (mw_keys f l) (fun ks => mw_loop [] ks).

(* List.MovingWindowRemove: the window (with the new item) is shown to the function while it has more
   than one item; true removes the first item and asks again *)
Fixpoint mwr_shrink (f : cb1) (win : list value) : res (list value) :=
  match win with
  | [] => Ok []
  | [x] => Ok [x]
  | x :: r => bind (as_bool (f (VList win))) (fun rm => if rm then mwr_shrink f r else Ok win)
  end.

Fixpoint mwr_loop (f : cb1) (win : list value) (l : list value) : res (list value) :=
  match l with
  | [] => Ok []
  | x :: r =>
      bind (mwr_shrink f (win ++ [x])) (fun win' =>
      bind (mwr_loop f win' r) (fun out => Ok (VList win' :: out)))
  end.

Definition m_movingWindowRemove (f : cb1) (l : list value) : res (list value) := mwr_loop f [] l.

(* ---------- string methods: moved to Sem/StrLib.v (exported by Sem/Lib.v), where the semantic core
   of C01/C02/C05 uses the very same functions ---------- *)

(* strconv.ParseFloat(s, 64) on plain decimal numerals  [+-] digits [. digits] [(e|E) [+-] digits]
   (at least one mantissa digit, at least one exponent digit, nothing before or behind).
   ParseFloat is correctly rounded, so whenever the exact decimal value is a binary64 value that value
   is the answer; every other accepted text (inexact values, underflow to 0, underscores 1_000,
   hexadecimal floats 0x1p4, inf / infinity / nan) is outside this model: Unsup.
   A value of 2^1024 or more is the ErrRange error. *)
Definition is_digit (c : N) : bool := ((48 <=? c) && (c <=? 57))%N.

Fixpoint take_digits (s : str) : str * str :=
  match s with
  | c :: r => if is_digit c then let '(d, rest) := take_digits r in (c :: d, rest) else ([], s)
  | [] => ([], [])
  end.

(* value of a digit string, most significant digit first *)
Definition dec_val (ds : str) : Z := fold_left (fun acc c => acc * 10 + (Z.of_N c - 48)) ds 0.

(* the characters by which the accepted texts outside the plain decimal syntax can be told:
   i I n N (inf, infinity, nan), x X (hexadecimal), _ *)
Definition float_special_char (c : N) : bool :=
  ((c =? 105) || (c =? 73) || (c =? 110) || (c =? 78) || (c =? 120) || (c =? 88) || (c =? 95))%N.

(* Some (negative?, mantissa digits as a number, decimal exponent): value = +-mant * 10^k *)
Definition parse_float_syntax (s : str) : option (bool * Z * Z) :=
  let '(neg, r0) := split_sign s in
  let '(ip, r1) := take_digits r0 in
  let '(fp, r2) := match r1 with c :: r => if (c =? 46)%N then take_digits r else ([], r1) | [] => ([], r1) end in
  match ip ++ fp with
  | [] => None
  | _ =>
      let mant := dec_val (ip ++ fp) in
      let nf := Z.of_nat (length fp) in
      match r2 with
      | [] => Some (neg, mant, - nf)
      | c :: r3 =>
          if ((c =? 101) || (c =? 69))%N then
            let '(eneg, r4) := split_sign r3 in
            let '(ed, r5) := take_digits r4 in
            match ed, r5 with
            | _ :: _, [] => Some (neg, mant, (if eneg then - dec_val ed else dec_val ed) - nf)
            | _, _ => None
            end
          else None
      end
  end.

Definition two1024 : Z := 2 ^ 1024.

Definition float_of_decimal (neg : bool) (mant k : Z) : res value :=
  if mant =? 0 then Ok (VFloat (if neg then FNegZero else fl_zero))
  else if 2000 <? Z.abs k then Unsup
  else
    let sm := if neg then - mant else mant in
    if 0 <=? k then
      if two1024 <=? mant * 10 ^ k then Err None
      else match mkfl (sm * 10 ^ k) 0 with Some x => Ok (VFloat x) | None => Unsup end
    else
      let j := - k in
      if mant mod 5 ^ j =? 0 then
        match mkfl (sm / 5 ^ j) (- j) with Some x => Ok (VFloat x) | None => Unsup end
      else Unsup.

Definition str_to_float (s : str) : res value :=
  if existsb float_special_char s then Unsup
  else match parse_float_syntax s with
       | Some (neg, mant, k) => float_of_decimal neg mant k
       | None => Err None
       end.

(* ---------- round / floor / ceil / trunc (static functions outside Sem/Lib.v) ----------
   floor, ceil, trunc are simpleOnlyFloatFunc: the argument goes through ToFloat (an int is converted)
   and the answer is a FLOAT (math.Floor / Ceil / Trunc keep the sign of a zero result, infinities and NaN);
   round answers an INT: Int(math.Round(f)), math.Round rounds halves away from zero; an int argument
   is returned unchanged.  Conversions of floats outside int64 are left open by Go: Unsup. *)
Definition n_round : str := [114;111;117;110;100]%N.
Definition n_floor : str := [102;108;111;111;114]%N.
Definition n_ceil : str := [99;101;105;108]%N.
Definition n_trunc : str := [116;114;117;110;99]%N.

Definition floor_z (m e : Z) : Z := if 0 <=? e then m * 2 ^ e else m / 2 ^ (- e).
Definition ceil_z (m e : Z) : Z := if 0 <=? e then m * 2 ^ e else - ((- m) / 2 ^ (- e)).
Definition trunc_z (m e : Z) : Z := if 0 <=? e then m * 2 ^ e else Z.quot m (2 ^ (- e)).
Definition round_z (m e : Z) : Z :=
  if 0 <=? e then m * 2 ^ e
  else let a := (2 * Z.abs m + 2 ^ (- e)) / (2 * 2 ^ (- e)) in if m <? 0 then - a else a.

Definition fl_int_valued (how : Z -> Z -> Z) (x : fl) : res value :=
  match x with
  | FFin m e =>
      let z := how m e in
      if (z =? 0) && (m <? 0) then Ok (VFloat FNegZero)
      else match mkfl z 0 with Some r => Ok (VFloat r) | None => Unsup end
  | _ => Ok (VFloat x)
  end.

Definition float_only_static (how : Z -> Z -> Z) (args : list value) : res value :=
  match args with
  | [VInt z] => match fl_of_int z with Some x => fl_int_valued how x | None => Unsup end
  | [VFloat x] => fl_int_valued how x
  | [VErrText _] => Unsup
  | _ => Err None
  end.

Definition round_static (args : list value) : res value :=
  match args with
  | [VInt z] => Ok (VInt z)
  | [VFloat (FFin m e)] => let z := round_z m e in if in_int64 z then Ok (VInt z) else Unsup
  | [VFloat FNegZero] => Ok (VInt 0)
  | [VFloat _] => Unsup
  | [VErrText _] => Unsup
  | _ => Err None
  end.

(* the four functions, all with one argument; None = not one of them *)
Definition run_round_static (f : name) (args : list value) : option (res value) :=
  if str_eqb f n_round then Some (round_static args)
  else if str_eqb f n_floor then Some (float_only_static floor_z args)
  else if str_eqb f n_ceil then Some (float_only_static ceil_z args)
  else if str_eqb f n_trunc then Some (float_only_static trunc_z args)
  else None.

(* ---------- map methods (on entry lists in iteration order) ---------- *)

Definition entries := list (str * value).

Fixpoint mm_accept (f : cb2) (m : entries) : res entries :=
  match m with
  | [] => Ok []
  | (k, v) :: r =>
      bind (as_bool (f (VStr k) v)) (fun keep =>
      bind (mm_accept f r) (fun r' => Ok (if keep then (k, v) :: r' else r')))
  end.

Fixpoint mm_map (f : cb2) (m : entries) : res entries :=
  match m with
  | [] => Ok []
  | (k, v) :: r => bind (f (VStr k) v) (fun v' => bind (mm_map f r) (fun r' => Ok ((k, v') :: r')))
  end.

Definition mm_list (m : entries) : list value :=
  map (fun kv => VMap [(nm_key, VStr (fst kv)); (nm_value, snd kv)]) m.

(* Map.Combine: every key of the receiver must be in the other map *)
Fixpoint mm_combine (f : cb2) (m other : entries) : res entries :=
  match m with
  | [] => Ok []
  | (k, v) :: r =>
      match assoc_v k other with
      | Some o => bind (f v o) (fun x => bind (mm_combine f r other) (fun r' => Ok ((k, x) :: r')))
      | None => Err None
      end
  end.

Definition mm_get (m : entries) (k : str) : res value :=
  match assoc_v k m with Some v => Ok v | None => Err None end.

(* Map.PutM: AppendMap iterates the new entry first *)
Definition mm_put (m : entries) (k : str) (v : value) : res entries :=
  match assoc_v k m with Some _ => Err None | None => Ok ((k, v) :: m) end.

Fixpoint mm_isAvail (m : entries) (keys : list value) : res value :=
  match keys with
  | [] => Ok (VBool true)
  | VStr k :: r => match assoc_v k m with Some _ => mm_isAvail m r | None => Ok (VBool false) end
  | _ => Err None
  end.

(* Map.Merge (the + of two maps), after the repair of the empty-key overlap: any key of the other map
   that the receiver has is an error; MergeMap iterates the receiver first *)
Fixpoint has_dup (a other : entries) : bool :=
  match other with
  | [] => false
  | (k, _) :: r => match assoc_v k a with Some _ => true | None => has_dup a r end
  end.

Definition mm_merge (a b : entries) : res entries :=
  if has_dup a b then Err None else Ok (a ++ b).

(* Map.Replace with ReplaceMap (Get answers only for keys of the original, Iter and Size are the
   original's; createFlat after 10 levels keeps the same entries in the same order) *)
Definition mm_replace_with (m rep : entries) : entries :=
  map (fun kv => (fst kv, match assoc_v (fst kv) rep with Some x => x | None => snd kv end)) m.

Definition mm_replace (f : cb1) (m : entries) : res entries :=
  bind (f (VMap m)) (fun r =>
    match r with
    | VMap rep => Ok (mm_replace_with m rep)
    | _ => Err None
    end).

(* Map.ToString: {k:v, k:v} in iteration order *)
Fixpoint map_to_string_from (m : entries) (first : bool) : res str :=
  match m with
  | [] => Ok []
  | (k, v) :: r =>
      bind (to_string v) (fun s =>
      bind (map_to_string_from r false) (fun rest =>
      Ok ((if first then [] else [44; 32]%N) ++ k ++ [58%N] ++ s ++ rest)))
  end.

Definition map_to_string (m : entries) : res str :=
  bind (map_to_string_from m true) (fun s => Ok ([123%N] ++ s ++ [125%N])).

(* the observer bundle of the correspondence run on one map m:
   [m.size(), m.list().size(), m.list(), [[m.isAvail(k), try m.get(k) catch -1, try m.put(k,0).size() catch -1] ...], string(m)] *)
Definition mm_observe_key (m : entries) (k : str) : value :=
  VList [VBool (match assoc_v k m with Some _ => true | None => false end);
         match assoc_v k m with Some v => v | None => VInt (-1) end;
         match assoc_v k m with Some _ => VInt (-1) | None => VInt (Z.of_nat (S (length m))) end].

(* ... followed by [m = other, other = m] for a map handed in by the harness (Map.Equals through =) *)
Definition mm_observe (m : entries) (other : entries) (keys : list str) : res value :=
  bind (map_to_string m) (fun s =>
  bind (veq (VMap m) (VMap other)) (fun e1 =>
  bind (veq (VMap other) (VMap m)) (fun e2 =>
    Ok (VList [VInt (Z.of_nat (length m)); VInt (Z.of_nat (length (mm_list m))); VList (mm_list m);
               VList (map (mm_observe_key m) keys); VStr s; VList [VBool e1; VBool e2]])))).
