(* C07 - numerals (string.toInt / string.toFloat) and numeric static functions: the implementation
   models of Lib/Builtins.v and Sem/Lib.v against the specification side of Lib/NumSpec.v *)
From P2 Require Import Base.Prelude Base.PreludeProofs Sem.Num Sem.NumProofs Sem.Syntax Sem.Ops Sem.Lib
  Lib.Names Lib.Builtins Lib.NumSpec.
From Coq Require Import Lia ZifyBool.
Local Open Scope Z_scope.

(* ---------- digit strings ---------- *)

Lemma pos_val_app : forall a b, pos_val (a ++ b) = pos_val a * 10 ^ Z.of_nat (length b) + pos_val b.
Proof.
  induction a as [|c a IH]; intros b; cbn [app pos_val]; [lia|].
  rewrite IH, app_length, Nat2Z.inj_add, Z.pow_add_r by lia. ring.
Qed.

Lemma pos_val_snoc : forall a c, pos_val (a ++ [c]) = pos_val a * 10 + digit_val c.
Proof. intros a c. rewrite pos_val_app. cbn. lia. Qed.

Lemma fold_dec : forall ds acc,
  fold_left (fun acc c => acc * 10 + (Z.of_N c - 48)) ds acc = acc * 10 ^ Z.of_nat (length ds) + pos_val ds.
Proof.
  induction ds as [|c ds IH]; intros acc; cbn [fold_left length pos_val]; [cbn; lia|].
  rewrite IH. rewrite Nat2Z.inj_succ, Z.pow_succ_r by lia. unfold digit_val. ring.
Qed.

Lemma dec_val_pos_val : forall ds, dec_val ds = pos_val ds.
Proof. intros ds. unfold dec_val. rewrite fold_dec. lia. Qed.

Lemma parse_digits_some : forall ds acc z, parse_digits ds acc = Some z ->
  all_digits ds /\ z = acc * 10 ^ Z.of_nat (length ds) + pos_val ds.
Proof.
  induction ds as [|c ds IH]; intros acc z H; cbn [parse_digits] in H.
  - inversion H. split; [constructor|]. cbn. lia.
  - destruct ((48 <=? c)%N && (c <=? 57)%N) eqn:D; [|discriminate].
    destruct (IH _ _ H) as [A ->]. split; [constructor; [exact D|exact A]|].
    cbn [length pos_val]. rewrite Nat2Z.inj_succ, Z.pow_succ_r by lia. unfold digit_val. ring.
Qed.

Lemma parse_digits_all : forall ds acc, all_digits ds ->
  parse_digits ds acc = Some (acc * 10 ^ Z.of_nat (length ds) + pos_val ds).
Proof.
  induction ds as [|c ds IH]; intros acc A; cbn [parse_digits].
  - f_equal. cbn. lia.
  - inversion A as [|? ? D A']; subst. unfold is_digit in D. rewrite D. rewrite (IH _ A'). f_equal.
    cbn [length pos_val]. rewrite Nat2Z.inj_succ, Z.pow_succ_r by lia. unfold digit_val. ring.
Qed.

Lemma pos_val_nonneg : forall ds, all_digits ds -> 0 <= pos_val ds.
Proof.
  induction ds as [|c ds IH]; intros A; cbn [pos_val]; [lia|].
  inversion A as [|? ? D A']; subst. specialize (IH A'). unfold is_digit in D. unfold digit_val.
  assert (0 <= 10 ^ Z.of_nat (length ds)) by (apply Z.pow_nonneg; lia). nia.
Qed.

(* ---------- the sign ---------- *)

Lemma split_sign_cases : forall s,
  (exists r, s = 45%N :: r /\ split_sign s = (true, r)) \/
  (exists r, s = 43%N :: r /\ split_sign s = (false, r)) \/
  (split_sign s = (false, s) /\ match s with c :: _ => c <> 45%N /\ c <> 43%N | [] => True end).
Proof.
  intros [|c r]; [right; right; split; [reflexivity|exact I]|]. cbn [split_sign].
  destruct (N.eqb_spec c 45) as [->|N1]; [left; exists r; auto|].
  destruct (N.eqb_spec c 43) as [->|N2]; [right; left; exists r; auto|].
  right; right. auto.
Qed.

Lemma split_sign_digit : forall c r, is_digit c = true -> split_sign (c :: r) = (false, c :: r).
Proof.
  intros c r D. unfold is_digit in D. cbn [split_sign].
  destruct (N.eqb_spec c 45); [lia|]. destruct (N.eqb_spec c 43); [lia|]. reflexivity.
Qed.

Lemma sign_text_split : forall sg neg ds, sign_text sg neg -> ds <> [] -> all_digits ds ->
  split_sign (sg ++ ds) = (neg, ds).
Proof.
  intros sg neg ds [[-> ->]|[[-> ->]|[-> ->]]] NE A; cbn [app]; try reflexivity.
  destruct ds as [|c r]; [congruence|]. inversion A; subst. apply split_sign_digit. assumption.
Qed.

Lemma split_sign_text : forall s neg ds, split_sign s = (neg, ds) ->
  (match ds with c :: _ => is_digit c = true | [] => False end) ->
  exists sg, s = sg ++ ds /\ sign_text sg neg.
Proof.
  intros s neg ds H D. destruct (split_sign_cases s) as [[r [-> E]]|[[r [-> E]]|[E _]]];
    rewrite E in H; inversion H; subst.
  - exists [45%N]. split; [reflexivity|]. right; right; auto.
  - exists [43%N]. split; [reflexivity|]. right; left; auto.
  - exists []. split; [reflexivity|]. left; auto.
Qed.

(* ---------- toInt ---------- *)

Definition sgn_val (neg : bool) (z : Z) : Z := if neg then - z else z.

Lemma toInt_sound : forall s v, str_to_int s = Ok v ->
  exists z, int_numeral s z /\ in_int64 z = true /\ v = VInt z.
Proof.
  intros s v H. unfold str_to_int in H. destruct (split_sign s) as [neg ds] eqn:E.
  destruct ds as [|c r] eqn:Eds; [discriminate|]. rewrite <- Eds in *.
  destruct (parse_digits ds 0) as [z|] eqn:P; [|discriminate].
  destruct (parse_digits_some _ _ _ P) as [A Hz].
  destruct (in_int64 (if neg then - z else z)) eqn:R; [|discriminate]. inversion H; subst v.
  assert (D : match ds with c :: _ => is_digit c = true | [] => False end).
  { rewrite Eds in A |- *. inversion A; assumption. }
  destruct (split_sign_text _ _ _ E D) as [sg [-> T]].
  exists (if neg then - z else z). split; [|split; [exact R|reflexivity]].
  exists sg, ds, neg. repeat split; try assumption; [rewrite Eds; discriminate|].
  rewrite Hz. destruct neg; lia.
Qed.

Lemma toInt_complete : forall s z, int_numeral s z -> in_int64 z = true -> str_to_int s = Ok (VInt z).
Proof.
  intros s z [sg [ds [neg [-> [T [NE [A ->]]]]]]] R. unfold str_to_int.
  rewrite (sign_text_split _ _ _ T NE A). destruct ds as [|c r] eqn:Eds; [congruence|]. rewrite <- Eds in *.
  rewrite (parse_digits_all _ 0 A). rewrite Z.mul_0_l, Z.add_0_l. rewrite R. reflexivity.
Qed.

Lemma toInt_total : forall s, (exists z, str_to_int s = Ok (VInt z) /\ in_int64 z = true) \/ str_to_int s = Err None.
Proof.
  intros s. unfold str_to_int. destruct (split_sign s) as [neg ds]. destruct ds as [|c r]; [right; reflexivity|].
  destruct (parse_digits (c :: r) 0) as [z|]; [|right; reflexivity].
  destruct (in_int64 (if neg then - z else z)) eqn:R; [left; eexists; split; [reflexivity|exact R]|right; reflexivity].
Qed.

(* a text denotes at most one integer *)
Lemma int_numeral_unique : forall s z1 z2, int_numeral s z1 -> int_numeral s z2 -> z1 = z2.
Proof.
  intros s z1 z2 [sg1 [ds1 [n1 [E1 [T1 [NE1 [A1 ->]]]]]]] [sg2 [ds2 [n2 [E2 [T2 [NE2 [A2 ->]]]]]]].
  pose proof (sign_text_split _ _ _ T1 NE1 A1) as S1. pose proof (sign_text_split _ _ _ T2 NE2 A2) as S2.
  rewrite <- E1 in S1. rewrite <- E2 in S2. rewrite S1 in S2. inversion S2. reflexivity.
Qed.

(* the three facts together: accepted = numeral in range with its value; rejected otherwise *)
Theorem toInt_spec : forall s,
  (forall v, str_to_int s = Ok v <-> exists z, int_numeral s z /\ in_int64 z = true /\ v = VInt z) /\
  (str_to_int s = Err None <-> forall z, int_numeral s z -> in_int64 z = false) /\
  ((exists z, str_to_int s = Ok (VInt z)) \/ str_to_int s = Err None).
Proof.
  intros s. split; [|split].
  - intros v. split; [apply toInt_sound|]. intros [z [Nz [R ->]]]. apply toInt_complete; assumption.
  - split.
    + intros E z Nz. destruct (in_int64 z) eqn:R; [|reflexivity].
      rewrite (toInt_complete _ _ Nz R) in E. discriminate.
    + intros Hn. destruct (toInt_total s) as [[z [E R]]|E]; [|exact E].
      destruct (toInt_sound _ _ E) as [z' [Nz' [R' Ev]]]. inversion Ev; subst z'.
      rewrite (Hn _ Nz') in R. discriminate.
  - destruct (toInt_total s) as [[z [E _]]|E]; [left; exists z; exact E|right; exact E].
Qed.

(* ---------- the text of an int (strconv.Itoa) is a numeral of that int: round trip ---------- *)

Lemma digits_fuel_spec : forall fuel n acc, (1 <= fuel)%nat -> 0 <= n -> n < 10 ^ Z.of_nat fuel ->
  exists ds, digits_fuel fuel n acc = ds ++ acc /\ ds <> [] /\ all_digits ds /\ pos_val ds = n.
Proof.
  induction fuel as [|f IH]; intros n acc Hf H0 Hlt.
  - lia.
  - cbn [digits_fuel]. destruct (Z.ltb_spec n 10) as [L|G].
    + exists [(Z.to_N n + 48)%N]. split; [reflexivity|]. split; [discriminate|]. split.
      * constructor; [|constructor]. unfold is_digit. lia.
      * cbn [pos_val length]. unfold digit_val. cbn. lia.
    + assert (Hq : 0 <= n / 10) by (apply Z.div_pos; lia).
      assert (Hql : n / 10 < 10 ^ Z.of_nat f).
      { rewrite Nat2Z.inj_succ, Z.pow_succ_r in Hlt by lia. apply Z.div_lt_upper_bound; lia. }
      assert (Hf1 : (1 <= f)%nat).
      { destruct f; [|lia]. cbn in Hql. assert (1 <= n / 10) by (apply Z.div_le_lower_bound; lia). lia. }
      destruct (IH (n / 10) ((Z.to_N (n mod 10) + 48)%N :: acc) Hf1 Hq Hql) as [ds [E [NE [A V]]]].
      exists (ds ++ [(Z.to_N (n mod 10) + 48)%N]). rewrite E, <- app_assoc. split; [reflexivity|].
      split; [destruct ds; discriminate|]. split.
      * apply Forall_app. split; [exact A|]. constructor; [|constructor]. unfold is_digit.
        pose proof (Z.mod_pos_bound n 10). lia.
      * rewrite pos_val_snoc, V. unfold digit_val. pose proof (Z.mod_pos_bound n 10).
        rewrite (Z.div_mod n 10) at 3 by lia. lia.
Qed.

Lemma digits_spec : forall n, 0 <= n ->
  digits n <> [] /\ all_digits (digits n) /\ pos_val (digits n) = n.
Proof.
  intros n H0. unfold digits.
  assert (Hlt : n < 10 ^ Z.of_nat (Z.to_nat (Z.log2 (n + 1)) + 2)).
  { pose proof (Z.log2_nonneg (n + 1)) as L0.
    destruct (Z.log2_spec (n + 1)) as [_ U]; [lia|].
    rewrite Nat2Z.inj_add, Z2Nat.id by lia. set (k := Z.log2 (n + 1)) in *.
    assert (2 ^ Z.succ k <= 10 ^ Z.succ k) by (apply Z.pow_le_mono_l; lia).
    assert (10 ^ Z.succ k <= 10 ^ (k + Z.of_nat 2)) by (apply Z.pow_le_mono_r; lia). lia. }
  assert (Hf : (1 <= Z.to_nat (Z.log2 (n + 1)) + 2)%nat) by lia.
  destruct (digits_fuel_spec _ n [] Hf H0 Hlt) as [ds [E [NE [A V]]]]. rewrite app_nil_r in E. rewrite E. auto.
Qed.

Theorem int_to_str_numeral : forall n, int_numeral (int_to_str n) n.
Proof.
  intros n. unfold int_to_str. destruct (Z.ltb_spec n 0) as [L|G].
  - destruct (digits_spec (- n)) as [NE [A V]]; [lia|].
    exists [45%N], (digits (- n)), true. repeat split; auto; [right; right; auto|lia].
  - destruct (digits_spec n G) as [NE [A V]].
    exists [], (digits n), false. repeat split; auto. left; auto.
Qed.

Theorem toInt_roundtrip : forall n, in_int64 n = true -> str_to_int (int_to_str n) = Ok (VInt n).
Proof. intros n R. apply toInt_complete; [apply int_to_str_numeral|exact R]. Qed.

(* ---------- numeric static functions of Sem/Lib.v: they compute the mathematical function,
   with the int64 wrap-around made explicit ---------- *)

Lemma wrap64_range : forall z, in_int64 (wrap64 z) = true.
Proof.
  intros z. unfold in_int64, wrap64, two63, two64.
  pose proof (Z.mod_pos_bound (z + 9223372036854775808) 18446744073709551616). lia.
Qed.

Lemma wrap64_congr : forall z, (wrap64 z - z) mod two64 = 0.
Proof.
  intros z. unfold wrap64, two63, two64.
  rewrite (Z.mod_eq (z + 9223372036854775808) 18446744073709551616) by lia.
  replace (z + 9223372036854775808 -
     18446744073709551616 * ((z + 9223372036854775808) / 18446744073709551616) - 9223372036854775808 - z)
    with ((- ((z + 9223372036854775808) / 18446744073709551616)) * 18446744073709551616) by ring.
  apply Z.mod_mul. lia.
Qed.

Lemma wrap64_id : forall z, in_int64 z = true -> wrap64 z = z.
Proof.
  intros z R. unfold in_int64, wrap64, two63, two64 in *.
  rewrite Z.mod_small by lia. lia.
Qed.

Theorem static_abs_int : forall z, in_int64 z = true ->
  (z <> - two63 -> run_static n_abs [VInt z] = Ok (VInt (Z.abs z))) /\
  (z = - two63 -> run_static n_abs [VInt z] = Ok (VInt (- two63))).
Proof.
  intros z R. split; intros H.
  - cbn. destruct (Z.ltb_spec z 0) as [L|G].
    + rewrite wrap64_id; [f_equal; f_equal; lia|]. unfold in_int64, two63 in *. lia.
    + f_equal. f_equal. lia.
  - subst z. vm_compute. reflexivity.
Qed.

Theorem static_sign_int : forall z, run_static n_sign [VInt z] = Ok (VInt (Z.sgn z)).
Proof.
  intros z. cbn. destruct (Z.ltb_spec z 0); [f_equal; f_equal; lia|].
  destruct (Z.eqb_spec z 0); f_equal; f_equal; lia.
Qed.

Theorem static_sqr_int : forall z,
  run_static n_sqr [VInt z] = Ok (VInt (wrap64 (z * z))) /\
  in_int64 (wrap64 (z * z)) = true /\ (wrap64 (z * z) - z * z) mod two64 = 0 /\
  (in_int64 (z * z) = true -> run_static n_sqr [VInt z] = Ok (VInt (z * z))).
Proof.
  intros z. split; [reflexivity|]. split; [apply wrap64_range|]. split; [apply wrap64_congr|].
  intros R. cbn. rewrite wrap64_id by exact R. reflexivity.
Qed.

(* bitwise on two's complement: testbit on Z is the two's complement bit with infinite sign extension *)
Theorem static_bin_int : forall a b,
  (exists r, run_static n_binAnd [VInt a; VInt b] = Ok (VInt r) /\
             forall i, 0 <= i -> Z.testbit r i = Z.testbit a i && Z.testbit b i) /\
  (exists r, run_static n_binOr [VInt a; VInt b] = Ok (VInt r) /\
             forall i, 0 <= i -> Z.testbit r i = Z.testbit a i || Z.testbit b i).
Proof.
  intros a b. split.
  - exists (Z.land a b). split; [reflexivity|]. intros i _. apply Z.land_spec.
  - exists (Z.lor a b). split; [reflexivity|]. intros i _. apply Z.lor_spec.
Qed.

(* min / max with any number of arguments: the fold of the language's < over the arguments, the first
   minimal / maximal one wins, a comparison that fails (incomparable arguments) fails the call *)
Definition less_step_min (acc : res value) (v : value) : res value :=
  bind acc (fun m => bind (vless v m) (fun b => Ok (if b then v else m))).
Definition less_step_max (acc : res value) (v : value) : res value :=
  bind acc (fun m => bind (vless m v) (fun b => Ok (if b then v else m))).

Lemma fold_not_ok : forall (step : res value -> value -> res value) (l : list value) (r : res value),
  (forall v, step r v = r) -> fold_left step l r = r.
Proof. intros step l r H. induction l as [|v l IH]; cbn [fold_left]; [reflexivity|]. rewrite H. exact IH. Qed.

Lemma pick_min_fold : forall l m, pick_min m l = fold_left less_step_min l (Ok m).
Proof.
  induction l as [|v l IH]; intros m; cbn [pick_min fold_left]; [reflexivity|].
  unfold less_step_min at 2. cbn [bind]. destruct (vless v m) as [[|]| | | |] eqn:E; cbn [bind];
    try apply IH; symmetry; apply fold_not_ok; intros; reflexivity.
Qed.

Lemma pick_max_fold : forall l m, pick_max m l = fold_left less_step_max l (Ok m).
Proof.
  induction l as [|v l IH]; intros m; cbn [pick_max fold_left]; [reflexivity|].
  unfold less_step_max at 2. cbn [bind]. destruct (vless m v) as [[|]| | | |] eqn:E; cbn [bind];
    try apply IH; symmetry; apply fold_not_ok; intros; reflexivity.
Qed.

Theorem static_min_max_fold : forall m l,
  run_static n_min (m :: l) = fold_left less_step_min l (Ok m) /\
  run_static n_max (m :: l) = fold_left less_step_max l (Ok m).
Proof. intros m l. split; [apply pick_min_fold|apply pick_max_fold]. Qed.

Lemma pick_min_ints : forall zs z, pick_min (VInt z) (map VInt zs) = Ok (VInt (fold_left Z.min zs z)).
Proof.
  induction zs as [|y zs IH]; intros z; cbn [map pick_min fold_left]; [reflexivity|].
  cbn [vless]. destruct (Z.ltb_spec y z); rewrite IH; f_equal; f_equal; f_equal; lia.
Qed.

Lemma pick_max_ints : forall zs z, pick_max (VInt z) (map VInt zs) = Ok (VInt (fold_left Z.max zs z)).
Proof.
  induction zs as [|y zs IH]; intros z; cbn [map pick_max fold_left]; [reflexivity|].
  cbn [vless]. destruct (Z.ltb_spec z y); rewrite IH; f_equal; f_equal; f_equal; lia.
Qed.

Theorem static_min_max_ints : forall z zs,
  run_static n_min (map VInt (z :: zs)) = Ok (VInt (fold_left Z.min zs z)) /\
  run_static n_max (map VInt (z :: zs)) = Ok (VInt (fold_left Z.max zs z)).
Proof. intros z zs. split; [apply pick_min_ints|apply pick_max_ints]. Qed.

(* an argument that cannot be compared with the current candidate is an error *)
Theorem static_min_max_incomparable : forall m v l, vless v m = Err None -> vless m v = Err None ->
  run_static n_min (m :: v :: l) = Err None /\ run_static n_max (m :: v :: l) = Err None.
Proof.
  intros m v l H1 H2. split.
  - change (pick_min m (v :: l) = Err None). cbn [pick_min]. rewrite H1. reflexivity.
  - change (pick_max m (v :: l) = Err None). cbn [pick_max]. rewrite H2. reflexivity.
Qed.

Theorem static_is_type : forall v, (forall t, v <> VErrText t) ->
  run_static n_isInt [v] = Ok (VBool (match v with VInt _ => true | _ => false end)) /\
  run_static n_isFloat [v] = Ok (VBool (match v with VFloat _ => true | _ => false end)).
Proof. intros v H. destruct v; try (split; reflexivity). exfalso. eapply H. reflexivity. Qed.

(* float(int): the float denotes exactly the int (ints that are no binary64 value are outside the model) *)
Theorem static_float_of_int : forall z v, run_static n_float [VInt z] = Ok v ->
  exists m e, v = VFloat (FFin m e) /\ 0 <= e /\ m * 2 ^ e = z.
Proof.
  intros z v H. cbn in H. unfold fl_of_int in H. destruct (mkfl z 0) as [x|] eqn:E; [|discriminate].
  inversion H; subst v. destruct (mkfl_some _ _ _ E) as [-> _].
  destruct (norm_at 0 z 0 (Z.le_refl 0)) as [A B]. unfold at_ in A. rewrite !Z.sub_0_r in A.
  exists (fst (norm z 0)), (snd (norm z 0)). split; [reflexivity|].
  destruct (Z.eq_dec z 0) as [->|NZ]; [vm_compute; split; [discriminate|reflexivity]|].
  destruct (B NZ) as [L _]. split; [exact L|]. rewrite A. cbn. lia.
Qed.

(* wrong kind of argument: an error, never a value *)
Theorem static_numeric_misuse : forall f v, In f [n_abs; n_sign; n_sqr; n_int; n_float] ->
  match v with VInt _ | VFloat _ | VErrText _ => False | _ => True end ->
  run_static f [v] = Err None.
Proof.
  intros f v Hf Hv. cbn [In] in Hf.
  destruct Hf as [<-|[<-|[<-|[<-|[<-|[]]]]]]; destruct v; try contradiction; reflexivity.
Qed.

(* ---------- round / floor / ceil / trunc on dyadic numbers m * 2^e ---------- *)

Lemma pow2_gt0 : forall k, 0 < 2 ^ k \/ k < 0.
Proof. intros k. destruct (Z.lt_ge_cases k 0); [right; assumption|left; apply Z.pow_pos_nonneg; lia]. Qed.

(* for e >= 0 the number is an integer and all four answer it; for e < 0, with d = 2^(-e): *)
Theorem floor_ceil_trunc_round_spec : forall m e,
  (0 <= e -> floor_z m e = m * 2 ^ e /\ ceil_z m e = m * 2 ^ e /\ trunc_z m e = m * 2 ^ e /\ round_z m e = m * 2 ^ e) /\
  (e < 0 -> let d := 2 ^ (- e) in
     (* the greatest integer not above, the least integer not below *)
     (floor_z m e * d <= m < (floor_z m e + 1) * d) /\
     ((ceil_z m e - 1) * d < m <= ceil_z m e * d) /\
     (* towards zero *)
     (trunc_z m e = if 0 <=? m then floor_z m e else ceil_z m e) /\
     (* to the nearest integer, halves away from zero: |r| = floor(|m|/d + 1/2), sign of m *)
     (2 * Z.abs (round_z m e) * d <= 2 * Z.abs m + d < 2 * (Z.abs (round_z m e) + 1) * d) /\
     (0 <= m -> 0 <= round_z m e) /\ (m <= 0 -> round_z m e <= 0)).
Proof.
  intros m e. split.
  - intros H. unfold floor_z, ceil_z, trunc_z, round_z. destruct (Z.leb_spec 0 e); [auto|lia].
  - intros H d. assert (Hd : 0 < d) by (apply Z.pow_pos_nonneg; lia).
    unfold floor_z, ceil_z, trunc_z, round_z. destruct (Z.leb_spec 0 e); [lia|]. fold d.
    pose proof (Z.div_mod m d ltac:(lia)) as E1. pose proof (Z.mod_pos_bound m d Hd) as B1.
    pose proof (Z.div_mod (- m) d ltac:(lia)) as E2. pose proof (Z.mod_pos_bound (- m) d Hd) as B2.
    split; [nia|]. split; [nia|]. split.
    + destruct (Z.leb_spec 0 m) as [P|Ng].
      * apply Z.quot_div_nonneg; lia.
      * rewrite <- (Z.opp_involutive m) at 1. rewrite Z.quot_opp_l by lia.
        rewrite Z.quot_div_nonneg by lia. reflexivity.
    + set (a := (2 * Z.abs m + d) / (2 * d)).
      pose proof (Z.div_mod (2 * Z.abs m + d) (2 * d) ltac:(lia)) as E3.
      pose proof (Z.mod_pos_bound (2 * Z.abs m + d) (2 * d) ltac:(lia)) as B3. fold a in E3.
      assert (Ha : 0 <= a) by (apply Z.div_pos; lia).
      destruct (Z.ltb_spec m 0); (split; [|split]); try (rewrite ?Z.abs_opp, (Z.abs_eq a) by lia); try nia; try lia.
Qed.

(* the answer of floor / ceil / trunc is a FLOAT holding that integer (a zero result keeps the sign of a
   negative argument, as math.Floor / Ceil / Trunc do); round answers an INT *)
Theorem static_floor_ceil_trunc_type : forall how m e v, fl_int_valued how (FFin m e) = Ok v ->
  (how m e = 0 /\ m < 0 /\ v = VFloat FNegZero) \/
  exists m' e', v = VFloat (FFin m' e') /\ 0 <= e' /\ m' * 2 ^ e' = how m e.
Proof.
  intros how m e v H. unfold fl_int_valued in H.
  destruct ((how m e =? 0) && (m <? 0)) eqn:Z0.
  - inversion H. left. apply Bool.andb_true_iff in Z0. destruct Z0. repeat split; [lia|lia].
  - destruct (mkfl (how m e) 0) as [x|] eqn:E; [|discriminate]. inversion H; subst v. right.
    destruct (mkfl_some _ _ _ E) as [-> _].
    destruct (norm_at 0 (how m e) 0 (Z.le_refl 0)) as [A B]. unfold at_ in A. rewrite !Z.sub_0_r in A.
    exists (fst (norm (how m e) 0)), (snd (norm (how m e) 0)). split; [reflexivity|].
    destruct (Z.eq_dec (how m e) 0) as [Hz|NZ]; [rewrite Hz; vm_compute; split; [discriminate|reflexivity]|].
    destruct (B NZ) as [L _]. split; [exact L|]. rewrite A. cbn. lia.
Qed.

Theorem static_round_type : forall m e v, round_static [VFloat (FFin m e)] = Ok v ->
  v = VInt (round_z m e) /\ in_int64 (round_z m e) = true.
Proof.
  intros m e v H. cbn in H. destruct (in_int64 (round_z m e)) eqn:R; [|discriminate]. inversion H. auto.
Qed.

(* ---------- toFloat: an accepted text is a decimal floating-point numeral and the answer is exactly
   its value ---------- *)

Lemma take_digits_spec : forall s d rest, take_digits s = (d, rest) ->
  s = d ++ rest /\ all_digits d /\ match rest with c :: _ => is_digit c = false | [] => True end.
Proof.
  induction s as [|c s IH]; intros d rest H; cbn [take_digits] in H.
  - inversion H. repeat split. constructor.
  - destruct (is_digit c) eqn:D.
    + destruct (take_digits s) as [d' rest'] eqn:E. inversion H; subst. destruct (IH _ _ eq_refl) as [-> [A R]].
      repeat split; [constructor; assumption|exact R].
    + inversion H; subst. repeat split; [constructor|exact D].
Qed.

Lemma take_digits_app : forall d rest, all_digits d ->
  match rest with c :: _ => is_digit c = false | [] => True end -> take_digits (d ++ rest) = (d, rest).
Proof.
  induction d as [|c d IH]; intros rest A R; cbn [app].
  - destruct rest as [|c r]; [reflexivity|]. cbn [take_digits]. rewrite R. reflexivity.
  - inversion A; subst. cbn [take_digits]. rewrite H1. rewrite (IH rest H2 R). reflexivity.
Qed.

Lemma split_sign_text_any : forall s neg r, split_sign s = (neg, r) -> exists sg, s = sg ++ r /\ sign_text sg neg.
Proof.
  intros s neg r0 H. destruct (split_sign_cases s) as [[r [-> E]]|[[r [-> E]]|[E _]]];
    rewrite E in H; inversion H; subst.
  - exists [45%N]. split; [reflexivity|]. right; right; auto.
  - exists [43%N]. split; [reflexivity|]. right; left; auto.
  - exists []. split; [reflexivity|]. left; auto.
Qed.

Lemma parse_float_syntax_sound : forall s neg mant k, parse_float_syntax s = Some (neg, mant, k) ->
  float_numeral s neg mant k.
Proof.
  intros s neg mant k H. unfold parse_float_syntax in H.
  destruct (split_sign s) as [neg0 r0] eqn:ES. destruct (split_sign_text_any _ _ _ ES) as [sg [-> T]].
  destruct (take_digits r0) as [ip r1] eqn:EI. destruct (take_digits_spec _ _ _ EI) as [-> [AI _]].
  set (FR := match r1 with c :: r => if (c =? 46)%N then take_digits r else ([], r1) | [] => ([], r1) end) in H.
  assert (HF : exists ft fp r2, FR = (fp, r2) /\ r1 = ft ++ r2 /\ frac_text ft fp /\ all_digits fp).
  { subst FR. destruct r1 as [|c r]; [exists [], [], []; repeat split; [left; auto|constructor]|].
    destruct (N.eqb_spec c 46) as [->|NE].
    - destruct (take_digits r) as [fp r2] eqn:EF. destruct (take_digits_spec _ _ _ EF) as [-> [AF _]].
      exists (46%N :: fp), fp, r2. repeat split; [right; reflexivity|exact AF].
    - exists [], [], (c :: r). repeat split; [left; auto|constructor]. }
  destruct HF as [ft [fp [r2 [EFR [-> [FT AF]]]]]]. rewrite EFR in H. clear FR EFR.
  destruct (ip ++ fp) as [|c0 m0] eqn:EM; [discriminate|]. rewrite <- EM in *.
  assert (NEm : ip ++ fp <> []) by (rewrite EM; discriminate).
  destruct r2 as [|c r3].
  - inversion H; subst. exists sg, ip, ft, fp, [], 0. rewrite dec_val_pos_val.
    repeat split; try assumption; try reflexivity; try lia; try (left; split; reflexivity).
  - destruct ((c =? 101)%N || (c =? 69)%N) eqn:EC; [|discriminate].
    destruct (split_sign r3) as [eneg r4] eqn:ES2. destruct (split_sign_text_any _ _ _ ES2) as [sg2 [-> T2]].
    destruct (take_digits r4) as [ed r5] eqn:EE. destruct (take_digits_spec _ _ _ EE) as [-> [AE _]].
    destruct ed as [|d0 ed0] eqn:Eed; [discriminate|]. rewrite <- Eed in *.
    destruct r5; [|discriminate]. inversion H; subst neg0 mant k. rewrite app_nil_r.
    exists sg, ip, ft, fp, (c :: sg2 ++ ed), (if eneg then - pos_val ed else pos_val ed).
    rewrite !dec_val_pos_val. repeat split; try assumption; try reflexivity.
    right. exists c, sg2, ed, eneg. repeat split; try assumption; try reflexivity; try lia. rewrite Eed; discriminate.
Qed.

Lemma float_of_decimal_sound : forall neg mant k v, 0 <= mant -> float_of_decimal neg mant k = Ok v ->
  exists x, v = VFloat x /\ float_denotes x neg mant k.
Proof.
  intros neg mant k v M0 H. unfold float_of_decimal in H.
  destruct (Z.eqb_spec mant 0) as [->|NZ].
  - inversion H. destruct neg; eexists; (split; [reflexivity|]); cbn; auto.
  - destruct (2000 <? Z.abs k); [discriminate|]. set (sm := if neg then - mant else mant) in *.
    assert (SNZ : sm <> 0) by (subst sm; destruct neg; lia).
    destruct (Z.leb_spec 0 k) as [K|K].
    + destruct (two1024 <=? mant * 10 ^ k); [discriminate|].
      destruct (mkfl (sm * 10 ^ k) 0) as [x|] eqn:E; [|discriminate]. inversion H; subst v.
      destruct (mkfl_some _ _ _ E) as [-> _]. eexists; split; [reflexivity|].
      assert (PNZ : sm * 10 ^ k <> 0) by (assert (0 < 10 ^ k) by (apply Z.pow_pos_nonneg; lia); nia).
      destruct (norm_at 0 (sm * 10 ^ k) 0 (Z.le_refl 0)) as [A B]. destruct (B PNZ) as [L MNZ].
      unfold at_ in A. rewrite !Z.sub_0_r in A. cbn [float_denotes].
      destruct (Z.eqb_spec (fst (norm (sm * 10 ^ k) 0)) 0); [contradiction|]. split; [exact NZ|].
      fold sm. unfold dyadic_is_decimal. rewrite !Z.max_l by lia. rewrite !Z.add_0_r, A. rewrite !Z.pow_0_r. ring.
    + set (j := - k) in *. assert (J : 0 < j) by lia.
      destruct (Z.eqb_spec (mant mod 5 ^ j) 0) as [D|]; [|discriminate].
      destruct (mkfl (sm / 5 ^ j) (- j)) as [x|] eqn:E; [|discriminate]. inversion H; subst v.
      destruct (mkfl_some _ _ _ E) as [-> _]. eexists; split; [reflexivity|].
      assert (F0 : 0 < 5 ^ j) by (apply Z.pow_pos_nonneg; lia).
      assert (SD : sm mod 5 ^ j = 0) by (subst sm; destruct neg; [apply Z.mod_opp_l_z; lia|exact D]).
      assert (Hs : sm = 5 ^ j * (sm / 5 ^ j)) by (apply Z.div_exact; lia).
      set (q := sm / 5 ^ j) in *. assert (QNZ : q <> 0) by nia.
      destruct (norm_at (- j) q (- j) (Z.le_refl _)) as [A B]. destruct (B QNZ) as [L MNZ].
      unfold at_ in A. rewrite Z.sub_diag, Z.mul_1_r in A. cbn [float_denotes].
      set (m' := fst (norm q (- j))) in *. set (e' := snd (norm q (- j))) in *.
      destruct (Z.eqb_spec m' 0); [contradiction|]. split; [exact NZ|].
      fold sm. unfold dyadic_is_decimal. set (A' := Z.max 0 (- e')).
      assert (HA : 0 <= A' /\ 0 <= e' + A' /\ A' <= j) by (subst A'; lia).
      replace (Z.max 0 (- k)) with j by lia. replace (k + j) with 0 by lia.
      replace (10 ^ j) with (2 ^ j * 5 ^ j) by (rewrite <- Z.pow_mul_l; reflexivity).
      assert (P : 2 ^ (e' + A') * 2 ^ j = 2 ^ (e' - - j) * 2 ^ A')
        by (rewrite <- !Z.pow_add_r by lia; f_equal; lia).
      replace (m' * 2 ^ (e' + A') * (2 ^ j * 5 ^ j)) with (m' * (2 ^ (e' + A') * 2 ^ j) * 5 ^ j) by ring.
      rewrite P. replace (m' * (2 ^ (e' - - j) * 2 ^ A') * 5 ^ j) with ((m' * 2 ^ (e' - - j)) * 2 ^ A' * 5 ^ j) by ring.
      rewrite A. rewrite Z.pow_0_r. rewrite Hs at 1. ring.
Qed.

Theorem toFloat_sound : forall s v, str_to_float s = Ok v ->
  exists neg mant k x, float_numeral s neg mant k /\ v = VFloat x /\ float_denotes x neg mant k.
Proof.
  intros s v H. unfold str_to_float in H. destruct (existsb float_special_char s); [discriminate|].
  destruct (parse_float_syntax s) as [[[neg mant] k]|] eqn:P; [|discriminate].
  pose proof (parse_float_syntax_sound _ _ _ _ P) as FN.
  assert (M0 : 0 <= mant).
  { destruct FN as [sg [ip [ft [fp [et [e10 [_ [_ [AI [AF [_ [_ [_ [-> _]]]]]]]]]]]]]].
    apply pos_val_nonneg. apply Forall_app. auto. }
  destruct (float_of_decimal_sound _ _ _ _ M0 H) as [x [-> FD]]. exists neg, mant, k, x. auto.
Qed.

(* ---------- toFloat: every decimal floating-point numeral is read as such; an error means that the text
   is no such numeral (or is one of the texts outside the model), or that its value is 2^1024 or more ---------- *)

Lemma sign_text_split_any : forall sg neg rest, sign_text sg neg ->
  match rest with c :: _ => c <> 45%N /\ c <> 43%N | [] => True end ->
  split_sign (sg ++ rest) = (neg, rest).
Proof.
  intros sg neg rest [[-> ->]|[[-> ->]|[-> ->]]] R; cbn [app]; try reflexivity.
  destruct rest as [|c r]; [reflexivity|]. destruct R as [R1 R2]. cbn [split_sign].
  destruct (N.eqb_spec c 45); [contradiction|]. destruct (N.eqb_spec c 43); [contradiction|]. reflexivity.
Qed.

Lemma digit_not_sign : forall c, is_digit c = true -> c <> 45%N /\ c <> 43%N.
Proof. intros c D. unfold is_digit in D. lia. Qed.

Lemma parse_float_syntax_complete : forall s neg mant k, float_numeral s neg mant k ->
  parse_float_syntax s = Some (neg, mant, k).
Proof.
  intros s neg mant k [sg [ip [ft [fp [et [e10 [-> [T [AI [AF [FT [NE [ET [-> ->]]]]]]]]]]]]]].
  unfold parse_float_syntax.
  (* the first character behind the exponent marker / of the exponent part is no digit *)
  assert (ETnd : match et with c :: _ => is_digit c = false /\ (c =? 46)%N = false | [] => True end).
  { destruct ET as [[-> _]|[c [sg2 [ed [eneg [Hc [-> _]]]]]]]; [exact I|]. destruct Hc as [-> | ->]; split; reflexivity. }
  assert (R1 : match ip ++ ft ++ et with c :: _ => c <> 45%N /\ c <> 43%N | [] => True end).
  { destruct ip as [|c ip']; [|inversion AI; subst; apply digit_not_sign; assumption].
    cbn [app]. destruct FT as [[-> ->] | ->]; [cbn in NE; congruence|]. cbn [app]. split; discriminate. }
  rewrite (sign_text_split_any _ _ _ T R1).
  assert (R2 : match ft ++ et with c :: _ => is_digit c = false | [] => True end).
  { destruct FT as [[-> _] | ->]; cbn [app]; [|reflexivity]. destruct et; [exact I|apply ETnd]. }
  rewrite (take_digits_app _ _ AI R2).
  assert (R3 : match et with c :: _ => is_digit c = false | [] => True end) by (destruct et; [exact I|apply ETnd]).
  match goal with |- (let '(_, _) := ?X in _) = _ => set (FR := X) end.
  assert (EFR : FR = (fp, et)).
  { subst FR. destruct FT as [[-> ->] | ->]; cbn [app].
    - destruct et as [|c r]; [reflexivity|]. destruct ETnd as [_ E46]. rewrite E46. reflexivity.
    - rewrite N.eqb_refl. apply take_digits_app; assumption. }
  rewrite EFR. destruct (ip ++ fp) as [|c0 m0] eqn:EM; [congruence|]. rewrite <- EM.
  destruct ET as [[-> ->]|[c [sg2 [ed [eneg [Hc [-> [T2 [NEd [AE ->]]]]]]]]]].
  - rewrite dec_val_pos_val. f_equal.
  - assert (EC : ((c =? 101)%N || (c =? 69)%N) = true) by (destruct Hc as [-> | ->]; reflexivity). rewrite EC.
    rewrite (sign_text_split _ _ _ T2 NEd AE).
    rewrite <- (app_nil_r ed) at 1. rewrite (take_digits_app ed [] AE I).
    destruct ed as [|d0 ed0] eqn:Eed; [congruence|]. rewrite <- Eed. rewrite !dec_val_pos_val. reflexivity.
Qed.

(* a text denotes at most one (sign, mantissa, exponent) *)
Lemma float_numeral_unique : forall s n1 m1 k1 n2 m2 k2,
  float_numeral s n1 m1 k1 -> float_numeral s n2 m2 k2 -> n1 = n2 /\ m1 = m2 /\ k1 = k2.
Proof.
  intros s n1 m1 k1 n2 m2 k2 H1 H2. apply parse_float_syntax_complete in H1, H2. rewrite H1 in H2.
  inversion H2. auto.
Qed.

Theorem toFloat_reject : forall s, str_to_float s = Err None ->
  (forall neg mant k, ~ float_numeral s neg mant k) \/
  (exists neg mant k, float_numeral s neg mant k /\ 0 <= k /\ two1024 <= mant * 10 ^ k).
Proof.
  intros s H. unfold str_to_float in H. destruct (existsb float_special_char s); [discriminate|].
  destruct (parse_float_syntax s) as [[[neg mant] k]|] eqn:P.
  - right. exists neg, mant, k. split; [apply parse_float_syntax_sound; exact P|].
    unfold float_of_decimal in H. destruct (mant =? 0); [destruct neg; discriminate|].
    destruct (2000 <? Z.abs k); [discriminate|]. destruct (Z.leb_spec 0 k) as [K|K].
    + split; [exact K|]. destruct (Z.leb_spec two1024 (mant * 10 ^ k)); [assumption|].
      destruct (mkfl _ 0); discriminate.
    + destruct (mant mod 5 ^ (- k) =? 0); [|discriminate]. destruct (mkfl _ _); discriminate.
  - left. intros neg mant k FN. rewrite (parse_float_syntax_complete _ _ _ _ FN) in P. discriminate.
Qed.

(* and a numeral (written without the characters i n x _, which no numeral contains) is never rejected as
   malformed: the answer is its value, an error for 2^1024 and more, or outside the model (inexact) *)
Theorem toFloat_numeral_read : forall s neg mant k, float_numeral s neg mant k ->
  existsb float_special_char s = false -> str_to_float s = float_of_decimal neg mant k.
Proof.
  intros s neg mant k FN E. unfold str_to_float. rewrite E. rewrite (parse_float_syntax_complete _ _ _ _ FN). reflexivity.
Qed.
