(* C07 - specification side for numerals and numeric static functions (definitions only).
   A numeral denotes its positional decimal value; toInt / toFloat must return exactly that value
   when it exists in the target type. *)
From P2 Require Import Base.Prelude Sem.Num Sem.Syntax Lib.Builtins.
Local Open Scope Z_scope.

Definition digit_val (c : N) : Z := Z.of_N c - 48.

Definition all_digits (ds : str) : Prop := Forall (fun c => is_digit c = true) ds.

(* positional value, most significant digit first: sum of d_i * 10^(n-1-i) *)
Fixpoint pos_val (ds : str) : Z :=
  match ds with
  | [] => 0
  | c :: r => digit_val c * 10 ^ Z.of_nat (length r) + pos_val r
  end.

(* an optional sign: nothing, + or - *)
Definition sign_text (sg : str) (neg : bool) : Prop :=
  (sg = [] /\ neg = false) \/ (sg = [43%N] /\ neg = false) \/ (sg = [45%N] /\ neg = true).

(* s is a decimal integer numeral  [+-] digit+  that denotes z *)
Definition int_numeral (s : str) (z : Z) : Prop :=
  exists sg ds neg, s = sg ++ ds /\ sign_text sg neg /\ ds <> [] /\ all_digits ds /\
                    z = if neg then - pos_val ds else pos_val ds.

(* the fraction part: nothing, or a point followed by digits (possibly none) *)
Definition frac_text (t fp : str) : Prop := (t = [] /\ fp = []) \/ t = 46%N :: fp.

(* the exponent part: nothing, or e / E, an optional sign and at least one digit *)
Definition exp_text (t : str) (e10 : Z) : Prop :=
  (t = [] /\ e10 = 0) \/
  exists c sg ed eneg, (c = 101%N \/ c = 69%N) /\ t = c :: sg ++ ed /\ sign_text sg eneg /\
                       ed <> [] /\ all_digits ed /\ e10 = if eneg then - pos_val ed else pos_val ed.

(* s is a decimal floating-point numeral  [+-] digits [. digits] [(e|E) [+-] digits]  with at least one
   mantissa digit; it denotes (-1)^neg * mant * 10^k *)
Definition float_numeral (s : str) (neg : bool) (mant k : Z) : Prop :=
  exists sg ip ft fp et e10,
    s = sg ++ ip ++ ft ++ et /\ sign_text sg neg /\ all_digits ip /\ all_digits fp /\ frac_text ft fp /\
    ip ++ fp <> [] /\ exp_text et e10 /\ mant = pos_val (ip ++ fp) /\ k = e10 - Z.of_nat (length fp).

(* m * 2^e = sm * 10^k as rational numbers, cross-multiplied into the integers *)
Definition dyadic_is_decimal (m e sm k : Z) : Prop :=
  m * 2 ^ (e + Z.max 0 (- e)) * 10 ^ (Z.max 0 (- k)) = sm * 10 ^ (k + Z.max 0 (- k)) * 2 ^ (Z.max 0 (- e)).

(* the float x is exactly the decimal number (-1)^neg * mant * 10^k (a zero keeps the sign) *)
Definition float_denotes (x : fl) (neg : bool) (mant k : Z) : Prop :=
  match x with
  | FFin m e => if m =? 0 then mant = 0 /\ neg = false
                else mant <> 0 /\ dyadic_is_decimal m e (if neg then - mant else mant) k
  | FNegZero => mant = 0 /\ neg = true
  | _ => False
  end.
