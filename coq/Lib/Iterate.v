(* C10 - traversal state of a lazy list is per iteration, not per list value.

   value/list.go: a lazy list VALUE is a ListProducer, `func(st) iterator.Producer`; every consumer (string(),
   size(), first(), the producer of a derived list, cross's inner loop, multiUse ...) calls l.iterable(st) and
   gets a NEW producer closure whose loop variables - compact's lastPublished, combine's last/isValue, number's
   n, iir's last/lastItem, skip's and top's i - are declared INSIDE that closure.  In Lib/Stream.v this is
   `init p`: the state a traversal of pipeline p starts in.

   iterate        the code as it is: every traversal of the same value starts in init p
   iterate_shared the shape a refactoring produces when such a variable is hoisted out of the producer into
                  the enclosing method body (one variable per list value): the stages selected by `keep` start
                  the next traversal with the state the previous traversal left behind - sources restart *)
From P2 Require Import Base.Prelude Lib.Stream.
Local Open Scope Z_scope.

(* the pipeline state in which a consumer's loop ends (the state a hoisted variable would be left in) *)
Fixpoint loop_st (fuel : nat) (p : pipe) (t : term) (q : pstate) (s : tst) : runres * pstate :=
  match fuel with
  | O => (([], OutOfFuel, O), q)
  | S f =>
      match next p q with
      | (l, Done) => ((l, term_done t s, 1%nat), q)
      | (l, Fail e) => ((l, OErr e, 1%nat), q)
      | (l, Skip q') =>
          match loop_st f p t q' s with ((l', o, n), qf) => ((l ++ l', o, S n), qf) end
      | (l, Item v q') =>
          match term_item t s v with
          | (l1, TStop o) => ((l ++ l1, o, 1%nat), q')
          | (l1, TCont s') =>
              match loop_st f p t q' s' with ((l', o, n), qf) => ((l ++ l1 ++ l', o, S n), qf) end
          end
      end
  end.

(* the start state of the NEXT traversal when the stages selected by keep share their variables per value *)
Fixpoint reseed (keep : stage -> bool) (p : pipe) (left : pstate) : pstate :=
  match p, left with
  | PStage s p', QStage ss q' => QStage (if keep s then ss else sst0) (reseed keep p' q')
  | PApp p1 p2, QApp _ q1 q2 => QApp false (reseed keep p1 q1) (reseed keep p2 q2)
  | _, _ => init p
  end.

(* the same list value traversed by the consumers ts, one after the other *)
Definition iterate (fuel : nat) (p : pipe) (ts : list term) : list runres := map (fun t => run fuel t p) ts.

Fixpoint iterate_from (keep : stage -> bool) (fuel : nat) (p : pipe) (q : pstate) (ts : list term) : list runres :=
  match ts with
  | [] => []
  | TNone :: r => (fst (build p), OList, O) :: iterate_from keep fuel p q r
  | t :: r => let (res, qf) := loop_st fuel p t q tst0 in res :: iterate_from keep fuel p (reseed keep p qf) r
  end.

Definition iterate_shared (keep : stage -> bool) (fuel : nat) (p : pipe) (ts : list term) : list runres :=
  iterate_from keep fuel p (init p) ts.

Definition is_compact (s : stage) : bool := match s with SCompact _ _ => true | _ => false end.
Definition eq_pr : pr2 := fun a b => Ok (Z.eqb a b).
Definition add_fn : fn2 := fun a b => Ok (a + b).
