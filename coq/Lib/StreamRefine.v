(* The lazy machine (next / loop / run of Lib/Stream.v) refines the eager prefix specification
   (spec_pipe / spec_term): value agreement lazy = eager-on-prefix.

   yields p q items st: an observation of the stream p from state q - the items it produces, in
   order, and how the observation ends (Open: we stopped looking; Closed: the producer ended;
   Failed e: it yielded an error).  Every eager partial list spec_pipe N p is such an observation of
   the lazy machine from its initial state (pipe_yields), and a consumer whose result is decided by
   an observation returns exactly that result when it runs on the machine (loop_decided). *)
From P2 Require Import Base.Prelude Lib.Stream.
Require Import Lia.
Local Open Scope Z_scope.

Inductive yields (p : pipe) : pstate -> list Z -> status -> Prop :=
| Y_open : forall q, yields p q [] Open
| Y_done : forall q l, next p q = (l, Done) -> yields p q [] Closed
| Y_fail : forall q l e, next p q = (l, Fail e) -> yields p q [] (Failed e)
| Y_skip : forall q l q' items st, next p q = (l, Skip q') -> yields p q' items st -> yields p q items st
| Y_item : forall q l v q' items st, next p q = (l, Item v q') -> yields p q' items st -> yields p q (v :: items) st.

Definition yieldsP (p : pipe) (q : pstate) (pl : partial) : Prop := yields p q (fst pl) (snd pl).

(* ------------------------------------------------------------------ consumers *)

(* what a consumer in state s makes of an observation: the fold of term_item / term_done *)
Fixpoint tdec (t : term) (s : tst) (items : list Z) (st : status) : option outcome :=
  match items with
  | [] => match st with Open => None | Closed => Some (term_done t s) | Failed e => Some (OErr e) end
  | v :: r =>
      match snd (term_item t s v) with
      | TStop o => Some o
      | TCont s' => tdec t s' r st
      end
  end.

Lemma loop_decided : forall p t q items st, yields p q items st ->
  forall s o, tdec t s items st = Some o ->
  exists F, forall fuel, (F <= fuel)%nat -> exists l n, loop fuel p t q s = (l, o, n).
Proof.
  intros p t q items st Hy. induction Hy as [q|q l H|q l e H|q l q' items st H Hy IH|q l v q' items st H Hy IH];
    intros s o Hd; cbn [tdec] in Hd.
  - discriminate.
  - inversion Hd; subst. exists 1%nat. intros fuel Hf. destruct fuel as [|f]; [lia|]. cbn [loop]. rewrite H.
    eexists. eexists. reflexivity.
  - inversion Hd; subst. exists 1%nat. intros fuel Hf. destruct fuel as [|f]; [lia|]. cbn [loop]. rewrite H.
    eexists. eexists. reflexivity.
  - destruct (IH s o Hd) as [F HF]. exists (S F). intros fuel Hf. destruct fuel as [|f]; [lia|].
    cbn [loop]. rewrite H. destruct (HF f) as [l' [n' E]]; [lia|]. rewrite E. eexists. eexists. reflexivity.
  - destruct (term_item t s v) as [l1 tr] eqn:Et. cbn [snd] in Hd. destruct tr as [s'|o'].
    + destruct (IH s' o Hd) as [F HF]. exists (S F). intros fuel Hf. destruct fuel as [|f]; [lia|].
      cbn [loop]. rewrite H, Et. destruct (HF f) as [l' [n' E]]; [lia|]. rewrite E. eexists. eexists. reflexivity.
    + inversion Hd; subst. exists 1%nat. intros fuel Hf. destruct fuel as [|f]; [lia|]. cbn [loop]. rewrite H, Et.
      eexists. eexists. reflexivity.
Qed.

(* tdec from the initial consumer state is the specification's spec_term *)

Lemma at_end_tdec_nil : forall t s st o, at_end st o = tdec t s [] st -> True.
Proof. trivial. Qed.

Lemma tdec_first : forall items st, tdec TFirst tst0 items st = spec_term TFirst (items, st).
Proof. intros items st. destruct items as [|x r]; cbn; [destruct st; reflexivity|reflexivity]. Qed.

Lemma tdec_single : forall items st, tdec TSingle tst0 items st = spec_term TSingle (items, st).
Proof.
  intros items st. destruct items as [|x [|y r]]; cbn; try (destruct st; reflexivity); reflexivity.
Qed.

Lemma tdec_size_gen : forall items st s,
  tdec TSize s items st = at_end st (OInt (tcnt s + Z.of_nat (length items))).
Proof.
  induction items as [|x r IH]; intros st s.
  - cbn. rewrite Z.add_0_r. destruct st; reflexivity.
  - cbn [tdec term_item snd]. rewrite IH. cbn [tcnt length]. f_equal. f_equal. lia.
Qed.

Lemma tdec_size : forall items st, tdec TSize tst0 items st = spec_term TSize (items, st).
Proof. intros items st. rewrite tdec_size_gen. cbn. reflexivity. Qed.

Lemma tdec_present_gen : forall id p items st s i,
  tdec (TPresent id p) s items st =
  match find_pred p i items with (Some o, _) => Some o | (None, _) => at_end st (OBool false) end.
Proof.
  intros id p. induction items as [|x r IH]; intros st s i.
  - cbn. destruct st; reflexivity.
  - cbn [tdec term_item find_pred]. destruct (p x) as [[|]|e]; cbn [snd]; try reflexivity. apply IH.
Qed.

Lemma tdec_present : forall id p items st, tdec (TPresent id p) tst0 items st = spec_term (TPresent id p) (items, st).
Proof. intros. rewrite (tdec_present_gen id p items st tst0 0). reflexivity. Qed.

Lemma tdec_index_gen : forall id p items st s,
  tdec (TIndexWhere id p) s items st =
  match find_pred p (tcnt s) items with
  | (Some (OBool true), i) => Some (OInt i)
  | (Some o, _) => Some o
  | (None, _) => at_end st (OInt (-1))
  end.
Proof.
  intros id p. induction items as [|x r IH]; intros st s.
  - cbn. destruct st; reflexivity.
  - cbn [tdec term_item find_pred]. destruct (p x) as [[|]|e]; cbn [snd]; try reflexivity.
    rewrite IH. cbn [tcnt]. reflexivity.
Qed.

Lemma tdec_index : forall id p items st, tdec (TIndexWhere id p) tst0 items st = spec_term (TIndexWhere id p) (items, st).
Proof. intros. rewrite tdec_index_gen. reflexivity. Qed.

Lemma tdec_contains_gen : forall x items st s,
  tdec (TContains x) s items st = if existsb (Z.eqb x) items then Some (OBool true) else at_end st (OBool false).
Proof.
  intros x. induction items as [|y r IH]; intros st s.
  - cbn. destruct st; reflexivity.
  - cbn [tdec term_item existsb]. destruct (x =? y); cbn [snd orb]; [reflexivity|apply IH].
Qed.

Lemma tdec_contains : forall x items st, tdec (TContains x) tst0 items st = spec_term (TContains x) (items, st).
Proof. intros. rewrite tdec_contains_gen. reflexivity. Qed.

Lemma tdec_reduce_gen : forall id g items st s a, tacc s = Some a ->
  tdec (TReduce id g) s items st =
  match fold_until g a items with Err e => Some (OErr e) | Ok v => at_end st (OInt v) end.
Proof.
  intros id g. induction items as [|x r IH]; intros st s a Ha.
  - cbn. rewrite Ha. destruct st; reflexivity.
  - cbn [tdec term_item fold_until]. rewrite Ha. destruct (g a x) as [y|e]; cbn [snd]; [|reflexivity].
    apply IH. reflexivity.
Qed.

Lemma tdec_reduce : forall id g items st, tdec (TReduce id g) tst0 items st = spec_term (TReduce id g) (items, st).
Proof.
  intros id g [|x r] st.
  - cbn. destruct st; reflexivity.
  - cbn [tdec term_item tst0 tacc snd spec_term]. apply tdec_reduce_gen. reflexivity.
Qed.

Lemma tdec_spec : forall t items st, t <> TNone -> tdec t tst0 items st = spec_term t (items, st).
Proof.
  intros t items st Ht. destruct t; try congruence.
  - apply tdec_first.
  - apply tdec_single.
  - apply tdec_size.
  - apply tdec_present.
  - apply tdec_index.
  - apply tdec_contains.
  - apply tdec_reduce.
Qed.

(* ------------------------------------------------------------------ sources, through, + *)

Lemma numbers_open : forall n k i, i + Z.of_nat k <= n -> yields (PNumbers n) (QNum i) (zrange i k) Open.
Proof.
  intros n. induction k as [|k IH]; intros i H; cbn [zrange].
  - apply Y_open.
  - apply (Y_item _ _ [] i (QNum (i + 1))).
    + cbn [next]. destruct (Z.ltb_spec i n); [reflexivity|lia].
    + apply IH. lia.
Qed.

Lemma numbers_closed : forall n k i, Z.of_nat k = Z.max 0 (n - i) -> yields (PNumbers n) (QNum i) (zrange i k) Closed.
Proof.
  intros n. induction k as [|k IH]; intros i H; cbn [zrange].
  - apply (Y_done _ _ []). cbn [next]. destruct (Z.ltb_spec i n); [lia|reflexivity].
  - apply (Y_item _ _ [] i (QNum (i + 1))).
    + cbn [next]. destruct (Z.ltb_spec i n); [reflexivity|lia].
    + apply IH. lia.
Qed.

Lemma list_open : forall l0 l k, yields (PList l0) (QList l) (firstn k l) Open.
Proof.
  intros l0. induction l as [|x r IH]; intros k.
  - destruct k; cbn; apply Y_open.
  - destruct k; cbn [firstn]; [apply Y_open|].
    apply (Y_item _ _ [] x (QList r)); [reflexivity|apply IH].
Qed.

Lemma list_closed : forall l0 l, yields (PList l0) (QList l) l Closed.
Proof.
  intros l0. induction l as [|x r IH].
  - apply (Y_done _ _ []). reflexivity.
  - apply (Y_item _ _ [] x (QList r)); [reflexivity|exact IH].
Qed.

Lemma through_yields : forall c p q items st, yields p q items st -> yields (PThrough c p) q items st.
Proof.
  intros c p q items st H. induction H.
  - apply Y_open.
  - eapply Y_done. cbn [next]. eassumption.
  - eapply Y_fail. cbn [next]. eassumption.
  - eapply Y_skip; [cbn [next]; eassumption|assumption].
  - eapply Y_item; [cbn [next]; eassumption|assumption].
Qed.

Lemma app_right : forall p1 p2 q1 q2 items st, yields p2 q2 items st -> yields (PApp p1 p2) (QApp true q1 q2) items st.
Proof.
  intros p1 p2 q1 q2 items st H. induction H.
  - apply Y_open.
  - eapply Y_done. cbn [next]. rewrite H. reflexivity.
  - eapply Y_fail. cbn [next]. rewrite H. reflexivity.
  - eapply Y_skip; [cbn [next]; rewrite H; reflexivity|assumption].
  - eapply Y_item; [cbn [next]; rewrite H; reflexivity|assumption].
Qed.

Lemma app_left : forall p1 p2 q1 q2 items st, yields p1 q1 items st ->
  forall items2 st2, (st = Closed -> yields p2 q2 items2 st2) ->
  yields (PApp p1 p2) (QApp false q1 q2)
    (match st with Closed => items ++ items2 | _ => items end)
    (match st with Closed => st2 | _ => st end).
Proof.
  intros p1 p2 q1 q2 items st H. induction H; intros items2 st2 H2.
  - apply Y_open.
  - cbn [app]. eapply Y_skip; [cbn [next]; rewrite H; reflexivity|]. apply app_right. apply H2. reflexivity.
  - eapply Y_fail. cbn [next]. rewrite H. reflexivity.
  - eapply Y_skip; [cbn [next]; rewrite H; reflexivity|]. apply IHyields. exact H2.
  - specialize (IHyields items2 st2 H2).
    destruct st; cbn [app] in *; (eapply Y_item; [cbn [next]; rewrite H; reflexivity|exact IHyields]).
Qed.

(* ------------------------------------------------------------------ stages *)

Fixpoint top_from (n c : Z) (items : list Z) (st : status) : partial :=
  if c =? n then ([], Closed) else
  match items with
  | [] => ([], st)
  | x :: r => let (ys, st') := top_from n (c + 1) r st in (x :: ys, st')
  end.

(* the eager stage function from an arbitrary stage state *)
Definition sfun (s : stage) (ss : sst) (items : list Z) (st : status) : partial :=
  match s with
  | SMap _ f => let (ys, e) := map_until f items in cut ys e st
  | SAccept _ p => let (ys, e) := filter_until p items in cut ys e st
  | SCombine _ g =>
      match lastv ss with
      | Some a => let (ys, e) := pairs_until g a items in cut ys e st
      | None => spec_stage s (items, st)
      end
  | SNumber _ g => let (ys, e) := number_until g (cnt ss) items in cut ys e st
  | SIir _ f0 _ g =>
      match lastr ss with
      | Some r => let (ys, e) := scan_until g r items in cut ys e st
      | None => spec_stage s (items, st)
      end
  | SCompact _ eq =>
      match lastv ss with
      | Some a => let (ys, e) := compact_until eq a items in cut ys e st
      | None => spec_stage s (items, st)
      end
  | SSkip n => (skipn (Z.to_nat (n - cnt ss)) items, st)
  | STop n => top_from n (cnt ss) items st
  end.

Lemma next_stage_live : forall s p ss q l r, stage_done s ss = false -> next p q = (l, r) ->
  next (PStage s p) (QStage ss q) =
  match r with
  | Done => (l, Done)
  | Skip q'' => (l, Skip (QStage ss q''))
  | Item v q'' => stage_item s ss l v q''
  | Fail e => (l, Fail e)
  end.
Proof. intros s p ss q l r H H0. cbn [next]. rewrite H, H0. destruct r; reflexivity. Qed.

Lemma sfun_nil : forall s ss st, stage_done s ss = false -> sfun s ss [] st = ([], st).
Proof.
  intros s ss st H. destruct s; cbn [sfun spec_stage map_until filter_until number_until cut];
    try reflexivity.
  - destruct (lastv ss); reflexivity.
  - destruct (lastr ss); reflexivity.
  - destruct (lastv ss); reflexivity.
  - destruct (Z.to_nat (n - cnt ss)); reflexivity.
  - cbn [stage_done] in H. cbn [top_from]. rewrite H. reflexivity.
Qed.

Lemma cut_cons : forall y ys e st, cut (y :: ys) e st = (y :: fst (cut ys e st), snd (cut ys e st)).
Proof. intros y ys e st. destruct e; reflexivity. Qed.

Lemma yP_item : forall P Q l o Q' pl, next P Q = (l, Item o Q') -> yieldsP P Q' pl ->
  yieldsP P Q (o :: fst pl, snd pl).
Proof. intros P Q l o Q' pl H Hy. unfold yieldsP in *. cbn [fst snd]. eapply Y_item; eassumption. Qed.

Lemma yP_skip : forall P Q l Q' pl, next P Q = (l, Skip Q') -> yieldsP P Q' pl -> yieldsP P Q pl.
Proof. intros P Q l Q' pl H Hy. unfold yieldsP in *. eapply Y_skip; eassumption. Qed.

Lemma yP_fail : forall P Q l e, next P Q = (l, Fail e) -> yieldsP P Q ([], Failed e).
Proof. intros P Q l e H. unfold yieldsP. cbn [fst snd]. eapply Y_fail; eassumption. Qed.

Lemma stage_item_yields : forall s p q l v q' items st ss,
  stage_done s ss = false -> next p q = (l, Item v q') ->
  (forall ss', yieldsP (PStage s p) (QStage ss' q') (sfun s ss' items st)) ->
  yieldsP (PStage s p) (QStage ss q) (sfun s ss (v :: items) st).
Proof.
  intros s p q l v q' items st ss Hd Hn IH.
  pose proof (next_stage_live s p ss q l _ Hd Hn) as E. cbn beta iota in E.
  destruct s as [i f|i pr|i g|i g|i0 f0 i g|i eq|n|n]; cbn [stage_item] in E; cbn [sfun].
  - (* map *) cbn [map_until]. destruct (f v) as [y|e].
    + specialize (IH ss). cbn [sfun] in IH. destruct (map_until f items) as [ys e]. rewrite cut_cons.
      eapply yP_item; eassumption.
    + cbn [cut]. eapply yP_fail; eassumption.
  - (* accept *) cbn [filter_until]. destruct (pr v) as [[|]|e].
    + specialize (IH ss). cbn [sfun] in IH. destruct (filter_until pr items) as [ys e]. rewrite cut_cons.
      eapply yP_item; eassumption.
    + specialize (IH ss). cbn [sfun] in IH. destruct (filter_until pr items) as [ys e].
      eapply yP_skip; eassumption.
    + cbn [cut]. eapply yP_fail; eassumption.
  - (* combine *) destruct (lastv ss) as [a|] eqn:El.
    + cbn [pairs_until]. destruct (g a v) as [y|e].
      * specialize (IH (mk_sst (cnt ss) (Some v) (lastr ss))). cbn [sfun lastv] in IH.
        destruct (pairs_until g v items) as [ys e]. rewrite cut_cons. eapply yP_item; eassumption.
      * cbn [cut]. eapply yP_fail; eassumption.
    + cbn [spec_stage]. specialize (IH (mk_sst (cnt ss) (Some v) (lastr ss))). cbn [sfun lastv] in IH.
      eapply yP_skip; eassumption.
  - (* number *) cbn [number_until]. destruct (g (cnt ss) v) as [y|e].
    + specialize (IH (mk_sst (cnt ss + 1) (lastv ss) (lastr ss))). cbn [sfun cnt] in IH.
      destruct (number_until g (cnt ss + 1) items) as [ys e]. rewrite cut_cons. eapply yP_item; eassumption.
    + cbn [cut]. eapply yP_fail; eassumption.
  - (* iir *) destruct (lastr ss) as [r|] eqn:El.
    + cbn [scan_until]. destruct (g v r) as [y|e].
      * specialize (IH (mk_sst (cnt ss) (Some v) (Some y))). cbn [sfun lastr] in IH.
        destruct (scan_until g y items) as [ys e]. rewrite cut_cons. eapply yP_item; eassumption.
      * cbn [cut]. eapply yP_fail; eassumption.
    + cbn [spec_stage]. destruct (f0 v) as [y|e].
      * specialize (IH (mk_sst (cnt ss) (Some v) (Some y))). cbn [sfun lastr] in IH.
        destruct (scan_until g y items) as [ys e]. rewrite cut_cons. eapply yP_item; eassumption.
      * eapply yP_fail; eassumption.
  - (* compact *) destruct (lastv ss) as [a|] eqn:El.
    + cbn [compact_until]. destruct (eq a v) as [[|]|e].
      * specialize (IH ss). cbn [sfun] in IH. rewrite El in IH. eapply yP_skip; eassumption.
      * specialize (IH (mk_sst (cnt ss) (Some v) (lastr ss))). cbn [sfun lastv] in IH.
        destruct (compact_until eq v items) as [ys e]. rewrite cut_cons. eapply yP_item; eassumption.
      * cbn [cut]. eapply yP_fail; eassumption.
    + cbn [spec_stage]. specialize (IH (mk_sst (cnt ss) (Some v) (lastr ss))). cbn [sfun lastv] in IH.
      destruct (compact_until eq v items) as [ys e]. rewrite cut_cons. eapply yP_item; eassumption.
  - (* skip *) destruct (Z.ltb_spec (cnt ss) n) as [Hlt|Hge].
    + specialize (IH (mk_sst (cnt ss + 1) (lastv ss) (lastr ss))). cbn [sfun cnt] in IH.
      replace (Z.to_nat (n - cnt ss)) with (S (Z.to_nat (n - (cnt ss + 1)))) by lia. cbn [skipn].
      eapply yP_skip; eassumption.
    + specialize (IH ss). cbn [sfun] in IH.
      replace (Z.to_nat (n - cnt ss)) with O in * by lia. cbn [skipn] in *.
      eapply (yP_item _ _ _ _ _ (items, st)); eassumption.
  - (* top *) cbn [stage_done] in Hd. cbn [top_from]. rewrite Hd.
    specialize (IH (mk_sst (cnt ss + 1) (lastv ss) (lastr ss))). cbn [sfun cnt] in IH.
    destruct (top_from n (cnt ss + 1) items st) as [ys st'].
    eapply (yP_item _ _ _ _ _ (ys, st')); eassumption.
Qed.

Lemma top_from_done : forall n c items st, (c =? n) = true -> top_from n c items st = ([], Closed).
Proof. intros n c items st H. destruct items; cbn [top_from]; rewrite H; reflexivity. Qed.

Lemma stage_done_yields : forall s p ss q items st, stage_done s ss = true ->
  yieldsP (PStage s p) (QStage ss q) (sfun s ss items st).
Proof.
  intros s p ss q items st Ed. destruct s; try discriminate. cbn [stage_done] in Ed. cbn [sfun].
  rewrite top_from_done by exact Ed. unfold yieldsP. cbn [fst snd]. apply (Y_done _ _ []).
  cbn [next stage_done]. rewrite Ed. reflexivity.
Qed.

Lemma stage_yields : forall s p q items st, yields p q items st ->
  forall ss, yieldsP (PStage s p) (QStage ss q) (sfun s ss items st).
Proof.
  intros s p q items st H. induction H as [q|q l H|q l e H|q l q' items st H Hy IH|q l v q' items st H Hy IH]; intros ss;
    (destruct (stage_done s ss) eqn:Ed; [apply stage_done_yields; exact Ed|]).
  - rewrite sfun_nil by exact Ed. apply Y_open.
  - rewrite sfun_nil by exact Ed. unfold yieldsP. cbn [fst snd]. eapply Y_done.
    rewrite (next_stage_live s p ss q l _ Ed H). reflexivity.
  - rewrite sfun_nil by exact Ed. eapply yP_fail. rewrite (next_stage_live s p ss q l _ Ed H). reflexivity.
  - eapply yP_skip; [rewrite (next_stage_live s p ss q l _ Ed H); reflexivity|apply IH].
  - eapply stage_item_yields; eassumption.
Qed.

(* ------------------------------------------------------------------ sfun from the initial state is spec_stage *)

Lemma top_from_spec : forall n st items c,
  top_from n c items st =
  if (c <=? n) && (n - c <=? Z.of_nat (length items)) then (firstn (Z.to_nat (n - c)) items, Closed) else (items, st).
Proof.
  intros n st. induction items as [|x r IH]; intros c.
  - cbn [top_from length firstn]. destruct (Z.eqb_spec c n) as [E|E].
    + subst. rewrite Z.leb_refl. replace (n - n) with 0 by lia. cbn. reflexivity.
    + destruct (Z.leb_spec c n); destruct (Z.leb_spec (n - c) (Z.of_nat 0)); cbn [andb];
        try reflexivity. lia.
  - cbn [top_from]. destruct (Z.eqb_spec c n) as [E|E].
    + subst. rewrite Z.leb_refl. replace (n - n) with 0 by lia. cbn. reflexivity.
    + rewrite IH. cbn [length].
      destruct (Z.leb_spec c n); destruct (Z.leb_spec (c + 1) n); try lia; cbn [andb].
      * destruct (Z.leb_spec (n - (c + 1)) (Z.of_nat (length r)));
          destruct (Z.leb_spec (n - c) (Z.of_nat (S (length r)))); try lia.
        -- replace (Z.to_nat (n - c)) with (S (Z.to_nat (n - (c + 1)))) by lia. reflexivity.
        -- reflexivity.
      * reflexivity.
Qed.

Lemma sfun_init : forall s items st, sfun s sst0 items st = spec_stage s (items, st).
Proof.
  intros s items st. destruct s; cbn [sfun sst0 lastv lastr cnt spec_stage]; try reflexivity.
  - rewrite Z.sub_0_r. reflexivity.
  - rewrite top_from_spec. rewrite Z.sub_0_r. rewrite Z.geb_leb. reflexivity.
Qed.

(* ------------------------------------------------------------------ pipelines without cross / merge *)

Fixpoint no_cm (p : pipe) : Prop :=
  match p with
  | PNumbers _ | PList _ => True
  | PStage _ p' => no_cm p'
  | PApp a b => no_cm a /\ no_cm b
  | PThrough _ p' => no_cm p'
  | PCross _ _ _ _ | PMerge _ _ _ _ => False
  end.

(* every eager partial list of the specification is an observation of the lazy machine *)
Lemma pipe_yields : forall p, no_cm p -> forall N, yieldsP p (init p) (spec_pipe N p).
Proof.
  induction p as [n|l|s p IH|p1 IH1 p2 IH2|ci g p1 IH1 p2 IH2|ci less p1 IH1 p2 IH2|cx p IH]; intros Hn N;
    cbn [no_cm] in Hn; try contradiction; cbn [init spec_pipe].
  - destruct (Z.ltb_spec (Z.of_nat N) n); unfold yieldsP; cbn [fst snd].
    + apply numbers_open. lia.
    + apply numbers_closed. lia.
  - destruct (Nat.ltb_spec N (length l)); unfold yieldsP; cbn [fst snd].
    + apply list_open.
    + apply list_closed.
  - specialize (IH Hn N). destruct (spec_pipe N p) as [items st]. unfold yieldsP in IH. cbn [fst snd] in IH.
    rewrite <- sfun_init. apply stage_yields. exact IH.
  - destruct Hn as [H1 H2]. specialize (IH1 H1 N). specialize (IH2 H2 N).
    destruct (spec_pipe N p1) as [i1 st1]. destruct (spec_pipe N p2) as [i2 st2].
    unfold yieldsP in *. cbn [fst snd] in *.
    pose proof (app_left p1 p2 (init p1) (init p2) i1 st1 IH1 i2 st2 (fun _ => IH2)) as R.
    destruct st1; exact R.
  - apply through_yields. apply IH. exact Hn.
Qed.

Lemma term_none_dec' : forall t, {t = TNone} + {t <> TNone}.
Proof. destruct t; (left; reflexivity) || (right; discriminate). Qed.

(* value agreement: whenever the eager specification decides the result on some prefix N of the
   sources, the lazy machine returns exactly that result (given enough fuel) *)
Lemma run_refines_spec_nocm : forall p t N o, no_cm p ->
  spec_term t (spec_pipe N p) = Some o ->
  exists F, forall fuel, (F <= fuel)%nat -> exists l n, run fuel t p = (l, o, n).
Proof.
  intros p t N o Hn Hs. destruct (term_none_dec' t) as [E|E].
  - subst t. destruct (spec_pipe N p). cbn in Hs. inversion Hs; subst. exists O. intros fuel _.
    eexists. eexists. reflexivity.
  - pose proof (pipe_yields p Hn N) as Hy. destruct (spec_pipe N p) as [items st].
    unfold yieldsP in Hy. cbn [fst snd] in Hy.
    rewrite <- (tdec_spec t items st E) in Hs.
    destruct (loop_decided p t (init p) items st Hy tst0 o Hs) as [F HF].
    exists F. intros fuel Hf. destruct (HF fuel Hf) as [l [n El]]. exists l, n.
    destruct t; try congruence; exact El.
Qed.

Lemma spec_need_from_sound : forall k N t p N' o,
  spec_need_from k N t p = Some (N', o) -> spec_term t (spec_pipe N' p) = Some o.
Proof.
  induction k as [|k IH]; intros N t p N' o H; cbn [spec_need_from] in H;
    destruct (spec_term t (spec_pipe N p)) as [o'|] eqn:E.
  - inversion H; subst. exact E.
  - discriminate.
  - inversion H; subst. exact E.
  - eapply IH. exact H.
Qed.

Lemma spec_need_sound : forall B t p N o, spec_need B t p = Some (N, o) -> spec_term t (spec_pipe N p) = Some o.
Proof. intros B t p N o H. eapply spec_need_from_sound. exact H. Qed.

(* ------------------------------------------------------------------ cross *)

Section Cross.
  Variables (ci : N) (g : fn2) (p1 p2 : pipe) (lb : list Z) (stb : status).
  Hypothesis H2 : yields p2 (init p2) lb stb.
  Let PC := PCross ci g p1 p2.

  (* one row: the elements g a b for b in lb, then (if the second list is complete) what follows *)
  Definition row_result (a : Z) (l2 : list Z) (K : partial) : partial :=
    let (r, e) := map_until (g a) l2 in
    match e with
    | Some e => (r, Failed e)
    | None => match stb with Closed => (r ++ fst K, snd K) | Open => (r, Open) | Failed e' => (r, Failed e') end
    end.

  Lemma cross_row : forall a q1 K, (forall q2x, yieldsP PC (QCross None q1 q2x) K) ->
    forall q2 l2, yields p2 q2 l2 stb -> yieldsP PC (QCross (Some a) q1 q2) (row_result a l2 K).
  Proof.
    intros a q1 K HK q2 l2 H. unfold row_result.
    remember stb as st0 eqn:Est in H.
    induction H as [q|q l H|q l e H|q l q' items st H Hy IH|q l v q' items st H Hy IH].
    - cbn [map_until]. rewrite <- Est. unfold yieldsP. cbn [fst snd]. apply Y_open.
    - cbn [map_until app]. rewrite <- Est. unfold yieldsP. cbn [fst snd].
      eapply Y_skip; [unfold PC; cbn [next]; rewrite H; reflexivity|apply HK].
    - cbn [map_until]. rewrite <- Est. unfold yieldsP. cbn [fst snd].
      eapply Y_fail. unfold PC. cbn [next]. rewrite H. reflexivity.
    - specialize (IH Est). eapply yP_skip; [unfold PC; cbn [next]; rewrite H; reflexivity|exact IH].
    - specialize (IH Est). cbn [map_until]. destruct (g a v) as [o|e] eqn:Eg.
      + destruct (map_until (g a) items) as [r e]. 
        assert (En : next PC (QCross (Some a) q1 q) = (l ++ [Ev ci [a; v]], Item o (QCross (Some a) q1 q'))).
        { unfold PC. cbn [next]. rewrite H, Eg. reflexivity. }
        destruct e as [e|].
        * eapply (yP_item _ _ _ _ _ (r, Failed e)); eassumption.
        * destruct stb; cbn [app].
          -- eapply (yP_item _ _ _ _ _ (r, Open)); eassumption.
          -- eapply (yP_item _ _ _ _ _ (r ++ fst K, snd K)); eassumption.
          -- eapply (yP_item _ _ _ _ _ (r, Failed e)); eassumption.
      + eapply yP_fail. unfold PC. cbn [next]. rewrite H, Eg. reflexivity.
  Qed.

  Fixpoint crossF (la : list Z) (sta : status) : partial :=
    match la with
    | [] => ([], sta)
    | a :: ra => row_result a lb (crossF ra sta)
    end.

  Lemma cross_outer : forall q1 la sta, yields p1 q1 la sta ->
    forall q2, yieldsP PC (QCross None q1 q2) (crossF la sta).
  Proof.
    intros q1 la sta H. induction H as [q|q l H|q l e H|q l q' items st H Hy IH|q l v q' items st H Hy IH]; intros q2;
      cbn [crossF].
    - apply Y_open.
    - unfold yieldsP. cbn [fst snd]. eapply Y_done. unfold PC. cbn [next]. rewrite H. reflexivity.
    - eapply yP_fail. unfold PC. cbn [next]. rewrite H. reflexivity.
    - eapply yP_skip; [unfold PC; cbn [next]; rewrite H; reflexivity|apply IH].
    - eapply yP_skip; [unfold PC; cbn [next]; rewrite H; reflexivity|].
      apply cross_row; [exact IH|exact H2].
  Qed.

  Lemma crossF_closed : stb = Closed -> forall la sta,
    crossF la sta = (let (ys, e) := cross_rows g la lb in cut ys e sta).
  Proof.
    intros Ec. induction la as [|a ra IH]; intros sta.
    - reflexivity.
    - cbn [crossF cross_rows]. unfold row_result. rewrite IH. rewrite Ec.
      destruct (map_until (g a) lb) as [r e]. destruct e as [e|]; [reflexivity|].
      destruct (cross_rows g ra lb) as [rs e']. destruct e'; reflexivity.
  Qed.

  Lemma crossF_spec : forall la sta, crossF la sta = spec_cross g (la, sta) (lb, stb).
  Proof.
    intros la sta. destruct la as [|a ra]; [reflexivity|].
    cbn [spec_cross]. destruct stb eqn:Es.
    - cbn [crossF]. unfold row_result. rewrite Es. destruct (map_until (g a) lb) as [r e]. destruct e; reflexivity.
    - rewrite crossF_closed by exact Es. reflexivity.
    - cbn [crossF]. unfold row_result. rewrite Es. destruct (map_until (g a) lb) as [r e0]. destruct e0; reflexivity.
  Qed.
End Cross.

(* ------------------------------------------------------------------ merge *)

Section Merge.
  Variables (ci : N) (less : pr2) (p1 p2 : pipe).
  Let PM := PMerge ci less p1 p2.

  Definition end_side (other : list Z) (st_other st : status) : partial :=
    match st with Closed => (other, st_other) | Open => ([], Open) | Failed e => ([], Failed e) end.

  Definition pcons (x : Z) (pl : partial) : partial := (x :: fst pl, snd pl).

  (* eager merge of two observations (structural: no fuel) *)
  Fixpoint mergeF (la : list Z) (sta : status) (lb : list Z) (stb : status) {struct la} : partial :=
    match la with
    | [] => end_side lb stb sta
    | x :: ra =>
        (fix go (lb : list Z) : partial :=
           match lb with
           | [] => end_side (x :: ra) sta stb
           | y :: rb =>
               match less x y with
               | Ok true => pcons x (mergeF ra sta (y :: rb) stb)
               | Ok false => pcons y (go rb)
               | Err e => ([], Failed e)
               end
           end) lb
    end.

  Lemma mergeF_cons_nil : forall x ra sta stb, mergeF (x :: ra) sta [] stb = end_side (x :: ra) sta stb.
  Proof. reflexivity. Qed.

  Lemma mergeF_cons_cons : forall x ra sta y rb stb,
    mergeF (x :: ra) sta (y :: rb) stb =
    match less x y with
    | Ok true => pcons x (mergeF ra sta (y :: rb) stb)
    | Ok false => pcons y (mergeF (x :: ra) sta rb stb)
    | Err e => ([], Failed e)
    end.
  Proof. reflexivity. Qed.

  Lemma mergeF_nil_closed : forall la sta, mergeF la sta [] Closed = (la, sta).
  Proof. intros [|x ra] sta; [destruct sta; reflexivity|reflexivity]. Qed.

  Lemma yP_done : forall P Q l, next P Q = (l, Done) -> yieldsP P Q ([], Closed).
  Proof. intros P Q l H. unfold yieldsP. cbn [fst snd]. eapply Y_done. eassumption. Qed.

  Lemma yP_item' : forall P Q l o Q' pl, next P Q = (l, Item o Q') -> yieldsP P Q' pl -> yieldsP P Q (pcons o pl).
  Proof. intros. unfold pcons. eapply yP_item; eassumption. Qed.

  (* the second list has ended: the rest of the first one is copied *)
  Lemma merge_b_ended : forall q1 la sta, yields p1 q1 la sta ->
    forall q2, yieldsP PM (QMerge false true None None q1 q2) (la, sta).
  Proof.
    intros q1 la sta H. induction H as [q|q l H|q l e H|q l q' items st H Hy IH|q l v q' items st H Hy IH]; intros q2.
    - apply Y_open.
    - eapply yP_skip; [unfold PM; cbn [next]; rewrite H; reflexivity|].
      eapply yP_done. unfold PM. cbn [next]. reflexivity.
    - eapply yP_fail. unfold PM. cbn [next]. rewrite H. reflexivity.
    - eapply yP_skip; [unfold PM; cbn [next]; rewrite H; reflexivity|apply IH].
    - eapply yP_skip; [unfold PM; cbn [next]; rewrite H; reflexivity|].
      eapply (yP_item _ _ _ _ _ (items, st)); [unfold PM; cbn [next]; reflexivity|apply IH].
  Qed.

  (* the first list has ended: the waiting element and the rest of the second one are copied *)
  Lemma merge_a_ended_none : forall q2 lb stb, yields p2 q2 lb stb ->
    forall q1, yieldsP PM (QMerge true false None None q1 q2) (lb, stb).
  Proof.
    intros q2 lb stb H. induction H as [q|q l H|q l e H|q l q' items st H Hy IH|q l v q' items st H Hy IH]; intros q1.
    - apply Y_open.
    - eapply yP_skip; [unfold PM; cbn [next]; rewrite H; reflexivity|].
      eapply yP_done. unfold PM. cbn [next]. reflexivity.
    - eapply yP_fail. unfold PM. cbn [next]. rewrite H. reflexivity.
    - eapply yP_skip; [unfold PM; cbn [next]; rewrite H; reflexivity|apply IH].
    - eapply yP_skip; [unfold PM; cbn [next]; rewrite H; reflexivity|].
      eapply (yP_item _ _ _ _ _ (items, st)); [unfold PM; cbn [next]; reflexivity|apply IH].
  Qed.

  Definition ob (b : option Z) : list Z := match b with Some y => [y] | None => [] end.

  Lemma merge_a_ended : forall q2 lb stb, yields p2 q2 lb stb ->
    forall b q1, yieldsP PM (QMerge true false None b q1 q2) (ob b ++ lb, stb).
  Proof.
    intros q2 lb stb H b q1. destruct b as [y|]; cbn [ob app].
    - eapply (yP_item _ _ _ _ _ (lb, stb)); [unfold PM; cbn [next]; reflexivity|].
      apply merge_a_ended_none. exact H.
    - apply merge_a_ended_none. exact H.
  Qed.

  (* an element x of the first list is waiting, none of the second *)
  Lemma merge_a_waiting : forall x la sta q1,
    (forall b q2 lb stb, yields p2 q2 lb stb ->
       yieldsP PM (QMerge false false None b q1 q2) (mergeF la sta (ob b ++ lb) stb)) ->
    (forall q2, yieldsP PM (QMerge false true None None q1 q2) (la, sta)) ->
    forall q2 lb stb, yields p2 q2 lb stb ->
    yieldsP PM (QMerge false false (Some x) None q1 q2) (mergeF (x :: la) sta lb stb).
  Proof.
    intros x la sta q1 IHA HE q2 lb stb H.
    induction H as [q|q l H|q l e H|q l q' items st H Hy IH|q l v q' items st H Hy IH].
    - rewrite mergeF_cons_nil. apply Y_open.
    - rewrite mergeF_cons_nil. cbn [end_side].
      eapply yP_skip; [unfold PM; cbn [next]; rewrite H; reflexivity|].
      eapply (yP_item _ _ _ _ _ (la, sta)); [unfold PM; cbn [next]; reflexivity|apply HE].
    - rewrite mergeF_cons_nil. cbn [end_side]. eapply yP_fail. unfold PM. cbn [next]. rewrite H. reflexivity.
    - eapply yP_skip; [unfold PM; cbn [next]; rewrite H; reflexivity|exact IH].
    - eapply yP_skip; [unfold PM; cbn [next]; rewrite H; reflexivity|].
      rewrite mergeF_cons_cons. destruct (less x v) as [[|]|e] eqn:El.
      + eapply yP_item'; [unfold PM; cbn [next]; rewrite El; reflexivity|].
        apply (IHA (Some v) q' items st Hy).
      + eapply yP_item'; [unfold PM; cbn [next]; rewrite El; reflexivity|exact IH].
      + eapply yP_fail. unfold PM. cbn [next]. rewrite El. reflexivity.
  Qed.

  (* no element of the first list is waiting *)
  Lemma merge_main : forall q1 la sta, yields p1 q1 la sta ->
    forall b q2 lb stb, yields p2 q2 lb stb ->
    yieldsP PM (QMerge false false None b q1 q2) (mergeF la sta (ob b ++ lb) stb).
  Proof.
    intros q1 la sta H. induction H as [q|q l H|q l e H|q l q' items st H Hy IH|q l v q' items st H Hy IH];
      intros b q2 lb stb H2.
    - apply Y_open.
    - cbn [mergeF end_side]. eapply yP_skip; [unfold PM; cbn [next]; rewrite H; reflexivity|].
      apply merge_a_ended. exact H2.
    - cbn [mergeF end_side]. eapply yP_fail. unfold PM. cbn [next]. rewrite H. reflexivity.
    - eapply yP_skip; [unfold PM; cbn [next]; rewrite H; reflexivity|apply IH; exact H2].
    - eapply yP_skip; [unfold PM; cbn [next]; rewrite H; reflexivity|].
      assert (HE : forall q2x, yieldsP PM (QMerge false true None None q' q2x) (items, st)).
      { intros q2x. apply merge_b_ended. exact Hy. }
      destruct b as [y|]; cbn [ob app].
      + rewrite mergeF_cons_cons. destruct (less v y) as [[|]|e] eqn:El.
        * eapply yP_item'; [unfold PM; cbn [next]; rewrite El; reflexivity|].
          apply (IH (Some y) q2 lb stb H2).
        * eapply yP_item'; [unfold PM; cbn [next]; rewrite El; reflexivity|].
          apply merge_a_waiting; assumption.
        * eapply yP_fail. unfold PM. cbn [next]. rewrite El. reflexivity.
      + apply merge_a_waiting; assumption.
  Qed.

  (* mergeF is the specification's fuelled merge *)
  Lemma spec_merge_mergeF : forall F la lb sta stb, (length la + length lb < F)%nat ->
    spec_merge F less la lb sta stb = mergeF la sta lb stb.
  Proof.
    induction F as [|F IH]; intros la lb sta stb Hf; [lia|].
    destruct la as [|x ra]; destruct lb as [|y rb]; cbn [spec_merge]; try reflexivity.
    rewrite mergeF_cons_cons. cbn [length] in Hf. destruct (less x y) as [[|]|e]; try reflexivity.
    - rewrite IH by (cbn [length]; lia). destruct (mergeF ra sta (y :: rb) stb). reflexivity.
    - rewrite IH by (cbn [length]; lia). destruct (mergeF (x :: ra) sta rb stb). reflexivity.
  Qed.
End Merge.

(* ------------------------------------------------------------------ all pipelines *)

Lemma pipe_yields_all : forall p N, yieldsP p (init p) (spec_pipe N p).
Proof.
  induction p as [n|l|s p IH|p1 IH1 p2 IH2|ci g p1 IH1 p2 IH2|ci less p1 IH1 p2 IH2|cx p IH]; intros N;
    cbn [init spec_pipe].
  - destruct (Z.ltb_spec (Z.of_nat N) n); unfold yieldsP; cbn [fst snd].
    + apply numbers_open. lia.
    + apply numbers_closed. lia.
  - destruct (Nat.ltb_spec N (length l)); unfold yieldsP; cbn [fst snd].
    + apply list_open.
    + apply list_closed.
  - specialize (IH N). destruct (spec_pipe N p) as [items st]. unfold yieldsP in IH. cbn [fst snd] in IH.
    rewrite <- sfun_init. apply stage_yields. exact IH.
  - specialize (IH1 N). specialize (IH2 N).
    destruct (spec_pipe N p1) as [i1 st1]. destruct (spec_pipe N p2) as [i2 st2].
    unfold yieldsP in *. cbn [fst snd] in *.
    pose proof (app_left p1 p2 (init p1) (init p2) i1 st1 IH1 i2 st2 (fun _ => IH2)) as R.
    destruct st1; exact R.
  - specialize (IH1 N). specialize (IH2 N).
    destruct (spec_pipe N p1) as [la sta]. destruct (spec_pipe N p2) as [lb stb].
    unfold yieldsP in IH1, IH2. cbn [fst snd] in IH1, IH2.
    rewrite <- (crossF_spec g p2 lb stb IH2 la sta).
    apply cross_outer; assumption.
  - specialize (IH1 N). specialize (IH2 N).
    destruct (spec_pipe N p1) as [la sta]. destruct (spec_pipe N p2) as [lb stb].
    unfold yieldsP in IH1, IH2. cbn [fst snd] in IH1, IH2.
    rewrite spec_merge_mergeF by lia.
    apply (merge_main ci less p1 p2 (init p1) la sta IH1 None (init p2) lb stb IH2).
  - apply through_yields. apply IH.
Qed.

(* value agreement for every pipeline, every consumer, every source: whenever the eager specification
   decides the result on some prefix N of the sources, the lazy machine returns exactly that result *)
Lemma run_refines_spec : forall p t N o,
  spec_term t (spec_pipe N p) = Some o ->
  exists F, forall fuel, (F <= fuel)%nat -> exists l n, run fuel t p = (l, o, n).
Proof.
  intros p t N o Hs. destruct (term_none_dec' t) as [E|E].
  - subst t. destruct (spec_pipe N p). cbn in Hs. inversion Hs; subst. exists O. intros fuel _.
    eexists. eexists. reflexivity.
  - pose proof (pipe_yields_all p N) as Hy. destruct (spec_pipe N p) as [items st].
    unfold yieldsP in Hy. cbn [fst snd] in Hy.
    rewrite <- (tdec_spec t items st E) in Hs.
    destruct (loop_decided p t (init p) items st Hy tst0 o Hs) as [F HF].
    exists F. intros fuel Hf. destruct (HF fuel Hf) as [l [n El]]. exists l, n.
    destruct t; try congruence; exact El.
Qed.

Lemma run_refines_spec_need : forall B p t N o,
  spec_need B t p = Some (N, o) ->
  exists F, forall fuel, (F <= fuel)%nat -> exists l n, run fuel t p = (l, o, n).
Proof. intros B p t N o H. eapply run_refines_spec. eapply spec_need_sound. exact H. Qed.
