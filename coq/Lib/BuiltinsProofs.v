(* C07 - refinement lemmas: implementation models (Lib/Builtins.v) against the documented models
   (Lib/ListLib.v), and soundness/completeness of the checkers. *)
From P2 Require Import Base.Prelude Sem.Num Sem.Syntax Sem.Ops Sem.Lib Lib.Names Lib.Builtins Lib.ListLib.
From Coq Require Import Permutation Sorted.
Local Open Scope Z_scope.
