(* C07 - refinement lemmas: implementation models (Lib/Builtins.v) against the documented models
   (Lib/ListLib.v), and soundness/completeness of the checkers. *)
From P2 Require Import Base.Prelude Sem.Num Sem.Syntax Sem.Ops Sem.Lib Lib.Names Lib.Builtins Lib.ListLib.
From Coq Require Import Permutation Sorted Lia ZifyBool.
Local Open Scope Z_scope.

(* ---------- streams ---------- *)

Lemma collect_of_list : forall l, collect (of_list l) = Ok l.
Proof.
  induction l as [|x r IH]; cbn [of_list collect]; [reflexivity|].
  rewrite IH. reflexivity.
Qed.

Lemma collect_sbind : forall A (r : res A) (k : A -> strm),
  collect (sbind r k) = bind r (fun a => collect (k a)).
Proof. intros A r k. destruct r; reflexivity. Qed.

Lemma as_bool_d_bool : forall r, as_bool r = d_bool r.
Proof. reflexivity. Qed.

Lemma bind_assoc : forall A B C (r : res A) (f : A -> res B) (g : B -> res C),
  bind (bind r f) g = bind r (fun a => bind (f a) g).
Proof. intros. destruct r; reflexivity. Qed.

Lemma bind_ext : forall A B (r : res A) (f g : A -> res B),
  (forall a, f a = g a) -> bind r f = bind r g.
Proof. intros A B r f g H. destruct r; cbn [bind]; auto. Qed.

(* ---------- map, accept ---------- *)

Lemma map_spec : forall f l, collect (s_map f (of_list l)) = d_map f l.
Proof.
  intros f. unfold d_map. induction l as [|x r IH]; cbn [of_list s_map mapM collect]; [reflexivity|].
  rewrite collect_sbind. apply bind_ext. intros y. cbn [collect]. rewrite IH. reflexivity.
Qed.

Lemma accept_spec : forall f l, collect (s_accept f (of_list l)) = d_accept f l.
Proof.
  intros f. unfold d_accept. induction l as [|x r IH]; cbn [of_list s_accept filterM collect]; [reflexivity|].
  rewrite collect_sbind. apply bind_ext. intros b. destruct b; cbn [collect]; rewrite IH.
  - reflexivity.
  - destruct (filterM (fun x0 => d_bool (f x0)) r); reflexivity.
Qed.

(* ---------- folds ---------- *)

Lemma fold_spec : forall f l acc, t_fold f acc (of_list l) = foldM f acc l.
Proof.
  intros f. induction l as [|x r IH]; intros acc; cbn [of_list t_fold foldM]; [reflexivity|].
  apply bind_ext. intros a. apply IH.
Qed.

Lemma mapReduce_spec : forall f init l, t_fold f init (of_list l) = d_mapReduce init f l.
Proof. intros. apply fold_spec. Qed.

Lemma visit_spec : forall f init l, t_fold f init (of_list l) = d_visit init f l.
Proof. intros. apply fold_spec. Qed.

Lemma reduce_spec : forall f l, t_reduce f (of_list l) = d_reduce f l.
Proof. intros f [|x r]; cbn [of_list t_reduce d_reduce]; [reflexivity|]. apply fold_spec. Qed.

Lemma sum_spec : forall l, t_sum (of_list l) = d_sum l.
Proof. intros. apply reduce_spec. Qed.

Lemma mean_from_spec : forall r sum n,
  t_mean_from sum n (of_list r) =
  bind (foldM (calc op_add) sum r) (fun s => calc op_div s (VInt (n + Z.of_nat (length r)))).
Proof.
  induction r as [|x r IH]; intros sum n; cbn [of_list t_mean_from foldM length bind].
  - replace (n + Z.of_nat 0) with n by lia. reflexivity.
  - rewrite bind_assoc. apply bind_ext. intros s. rewrite IH.
    replace (n + 1 + Z.of_nat (length r)) with (n + Z.of_nat (S (length r))) by lia. reflexivity.
Qed.

Lemma mean_spec : forall l, l <> [] -> t_mean (of_list l) = d_mean l.
Proof.
  intros [|x r] H; [congruence|]. cbn [of_list t_mean]. rewrite mean_from_spec.
  unfold d_mean, d_sum, d_reduce.
  replace (1 + Z.of_nat (length r)) with (Z.of_nat (length (x :: r))) by (cbn [length]; lia).
  reflexivity.
Qed.

Lemma mean_empty : t_mean SEnd = Err None.
Proof. reflexivity. Qed.

Lemma min_from_spec : forall r m,
  t_min_from m (of_list r) =
  foldM (fun m x => bind (vless x m) (fun b => Ok (if b then x else m))) m r.
Proof.
  induction r as [|x r IH]; intros m; cbn [of_list t_min_from foldM]; [reflexivity|].
  rewrite bind_assoc. apply bind_ext. intros b. cbn [bind]. apply IH.
Qed.

Lemma min_spec : forall l, t_min (of_list l) = d_min l.
Proof. intros [|x r]; cbn [of_list t_min]; [reflexivity|]. apply min_from_spec. Qed.

Lemma max_from_spec : forall r m,
  t_max_from m (of_list r) =
  foldM (fun m x => bind (vless m x) (fun b => Ok (if b then x else m))) m r.
Proof.
  induction r as [|x r IH]; intros m; cbn [of_list t_max_from foldM]; [reflexivity|].
  rewrite bind_assoc. apply bind_ext. intros b. cbn [bind]. apply IH.
Qed.

Lemma max_spec : forall l, t_max (of_list l) = d_max l.
Proof. intros [|x r]; cbn [of_list t_max]; [reflexivity|]. apply max_from_spec. Qed.

(* ---------- top, skip, first, last, single, size ---------- *)

Lemma top_firstn : forall l n, 0 <= n -> collect (s_top n (of_list l)) = Ok (d_top n l).
Proof.
  unfold d_top. induction l as [|x r IH]; intros n Hn; cbn [of_list s_top].
  - destruct (n =? 0); cbn [collect]; rewrite firstn_nil; reflexivity.
  - destruct (n =? 0) eqn:E.
    + assert (n = 0) by lia. subst. reflexivity.
    + cbn [collect]. rewrite IH by lia.
      replace (Z.to_nat n) with (S (Z.to_nat (n - 1))) by lia. reflexivity.
Qed.

(* the model follows the code: a negative n is never reached, the whole list is returned *)
Lemma top_negative : forall l n, n < 0 -> collect (s_top n (of_list l)) = Ok l.
Proof.
  induction l as [|x r IH]; intros n Hn; cbn [of_list s_top].
  - destruct (n =? 0); reflexivity.
  - destruct (n =? 0) eqn:E; [lia|]. cbn [collect]. rewrite IH by lia. reflexivity.
Qed.

Lemma skip_skipn : forall l n, 0 <= n -> collect (s_skip n (of_list l)) = Ok (d_skip n l).
Proof.
  unfold d_skip. induction l as [|x r IH]; intros n Hn; cbn [of_list s_skip].
  - rewrite skipn_nil. reflexivity.
  - destruct (0 <? n) eqn:E.
    + rewrite IH by lia. replace (Z.to_nat n) with (S (Z.to_nat (n - 1))) by lia. reflexivity.
    + assert (n = 0) by lia. subst. change (SCons x (of_list r)) with (of_list (x :: r)).
      rewrite collect_of_list. reflexivity.
Qed.

Lemma skip_negative : forall l n, n < 0 -> collect (s_skip n (of_list l)) = Ok l.
Proof.
  intros [|x r] n Hn; cbn [of_list s_skip]; [reflexivity|].
  destruct (0 <? n) eqn:E; [lia|]. change (SCons x (of_list r)) with (of_list (x :: r)).
  apply collect_of_list.
Qed.

Lemma first_spec : forall l, t_first (of_list l) = d_first l.
Proof. intros [|x r]; reflexivity. Qed.

Lemma single_spec : forall l, t_single (of_list l) = d_single l.
Proof. intros [|x [|y r]]; reflexivity. Qed.

Lemma last_cons : forall (r : list value) x d, last (x :: r) d = last r x.
Proof.
  induction r as [|y r IH]; intros x d; [reflexivity|].
  change (last (x :: y :: r) d) with (last (y :: r) d). rewrite IH. symmetry. apply IH.
Qed.

Lemma last_from_spec : forall r x, t_last_from x (of_list r) = Ok (last r x).
Proof.
  induction r as [|y r IH]; intros x; cbn [of_list t_last_from]; [reflexivity|].
  rewrite IH. rewrite last_cons. reflexivity.
Qed.

Lemma rev_last : forall (l : list value) x, exists t, rev (x :: l) = last l x :: t.
Proof.
  induction l as [|y l IH]; intros x.
  - exists []. reflexivity.
  - destruct (IH y) as [t E]. exists (t ++ [x]).
    change (rev (x :: y :: l)) with (rev (y :: l) ++ [x]). rewrite E. rewrite last_cons. reflexivity.
Qed.

Lemma last_spec : forall l, t_last (of_list l) = d_last l.
Proof.
  intros [|x r]; [reflexivity|]. cbn [of_list t_last]. rewrite last_from_spec. unfold d_last.
  destruct (rev_last r x) as [t E]. rewrite E. reflexivity.
Qed.

Lemma size_spec : forall l, t_size (of_list l) = Ok (d_size l).
Proof. intros. unfold t_size. rewrite collect_of_list. reflexivity. Qed.

(* ---------- indexWhere, present ---------- *)

Lemma indexWhere_spec : forall f l i, t_indexWhere f i (of_list l) = d_indexWhere f l i.
Proof.
  intros f. induction l as [|x r IH]; intros i; cbn [of_list t_indexWhere d_indexWhere]; [reflexivity|].
  apply bind_ext. intros b. destruct b; [reflexivity|apply IH].
Qed.

Lemma present_from : forall f l i, 0 <= i ->
  t_present f (of_list l) =
  bind (d_indexWhere f l i) (fun v => match v with VInt z => Ok (VBool (0 <=? z)) | _ => Err None end).
Proof.
  intros f. induction l as [|x r IH]; intros i Hi; cbn [of_list t_present d_indexWhere bind]; [reflexivity|].
  rewrite bind_assoc. apply bind_ext. intros b. destruct b; cbn [bind].
  - replace (0 <=? i) with true by lia. reflexivity.
  - apply IH. lia.
Qed.

Lemma present_spec : forall f l, t_present f (of_list l) = d_present f l.
Proof. intros. unfold d_present. apply present_from. lia. Qed.

(* present = existsb when the predicate is total *)
Lemma present_existsb : forall (p : value -> bool) f l,
  (forall x, f x = Ok (VBool (p x))) -> t_present f (of_list l) = Ok (VBool (existsb p l)).
Proof.
  intros p f l H. induction l as [|x r IH]; cbn [of_list t_present existsb]; [reflexivity|].
  rewrite H. cbn [as_bool bind]. destruct (p x); cbn [orb]; [reflexivity|exact IH].
Qed.

(* ---------- combine, combine3, number, compact ---------- *)

Lemma combine_from_spec : forall f r last,
  collect (s_combine_from f last (of_list r)) =
  mapM (fun p => f (fst p) (snd p)) (combine (last :: r) r).
Proof.
  intros f. induction r as [|x r IH]; intros last; cbn [of_list s_combine_from collect combine mapM]; [reflexivity|].
  rewrite collect_sbind. cbn [fst snd]. apply bind_ext. intros o. cbn [collect]. rewrite IH. reflexivity.
Qed.

Lemma combine_spec : forall f l, collect (s_combine f (of_list l)) = d_combine f l.
Proof.
  intros f [|x r]; [reflexivity|]. cbn [of_list s_combine]. unfold d_combine. cbn [tl]. apply combine_from_spec.
Qed.

Lemma combine3_from_spec : forall f r a b,
  collect (s_combine3_from f a b (of_list r)) =
  mapM (fun p => f (fst (fst p)) (snd (fst p)) (snd p)) (combine (combine (a :: b :: r) (b :: r)) r).
Proof.
  intros f. induction r as [|x r IH]; intros a b; cbn [of_list s_combine3_from collect combine mapM]; [reflexivity|].
  rewrite collect_sbind. cbn [fst snd]. apply bind_ext. intros o. cbn [collect]. rewrite IH. reflexivity.
Qed.

Lemma combine3_spec : forall f l, collect (s_combine3 f (of_list l)) = d_combine3 f l.
Proof.
  intros f [|x [|y r]]; [reflexivity|reflexivity|]. cbn [of_list s_combine3]. unfold d_combine3. cbn [tl].
  apply combine3_from_spec.
Qed.

Lemma number_spec : forall f l i, collect (s_number f i (of_list l)) = d_number f i l.
Proof.
  intros f. induction l as [|x r IH]; intros i; cbn [of_list s_number d_number collect]; [reflexivity|].
  rewrite collect_sbind. apply bind_ext. intros o. cbn [collect]. rewrite IH. reflexivity.
Qed.

Lemma compact_from_spec : forall f r last,
  collect (s_compact_from f last (of_list r)) = d_compact_from f last r.
Proof.
  intros f. induction r as [|x r IH]; intros last; cbn [of_list s_compact_from d_compact_from collect]; [reflexivity|].
  rewrite collect_sbind. apply bind_ext. intros b. destruct b; [apply IH|]. cbn [collect]. rewrite IH. reflexivity.
Qed.

Lemma compact_spec : forall f l, collect (s_compact f (of_list l)) = d_compact f l.
Proof.
  intros f [|x r]; [reflexivity|]. cbn [of_list s_compact d_compact collect]. rewrite compact_from_spec. reflexivity.
Qed.

(* ---------- iir family ---------- *)

Lemma scan_from_spec : forall step r li la,
  collect (s_iir_from step li la (of_list r)) = d_scan_from step li la r.
Proof.
  intros step. induction r as [|x r IH]; intros li la; cbn [of_list s_iir_from d_scan_from collect]; [reflexivity|].
  rewrite collect_sbind. apply bind_ext. intros o. cbn [collect]. rewrite IH. reflexivity.
Qed.

Lemma scan_spec : forall ini step l, collect (s_iirmap ini step (of_list l)) = d_scan ini step l.
Proof.
  intros ini step [|x r]; [reflexivity|]. cbn [of_list s_iirmap d_scan]. rewrite collect_sbind.
  apply bind_ext. intros o. cbn [collect]. rewrite scan_from_spec. reflexivity.
Qed.

Lemma iir_spec : forall ini f l,
  collect (s_iirmap ini (fun item _ last => f item last) (of_list l)) = d_iir ini f l.
Proof. intros. apply scan_spec. Qed.

Lemma iirCombine_spec : forall ini f l,
  collect (s_iirmap ini (fun item lastItem last => f lastItem item last) (of_list l)) = d_iirCombine ini f l.
Proof. intros. apply scan_spec. Qed.

Lemma fsm_spec : forall f l,
  collect (s_iirmap (fun item => f state0 item) (fun item _ last => f last item) (of_list l)) = d_fsm f l.
Proof. intros. apply scan_spec. Qed.

(* ---------- cross: row-major product ---------- *)

Lemma mapM_app : forall A (F : A -> res value) l1 l2,
  mapM F (l1 ++ l2) = bind (mapM F l1) (fun a => bind (mapM F l2) (fun b => Ok (a ++ b))).
Proof.
  intros A F. induction l1 as [|x r IH]; intros l2; cbn [app mapM bind].
  - destruct (mapM F l2); reflexivity.
  - rewrite bind_assoc. apply bind_ext. intros y. rewrite IH.
    destruct (mapM F r); cbn [bind]; try reflexivity. destruct (mapM F l2); reflexivity.
Qed.

Lemma mapM_map : forall A B (g : A -> B) (F : B -> res value) l,
  mapM F (map g l) = mapM (fun x => F (g x)) l.
Proof.
  intros A B g F. induction l as [|x r IH]; cbn [map mapM]; [reflexivity|]. rewrite IH. reflexivity.
Qed.

Lemma cross_row_spec : forall g l2 k,
  collect (cross_row g l2 k) = bind (mapM g l2) (fun a => bind (collect k) (fun b => Ok (a ++ b))).
Proof.
  intros g. induction l2 as [|y r IH]; intros k; cbn [cross_row mapM bind].
  - destruct (collect k); reflexivity.
  - rewrite collect_sbind. rewrite bind_assoc. apply bind_ext. intros o. cbn [collect].
    rewrite IH. destruct (mapM g r); cbn [bind]; try reflexivity. destruct (collect k); reflexivity.
Qed.

Lemma cross_spec : forall f l1 l2, collect (s_cross f (of_list l1) l2) = d_cross f l1 l2.
Proof.
  intros f l1 l2. unfold d_cross. induction l1 as [|x r IH]; cbn [of_list s_cross list_prod]; [reflexivity|].
  rewrite cross_row_spec, mapM_app, mapM_map. cbn [fst snd]. rewrite IH. reflexivity.
Qed.

(* ---------- merge ---------- *)

Lemma merge_spec : forall f l1 l2, collect (s_merge f (of_list l1) l2) = d_merge f l1 l2.
Proof.
  intros f. induction l1 as [|a r1 IH1].
  - intros l2. cbn [of_list]. destruct l2; cbn [s_merge d_merge]; [reflexivity|].
    apply collect_of_list.
  - induction l2 as [|b r2 IH2].
    + cbn [of_list s_merge d_merge]. change (SCons a (of_list r1)) with (of_list (a :: r1)).
      apply collect_of_list.
    + cbn [of_list]. cbn [s_merge d_merge]. rewrite collect_sbind. apply bind_ext. intros lt.
      destruct lt; cbn [collect].
      * rewrite IH1. reflexivity.
      * cbn [of_list s_merge d_merge] in IH2. rewrite IH2. reflexivity.
Qed.

(* ---------- checkers ---------- *)

Section CheckerProofs.
Context {A : Type}.
Variable eqb : A -> A -> bool.
Hypothesis eqb_spec : forall a b, eqb a b = true <-> a = b.

Lemma remove_one_perm : forall x l l', remove_one eqb x l = Some l' -> Permutation l (x :: l').
Proof.
  intros x. induction l as [|y r IH]; intros l' H; cbn [remove_one] in H; [discriminate|].
  destruct (eqb x y) eqn:E.
  - apply eqb_spec in E. subst. injection H as <-. apply Permutation_refl.
  - destruct (remove_one eqb x r) as [r'|] eqn:Er; [|discriminate]. injection H as <-.
    eapply Permutation_trans; [apply perm_skip, IH; reflexivity|]. apply perm_swap.
Qed.

Lemma remove_one_in : forall x l, In x l -> exists l', remove_one eqb x l = Some l'.
Proof.
  intros x. induction l as [|y r IH]; intros H; [destruct H|]. cbn [remove_one].
  destruct (eqb x y) eqn:E; [eexists; reflexivity|].
  destruct H as [H|H]; [subst; assert (eqb x x = true) by (apply eqb_spec; reflexivity); congruence|].
  destruct (IH H) as [l' El]. rewrite El. eexists; reflexivity.
Qed.

Lemma check_perm_sound : forall l1 l2, check_perm eqb l1 l2 = true -> Permutation l1 l2.
Proof.
  induction l1 as [|x r IH]; intros l2 H; cbn [check_perm] in H.
  - destruct l2; [apply perm_nil|discriminate].
  - destruct (remove_one eqb x l2) as [l2'|] eqn:E; [|discriminate].
    apply Permutation_sym. eapply Permutation_trans; [apply remove_one_perm; exact E|].
    apply perm_skip, Permutation_sym, IH, H.
Qed.

Lemma check_perm_complete : forall l1 l2, Permutation l1 l2 -> check_perm eqb l1 l2 = true.
Proof.
  induction l1 as [|x r IH]; intros l2 H; cbn [check_perm].
  - apply Permutation_nil in H. subst. reflexivity.
  - assert (Hin : In x l2) by (eapply Permutation_in; [exact H|left; reflexivity]).
    destruct (remove_one_in x l2 Hin) as [l2' E]. rewrite E. apply IH.
    apply remove_one_perm in E. eapply Permutation_cons_inv.
    eapply Permutation_trans; [exact H|exact E].
Qed.

Variable leb : A -> A -> bool.

Lemma check_sorted_correct : forall l, check_sorted leb l = true <-> Sorted (fun a b => leb a b = true) l.
Proof.
  induction l as [|x r IH]; [split; intros; [constructor|reflexivity]|].
  cbn [check_sorted]. destruct r as [|y r'].
  - split; intros; [repeat constructor|reflexivity].
  - rewrite Bool.andb_true_iff, IH. split.
    + intros [H1 H2]. constructor; [exact H2|constructor; exact H1].
    + intros H. inversion H as [|? ? Hs Hh]; subst. inversion Hh; subst. split; assumption.
Qed.

(* order / orderRev / orderLess: the checker accepts exactly the sorted permutations of the input *)
Theorem check_order_correct : forall inp out,
  check_order eqb leb inp out = true <->
  Permutation inp out /\ Sorted (fun a b => leb a b = true) out.
Proof.
  intros inp out. unfold check_order. rewrite Bool.andb_true_iff, check_sorted_correct. split.
  - intros [H1 H2]. split; [apply check_perm_sound; exact H1|exact H2].
  - intros [H1 H2]. split; [apply check_perm_complete; exact H1|exact H2].
Qed.

End CheckerProofs.

(* ---------- insertion sort of the implementation ---------- *)

Lemma ins_rev_perm : forall cmp x rp e l e', ins_rev cmp x rp e = (l, e') -> Permutation (x :: rp) l.
Proof.
  intros cmp x. induction rp as [|y rp IH]; intros e l e' H; cbn [ins_rev] in H.
  - injection H as <- _. apply Permutation_refl.
  - destruct (cmp x y) as [[|]| | | |]; try (injection H as <- _; apply Permutation_refl).
    destruct (ins_rev cmp x rp e) as [l0 e0] eqn:E. injection H as <- _.
    eapply Permutation_trans; [apply perm_swap|]. apply perm_skip. eapply IH. exact E.
Qed.

Lemma first_fail_some : forall e f, first_fail e f <> None.
Proof. intros [x|] f; cbn; congruence. Qed.

Lemma ins_rev_err : forall cmp x rp e l e', ins_rev cmp x rp e = (l, e') -> e' = None -> e = None.
Proof.
  intros cmp x. induction rp as [|y rp IH]; intros e l e' H He; cbn [ins_rev] in H.
  - injection H as _ <-. exact He.
  - destruct (cmp x y) as [[|]| | | |];
      try (injection H as _ <-; try exact He; exfalso; eapply first_fail_some; exact He).
    destruct (ins_rev cmp x rp e) as [l0 e0] eqn:E. injection H as _ <-. eapply IH; eauto.
Qed.

(* the reversed prefix is kept sorted: every item is not less than its left neighbour *)
Definition rsorted (cmp : cmp_t) (rp : list value) : Prop := Sorted (fun a b => cmp a b = Ok false) rp.

Lemma ins_rev_sorted : forall cmp,
  (forall a b, cmp a b = Ok true -> cmp b a = Ok false) ->
  forall x rp e l, rsorted cmp rp -> ins_rev cmp x rp e = (l, None) ->
  rsorted cmp l /\ (l = x :: rp \/ exists y rp' l', rp = y :: rp' /\ l = y :: l').
Proof.
  intros cmp Hasym x. induction rp as [|y rp IH]; intros e l Hs H; cbn [ins_rev] in H.
  - injection H as <- _. split; [repeat constructor|left; reflexivity].
  - destruct (cmp x y) as [[|]| | | |] eqn:Ec;
      try (injection H as _ H; exfalso; eapply first_fail_some; exact H).
    + destruct (ins_rev cmp x rp e) as [l0 e0] eqn:E. injection H as <- ->.
      inversion Hs as [|? ? Hs' Hh]; subst.
      destruct (IH e l0 Hs' E) as [Hl0 Hshape]. split.
      * constructor; [exact Hl0|]. destruct Hshape as [->|[y' [rp' [l' [-> ->]]]]].
        -- constructor. apply Hasym. exact Ec.
        -- constructor. inversion Hh; subst. assumption.
      * right. exists y, rp, l0. split; reflexivity.
    + injection H as <- _. split; [|left; reflexivity].
      constructor; [exact Hs|constructor; exact Ec].
Qed.

Lemma isort_rev_inv : forall cmp,
  (forall a b, cmp a b = Ok true -> cmp b a = Ok false) ->
  forall l rp e rp', rsorted cmp rp -> isort_rev cmp rp e l = (rp', None) ->
  rsorted cmp rp' /\ Permutation (rev l ++ rp) rp'.
Proof.
  intros cmp Hasym. induction l as [|x r IH]; intros rp e rp' Hs H; cbn [isort_rev] in H.
  - injection H as <- _. split; [exact Hs|apply Permutation_refl].
  - destruct (ins_rev cmp x rp e) as [rp1 e1] eqn:E.
    assert (He1 : e1 = None).
    { clear IH. revert rp1 e1 E H. generalize (x :: rp). intros _. revert rp' .
      intros rp' rp1 e1 _ H. revert rp1 e1 H.
      induction r as [|z r IHr]; intros rp1 e1 H; cbn [isort_rev] in H.
      - injection H as _ H. exact H.
      - destruct (ins_rev cmp z rp1 e1) as [rp2 e2] eqn:E2. apply IHr in H. subst e2.
        eapply ins_rev_err; eauto. }
    subst e1. destruct (ins_rev_sorted cmp Hasym x rp e rp1 Hs E) as [Hs1 _].
    destruct (IH rp1 None rp' Hs1 H) as [Hs' Hp]. split; [exact Hs'|].
    eapply Permutation_trans; [|exact Hp]. cbn [rev]. rewrite <- app_assoc. cbn [app].
    apply Permutation_app_head. eapply ins_rev_perm. exact E.
Qed.

Fixpoint lastopt (l : list value) : option value :=
  match l with [] => None | a :: r => match r with [] => Some a | _ => lastopt r end end.

Lemma lastopt_snoc : forall l a, lastopt (l ++ [a]) = Some a.
Proof.
  induction l as [|b l IH]; intros a; [reflexivity|]. cbn [app lastopt].
  destruct (l ++ [a]) eqn:E; [destruct l; discriminate|]. rewrite <- E. apply IH.
Qed.

Lemma Sorted_snoc : forall (R : value -> value -> Prop) l x,
  Sorted R l -> (forall y, lastopt l = Some y -> R y x) -> Sorted R (l ++ [x]).
Proof.
  intros R. induction l as [|a l IH]; intros x Hs Hl; cbn [app]; [repeat constructor|].
  inversion Hs as [|? ? Hs' Hh]; subst. constructor.
  - apply IH; [exact Hs'|]. intros y Hy. apply Hl. cbn [lastopt]. destruct l; [discriminate|exact Hy].
  - destruct l as [|b l]; cbn [app]; constructor.
    + apply Hl. reflexivity.
    + inversion Hh; assumption.
Qed.

Lemma sorted_rev : forall (R : value -> value -> Prop) l,
  Sorted R l -> Sorted (fun a b => R b a) (rev l).
Proof.
  intros R. induction l as [|x r IH]; intros H; [constructor|].
  inversion H as [|? ? Hs Hh]; subst. cbn [rev]. apply Sorted_snoc; [apply IH; exact Hs|].
  intros y Hy. destruct r as [|b r']; [discriminate|]. cbn [rev] in Hy. rewrite lastopt_snoc in Hy.
  injection Hy as <-. inversion Hh; assumption.
Qed.

(* order / orderRev / orderLess: whenever the implementation's sort answers a list, that list is a
   permutation of the input and no item is less than its left neighbour - for every less/key function
   that never says a<b and b<a at once *)
Theorem m_sort_sorted_perm : forall cmp,
  (forall a b, cmp a b = Ok true -> cmp b a = Ok false) ->
  forall l out, m_sort cmp l = Ok out ->
  Permutation l out /\ Sorted (fun a b => cmp b a = Ok false) out.
Proof.
  intros cmp Hasym l out H. unfold m_sort in H.
  destruct (Nat.ltb 12 (length l)); [discriminate|].
  destruct (isort_rev cmp [] None l) as [rp e] eqn:E. destruct e as [f|]; [destruct f; discriminate|].
  injection H as <-.
  destruct (isort_rev_inv cmp Hasym l [] None rp (Sorted_nil _) E) as [Hs Hp]. split.
  - rewrite app_nil_r in Hp. eapply Permutation_trans; [apply Permutation_rev|].
    eapply Permutation_trans; [exact Hp|apply Permutation_rev].
  - apply (sorted_rev (fun a b => cmp a b = Ok false)). exact Hs.
Qed.

(* ---------- combineN: every group of n consecutive items, in list order ---------- *)

Definition core_win (n : nat) (win : list value) : list value :=
  if Nat.eqb (length win) n then tl win else win.

Lemma windows_short : forall n (w : list value), (length w < n)%nat -> windows n w = [].
Proof.
  intros n [|a w] H; [reflexivity|]. cbn [windows].
  destruct (Nat.leb n (length (a :: w))) eqn:E; [|reflexivity]. apply Nat.leb_le in E. lia.
Qed.

Lemma combineN_from_spec : forall n f, (1 <= n)%nat ->
  forall l win, (length win <= n)%nat ->
  collect (s_combineN_from n f win (of_list l)) =
  mapM (fun w => f (VList w)) (windows n (core_win n win ++ l)).
Proof.
  intros n f Hn. induction l as [|x r IH]; intros win Hw.
  - cbn [of_list s_combineN_from collect]. rewrite app_nil_r. rewrite windows_short; [reflexivity|].
    unfold core_win. destruct (Nat.eqb (length win) n) eqn:E.
    + apply Nat.eqb_eq in E. destruct win; cbn [tl length] in *; lia.
    + apply Nat.eqb_neq in E. lia.
  - cbn [of_list s_combineN_from].
    set (w := core_win n win).
    assert (Hwl : (length w <= n - 1)%nat).
    { unfold w, core_win. destruct (Nat.eqb (length win) n) eqn:E.
      - apply Nat.eqb_eq in E. destruct win; cbn [tl length] in *; lia.
      - apply Nat.eqb_neq in E. lia. }
    assert (Hwin' : (if Nat.ltb (length win) n then win ++ [x] else tl win ++ [x]) = w ++ [x]).
    { unfold w, core_win. destruct (Nat.ltb (length win) n) eqn:E1; destruct (Nat.eqb (length win) n) eqn:E2;
        try reflexivity.
      - apply Nat.ltb_lt in E1. apply Nat.eqb_eq in E2. lia.
      - apply Nat.ltb_ge in E1. apply Nat.eqb_neq in E2. lia. }
    rewrite Hwin'. clear Hwin'.
    assert (Hlen : length (w ++ [x]) = S (length w)) by (rewrite app_length; cbn [length]; lia).
    destruct (Nat.eqb (length (w ++ [x])) n) eqn:E.
    + apply Nat.eqb_eq in E. rewrite collect_sbind.
      assert (HL : windows n (w ++ x :: r) = (w ++ [x]) :: windows n (tl (w ++ [x]) ++ r)).
      { replace (w ++ x :: r) with ((w ++ [x]) ++ r) by (rewrite <- app_assoc; reflexivity).
        destruct (w ++ [x]) as [|a t] eqn:Ewx; [cbn [length] in E; lia|].
        cbn [app windows tl]. rewrite <- Ewx in *.
        assert (Hle : Nat.leb n (length (a :: t ++ r)) = true).
        { apply Nat.leb_le. cbn [length]. rewrite app_length.
          assert (length (a :: t) = n) by (rewrite <- Ewx; exact E). cbn [length] in *. lia. }
        rewrite Hle. f_equal.
        change (a :: t ++ r) with ((a :: t) ++ r). rewrite <- Ewx.
        rewrite firstn_app. rewrite E, Nat.sub_diag. cbn [firstn]. rewrite app_nil_r.
        rewrite <- E. apply firstn_all. }
      rewrite HL. cbn [mapM]. apply bind_ext. intros o. cbn [collect].
      rewrite IH by lia. unfold core_win. rewrite E, Nat.eqb_refl. reflexivity.
    + apply Nat.eqb_neq in E. rewrite IH by lia. unfold core_win.
      replace (Nat.eqb (length (w ++ [x])) n) with false by (symmetry; apply Nat.eqb_neq; exact E).
      rewrite <- app_assoc. reflexivity.
Qed.

Lemma combineN_spec : forall n f l, (1 <= n)%nat ->
  collect (s_combineN n f (of_list l)) = d_combineN n f l.
Proof.
  intros n f l Hn. unfold s_combineN, d_combineN. rewrite combineN_from_spec by (cbn [length]; lia).
  unfold core_win. cbn [length]. destruct (Nat.eqb 0 n) eqn:E; [apply Nat.eqb_eq in E; lia|]. reflexivity.
Qed.

(* ---------- groupBy checker ---------- *)

Section GroupProofs.
Context {A K : Type}.
Variable eqA : A -> A -> bool.
Variable eqK : K -> K -> bool.
Variable keyb : A -> K -> bool.
Hypothesis eqA_spec : forall a b, eqA a b = true <-> a = b.

Lemma list_eqb_eq : forall l1 l2, list_eqb eqA l1 l2 = true -> l1 = l2.
Proof.
  induction l1 as [|x r IH]; intros [|y r2] H; cbn [list_eqb] in H; try discriminate; [reflexivity|].
  apply Bool.andb_true_iff in H. destruct H as [H1 H2]. apply eqA_spec in H1. subst. f_equal. apply IH, H2.
Qed.

(* what an accepted grouping is: every group is non-empty and consists of exactly the items with the
   group's key, in input order; no key occurs twice; the groups have as many items as the input *)
Theorem check_groups_sound : forall inp gs, check_groups eqA eqK keyb inp gs = true ->
  (forall g, In g gs -> snd g <> [] /\ snd g = filter (fun x => keyb x (fst g)) inp) /\
  nodup_b eqK (map fst gs) = true /\
  length (concat (map snd gs)) = length inp.
Proof.
  intros inp gs H. unfold check_groups in H.
  apply Bool.andb_true_iff in H. destruct H as [H H3].
  apply Bool.andb_true_iff in H. destruct H as [H1 H2]. split; [|split].
  - intros g Hg. rewrite forallb_forall in H1. specialize (H1 g Hg). unfold group_ok in H1.
    destruct (snd g) as [|a t] eqn:E; [discriminate|]. split; [congruence|].
    symmetry. apply list_eqb_eq. exact H1.
  - exact H2.
  - apply Nat.eqb_eq. exact H3.
Qed.

End GroupProofs.

(* ---------- map.replace: a replacement for a key the map does not have is invisible ---------- *)

Lemma replace_keys : forall m rep, map fst (mm_replace_with m rep) = map fst m.
Proof.
  intros m rep. unfold mm_replace_with. rewrite map_map. apply map_ext. intros [k v]. reflexivity.
Qed.

Lemma replace_get : forall m rep k,
  assoc_v k (mm_replace_with m rep) =
  match assoc_v k m with
  | Some v => Some (match assoc_v k rep with Some x => x | None => v end)
  | None => None
  end.
Proof.
  intros m rep k. unfold mm_replace_with. induction m as [|[k' v] r IH]; cbn [map assoc_v fst snd]; [reflexivity|].
  destruct (str_eqb k k') eqn:E; [|exact IH].
  assert (Hk : assoc_v k rep = assoc_v k' rep).
  { clear -E. assert (Heq : forall a b, str_eqb a b = true -> a = b).
    { induction a as [|x a IHa]; intros [|y b] H; cbn [str_eqb] in H; try discriminate; [reflexivity|].
      apply Bool.andb_true_iff in H. destruct H as [H1 H2]. apply N.eqb_eq in H1. subst. f_equal. apply IHa, H2. }
    rewrite (Heq _ _ E). reflexivity. }
  rewrite Hk. reflexivity.
Qed.

(* any chain of replaces (reps = the replacement maps, in order): the keys, their order and the size
   are those of the receiver, and a key the receiver does not have stays absent whatever the
   replacement maps contain *)
Theorem replace_absent_invisible : forall reps m,
  let r := fold_left mm_replace_with reps m in
  map fst r = map fst m /\ length r = length m /\
  forall k, assoc_v k m = None -> assoc_v k r = None.
Proof.
  induction reps as [|rep reps IH]; intros m; cbn [fold_left].
  - repeat split; auto.
  - destruct (IH (mm_replace_with m rep)) as [H1 [H2 H3]]. split; [|split].
    + rewrite H1. apply replace_keys.
    + rewrite H2. unfold mm_replace_with. apply map_length.
    + intros k Hk. apply H3. rewrite replace_get, Hk. reflexivity.
Qed.

(* ... and a key the receiver has keeps being present *)
Lemma replace_present : forall reps m k, assoc_v k m <> None -> assoc_v k (fold_left mm_replace_with reps m) <> None.
Proof.
  induction reps as [|rep reps IH]; intros m k H; cbn [fold_left]; [exact H|].
  apply IH. rewrite replace_get. destruct (assoc_v k m); [discriminate|congruence].
Qed.
