(* C07 - map built-ins: the implementation model (entry lists in iteration order) against finite maps
   (ListLib: fm_get / fm_put / fm_merge / fm_replace on the canonical, key-sorted form) *)
From P2 Require Import Base.Prelude Base.PreludeProofs Sem.Num Sem.Syntax Sem.Ops Sem.Lib Lib.Names Lib.Builtins Lib.ListLib.
From Coq Require Import Lia.

Lemma assoc_v_fm_get : forall k m, assoc_v k m = fm_get k m.
Proof. intros k. induction m as [|[k' v] r IH]; cbn [assoc_v fm_get]; [reflexivity|]. rewrite IH. reflexivity. Qed.

Lemma str_eqb_true : forall a b, str_eqb a b = true -> a = b.
Proof. intros a b H. apply str_eqb_eq. exact H. Qed.

Lemma str_ltb_neq : forall a b, str_ltb a b = true -> str_eqb a b = false.
Proof.
  intros a b H. destruct (str_eqb a b) eqn:E; [|reflexivity]. apply str_eqb_true in E. subst.
  rewrite str_ltb_irrefl in H. discriminate.
Qed.

(* looking up after an insertion *)
Lemma fm_get_insert : forall k k' v m,
  fm_get k (fm_insert k' v m) = if str_eqb k k' then Some v else fm_get k m.
Proof.
  intros k k' v. induction m as [|[k0 v0] r IH]; cbn [fm_insert fm_get]; [reflexivity|].
  destruct (str_ltb k' k0) eqn:L; cbn [fm_get]; [reflexivity|].
  destruct (str_eqb k' k0) eqn:E; cbn [fm_get].
  - apply str_eqb_true in E. subst k0. destruct (str_eqb k k'); reflexivity.
  - rewrite IH. destruct (str_eqb k k0) eqn:E0; [|reflexivity].
    apply str_eqb_true in E0. subst k0. rewrite str_eqb_sym, E. reflexivity.
Qed.

Lemma fm_insert_length : forall k v m, fm_get k m = None -> length (fm_insert k v m) = S (length m).
Proof.
  intros k v. induction m as [|[k0 v0] r IH]; intros H; cbn [fm_insert]; [reflexivity|].
  cbn [fm_get] in H. destruct (str_ltb k k0); [reflexivity|].
  destruct (str_eqb k k0); [discriminate|]. cbn [length]. rewrite IH by exact H. reflexivity.
Qed.

Definition keys_nodup (m : entries) : Prop := NoDup (map fst m).

Lemma assoc_none_notin : forall k (m : entries), ~ In k (map fst m) -> assoc_v k m = None.
Proof.
  intros k. induction m as [|[k' v] r IH]; intros H; cbn [assoc_v]; [reflexivity|].
  destruct (str_eqb k k') eqn:E.
  - apply str_eqb_true in E. subst. exfalso. apply H. left. reflexivity.
  - apply IH. intros Hin. apply H. right. exact Hin.
Qed.

Lemma fm_fold_get : forall k m acc, keys_nodup m ->
  fm_get k (fold_left (fun a kv => fm_insert (fst kv) (snd kv) a) m acc) =
  match assoc_v k m with Some v => Some v | None => fm_get k acc end.
Proof.
  intros k. induction m as [|[k' v] r IH]; intros acc Hn; cbn [fold_left assoc_v]; [reflexivity|].
  inversion Hn as [|? ? Hnot Hr]; subst. rewrite IH by exact Hr. cbn [fst snd].
  rewrite fm_get_insert. destruct (str_eqb k k') eqn:E.
  - apply str_eqb_true in E. subst. rewrite (assoc_none_notin k' r Hnot). reflexivity.
  - reflexivity.
Qed.

(* the canonical form has the same lookups *)
Lemma fm_canon_get : forall k m, keys_nodup m -> fm_get k (fm_canon m) = assoc_v k m.
Proof.
  intros k m H. unfold fm_canon. rewrite fm_fold_get by exact H. destruct (assoc_v k m); reflexivity.
Qed.

Lemma fm_fold_length : forall m acc, keys_nodup m -> (forall k, In k (map fst m) -> fm_get k acc = None) ->
  length (fold_left (fun a kv => fm_insert (fst kv) (snd kv) a) m acc) = (length acc + length m)%nat.
Proof.
  induction m as [|[k v] r IH]; intros acc Hn Hd; cbn [fold_left length]; [lia|].
  inversion Hn as [|? ? Hnot Hr]; subst. rewrite IH; cbn [fst snd].
  - rewrite fm_insert_length by (apply Hd; left; reflexivity). lia.
  - exact Hr.
  - intros k0 Hk0. rewrite fm_get_insert. destruct (str_eqb k0 k) eqn:E.
    + apply str_eqb_true in E. subst. contradiction.
    + apply Hd. right. exact Hk0.
Qed.

(* ----- get, size, isAvail ----- *)
Theorem map_get_spec : forall m k, keys_nodup m ->
  mm_get m k = match fm_get k (fm_canon m) with Some v => Ok v | None => Err None end.
Proof. intros m k H. unfold mm_get. rewrite fm_canon_get by exact H. reflexivity. Qed.

Theorem map_size_spec : forall m, keys_nodup m -> length m = length (fm_canon m).
Proof. intros m H. unfold fm_canon. rewrite fm_fold_length; [reflexivity|exact H|reflexivity]. Qed.

Theorem map_isAvail_spec : forall m ks, keys_nodup m ->
  mm_isAvail m (map VStr ks) =
  Ok (VBool (forallb (fun k => match fm_get k (fm_canon m) with Some _ => true | None => false end) ks)).
Proof.
  intros m ks H. induction ks as [|k r IH]; cbn [map mm_isAvail forallb]; [reflexivity|].
  rewrite fm_canon_get by exact H. destruct (assoc_v k m); [exact IH|reflexivity].
Qed.

Lemma in_assoc_some : forall k v (m : entries), In (k, v) m -> assoc_v k m <> None.
Proof.
  intros k v. induction m as [|[k1 v1] r IH]; intros Hin; [destruct Hin|]. cbn [assoc_v].
  destruct (str_eqb k k1) eqn:E; [discriminate|]. destruct Hin as [Heq|Hin]; [|apply IH; exact Hin].
  injection Heq as <- <-. rewrite str_eqb_refl in E. discriminate.
Qed.

Lemma in_keys_assoc : forall k (m : entries), In k (map fst m) -> assoc_v k m <> None.
Proof.
  intros k m H. apply in_map_iff in H. destruct H as [[k0 v0] [Hk Hin]]. cbn [fst] in Hk. subst k0.
  eapply in_assoc_some. exact Hin.
Qed.

(* ----- put ----- *)
Theorem map_put_spec : forall m k v, keys_nodup m ->
  match mm_put m k v, fm_put (fm_canon m) k v with
  | Ok m1, Ok c1 => keys_nodup m1 /\ forall k', assoc_v k' m1 = fm_get k' c1
  | Err _, Err _ => True
  | _, _ => False
  end.
Proof.
  intros m k v H. unfold mm_put, fm_put. rewrite fm_canon_get by exact H.
  destruct (assoc_v k m) eqn:E; [exact I|]. split.
  - unfold keys_nodup. cbn [map fst]. constructor; [|exact H].
    intros Hin. apply in_keys_assoc in Hin. congruence.
  - intros k'. cbn [assoc_v]. rewrite fm_get_insert, fm_canon_get by exact H. reflexivity.
Qed.

(* ----- merge (the + of two maps): the second map is folded into the canonical first one ----- *)
Lemma assoc_v_app : forall k (a b : entries),
  assoc_v k (a ++ b) = match assoc_v k a with Some v => Some v | None => assoc_v k b end.
Proof.
  intros k. induction a as [|[k' v] r IH]; intros b; cbn [app assoc_v]; [reflexivity|].
  destruct (str_eqb k k'); [reflexivity|apply IH].
Qed.

Lemma has_dup_existsb : forall a b,
  has_dup a b = existsb (fun kv => match assoc_v (fst kv) a with Some _ => true | None => false end) b.
Proof.
  intros a. induction b as [|[k v] r IH]; cbn [has_dup existsb fst]; [reflexivity|].
  destruct (assoc_v k a); [reflexivity|exact IH].
Qed.

Theorem map_merge_spec : forall a b, keys_nodup a -> keys_nodup b ->
  match mm_merge a b, fm_merge (fm_canon a) b with
  | Ok m1, Ok c1 => forall k', assoc_v k' m1 = fm_get k' c1
  | Err _, Err _ => True
  | _, _ => False
  end.
Proof.
  intros a b Ha Hb. unfold mm_merge, fm_merge. rewrite has_dup_existsb.
  assert (Hex' : forall l, existsb (fun kv : str * value => match fm_get (fst kv) (fm_canon a) with Some _ => true | None => false end) l
                = existsb (fun kv => match assoc_v (fst kv) a with Some _ => true | None => false end) l).
  { induction l as [|kv l IH]; cbn [existsb]; [reflexivity|]. rewrite fm_canon_get by exact Ha. rewrite IH. reflexivity. }
  rewrite Hex'.
  destruct (existsb _ b) eqn:E; [exact I|].
  intros k'. rewrite assoc_v_app, fm_fold_get by exact Hb. rewrite fm_canon_get by exact Ha.
  destruct (assoc_v k' a) eqn:Ea; [|destruct (assoc_v k' b); reflexivity].
  (* disjoint: a key of a is not a key of b *)
  destruct (assoc_v k' b) eqn:Eb; [|reflexivity]. exfalso.
  assert (existsb (fun kv => match assoc_v (fst kv) a with Some _ => true | None => false end) b = true); [|congruence].
  apply existsb_exists. clear -Ea Eb. induction b as [|[k1 v1] r IH]; [discriminate|]. cbn [assoc_v] in Eb.
  destruct (str_eqb k' k1) eqn:E0.
  - apply str_eqb_true in E0. subst. exists (k1, v1). split; [left; reflexivity|]. cbn [fst]. rewrite Ea. reflexivity.
  - destruct (IH Eb) as [x [Hx1 Hx2]]. exists x. split; [right; exact Hx1|exact Hx2].
Qed.

(* ----- replace ----- *)
Lemma fm_get_map : forall k (g : str -> value -> value) (c : entries),
  fm_get k (map (fun kv => (fst kv, g (fst kv) (snd kv))) c) =
  match fm_get k c with Some v => Some (g k v) | None => None end.
Proof.
  intros k g. induction c as [|[k1 v1] r IH]; cbn [map fm_get fst snd]; [reflexivity|].
  destruct (str_eqb k k1) eqn:E; [|exact IH]. apply str_eqb_true in E. subst. reflexivity.
Qed.

Theorem map_replace_spec : forall m rep k, keys_nodup m -> keys_nodup rep ->
  assoc_v k (mm_replace_with m rep) = fm_get k (fm_replace (fm_canon m) (fm_canon rep)).
Proof.
  intros m rep k Hm Hr. unfold mm_replace_with, fm_replace.
  rewrite assoc_v_fm_get.
  rewrite (fm_get_map k (fun k0 v0 => match assoc_v k0 rep with Some x => x | None => v0 end) m).
  rewrite (fm_get_map k (fun k0 v0 => match fm_get k0 (fm_canon rep) with Some x => x | None => v0 end) (fm_canon m)).
  rewrite fm_canon_get by exact Hm. rewrite fm_canon_get by exact Hr. rewrite <- assoc_v_fm_get. reflexivity.
Qed.

(* ----- map, accept, combine, list ----- *)
Theorem map_map_spec : forall f m m', mm_map f m = Ok m' ->
  map fst m' = map fst m /\
  Forall2 (fun kv kv' => f (VStr (fst kv)) (snd kv) = Ok (snd kv')) m m'.
Proof.
  intros f. induction m as [|[k v] r IH]; intros m' H; cbn [mm_map] in H.
  - injection H as <-. split; constructor.
  - destruct (f (VStr k) v) as [v'| | | |] eqn:E; cbn [bind] in H; try discriminate.
    destruct (mm_map f r) as [r'| | | |] eqn:Er; cbn [bind] in H; try discriminate. injection H as <-.
    destruct (IH r' eq_refl) as [H1 H2]. split; [cbn [map fst]; rewrite H1; reflexivity|].
    constructor; [exact E|exact H2].
Qed.

Theorem map_accept_spec : forall (p : str -> value -> bool) f m,
  (forall k v, f (VStr k) v = Ok (VBool (p k v))) ->
  mm_accept f m = Ok (filter (fun kv => p (fst kv) (snd kv)) m).
Proof.
  intros p f m H. induction m as [|[k v] r IH]; cbn [mm_accept filter fst snd]; [reflexivity|].
  rewrite H. cbn [as_bool bind]. rewrite IH. cbn [bind]. destruct (p k v); reflexivity.
Qed.

Theorem map_combine_spec : forall f m other r, mm_combine f m other = Ok r ->
  map fst r = map fst m /\
  Forall2 (fun kv kv' => exists o, assoc_v (fst kv) other = Some o /\ f (snd kv) o = Ok (snd kv')) m r.
Proof.
  intros f. induction m as [|[k v] m IH]; intros other r H; cbn [mm_combine] in H.
  - injection H as <-. split; constructor.
  - destruct (assoc_v k other) as [o|] eqn:Eo; [|discriminate].
    destruct (f v o) as [x| | | |] eqn:E; cbn [bind] in H; try discriminate.
    destruct (mm_combine f m other) as [r'| | | |] eqn:Er; cbn [bind] in H; try discriminate. injection H as <-.
    destruct (IH other r' Er) as [H1 H2]. split; [cbn [map fst]; rewrite H1; reflexivity|].
    constructor; [exists o; split; assumption|exact H2].
Qed.

Theorem map_list_spec : forall m,
  mm_list m = map (fun kv => VMap [(nm_key, VStr (fst kv)); (nm_value, snd kv)]) m /\ length (mm_list m) = length m.
Proof. intros m. split; [reflexivity|apply map_length]. Qed.
