(* C13 - model of the map representations of hneemann/parser2 (value/map.go, value/wrapper.go,
   value/binning.go (bin), listMap/listMap.go) and of every operation and observer on them.

   Implementation side: one constructor of [stor] per Go type implementing MapStorage, and
   get / iter / size with ONE CLAUSE PER GO METHOD, nothing shared between representations.
   Specification side (end of the file): finite maps as association lists, with the operations the
   property demands (put = insert-if-absent, + = disjoint union, replace = override on the keys of
   the original, ...).  The theorems relating the two are in MapLibProofs.v / Props/C13.v.

   The value type is abstract (Section variable V); [veq] is the BoolFunc handed to Map.Equals
   (None = the comparison returned an error), [vshow] is Value.ToString.

   Iteration: a Go Iter(yield) is modelled by the list of the pairs it yields when never stopped;
   consumers that stop early are folds that stop.  The iteration order of a Go map (RealMap,
   toMapWrapper.attr) is unspecified; the model keeps such maps as a list in *some* order (SReal l
   iterates l) and builds them in insertion order - [real_order_irrelevant] shows that the order
   does not matter for the abstract map, and the correspondence run compares modulo permutation
   wherever such an order can have been observed. *)
From P2 Require Import Base.Prelude.

Section MapLib.
Variable V : Type.
Variable veq : V -> V -> option bool.
Variable vshow : V -> str.

Definition entries := list (str * V).

Definition is_some {A} (o : option A) : bool := match o with Some _ => true | None => false end.

(* ---------------------------------------------------------------- listMap/listMap.go *)

(* ListMap.Get: the first entry with that key *)
Definition lm_get (l : entries) (k : str) : option V := assoc k l.

(* ListMap.Append: overwrite the first entry with that key in place, else append at the end *)
Fixpoint lm_append (l : entries) (k : str) (v : V) : entries :=
  match l with
  | [] => [(k, v)]
  | (k', v') :: r => if str_eqb k k' then (k', v) :: r else (k', v') :: lm_append r k v
  end.

(* "for each yielded pair: target = target.Append(key, value)" resp. "rm[key] = value" *)
Definition collect (es : entries) : entries :=
  fold_left (fun acc kv => lm_append acc (fst kv) (snd kv)) es [].

(* ---------------------------------------------------------------- the storages *)

Inductive stor :=
| SList (l : entries)                                   (* listMap.ListMap[Value] *)
| SAppend (k : str) (v : V) (p : stor)                  (* AppendMap{key,value,parent} *)
| SMerge (a b : stor)                                   (* MergeMap{a,b} *)
| SReplace (orig rep : stor) (depth : N)                (* ReplaceMap{orig,rep,depth} *)
| SReal (l : entries)                                   (* RealMap (a Go map; l = its entries in iteration order) *)
| SFunc (keys : list str) (f : str -> option V)         (* funcMapType: declared keys, fMap(value, .) *)
| SWrap (attrs : entries)                               (* toMapWrapper: attr (a Go map) applied to the container *)
| SBin (ismin : bool) (vmin : V) (ismax : bool) (vmax : V) (vstr : V)   (* binning.go bin *)
| SEmpty.                                               (* emptyMapStorage *)

Definition key_str : str := [115; 116; 114]%N.   (* "str" *)
Definition key_min : str := [109; 105; 110]%N.   (* "min" *)
Definition key_max : str := [109; 97; 120]%N.    (* "max" *)

(* Get, one clause per Go method *)
Fixpoint get (s : stor) (k : str) : option V :=
  match s with
  | SList l => lm_get l k
  | SAppend k' v p => if str_eqb k k' then Some v else get p k
  | SMerge a b => match get a k with Some e => Some e | None => get b k end
  | SReplace orig rep _ =>
      (* after "fix: ReplaceMap.Get only answers for keys of the original map" *)
      match get orig k with
      | None => None
      | Some o => match get rep k with Some e => Some e | None => Some o end
      end
  | SReal l => assoc k l
  | SFunc _ f => f k
  | SWrap attrs => assoc k attrs
  | SBin ismin vmin ismax vmax vstr =>
      if str_eqb k key_str then Some vstr
      else if str_eqb k key_min then (if ismin then Some vmin else None)
      else if str_eqb k key_max then (if ismax then Some vmax else None)
      else None
  | SEmpty => None
  end.

(* Iter *)
Fixpoint iter (s : stor) : entries :=
  match s with
  | SList l => l
  | SAppend k v p => (k, v) :: iter p
  | SMerge a b => iter a ++ iter b
  | SReplace orig rep _ =>
      map (fun kv => match get rep (fst kv) with Some r => (fst kv, r) | None => kv end) (iter orig)
  | SReal l => l
  | SFunc keys f => flat_map (fun k => match f k with Some v => [(k, v)] | None => [] end) keys
  | SWrap attrs => attrs
  | SBin ismin vmin ismax vmax vstr =>
      (key_str, vstr) :: (if ismin then [(key_min, vmin)] else []) ++ (if ismax then [(key_max, vmax)] else [])
  | SEmpty => []
  end.

(* Size *)
Fixpoint size (s : stor) : nat :=
  match s with
  | SList l => length l
  | SAppend _ _ p => size p + 1
  | SMerge a b => size a + size b
  | SReplace orig _ _ => size orig
  | SReal l => length l
  | SFunc keys f => length (filter (fun k => is_some (f k)) keys)   (* after "fix: funcMapType.Size ..." *)
  | SWrap attrs => length attrs
  | SBin ismin _ ismax _ _ => 1 + (if ismin then 1 else 0) + (if ismax then 1 else 0)  (* after "fix: bin.Size ..." *)
  | SEmpty => 0
  end.

(* ---------------------------------------------------------------- operations, as the code builds them *)

(* parser2.go parseMap (a key used twice is a parse error) followed by the generator's
   MapLiteral code (Append in order into a fresh ListMap) *)
Fixpoint literal_from (acc : entries) (l : entries) : option entries :=
  match l with
  | [] => Some acc
  | (k, v) :: r => if is_some (lm_get acc k) then None else literal_from (lm_append acc k v) r
  end.
Definition literal (l : entries) : option stor := option_map SList (literal_from [] l).

(* Map.PutM *)
Definition put (s : stor) (k : str) (v : V) : option stor :=
  if is_some (get s k) then None else Some (SAppend k v s).

(* Map.Merge: other.Iter until the first key that v has; then the found flag decides *)
Definition merge (a b : stor) : option stor :=
  if existsb (fun kv => is_some (get a (fst kv))) (iter b) then None else Some (SMerge a b).

(* ReplaceMap.createFlat *)
Definition create_flat (rm : stor) : stor :=
  if Nat.ltb 20 (size rm) then SReal (collect (iter rm)) else SList (collect (iter rm)).

Definition depth_of (s : stor) : N := match s with SReplace _ _ d => d | _ => 0%N end.

(* Map.Replace, given the map the closure returned *)
Definition replace (s rep : stor) : stor :=
  let depth := N.max (depth_of s) (depth_of rep) in
  let rm := SReplace s rep (depth + 1) in
  if N.leb 10 depth then create_flat rm else rm.

(* Map.Eval *)
Definition eval (s : stor) : stor := SReal (collect (iter s)).

(* Map.Map: f(key, value); None = the closure returned an error *)
Fixpoint map_loop (f : str -> V -> option V) (es acc : entries) : option entries :=
  match es with
  | [] => Some acc
  | (k, v) :: r => match f k v with None => None | Some w => map_loop f r (lm_append acc k w) end
  end.
Definition map_m (s : stor) (f : str -> V -> option V) : option stor := option_map SList (map_loop f (iter s) []).

(* Map.Accept: p(key, value); None = error or not a bool *)
Fixpoint accept_loop (p : str -> V -> option bool) (es acc : entries) : option entries :=
  match es with
  | [] => Some acc
  | (k, v) :: r => match p k v with
                   | None => None
                   | Some true => accept_loop p r (lm_append acc k v)
                   | Some false => accept_loop p r acc
                   end
  end.
Definition accept (s : stor) (p : str -> V -> option bool) : option stor := option_map SList (accept_loop p (iter s) []).

(* Map.Combine *)
Fixpoint combine_loop (f : V -> V -> option V) (other : stor) (es acc : entries) : option entries :=
  match es with
  | [] => Some acc
  | (k, v) :: r => match get other k with
                   | None => None
                   | Some o => match f v o with None => None | Some w => combine_loop f other r (lm_append acc k w) end
                   end
  end.
Definition combine (a b : stor) (f : V -> V -> option V) : option stor :=
  option_map SList (combine_loop f b (iter a) []).

(* ---------------------------------------------------------------- observers *)

Definition obs_access (s : stor) (k : str) : option V := get s k.      (* FunctionGenerator.AccessMap, None = error *)
Definition obs_getm (s : stor) (k : str) : option V := get s k.        (* Map.GetM *)
Definition obs_isavail (s : stor) (ks : list str) : bool := forallb (fun k => is_some (get s k)) ks.   (* Map.IsAvail *)
Definition obs_contains (s : stor) (k : str) : bool := is_some (get s k).   (* Map.ContainsKey, operator ~ *)
Definition obs_size (s : stor) : nat := size s.
Definition obs_list (s : stor) : entries := iter s.                    (* Map.List: {key:k, value:v} per pair *)

(* Map.ToString *)
Fixpoint render_entries (first : bool) (es : entries) : str :=
  match es with
  | [] => []
  | (k, v) :: r => (if first then [] else [44; 32]%N) ++ k ++ [58%N] ++ vshow v ++ render_entries false r
  end.
Definition render (es : entries) : str := [123%N] ++ render_entries true es ++ [125%N].
Definition obs_string (s : stor) : str := render (iter s).

(* Map.Equals (after "fix: '=' on maps does not depend on the order of the entries nor on which map
   is the receiver"): after the size check ALL entries are visited; the first element comparison
   that fails ends the iteration and its error is the result (an error wins over a difference found
   earlier); otherwise false if some entry differs or a key is missing, else true. [eq] is the Go
   variable eq. *)
Fixpoint equals_loop (es : entries) (other : stor) (eq : bool) : option bool :=
  match es with
  | [] => Some eq
  | (k, v) :: r => match get other k with
                   | Some o => match veq o v with
                               | None => None
                               | Some b => equals_loop r other (eq && b)
                               end
                   | None => equals_loop r other false
                   end
  end.
Definition equals (a b : stor) : option bool :=
  if Nat.eqb (size a) (size b) then equals_loop (iter a) b true else Some false.

(* export.Export: collect the keys by Iter, sort.Strings, then Get each (absent keys are skipped) *)
Fixpoint insert_sorted (k : str) (l : list str) : list str :=
  match l with
  | [] => [k]
  | x :: r => if str_leb k x then k :: l else x :: insert_sorted k r
  end.
Definition sort_keys (l : list str) : list str := fold_right insert_sorted [] l.
Definition obs_export (s : stor) : entries :=
  flat_map (fun k => match get s k with Some v => [(k, v)] | None => [] end) (sort_keys (map fst (iter s))).

(* ---------------------------------------------------------------- histories *)

(* a history builds values one after the other; operands are the indices of earlier results *)
Inductive op :=
| OLit (l : entries)
| OHost (s : stor)                 (* a storage handed in by the host: RealMap, wrappers, bin, EmptyMap ... *)
| OPut (h : nat) (k : str) (v : V)
| OMerge (h1 h2 : nat)
| OReplace (h hr : nat)            (* h.replace(m -> <result hr>) *)
| OEval (h : nat)
| OMap (h : nat) (f : str -> V -> option V)
| OAccept (h : nat) (p : str -> V -> option bool)
| OCombine (h1 h2 : nat) (f : V -> V -> option V).

Definition env := list (option stor).
Definition handle (e : env) (h : nat) : option stor := match nth_error e h with Some (Some s) => Some s | _ => None end.

Definition step (e : env) (o : op) : option stor :=
  match o with
  | OLit l => literal l
  | OHost s => Some s
  | OPut h k v => match handle e h with Some s => put s k v | None => None end
  | OMerge h1 h2 => match handle e h1, handle e h2 with Some a, Some b => merge a b | _, _ => None end
  | OReplace h hr => match handle e h, handle e hr with Some a, Some r => Some (replace a r) | _, _ => None end
  | OEval h => match handle e h with Some s => Some (eval s) | None => None end
  | OMap h f => match handle e h with Some s => map_m s f | None => None end
  | OAccept h p => match handle e h with Some s => accept s p | None => None end
  | OCombine h1 h2 f => match handle e h1, handle e h2 with Some a, Some b => combine a b f | _, _ => None end
  end.

Fixpoint run (e : env) (ops : list op) : env :=
  match ops with
  | [] => e
  | o :: r => run (e ++ [step e o]) r
  end.

(* ================================================================ specification side *)

(* a finite map: association list whose keys are pairwise different *)
Definition fm := entries.
Definition keys (m : entries) : list str := map fst m.
Definition fm_wf (m : fm) : Prop := NoDup (keys m).
Definition fm_get (m : fm) (k : str) : option V := assoc k m.
(* same abstract map: same answer for every key *)
Definition fm_equiv (a b : fm) : Prop := forall k, assoc k a = assoc k b.

Fixpoint has_dup (l : list str) : bool :=
  match l with
  | [] => false
  | k :: r => existsb (str_eqb k) r || has_dup r
  end.

Definition fm_literal (l : entries) : option fm := if has_dup (keys l) then None else Some l.
Definition fm_put (m : fm) (k : str) (v : V) : option fm := if is_some (assoc k m) then None else Some ((k, v) :: m).
Definition fm_merge (a b : fm) : option fm :=
  if existsb (fun kv => is_some (assoc (fst kv) a)) b then None else Some (a ++ b).
Definition fm_replace (a rep : fm) : fm :=
  map (fun kv => match assoc (fst kv) rep with Some r => (fst kv, r) | None => kv end) a.
Fixpoint fm_map (f : str -> V -> option V) (m : fm) : option fm :=
  match m with
  | [] => Some []
  | (k, v) :: r => match f k v with None => None | Some w => option_map (cons (k, w)) (fm_map f r) end
  end.
Fixpoint fm_accept (p : str -> V -> option bool) (m : fm) : option fm :=
  match m with
  | [] => Some []
  | (k, v) :: r => match p k v with
                   | None => None
                   | Some true => option_map (cons (k, v)) (fm_accept p r)
                   | Some false => fm_accept p r
                   end
  end.
Fixpoint fm_combine (f : V -> V -> option V) (b : fm) (a : fm) : option fm :=
  match a with
  | [] => Some []
  | (k, v) :: r => match assoc k b with
                   | None => None
                   | Some o => match f v o with None => None | Some w => option_map (cons (k, w)) (fm_combine f b r) end
                   end
  end.

(* equality of finite maps: same number of keys, every entry of a is in b with an equal value *)
Definition fm_equal (a b : fm) : Prop :=
  length a = length b /\
  forall k v, In (k, v) a -> exists o, assoc k b = Some o /\ veq o v = Some true.

Definition senv := list (option fm).
Definition shandle (e : senv) (h : nat) : option fm := match nth_error e h with Some (Some s) => Some s | _ => None end.

(* what the property demands of every operation *)
Definition sstep (e : senv) (o : op) : option fm :=
  match o with
  | OLit l => fm_literal l
  | OHost s => Some (iter s)
  | OPut h k v => match shandle e h with Some m => fm_put m k v | None => None end
  | OMerge h1 h2 => match shandle e h1, shandle e h2 with Some a, Some b => fm_merge a b | _, _ => None end
  | OReplace h hr => match shandle e h, shandle e hr with Some a, Some r => Some (fm_replace a r) | _, _ => None end
  | OEval h => shandle e h
  | OMap h f => match shandle e h with Some m => fm_map f m | None => None end
  | OAccept h p => match shandle e h with Some m => fm_accept p m | None => None end
  | OCombine h1 h2 f => match shandle e h1, shandle e h2 with Some a, Some b => fm_combine f b a | _, _ => None end
  end.

Fixpoint srun (e : senv) (ops : list op) : senv :=
  match ops with
  | [] => e
  | o :: r => srun (e ++ [sstep e o]) r
  end.

(* the three observers of a storage agree: unique keys, Size counts the pairs Iter yields,
   Get answers exactly for the pairs Iter yields *)
Definition coherent (s : stor) : Prop :=
  NoDup (keys (iter s)) /\ size s = length (iter s) /\ forall k, get s k = assoc k (iter s).

(* host storages that occur in a history are coherent (for SReal/SWrap: Go map keys are unique;
   for SFunc: the contract of NewFuncMapFactory - the declared keys are distinct and are the only
   keys the function answers for) *)
Fixpoint hosts_ok (ops : list op) : Prop :=
  match ops with
  | [] => True
  | OHost s :: r => coherent s /\ hosts_ok r
  | _ :: r => hosts_ok r
  end.

(* implementation value and specification value of one handle *)
Definition rel (a : option stor) (b : option fm) : Prop :=
  match a, b with
  | None, None => True
  | Some s, Some m => coherent s /\ iter s = m
  | _, _ => False
  end.

End MapLib.

Arguments SList {V}. Arguments SAppend {V}. Arguments SMerge {V}. Arguments SReplace {V}.
Arguments SReal {V}. Arguments SFunc {V}. Arguments SWrap {V}. Arguments SBin {V}. Arguments SEmpty {V}.
Arguments OLit {V}. Arguments OHost {V}. Arguments OPut {V}. Arguments OMerge {V}. Arguments OReplace {V}.
Arguments OEval {V}. Arguments OMap {V}. Arguments OAccept {V}. Arguments OCombine {V}.
