(* Lemmas about the pull-stream model of lazy lists (Lib/Stream.v). *)
From P2 Require Import Base.Prelude Lib.Stream.
Require Import Lia.
Local Open Scope Z_scope.

Lemma build_log_nil : forall p, fst (build p) = [].
Proof. intros p. reflexivity. Qed.
