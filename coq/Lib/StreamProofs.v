(* Lemmas about the pull-stream model of lazy lists (Lib/Stream.v). *)
From P2 Require Import Base.Prelude Lib.Stream.
Require Import Lia.
Local Open Scope Z_scope.

(* ------------------------------------------------------------------ building is free *)

Lemma build_log_nil : forall p, fst (build p) = [].
Proof. intros p. reflexivity. Qed.

Lemma run_none : forall fuel p, run fuel TNone p = ([], OList, O).
Proof. intros fuel p. reflexivity. Qed.

(* ------------------------------------------------------------------ counting events *)

Lemma count_app : forall id l l', count id (l ++ l') = (count id l + count id l')%nat.
Proof. intros id l l'. unfold count. rewrite filter_app, app_length. reflexivity. Qed.

Lemma count_nil : forall id, count id [] = O.
Proof. reflexivity. Qed.

Lemma count_one : forall id i a, count id [Ev i a] = b2n (N.eqb i id).
Proof. intros id i a. unfold count. simpl. destruct (N.eqb i id); reflexivity. Qed.

Lemma b2n_le1 : forall b, (b2n b <= 1)%nat.
Proof. destruct b; simpl; lia. Qed.

(* a stage adds at most its own closure call to the log of its parent's step *)
Lemma stage_item_count : forall id s ss l v q,
  (count id (fst (stage_item s ss l v q)) <= count id l + occ_stage id s)%nat.
Proof.
  intros id s ss l v q.
  destruct s as [i f|i p|i g|i g|i0 f0 i g|i e|n|n]; cbn [stage_item occ_stage].
  - destruct (f v); cbn [fst]; rewrite count_app, count_one; lia.
  - destruct (p v) as [[|]|]; cbn [fst]; rewrite count_app, count_one; lia.
  - destruct (lastv ss); [destruct (g z v)|]; cbn [fst]; try rewrite count_app, count_one; lia.
  - destruct (g (cnt ss) v); cbn [fst]; rewrite count_app, count_one; lia.
  - destruct (lastr ss); [destruct (g v z)|destruct (f0 v)]; cbn [fst]; rewrite count_app, count_one; lia.
  - destruct (lastv ss); [destruct (e z v) as [[|]|]|]; cbn [fst]; try rewrite count_app, count_one; lia.
  - destruct (cnt ss <? n); cbn [fst]; lia.
  - cbn [fst]; lia.
Qed.

(* one step of a pipeline runs every closure at most once (per occurrence of its id) *)
Lemma next_count : forall id p q, (count id (fst (next p q)) <= occ_pipe id p)%nat.
Proof.
  intros id p. induction p as [n|l|s p IH|p1 IH1 p2 IH2|ci g p1 IH1 p2 IH2|ci less p1 IH1 p2 IH2|cx p IH]; intros q; cbn [next occ_pipe].
  - destruct q; try (cbn; lia). destruct (i <? n); cbn; lia.
  - destruct q; try (cbn; lia). destruct rest; cbn; lia.
  - destruct q as [| |ss q'| | |]; try (cbn; lia).
    destruct (stage_done s ss); [cbn; lia|].
    specialize (IH q'). destruct (next p q') as [l r]. cbn [fst] in IH.
    destruct r as [|q''|v q''|e]; cbn [fst]; try lia.
    pose proof (stage_item_count id s ss l v q''). lia.
  - destruct q as [| | |r q1 q2| |]; try (cbn; lia).
    destruct r.
    + specialize (IH2 q2). destruct (next p2 q2) as [l r]. cbn [fst] in IH2.
      destruct r; cbn [fst]; lia.
    + specialize (IH1 q1). destruct (next p1 q1) as [l r]. cbn [fst] in IH1.
      destruct r; cbn [fst]; lia.
  - destruct q as [| | | |row q1 q2|]; try (cbn; lia).
    destruct row as [a|].
    + specialize (IH2 q2). destruct (next p2 q2) as [l r]. cbn [fst] in IH2.
      destruct r as [|q2'|b q2'|e]; cbn [fst]; try lia.
      destruct (g a b); cbn [fst]; rewrite count_app, count_one; lia.
    + specialize (IH1 q1). destruct (next p1 q1) as [l r]. cbn [fst] in IH1.
      destruct r; cbn [fst]; lia.
  - destruct q as [| | | | |ea eb a b q1 q2]; try (cbn; lia).
    pose proof (b2n_le1 (N.eqb ci id)) as Hb.
    specialize (IH1 q1). specialize (IH2 q2).
    destruct (next p1 q1) as [l1 r1]. destruct (next p2 q2) as [l2 r2]. cbn [fst] in IH1, IH2.
    destruct a as [x|]; destruct ea; destruct b as [y|]; destruct eb;
      try (destruct r1; cbn [fst]; lia); try (destruct r2; cbn [fst]; lia);
      try (cbn [fst]; cbn; lia);
      try (destruct (less x y) as [[|]|]; cbn [fst]; rewrite count_one; lia).
  - apply IH.
Qed.

Lemma term_item_count : forall id t s v, (count id (fst (term_item t s v)) <= occ_term id t)%nat.
Proof.
  intros id t s v. destruct t as [| | | |i p|i p|x|i g]; cbn [term_item occ_term]; try (cbn; lia).
  - destruct (tacc s); cbn; lia.
  - destruct (p v) as [[|]|]; cbn [fst]; rewrite count_one; lia.
  - destruct (p v) as [[|]|]; cbn [fst]; rewrite count_one; lia.
  - destruct (x =? v); cbn; lia.
  - destruct (tacc s); [destruct (g z v)|]; cbn [fst]; try rewrite count_one; cbn; lia.
Qed.

(* ------------------------------------------------------------------ demand bound *)

(* a consumer that stopped after n steps ran every closure at most n times (per occurrence),
   and n never exceeds the fuel *)
Lemma loop_count : forall id fuel p t q s l o n,
  loop fuel p t q s = (l, o, n) ->
  (count id l <= (occ_pipe id p + occ_term id t) * n)%nat /\ (n <= fuel)%nat.
Proof.
  intros id fuel. induction fuel as [|f IH]; intros p t q s l o n H; cbn [loop] in H.
  - inversion H; subst. cbn. lia.
  - pose proof (next_count id p q) as Hn.
    destruct (next p q) as [l0 r]. cbn [fst] in Hn.
    destruct r as [|q'|v q'|e].
    + inversion H; subst. lia.
    + destruct (loop f p t q' s) as [[l' o'] n'] eqn:E. inversion H; subst.
      apply IH in E. destruct E as [E1 E2]. rewrite count_app. rewrite Nat.mul_succ_r. lia.
    + pose proof (term_item_count id t s v) as Ht.
      destruct (term_item t s v) as [l1 tr]. cbn [fst] in Ht.
      destruct tr as [s'|o'].
      * destruct (loop f p t q' s') as [[l' o''] n'] eqn:E. inversion H; subst.
        apply IH in E. destruct E as [E1 E2]. rewrite !count_app. rewrite Nat.mul_succ_r. lia.
      * inversion H; subst. rewrite count_app. lia.
    + inversion H; subst. lia.
Qed.

Lemma run_count : forall id fuel t p l o n,
  run fuel t p = (l, o, n) ->
  (count id l <= (occ_pipe id p + occ_term id t) * n)%nat /\ (n <= fuel)%nat.
Proof.
  intros id fuel t p l o n H.
  destruct t; try (apply (loop_count id) in H; exact H).
  cbn in H. inversion H; subst. cbn. lia.
Qed.

(* ------------------------------------------------------------------ fuel *)

(* more fuel does not change a finished run *)
Lemma loop_fuel_mono : forall f p t q s l o n,
  loop f p t q s = (l, o, n) -> o <> OutOfFuel ->
  forall f', (f <= f')%nat -> loop f' p t q s = (l, o, n).
Proof.
  induction f as [|f IH]; intros p t q s l o n H Ho f' Hle; cbn [loop] in H.
  - inversion H; subst. congruence.
  - destruct f' as [|f']; [lia|]. cbn [loop].
    destruct (next p q) as [l0 r].
    destruct r as [|q'|v q'|e]; try exact H.
    + destruct (loop f p t q' s) as [[l' o'] n'] eqn:E. inversion H; subst.
      rewrite (IH _ _ _ _ _ _ _ E Ho f') by lia. reflexivity.
    + destruct (term_item t s v) as [l1 tr]. destruct tr as [s'|o']; [|exact H].
      destruct (loop f p t q' s') as [[l' o''] n'] eqn:E. inversion H; subst.
      rewrite (IH _ _ _ _ _ _ _ E Ho f') by lia. reflexivity.
Qed.

(* the number of steps of a finished run is all the fuel it needs *)
Lemma loop_fuel_exact : forall f p t q s l o n,
  loop f p t q s = (l, o, n) -> o <> OutOfFuel -> loop n p t q s = (l, o, n).
Proof.
  induction f as [|f IH]; intros p t q s l o n H Ho; cbn [loop] in H.
  - inversion H; subst. congruence.
  - destruct (next p q) as [l0 r] eqn:En.
    destruct r as [|q'|v q'|e].
    + inversion H; subst. cbn [loop]. rewrite En. reflexivity.
    + destruct (loop f p t q' s) as [[l' o'] n'] eqn:E. inversion H; subst.
      cbn [loop]. rewrite En. rewrite (IH _ _ _ _ _ _ _ E Ho). reflexivity.
    + destruct (term_item t s v) as [l1 tr] eqn:Et. destruct tr as [s'|o'].
      * destruct (loop f p t q' s') as [[l' o''] n'] eqn:E. inversion H; subst.
        cbn [loop]. rewrite En, Et. rewrite (IH _ _ _ _ _ _ _ E Ho). reflexivity.
      * inversion H; subst. cbn [loop]. rewrite En, Et. reflexivity.
    + inversion H; subst. cbn [loop]. rewrite En. reflexivity.
Qed.

Lemma run_fuel_mono : forall f t p l o n,
  run f t p = (l, o, n) -> o <> OutOfFuel ->
  forall f', (n <= f')%nat -> run f' t p = (l, o, n).
Proof.
  intros f t p l o n H Ho f' Hle.
  destruct t; try (apply loop_fuel_exact in H; [|exact Ho]; exact (loop_fuel_mono _ _ _ _ _ _ _ _ H Ho f' Hle)).
  exact H.
Qed.

(* ------------------------------------------------------------------ what a run does not look at *)

(* closures agree on the argument tuples that appear in the log L under their id *)
Definition agree1 {A : Type} (L : log) (id : N) (f f' : Z -> res A) : Prop :=
  forall x, In (Ev id [x]) L -> f x = f' x.
Definition agree2 {A : Type} (L : log) (id : N) (g g' : Z -> Z -> res A) : Prop :=
  forall a b, In (Ev id [a; b]) L -> g a b = g' a b.

Definition agree_stage (L : log) (s s' : stage) : Prop :=
  match s, s' with
  | SMap i f, SMap i' f' => i = i' /\ agree1 L i f f'
  | SAccept i p, SAccept i' p' => i = i' /\ agree1 L i p p'
  | SCombine i g, SCombine i' g' => i = i' /\ agree2 L i g g'
  | SNumber i g, SNumber i' g' => i = i' /\ agree2 L i g g'
  | SIir i0 f0 i g, SIir i0' f0' i' g' => i0 = i0' /\ i = i' /\ agree1 L i0 f0 f0' /\ agree2 L i g g'
  | SCompact i e, SCompact i' e' => i = i' /\ agree2 L i e e'
  | SSkip n, SSkip n' => n = n'
  | STop n, STop n' => n = n'
  | _, _ => False
  end.

(* same shape; closures agree on what was logged; numbers(n) sources are equal or both have at
   least M elements; literal lists are equal *)
Fixpoint agree_pipe (L : log) (M : Z) (p p' : pipe) : Prop :=
  match p, p' with
  | PNumbers n, PNumbers n' => n = n' \/ (M <= n /\ M <= n')
  | PList l, PList l' => l = l'
  | PStage s p1, PStage s' p1' => agree_stage L s s' /\ agree_pipe L M p1 p1'
  | PApp a b, PApp a' b' => agree_pipe L M a a' /\ agree_pipe L M b b'
  | PCross i g a b, PCross i' g' a' b' => i = i' /\ agree2 L i g g' /\ agree_pipe L M a a' /\ agree_pipe L M b b'
  | PMerge i g a b, PMerge i' g' a' b' => i = i' /\ agree2 L i g g' /\ agree_pipe L M a a' /\ agree_pipe L M b b'
  | PThrough c a, PThrough c' a' => c = c' /\ agree_pipe L M a a'
  | _, _ => False
  end.

Definition agree_term (L : log) (t t' : term) : Prop :=
  match t, t' with
  | TNone, TNone | TFirst, TFirst | TSingle, TSingle | TSize, TSize => True
  | TPresent i p, TPresent i' p' => i = i' /\ agree1 L i p p'
  | TIndexWhere i p, TIndexWhere i' p' => i = i' /\ agree1 L i p p'
  | TContains x, TContains x' => x = x'
  | TReduce i g, TReduce i' g' => i = i' /\ agree2 L i g g'
  | _, _ => False
  end.

(* every numbers source inside the state has produced at most j elements *)
Fixpoint qbound (j : Z) (q : pstate) : Prop :=
  match q with
  | QNum i => i <= j
  | QList _ => True
  | QStage _ q' => qbound j q'
  | QApp _ a b => qbound j a /\ qbound j b
  | QCross _ a b => qbound j a /\ qbound j b
  | QMerge _ _ _ _ a b => qbound j a /\ qbound j b
  end.

Lemma qbound_mono : forall q j j', qbound j q -> j <= j' -> qbound j' q.
Proof.
  induction q as [i|r|ss q IH|r a IHa b IHb|r a IHa b IHb|ea eb x y a IHa b IHb]; cbn [qbound]; intros j j' H Hle.
  - lia.
  - exact I.
  - eapply IH; eassumption.
  - destruct H as [Ha Hb]. split; [eapply IHa|eapply IHb]; eassumption.
  - destruct H as [Ha Hb]. split; [eapply IHa|eapply IHb]; eassumption.
  - destruct H as [Ha Hb]. split; [eapply IHa|eapply IHb]; eassumption.
Qed.

Definition step_bound (j : Z) (r : step) : Prop :=
  match r with
  | Skip q | Item _ q => qbound j q
  | _ => True
  end.

Lemma init_qbound : forall p, qbound 0 (init p).
Proof.
  induction p as [n|l|s p IH|p1 IH1 p2 IH2|ci g p1 IH1 p2 IH2|ci g p1 IH1 p2 IH2|cx p IH]; cbn [init qbound]; try lia; try exact I; auto.
Qed.

Lemma init_agree : forall L M p p', agree_pipe L M p p' -> init p' = init p.
Proof.
  intros L M p. induction p as [n|l|s p IH|p1 IH1 p2 IH2|ci g p1 IH1 p2 IH2|ci g p1 IH1 p2 IH2|cx p IH]; intros p' H;
    destruct p' as [n'|l'|s' p'|p1' p2'|ci' g' p1' p2'|ci' g' p1' p2'|cx' p'];
    cbn [agree_pipe] in H; try contradiction; cbn [init].
  - reflexivity.
  - congruence.
  - destruct H as [_ H]. rewrite (IH _ H). reflexivity.
  - destruct H as [H1 H2]. rewrite (IH1 _ H1), (IH2 _ H2). reflexivity.
  - destruct H as [_ [_ [H1 H2]]]. rewrite (IH1 _ H1), (IH2 _ H2). reflexivity.
  - destruct H as [_ [_ [H1 H2]]]. rewrite (IH1 _ H1), (IH2 _ H2). reflexivity.
  - destruct H as [_ H]. apply IH. exact H.
Qed.

Lemma stage_item_log : forall s ss l v q, exists l1, fst (stage_item s ss l v q) = l ++ l1.
Proof.
  intros s ss l v q.
  destruct s as [i f|i p|i g|i g|i0 f0 i g|i e|n|n]; cbn [stage_item].
  - destruct (f v); eexists; reflexivity.
  - destruct (p v) as [[|]|]; eexists; reflexivity.
  - destruct (lastv ss); [destruct (g z v)|]; try (eexists; reflexivity). exists []. rewrite app_nil_r. reflexivity.
  - destruct (g (cnt ss) v); eexists; reflexivity.
  - destruct (lastr ss); [destruct (g v z)|destruct (f0 v)]; eexists; reflexivity.
  - destruct (lastv ss); [destruct (e z v) as [[|]|]|]; try (eexists; reflexivity). exists []. rewrite app_nil_r. reflexivity.
  - destruct (cnt ss <? n); exists []; rewrite app_nil_r; reflexivity.
  - exists []. rewrite app_nil_r. reflexivity.
Qed.

Lemma stage_done_agree : forall L s s' ss, agree_stage L s s' -> stage_done s' ss = stage_done s ss.
Proof.
  intros L s s' ss H. destruct s, s'; cbn [agree_stage] in H; try contradiction; cbn [stage_done]; try reflexivity.
  subst. reflexivity.
Qed.

Lemma in_app_one : forall (L l : log) e, incl (l ++ [e]) L -> In e L.
Proof. intros L l e H. apply H. apply in_or_app. right. left. reflexivity. Qed.

(* a stage whose closures agree on the event it logs does the same with the same element *)
Lemma stage_item_agree : forall L s s' ss l v q,
  agree_stage L s s' -> incl (fst (stage_item s ss l v q)) L ->
  stage_item s' ss l v q = stage_item s ss l v q.
Proof.
  intros L s s' ss l v q H Hin.
  destruct s as [i f|i p|i g|i g|i0 f0 i g|i e|n|n]; destruct s' as [i' f'|i' p'|i' g'|i' g'|i0' f0' i' g'|i' e'|n'|n'];
    cbn [agree_stage] in H; try contradiction; cbn [stage_item] in *.
  - destruct H as [-> Ha]. assert (E : f v = f' v).
    { apply Ha. destruct (f v); cbn [fst] in Hin; exact (in_app_one _ _ _ Hin). }
    rewrite <- E. reflexivity.
  - destruct H as [-> Ha]. assert (E : p v = p' v).
    { apply Ha. destruct (p v) as [[|]|]; cbn [fst] in Hin; exact (in_app_one _ _ _ Hin). }
    rewrite <- E. reflexivity.
  - destruct H as [-> Ha]. destruct (lastv ss) as [a|]; [|reflexivity].
    assert (E : g a v = g' a v).
    { apply Ha. destruct (g a v); cbn [fst] in Hin; exact (in_app_one _ _ _ Hin). }
    rewrite <- E. reflexivity.
  - destruct H as [-> Ha]. assert (E : g (cnt ss) v = g' (cnt ss) v).
    { apply Ha. destruct (g (cnt ss) v); cbn [fst] in Hin; exact (in_app_one _ _ _ Hin). }
    rewrite <- E. reflexivity.
  - destruct H as [-> [-> [Ha0 Ha]]]. destruct (lastr ss) as [r|].
    + assert (E : g v r = g' v r).
      { apply Ha. destruct (g v r); cbn [fst] in Hin; exact (in_app_one _ _ _ Hin). }
      rewrite <- E. reflexivity.
    + assert (E : f0 v = f0' v).
      { apply Ha0. destruct (f0 v); cbn [fst] in Hin; exact (in_app_one _ _ _ Hin). }
      rewrite <- E. reflexivity.
  - destruct H as [-> Ha]. destruct (lastv ss) as [a|]; [|reflexivity].
    assert (E : e a v = e' a v).
    { apply Ha. destruct (e a v) as [[|]|]; cbn [fst] in Hin; exact (in_app_one _ _ _ Hin). }
    rewrite <- E. reflexivity.
  - subst. reflexivity.
  - subst. reflexivity.
Qed.

Lemma stage_item_bound : forall s ss l v q j, qbound j q -> step_bound j (snd (stage_item s ss l v q)).
Proof.
  intros s ss l v q j H.
  destruct s as [i f|i p|i g|i g|i0 f0 i g|i e|n|n]; cbn [stage_item].
  - destruct (f v); cbn; auto.
  - destruct (p v) as [[|]|]; cbn; auto.
  - destruct (lastv ss); [destruct (g z v)|]; cbn; auto.
  - destruct (g (cnt ss) v); cbn; auto.
  - destruct (lastr ss); [destruct (g v z)|destruct (f0 v)]; cbn; auto.
  - destruct (lastv ss); [destruct (e z v) as [[|]|]|]; cbn; auto.
  - destruct (cnt ss <? n); cbn; auto.
  - cbn; auto.
Qed.

(* One step: if every numbers source has produced at most j < M elements so far, the step of the
   changed pipeline is the same, and afterwards every source has produced at most j+1. *)
Lemma next_agree : forall L M p p' q j,
  agree_pipe L M p p' -> qbound j q -> 0 <= j < M -> incl (fst (next p q)) L ->
  next p' q = next p q /\ step_bound (j + 1) (snd (next p q)).
Proof.
  intros L M p. induction p as [n|l|s p IH|p1 IH1 p2 IH2|ci g p1 IH1 p2 IH2|ci less p1 IH1 p2 IH2|cx p IH]; intros p' q j Ha Hq Hj Hin;
    destruct p' as [n'|l'|s' p'|p1' p2'|ci' g' p1' p2'|ci' less' p1' p2'|cx' p']; cbn [agree_pipe] in Ha; try contradiction.
  - destruct q as [i| | | | |]; cbn [next]; try (split; [reflexivity|exact I]).
    cbn [qbound] in Hq.
    assert (E : (i <? n') = (i <? n)).
    { destruct Ha as [->|[H1 H2]]; [reflexivity|].
      destruct (Z.ltb_spec i n'), (Z.ltb_spec i n); try reflexivity; lia. }
    rewrite E. split; [reflexivity|]. destruct (i <? n); cbn; lia.
  - subst l'. split; [reflexivity|]. destruct q as [|r| | | |]; cbn [next]; try exact I.
    destruct r; cbn; exact I.
  - destruct Ha as [Hs Hp]. destruct q as [| |ss q'| | |]; cbn [next]; try (split; [reflexivity|exact I]).
    rewrite (stage_done_agree L s s' ss Hs).
    cbn [next] in Hin. cbn [qbound] in Hq.
    destruct (stage_done s ss); [split; [reflexivity|exact I]|].
    assert (Hin' : incl (fst (next p q')) L).
    { destruct (next p q') as [l r] eqn:E. cbn [fst]. destruct r as [|q''|v q''|e]; cbn [fst] in Hin; try exact Hin.
      destruct (stage_item_log s ss l v q'') as [l1 El]. rewrite El in Hin.
      intros x Hx. apply Hin. apply in_or_app. left. exact Hx. }
    destruct (IH p' q' j Hp Hq Hj Hin') as [En Hb]. rewrite En.
    destruct (next p q') as [l r]. cbn [snd] in Hb. cbn [fst] in Hin'.
    destruct r as [|q''|v q''|e]; cbn [step_bound] in Hb.
    + split; [reflexivity|exact I].
    + split; [reflexivity|exact Hb].
    + split; [apply (stage_item_agree L); assumption|apply stage_item_bound; exact Hb].
    + split; [reflexivity|exact I].
  - destruct Ha as [Ha1 Ha2]. destruct q as [| | |r q1 q2| |]; cbn [next]; try (split; [reflexivity|exact I]).
    cbn [next] in Hin. cbn [qbound] in Hq. destruct Hq as [Hq1 Hq2].
    assert (Hq1' : qbound (j + 1) q1) by (eapply qbound_mono; [exact Hq1|lia]).
    assert (Hq2' : qbound (j + 1) q2) by (eapply qbound_mono; [exact Hq2|lia]).
    destruct r.
    + assert (Hin' : incl (fst (next p2 q2)) L).
      { destruct (next p2 q2) as [l r]. destruct r; exact Hin. }
      destruct (IH2 p2' q2 j Ha2 Hq2 Hj Hin') as [En Hb]. rewrite En.
      destruct (next p2 q2) as [l r]. cbn [snd] in Hb.
      destruct r; cbn [step_bound snd qbound] in *; split; auto.
    + assert (Hin' : incl (fst (next p1 q1)) L).
      { destruct (next p1 q1) as [l r]. destruct r; exact Hin. }
      destruct (IH1 p1' q1 j Ha1 Hq1 Hj Hin') as [En Hb]. rewrite En.
      destruct (next p1 q1) as [l r]. cbn [snd] in Hb.
      destruct r; cbn [step_bound snd qbound] in *; split; auto.
  - (* cross *)
    destruct Ha as [<- [Hg [Ha1 Ha2]]]. destruct q as [| | | |row q1 q2|]; cbn [next]; try (split; [reflexivity|exact I]).
    cbn [next] in Hin. cbn [qbound] in Hq. destruct Hq as [Hq1 Hq2].
    assert (Hq1' : qbound (j + 1) q1) by (eapply qbound_mono; [exact Hq1|lia]).
    assert (Hq2' : qbound (j + 1) q2) by (eapply qbound_mono; [exact Hq2|lia]).
    rewrite (init_agree _ _ _ _ Ha2).
    destruct row as [a|].
    + assert (Hin' : incl (fst (next p2 q2)) L).
      { destruct (next p2 q2) as [l r]. destruct r as [|q2'|b q2'|e]; cbn [fst] in *; try exact Hin.
        destruct (g a b); cbn [fst] in Hin; intros z Hz; apply Hin; apply in_or_app; left; exact Hz. }
      destruct (IH2 p2' q2 j Ha2 Hq2 Hj Hin') as [En Hb]. rewrite En.
      destruct (next p2 q2) as [l r]. cbn [snd] in Hb.
      destruct r as [|q2'|b q2'|e]; cbn [step_bound snd qbound] in *; try (split; auto).
      * assert (E : g a b = g' a b).
        { apply Hg. destruct (g a b); cbn [fst] in Hin; exact (in_app_one _ _ _ Hin). }
        rewrite <- E. reflexivity.
      * destruct (g a b); cbn [snd step_bound qbound]; auto.
    + assert (Hin' : incl (fst (next p1 q1)) L).
      { destruct (next p1 q1) as [l r]. destruct r; exact Hin. }
      destruct (IH1 p1' q1 j Ha1 Hq1 Hj Hin') as [En Hb]. rewrite En.
      destruct (next p1 q1) as [l r]. cbn [snd] in Hb.
      destruct r; cbn [step_bound snd qbound] in *; split; auto.
      split; [assumption|]. eapply qbound_mono; [apply init_qbound|lia].
  - (* merge *)
    destruct Ha as [<- [Hg [Ha1 Ha2]]]. destruct q as [| | | | |ea eb a b q1 q2]; cbn [next]; try (split; [reflexivity|exact I]).
    cbn [next] in Hin. cbn [qbound] in Hq. destruct Hq as [Hq1 Hq2].
    assert (Hq1' : qbound (j + 1) q1) by (eapply qbound_mono; [exact Hq1|lia]).
    assert (Hq2' : qbound (j + 1) q2) by (eapply qbound_mono; [exact Hq2|lia]).
    assert (S1 : forall ea' eb' (b' : option Z), incl (fst (next p1 q1)) L ->
       (match next p1' q1 with
        | (l, Done) => (l, Skip (QMerge true eb' None b' q1 q2))
        | (l, Skip q1') => (l, Skip (QMerge ea' eb' None b' q1' q2))
        | (l, Item x q1') => (l, Skip (QMerge ea' eb' (Some x) b' q1' q2))
        | (l, Fail e) => (l, Fail e) end)
       = (match next p1 q1 with
        | (l, Done) => (l, Skip (QMerge true eb' None b' q1 q2))
        | (l, Skip q1') => (l, Skip (QMerge ea' eb' None b' q1' q2))
        | (l, Item x q1') => (l, Skip (QMerge ea' eb' (Some x) b' q1' q2))
        | (l, Fail e) => (l, Fail e) end)
       /\ step_bound (j + 1) (snd (match next p1 q1 with
        | (l, Done) => (l, Skip (QMerge true eb' None b' q1 q2))
        | (l, Skip q1') => (l, Skip (QMerge ea' eb' None b' q1' q2))
        | (l, Item x q1') => (l, Skip (QMerge ea' eb' (Some x) b' q1' q2))
        | (l, Fail e) => (l, Fail e) end))).
    { intros ea' eb' b' Hi. destruct (IH1 p1' q1 j Ha1 Hq1 Hj Hi) as [En Hb]. rewrite En.
      destruct (next p1 q1) as [l r]. cbn [snd] in Hb.
      destruct r; cbn [step_bound snd qbound] in *; split; auto. }
    assert (S2 : forall ea' eb' (a' : option Z), incl (fst (next p2 q2)) L ->
       (match next p2' q2 with
        | (l, Done) => (l, Skip (QMerge ea' true a' None q1 q2))
        | (l, Skip q2') => (l, Skip (QMerge ea' eb' a' None q1 q2'))
        | (l, Item y q2') => (l, Skip (QMerge ea' eb' a' (Some y) q1 q2'))
        | (l, Fail e) => (l, Fail e) end)
       = (match next p2 q2 with
        | (l, Done) => (l, Skip (QMerge ea' true a' None q1 q2))
        | (l, Skip q2') => (l, Skip (QMerge ea' eb' a' None q1 q2'))
        | (l, Item y q2') => (l, Skip (QMerge ea' eb' a' (Some y) q1 q2'))
        | (l, Fail e) => (l, Fail e) end)
       /\ step_bound (j + 1) (snd (match next p2 q2 with
        | (l, Done) => (l, Skip (QMerge ea' true a' None q1 q2))
        | (l, Skip q2') => (l, Skip (QMerge ea' eb' a' None q1 q2'))
        | (l, Item y q2') => (l, Skip (QMerge ea' eb' a' (Some y) q1 q2'))
        | (l, Fail e) => (l, Fail e) end))).
    { intros ea' eb' a' Hi. destruct (IH2 p2' q2 j Ha2 Hq2 Hj Hi) as [En Hb]. rewrite En.
      destruct (next p2 q2) as [l r]. cbn [snd] in Hb.
      destruct r; cbn [step_bound snd qbound] in *; split; auto. }
    assert (S3 : forall x y, incl (fst (match less x y with
                  | Ok true => ([Ev ci [x; y]], Item x (QMerge ea eb None b q1 q2))
                  | Ok false => ([Ev ci [x; y]], Item y (QMerge ea eb a None q1 q2))
                  | Err e => ([Ev ci [x; y]], Fail e) end)) L -> less x y = less' x y).
    { intros x y Hi. apply Hg. destruct (less x y) as [[|]|]; cbn [fst] in Hi; apply Hi; left; reflexivity. }
    destruct a as [x|]; destruct ea; destruct b as [y|]; destruct eb;
      try (apply S1; destruct (next p1 q1) as [l r]; destruct r; exact Hin);
      try (apply S2; destruct (next p2 q2) as [l r]; destruct r; exact Hin);
      try (split; [reflexivity|cbn [snd step_bound qbound]; auto]);
      try (rewrite <- (S3 x y Hin); split; [reflexivity|];
           destruct (less x y) as [[|]|]; cbn [snd step_bound qbound]; auto).
  - (* through *)
    destruct Ha as [_ Ha]. cbn [next] in *. apply (IH p' q j Ha Hq Hj Hin).
Qed.

Lemma term_item_agree : forall L t t' s v,
  agree_term L t t' -> incl (fst (term_item t s v)) L -> term_item t' s v = term_item t s v.
Proof.
  intros L t t' s v H Hin.
  destruct t as [| | | |i p|i p|x|i g]; destruct t' as [| | | |i' p'|i' p'|x'|i' g'];
    cbn [agree_term] in H; try contradiction; cbn [term_item] in *; try reflexivity.
  - destruct H as [-> Ha]. assert (E : p v = p' v).
    { apply Ha. destruct (p v) as [[|]|]; cbn [fst] in Hin; apply Hin; left; reflexivity. }
    rewrite <- E. reflexivity.
  - destruct H as [-> Ha]. assert (E : p v = p' v).
    { apply Ha. destruct (p v) as [[|]|]; cbn [fst] in Hin; apply Hin; left; reflexivity. }
    rewrite <- E. reflexivity.
  - subst. reflexivity.
  - destruct H as [-> Ha]. destruct (tacc s) as [a|]; [|reflexivity].
    assert (E : g a v = g' a v).
    { apply Ha. destruct (g a v); cbn [fst] in Hin; apply Hin; left; reflexivity. }
    rewrite <- E. reflexivity.
Qed.

Lemma term_done_agree : forall L t t' s, agree_term L t t' -> term_done t' s = term_done t s.
Proof.
  intros L t t' s H. destruct t, t'; cbn [agree_term] in H; try contradiction; reflexivity.
Qed.

Lemma incl_app_l : forall (a b L : log), incl (a ++ b) L -> incl a L.
Proof. intros a b L H x Hx. apply H. apply in_or_app. left. exact Hx. Qed.
Lemma incl_app_r : forall (a b L : log), incl (a ++ b) L -> incl b L.
Proof. intros a b L H x Hx. apply H. apply in_or_app. right. exact Hx. Qed.

Lemma loop_agree : forall L M fuel p p' t t' q s j l o n,
  loop fuel p t q s = (l, o, n) -> incl l L ->
  agree_pipe L M p p' -> agree_term L t t' -> qbound j q -> 0 <= j -> j + Z.of_nat n <= M ->
  loop fuel p' t' q s = (l, o, n).
Proof.
  intros L M fuel. induction fuel as [|f IH]; intros p p' t t' q s j l o n H Hin Hp Ht Hq Hj0 Hj; cbn [loop] in *.
  - exact H.
  - destruct (next p q) as [l0 r] eqn:En.
    assert (Hn1 : (1 <= n)%nat).
    { destruct r as [|q'|v q'|e].
      - inversion H; lia.
      - destruct (loop f p t q' s) as [[l' o'] n']. inversion H; lia.
      - destruct (term_item t s v) as [l1 tr]. destruct tr.
        + destruct (loop f p t q' s0) as [[l' o'] n']. inversion H; lia.
        + inversion H; lia.
      - inversion H; lia. }
    assert (Hin0 : incl l0 L).
    { destruct r as [|q'|v q'|e].
      - inversion H; subst; exact Hin.
      - destruct (loop f p t q' s) as [[l' o'] n']. inversion H; subst. eapply incl_app_l; exact Hin.
      - destruct (term_item t s v) as [l1 tr]. destruct tr.
        + destruct (loop f p t q' s0) as [[l' o'] n']. inversion H; subst. eapply incl_app_l; exact Hin.
        + inversion H; subst. eapply incl_app_l; exact Hin.
      - inversion H; subst; exact Hin. }
    assert (Hn : next p' q = next p q /\ step_bound (j + 1) (snd (next p q))).
    { apply (next_agree L M); try assumption; [lia|rewrite En; exact Hin0]. }
    destruct Hn as [E Hb]. rewrite E, En. rewrite En in Hb. cbn [snd] in Hb.
    destruct r as [|q'|v q'|e]; cbn [step_bound] in Hb.
    + rewrite (term_done_agree L t t' s Ht). exact H.
    + destruct (loop f p t q' s) as [[l' o'] n'] eqn:El. inversion H; subst.
      assert (E2 : loop f p' t' q' s = (l', o, n')).
      { apply (IH p p' t t' q' s (j + 1) l' o n' El); try assumption; [eapply incl_app_r; exact Hin|lia|lia]. }
      rewrite E2. reflexivity.
    + destruct (term_item t s v) as [l1 tr] eqn:Et.
      assert (Eti : term_item t' s v = term_item t s v).
      { apply (term_item_agree L); [exact Ht|]. rewrite Et. cbn [fst].
        destruct tr.
        - destruct (loop f p t q' s0) as [[l' o'] n']. inversion H; subst.
          eapply incl_app_l. eapply incl_app_r. exact Hin.
        - inversion H; subst. eapply incl_app_r; exact Hin. }
      rewrite Eti, Et. destruct tr as [s'|o'']; [|exact H].
      destruct (loop f p t q' s') as [[l' o'] n'] eqn:El. inversion H; subst.
      assert (E2 : loop f p' t' q' s' = (l', o, n')).
      { apply (IH p p' t t' q' s' (j + 1) l' o n' El); try assumption; [|lia|lia].
        eapply incl_app_r. eapply incl_app_r. exact Hin. }
      rewrite E2. reflexivity.
    + exact H.
Qed.

(* The outcome, the log and the number of steps of a run depend only on the values of the closures
   on the argument tuples in its log and on the first n elements of every numbers source. *)
Lemma run_loop : forall fuel t p, t <> TNone -> run fuel t p = loop fuel p t (init p) tst0.
Proof. intros fuel t p H. destruct t; try reflexivity. congruence. Qed.

Lemma agree_term_none : forall L t t', agree_term L t t' -> t = TNone -> t' = TNone.
Proof. intros L t t' H E. subst t. destruct t'; cbn in H; try contradiction. reflexivity. Qed.

Lemma agree_term_not_none : forall L t t', agree_term L t t' -> t <> TNone -> t' <> TNone.
Proof. intros L t t' H E. destruct t, t'; cbn in H; try contradiction; congruence. Qed.

Lemma term_none_dec : forall t, {t = TNone} + {t <> TNone}.
Proof. destruct t; (left; reflexivity) || (right; discriminate). Qed.

Lemma run_agree : forall fuel t t' p p' l o n,
  run fuel t p = (l, o, n) ->
  agree_pipe l (Z.of_nat n) p p' -> agree_term l t t' ->
  run fuel t' p' = (l, o, n).
Proof.
  intros fuel t t' p p' l o n H Hp Ht.
  destruct (term_none_dec t) as [E|E].
  - rewrite (agree_term_none _ _ _ Ht E). subst t. exact H.
  - rewrite run_loop in H by exact E.
    rewrite run_loop by (eapply agree_term_not_none; eassumption).
    rewrite (init_agree _ _ _ _ Hp).
    eapply (loop_agree l (Z.of_nat n)); try eassumption;
      [apply incl_refl|apply init_qbound|lia|lia].
Qed.

(* ------------------------------------------------------------------ corollaries for numbers(n) *)

Fixpoint set_numbers (m : Z) (p : pipe) : pipe :=
  match p with
  | PNumbers _ => PNumbers m
  | PList l => PList l
  | PStage s p' => PStage s (set_numbers m p')
  | PApp a b => PApp (set_numbers m a) (set_numbers m b)
  | PCross i g a b => PCross i g (set_numbers m a) (set_numbers m b)
  | PMerge i g a b => PMerge i g (set_numbers m a) (set_numbers m b)
  | PThrough c a => PThrough c (set_numbers m a)
  end.

(* every numbers source has at least m elements *)
Fixpoint numbers_ge (m : Z) (p : pipe) : Prop :=
  match p with
  | PNumbers n => m <= n
  | PList _ => True
  | PStage _ p' => numbers_ge m p'
  | PApp a b => numbers_ge m a /\ numbers_ge m b
  | PCross _ _ a b | PMerge _ _ a b => numbers_ge m a /\ numbers_ge m b
  | PThrough _ a => numbers_ge m a
  end.

Lemma agree_stage_refl : forall L s, agree_stage L s s.
Proof. intros L s. destruct s; cbn; repeat split; intros; reflexivity. Qed.

Lemma agree_term_refl : forall L t, agree_term L t t.
Proof. intros L t. destruct t; cbn; repeat split; intros; reflexivity. Qed.

Lemma agree_set_numbers : forall L M m p, numbers_ge M p -> M <= m -> agree_pipe L M p (set_numbers m p).
Proof.
  intros L M m p. induction p as [n|l|s p IH|a IHa b IHb|ci g a IHa b IHb|ci g a IHa b IHb|cx p IH]; cbn [numbers_ge set_numbers agree_pipe]; intros H Hm.
  - right. lia.
  - reflexivity.
  - split; [apply agree_stage_refl|apply IH; assumption].
  - destruct H. split; [apply IHa|apply IHb]; assumption.
  - destruct H. split; [reflexivity|]. split; [intros x y _; reflexivity|]. split; [apply IHa|apply IHb]; assumption.
  - destruct H. split; [reflexivity|]. split; [intros x y _; reflexivity|]. split; [apply IHa|apply IHb]; assumption.
  - split; [reflexivity|apply IH; assumption].
Qed.

(* the length of the sources is irrelevant beyond the number of steps the consumer made *)
Lemma run_length_independent : forall fuel t p l o n m,
  run fuel t p = (l, o, n) -> numbers_ge (Z.of_nat n) p -> Z.of_nat n <= m ->
  run fuel t (set_numbers m p) = (l, o, n).
Proof.
  intros fuel t p l o n m H Hge Hm.
  eapply run_agree; [exact H|apply agree_set_numbers; assumption|apply agree_term_refl].
Qed.

(* ------------------------------------------------------------------ demand of top(n) *)

Lemma next_count0 : forall id p q, occ_pipe id p = O -> count id (fst (next p q)) = O.
Proof. intros id p q H. pose proof (next_count id p q). lia. Qed.

Lemma term_item_count0 : forall id t s v, occ_term id t = O -> count id (fst (term_item t s v)) = O.
Proof. intros id t s v H. pose proof (term_item_count id t s v). lia. Qed.

(* top(n) asks its parent for at most n elements, whatever the parent, the elements and the consumer:
   a map closure directly under top(n) runs at most n times (no read-ahead) *)
Lemma loop_top_map : forall id f p0 t n, occ_pipe id p0 = O -> occ_term id t = O ->
  forall fuel ss ss' q0 s l o m, 0 <= cnt ss <= n ->
  loop fuel (PStage (STop n) (PStage (SMap id f) p0)) t (QStage ss (QStage ss' q0)) s = (l, o, m) ->
  (count id l <= Z.to_nat (n - cnt ss))%nat.
Proof.
  intros id f p0 t n Hp Ht fuel. induction fuel as [|fu IH]; intros ss ss' q0 s l o m Hc H.
  - cbn [loop] in H. inversion H; subst. cbn. lia.
  - cbn [loop next stage_done] in H.
    destruct (Z.eqb_spec (cnt ss) n) as [E|E].
    + inversion H; subst. cbn. lia.
    + pose proof (next_count0 id p0 q0 Hp) as H0.
      destruct (next p0 q0) as [l0 r]. cbn [fst] in H0.
      destruct r as [|q'|v q'|e].
      * inversion H; subst. lia.
      * destruct (loop fu _ t (QStage ss (QStage ss' q')) s) as [[l' o'] m'] eqn:El.
        inversion H; subst. apply IH in El; [|lia]. rewrite count_app. lia.
      * cbn [stage_item] in H. destruct (f v) as [y|e].
        -- cbn [stage_item] in H.
           pose proof (term_item_count0 id t s y Ht) as Hti.
           destruct (term_item t s y) as [l1 tr]. cbn [fst] in Hti.
           destruct tr as [s'|o'].
           ++ destruct (loop fu _ t (QStage (mk_sst (cnt ss + 1) (lastv ss) (lastr ss)) (QStage ss' q')) s') as [[l' o''] m'] eqn:El.
              inversion H; subst. apply IH in El; [|cbn [cnt]; lia]. cbn [cnt] in El.
              rewrite !count_app, count_one, N.eqb_refl. cbn [b2n]. lia.
           ++ inversion H; subst. rewrite !count_app, count_one, N.eqb_refl. cbn [b2n]. lia.
        -- inversion H; subst. rewrite !count_app, count_one, N.eqb_refl. cbn [b2n]. lia.
      * inversion H; subst. lia.
Qed.

Lemma run_top_map : forall id f p0 t n fuel l o m, 0 <= n ->
  occ_pipe id p0 = O -> occ_term id t = O ->
  run fuel t (PStage (STop n) (PStage (SMap id f) p0)) = (l, o, m) ->
  (count id l <= Z.to_nat n)%nat.
Proof.
  intros id f p0 t n fuel l o m Hn Hp Ht H.
  destruct (term_none_dec t) as [E|E].
  - subst t. cbn in H. inversion H; subst. cbn. lia.
  - rewrite run_loop in H by exact E. cbn [init] in H.
    apply (loop_top_map id f p0 t n Hp Ht) in H; [|cbn; lia]. cbn [cnt sst0] in H.
    replace (n - 0) with n in H by lia. exact H.
Qed.

(* ------------------------------------------------------------------ exact demand of the canonical shape
   numbers(n).map(f).present(p): if k is the first position whose image decides p (true or an error,
   or f fails there) the consumer makes exactly k+1 steps and both closures run at most k+1 times. *)

Definition undecided (f : fn1) (p : pr1) (i : Z) : Prop :=
  exists y, f i = Ok y /\ p y = Ok false.
Definition decides (f : fn1) (p : pr1) (i : Z) : Prop :=
  (exists e, f i = Err e) \/ (exists y, f i = Ok y /\ p y <> Ok false).

Lemma loop_present_exact : forall id f id2 p n d ss s i fuel,
  (forall j, i <= j < i + Z.of_nat d -> undecided f p j) -> decides f p (i + Z.of_nat d) ->
  i + Z.of_nat d < n -> (d < fuel)%nat ->
  exists l o, loop fuel (PStage (SMap id f) (PNumbers n)) (TPresent id2 p) (QStage ss (QNum i)) s = (l, o, S d)
              /\ o <> OutOfFuel.
Proof.
  intros id f id2 p n d. induction d as [|d IH]; intros ss s i fuel Hu Hd Hn Hf.
  - destruct fuel as [|fu]; [lia|]. cbn [loop next stage_done].
    replace (i + Z.of_nat 0) with i in * by lia.
    destruct (Z.ltb_spec i n); [|lia]. cbn [stage_item].
    destruct Hd as [[e He]|[y [Hy Hp]]].
    + rewrite He. eexists. eexists. split; [reflexivity|discriminate].
    + rewrite Hy. cbn [term_item]. destruct (p y) as [[|]|e].
      * eexists. eexists. split; [reflexivity|discriminate].
      * congruence.
      * eexists. eexists. split; [reflexivity|discriminate].
  - destruct fuel as [|fu]; [lia|]. cbn [loop next stage_done].
    destruct (Z.ltb_spec i n); [|lia]. cbn [stage_item].
    destruct (Hu i) as [y [Hy Hp]]; [lia|]. rewrite Hy. cbn [term_item]. rewrite Hp.
    destruct (IH ss s (i + 1) fu) as [l [o [El Ho]]].
    + intros j Hj. apply Hu. lia.
    + replace (i + 1 + Z.of_nat d) with (i + Z.of_nat (S d)) by lia. exact Hd.
    + lia.
    + lia.
    + rewrite El. eexists. eexists. split; [reflexivity|exact Ho].
Qed.

Lemma run_present_exact : forall id f id2 p n k fuel,
  0 <= k < n -> (forall j, 0 <= j < k -> undecided f p j) -> decides f p k -> (Z.to_nat k < fuel)%nat ->
  exists l o, run fuel (TPresent id2 p) (PStage (SMap id f) (PNumbers n)) = (l, o, S (Z.to_nat k))
              /\ o <> OutOfFuel.
Proof.
  intros id f id2 p n k fuel Hk Hu Hd Hf.
  cbn [run build init fst snd].
  apply loop_present_exact.
  - intros j Hj. apply Hu. lia.
  - replace (0 + Z.of_nat (Z.to_nat k)) with k by lia. exact Hd.
  - lia.
  - exact Hf.
Qed.

(* ------------------------------------------------------------------ multiUse read-ahead *)

Definition is_skip (r : step) : bool := match r with Skip _ => true | _ => false end.

(* if the step after the consumer's decision is not a Skip (no element is dropped on the way), the
   read-ahead of the multiUse pass is exactly that one step: each closure at most once more *)
Lemma drain_one : forall id f p q,
  is_skip (snd (next p q)) = false ->
  snd (drain (S f) p q) = 1%nat /\ (count id (fst (drain (S f) p q)) <= occ_pipe id p)%nat.
Proof.
  intros id f p q H. cbn [drain]. pose proof (next_count id p q) as Hc.
  destruct (next p q) as [l r]. cbn [fst snd] in *.
  destruct r; cbn in H; try discriminate; cbn [fst snd]; split; try reflexivity; exact Hc.
Qed.

(* in general the read-ahead costs as many steps as it takes the pipeline to yield again *)
Lemma drain_count : forall id f p q,
  (count id (fst (drain f p q)) <= occ_pipe id p * snd (drain f p q))%nat.
Proof.
  intros id f. induction f as [|f IH]; intros p q; cbn [drain].
  - cbn. lia.
  - pose proof (next_count id p q) as Hc. destruct (next p q) as [l r]. cbn [fst] in Hc.
    destruct r as [|q'|v q'|e]; cbn [fst snd]; try lia.
    specialize (IH p q'). destruct (drain f p q') as [l' n]. cbn [fst snd] in *.
    rewrite count_app, Nat.mul_succ_r. lia.
Qed.

(* ------------------------------------------------------------------ cross: demand on the second list
   p1.cross(p2.map(f), g): every evaluation of the map closure f of the second list is followed by the
   evaluation of g on that element (unless f fails, which ends the run): column j of the second list is
   produced only when a row reaches column j.  (A cross that stores its second list first evaluates f
   on the whole list before the first call of g.) *)

Lemma count_one_same : forall id a, count id [Ev id a] = 1%nat.
Proof. intros id a. rewrite count_one, N.eqb_refl. reflexivity. Qed.

Lemma count_one_other : forall id i a, i <> id -> count id [Ev i a] = O.
Proof. intros id i a H. rewrite count_one. destruct (N.eqb_spec i id); [contradiction|reflexivity]. Qed.

Definition fail1 (r : step) : nat := match r with Fail _ => 1%nat | _ => O end.

Lemma cross_step_second : forall ci g p1 id2 f p0 q, id2 <> ci ->
  occ_pipe id2 p1 = O -> occ_pipe id2 p0 = O ->
  (count id2 (fst (next (PCross ci g p1 (PStage (SMap id2 f) p0)) q))
   <= count ci (fst (next (PCross ci g p1 (PStage (SMap id2 f) p0)) q))
      + fail1 (snd (next (PCross ci g p1 (PStage (SMap id2 f) p0)) q)))%nat.
Proof.
  intros ci g p1 id2 f p0 q Hne H1 H0.
  assert (Hne' : ci <> id2) by congruence.
  destruct q as [| | | |row q1 q2|]; try (cbn; lia).
  destruct row as [a|].
  - cbn [next]. destruct q2 as [| |ss q0| | |]; try (cbn; lia).
    cbn [stage_done].
    pose proof (next_count0 id2 p0 q0 H0) as Hc. destruct (next p0 q0) as [l0 r0]. cbn [fst] in Hc.
    destruct r0 as [|q0'|v q0'|e]; cbn [fst snd fail1]; try lia.
    cbn [stage_item]. destruct (f v) as [y|e].
    + destruct (g a y); cbn [fst snd fail1];
        rewrite !count_app, count_one_same, (count_one_other id2 ci) by exact Hne';
        rewrite (count_one_same ci); lia.
    + cbn [fst snd fail1]. rewrite !count_app, count_one_same. lia.
  - cbn [next]. pose proof (next_count0 id2 p1 q1 H1) as Hc.
    destruct (next p1 q1) as [l r]. cbn [fst] in Hc. destruct r; cbn [fst snd fail1]; lia.
Qed.

Lemma loop_cross_second : forall ci g p1 id2 f p0 t, id2 <> ci ->
  occ_pipe id2 p1 = O -> occ_pipe id2 p0 = O -> occ_term id2 t = O ->
  forall fuel q s l o n,
  loop fuel (PCross ci g p1 (PStage (SMap id2 f) p0)) t q s = (l, o, n) ->
  (count id2 l <= count ci l + 1)%nat.
Proof.
  intros ci g p1 id2 f p0 t Hne H1 H0 Ht fuel. induction fuel as [|fu IH]; intros q s l o n H; cbn [loop] in H.
  - inversion H; subst. cbn. lia.
  - pose proof (cross_step_second ci g p1 id2 f p0 q Hne H1 H0) as Hs.
    destruct (next (PCross ci g p1 (PStage (SMap id2 f) p0)) q) as [l0 r]. cbn [fst snd] in Hs.
    destruct r as [|q'|v q'|e]; cbn [fail1] in Hs.
    + inversion H; subst. lia.
    + destruct (loop fu _ t q' s) as [[l' o'] n'] eqn:El. inversion H; subst.
      apply IH in El. rewrite !count_app. lia.
    + pose proof (term_item_count0 id2 t s v Ht) as Hti.
      destruct (term_item t s v) as [l1 tr]. cbn [fst] in Hti. destruct tr as [s'|o'].
      * destruct (loop fu _ t q' s') as [[l' o''] n'] eqn:El. inversion H; subst.
        apply IH in El. rewrite !count_app. lia.
      * inversion H; subst. rewrite !count_app. lia.
    + inversion H; subst. lia.
Qed.

Lemma run_cross_second : forall ci g p1 id2 f p0 t fuel l o n, id2 <> ci ->
  occ_pipe id2 p1 = O -> occ_pipe id2 p0 = O -> occ_term id2 t = O ->
  run fuel t (PCross ci g p1 (PStage (SMap id2 f) p0)) = (l, o, n) ->
  (count id2 l <= count ci l + 1)%nat.
Proof.
  intros ci g p1 id2 f p0 t fuel l o n Hne H1 H0 Ht H.
  destruct (term_none_dec t) as [E|E].
  - subst t. cbn in H. inversion H; subst. cbn. lia.
  - rewrite run_loop in H by exact E. exact (loop_cross_second ci g p1 id2 f p0 t Hne H1 H0 Ht _ _ _ _ _ _ H).
Qed.

(* merge: a step asks at most one of the two operands for one step (never both) *)
Lemma merge_step_one_side : forall ci less p1 p2 q,
  exists l r, next (PMerge ci less p1 p2) q = (l, r) /\
    ((exists q1, l = fst (next p1 q1)) \/ (exists q2, l = fst (next p2 q2)) \/ (exists x y, l = [Ev ci [x; y]]) \/ l = []).
Proof.
  intros ci less p1 p2 q. destruct q as [| | | | |ea eb a b q1 q2]; cbn [next];
    try (eexists; eexists; split; [reflexivity|]; right; right; right; reflexivity).
  destruct a as [x|]; destruct ea; destruct b as [y|]; destruct eb;
    try (destruct (next p1 q1) as [l r] eqn:E; destruct r; eexists; eexists; (split; [reflexivity|]); left; exists q1; rewrite E; reflexivity);
    try (destruct (next p2 q2) as [l r] eqn:E; destruct r; eexists; eexists; (split; [reflexivity|]); right; left; exists q2; rewrite E; reflexivity);
    try (destruct (less x y) as [[|]|]; eexists; eexists; (split; [reflexivity|]); right; right; left; exists x, y; reflexivity);
    try (eexists; eexists; split; [reflexivity|]; right; right; right; reflexivity).
Qed.

(* ------------------------------------------------------------------ merge: demand on both operands
   pa.map(fa).merge(pb.map(fb), less).map(fm): each operand is at most ONE element ahead of what the
   merge has delivered (counted by the closure fm directly above it):
        calls of fa <= calls of fm + 1      and      calls of fb <= calls of fm + 1. *)

Definition wt (a : option Z) : nat := match a with Some _ => 1%nat | None => O end.
Definition itemfail (r : step) : nat := match r with Item _ _ | Fail _ => 1%nat | _ => O end.

(* the element of the first (sel = false) / second (sel = true) operand that is waiting to be compared *)
Definition wq (sel : bool) (q : pstate) : nat :=
  match q with
  | QStage _ (QMerge _ _ a b _ _) => wt (if sel then b else a)
  | _ => O
  end.
Definition wnext (sel : bool) (r : step) : nat :=
  match r with Skip q | Item _ q => wq sel q | _ => 1%nat end.

Lemma wt_le1 : forall a, (wt a <= 1)%nat.
Proof. destruct a; cbn; lia. Qed.

Lemma map_step_count : forall id f p0 q, occ_pipe id p0 = O ->
  (count id (fst (next (PStage (SMap id f) p0) q)) <= itemfail (snd (next (PStage (SMap id f) p0) q)))%nat.
Proof.
  intros id f p0 q H0. destruct q as [| |ss q0| | |]; try (cbn; lia).
  cbn [next stage_done]. pose proof (next_count0 id p0 q0 H0) as Hc.
  destruct (next p0 q0) as [l r]. cbn [fst] in Hc.
  destruct r as [|q'|v q'|e]; cbn [fst snd itemfail]; try lia.
  cbn [stage_item]. destruct (f v); cbn [fst snd itemfail]; rewrite count_app, count_one_same; lia.
Qed.

Section MergeSide.
  Variables (idx idm ci : N) (fm : fn1) (less : pr2) (A B : pipe) (sel : bool).
  Hypothesis Hxm : idm <> idx.
  Hypothesis Hxc : ci <> idx.
  (* the operand under observation logs idx at most once per step, and only when it yields or fails;
     the other operand never logs idx *)
  Hypothesis Hown : forall q, (count idx (fst (next (if sel then B else A) q)) <= itemfail (snd (next (if sel then B else A) q)))%nat.
  Hypothesis Hother : forall q, count idx (fst (next (if sel then A else B) q)) = O.

  Let P := PStage (SMap idm fm) (PMerge ci less A B).

  Lemma merge_step_side : forall q,
    (count idx (fst (next P q)) + wq sel q <= count idm (fst (next P q)) + wnext sel (snd (next P q)))%nat.
  Proof.
    intros q. unfold P.
    destruct q as [| |ssm q'| | |]; try (cbn; lia).
    cbn [next stage_done].
    destruct q' as [| | | | |ea eb a b qa qb]; try (cbn; lia).
    pose proof (wt_le1 a) as Wa. pose proof (wt_le1 b) as Wb.
    assert (HA : (count idx (fst (next A qa)) <= (if sel then O else itemfail (snd (next A qa))))%nat).
    { destruct sel; [rewrite (Hother qa); lia|apply (Hown qa)]. }
    assert (HB : (count idx (fst (next B qb)) <= (if sel then itemfail (snd (next B qb)) else O))%nat).
    { destruct sel; [apply (Hown qb)|rewrite (Hother qb); lia]. }
    cbn [next].
    destruct (next A qa) as [la ra]. destruct (next B qb) as [lb rb]. cbn [fst snd] in HA, HB.
    destruct a as [x|]; destruct ea; destruct b as [y|]; destruct eb;
      try (destruct ra; destruct sel; cbn [fst snd wq wt wnext itemfail] in *; lia);
      try (destruct rb; destruct sel; cbn [fst snd wq wt wnext itemfail] in *; lia);
      try (destruct (less x y) as [[|]|]); cbn [stage_item];
      try (destruct (fm x)); try (destruct (fm y));
      destruct sel; cbn [fst snd wq wt wnext itemfail stage_item];
      rewrite ?count_app, ?count_one_same, ?(count_one_other idx ci) by exact Hxc;
      rewrite ?(count_one_other idx idm) by exact Hxm; cbn [count filter length]; lia.
  Qed.

  Lemma merge_loop_side : forall t, occ_term idx t = O ->
    forall fuel q s l o n, loop fuel P t q s = (l, o, n) ->
    (count idx l + wq sel q <= count idm l + 1)%nat.
  Proof.
    intros t Ht fuel. induction fuel as [|fu IH]; intros q s l o n H; cbn [loop] in H.
    - inversion H; subst. cbn [count filter length].
      destruct q as [| |ss q'| | |]; cbn [wq]; try lia. destruct q'; try lia.
      pose proof (wt_le1 (if sel then b else a)). lia.
    - pose proof (merge_step_side q) as Hs.
      destruct (next P q) as [l0 r]. cbn [fst snd] in Hs.
      destruct r as [|q'|v q'|e]; cbn [wnext] in Hs.
      + inversion H; subst. lia.
      + destruct (loop fu P t q' s) as [[l' o'] n'] eqn:El. inversion H; subst.
        apply IH in El. rewrite !count_app. lia.
      + pose proof (term_item_count0 idx t s v Ht) as Hti.
        destruct (term_item t s v) as [l1 tr]. cbn [fst] in Hti. destruct tr as [s'|o'].
        * destruct (loop fu P t q' s') as [[l' o''] n'] eqn:El. inversion H; subst.
          apply IH in El. rewrite !count_app. lia.
        * inversion H; subst. rewrite !count_app.
          assert (wq sel q' <= 1)%nat.
          { destruct q' as [| |ss q''| | |]; cbn [wq]; try lia. destruct q''; try lia. apply wt_le1. }
          lia.
      + inversion H; subst. lia.
  Qed.
End MergeSide.

Lemma occ_map_other : forall id i f p0, i <> id -> occ_pipe id p0 = O -> occ_pipe id (PStage (SMap i f) p0) = O.
Proof.
  intros id i f p0 H H0. cbn [occ_pipe occ_stage]. rewrite H0.
  destruct (N.eqb_spec i id); [contradiction|reflexivity].
Qed.

Lemma run_merge_both : forall ida idb idm ci fa fb fm less pa pb t fuel l o n,
  ida <> idb -> idm <> ida -> idm <> idb -> ci <> ida -> ci <> idb ->
  occ_pipe ida pa = O -> occ_pipe ida pb = O -> occ_pipe idb pa = O -> occ_pipe idb pb = O ->
  occ_term ida t = O -> occ_term idb t = O ->
  run fuel t (PStage (SMap idm fm) (PMerge ci less (PStage (SMap ida fa) pa) (PStage (SMap idb fb) pb))) = (l, o, n) ->
  (count ida l <= count idm l + 1)%nat /\ (count idb l <= count idm l + 1)%nat.
Proof.
  intros ida idb idm ci fa fb fm less pa pb t fuel l o n Hab Hma Hmb Hca Hcb Haa Hab' Hba Hbb Hta Htb H.
  destruct (term_none_dec t) as [E|E].
  - subst t. cbn in H. inversion H; subst. cbn. lia.
  - rewrite run_loop in H by exact E. split.
    + pose proof (merge_loop_side ida idm ci fm less (PStage (SMap ida fa) pa) (PStage (SMap idb fb) pb) false
                    Hma Hca (fun q => map_step_count ida fa pa q Haa)
                    (fun q => next_count0 ida _ q (occ_map_other ida idb fb pb (fun e => Hab (eq_sym e)) Hab'))
                    t Hta _ _ _ _ _ _ H) as R.
      cbn [init wq wt] in R. lia.
    + pose proof (merge_loop_side idb idm ci fm less (PStage (SMap ida fa) pa) (PStage (SMap idb fb) pb) true
                    Hmb Hcb (fun q => map_step_count idb fb pb q Hbb)
                    (fun q => next_count0 idb _ q (occ_map_other idb ida fa pa Hab Hba))
                    t Htb _ _ _ _ _ _ H) as R.
      cbn [init wq wt] in R. lia.
Qed.

(* ------------------------------------------------------------------ pass-through constructs
   A list that is the result of try/catch, let, if, switch, a closure or func returning its argument, a
   map field, a list element or a host function argument is the SAME list: nothing is evaluated. *)
Lemma through_is_identity : forall c p q, next (PThrough c p) q = next p q.
Proof. reflexivity. Qed.

Lemma through_init : forall c p, init (PThrough c p) = init p.
Proof. reflexivity. Qed.

Lemma loop_through : forall c fuel p t q s, loop fuel (PThrough c p) t q s = loop fuel p t q s.
Proof.
  intros c fuel. induction fuel as [|f IH]; intros p t q s; cbn [loop]; [reflexivity|].
  rewrite through_is_identity. destruct (next p q) as [l r]. destruct r; try reflexivity.
  - rewrite IH. reflexivity.
  - destruct (term_item t s v) as [l1 tr]. destruct tr; [rewrite IH|]; reflexivity.
Qed.

Lemma run_through : forall c fuel t p, run fuel t (PThrough c p) = run fuel t p.
Proof.
  intros c fuel t p. destruct t; try (cbn [run build init fst snd]; apply loop_through). reflexivity.
Qed.
