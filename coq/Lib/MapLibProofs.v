From P2 Require Import Base.Prelude Base.PreludeProofs Lib.MapLib.
