(* Proofs about the map storage model (Lib/MapLib.v): every operation preserves coherence and
   computes the finite-map result, all observers are functions of the finite map, equality is
   representation independent, keys stay unique. *)
From P2 Require Import Base.Prelude Base.PreludeProofs Lib.MapLib.
From Coq Require Import Permutation.

Section Proofs.
Variable V : Type.
Variable veq : V -> V -> option bool.
Variable vshow : V -> str.

Local Notation ents := (entries V).
Local Notation get := (get V).
Local Notation iter := (iter V).
Local Notation size := (size V).
Local Notation keys := (keys V).
Local Notation coherent := (coherent V).
Local Notation lm_append := (lm_append V).
Local Notation collect := (collect V).

(* ---------------------------------------------------------------- association lists *)

Lemma str_eqb_true : forall a b, str_eqb a b = true -> a = b.
Proof. intros a b H. apply str_eqb_eq. exact H. Qed.

Lemma str_eqb_false : forall a b, str_eqb a b = false -> a <> b.
Proof. intros a b H E. subst. rewrite str_eqb_refl in H. discriminate. Qed.

Lemma str_eqb_neq : forall a b, a <> b -> str_eqb a b = false.
Proof. intros a b H. destruct (str_eqb a b) eqn:E; [|reflexivity]. apply str_eqb_true in E. contradiction. Qed.

Lemma assoc_none : forall (l : ents) k, assoc k l = None <-> ~ In k (keys l).
Proof.
  induction l as [|[k' v'] l IH]; intros k; simpl.
  - split; [intros _ H; exact H | reflexivity].
  - destruct (str_eqb k k') eqn:E.
    + apply str_eqb_true in E. subst. split; [discriminate|]. intros H. exfalso. apply H. left. reflexivity.
    + apply str_eqb_false in E. rewrite IH. split.
      * intros H [H1|H1]; [congruence|contradiction].
      * intros H H1. apply H. right. exact H1.
Qed.

Lemma assoc_some_in : forall (l : ents) k v, assoc k l = Some v -> In (k, v) l.
Proof.
  induction l as [|[k' v'] l IH]; intros k v; simpl; [discriminate|].
  destruct (str_eqb k k') eqn:E.
  - apply str_eqb_true in E. subst. intros H. inversion H. subst. left. reflexivity.
  - intros H. right. apply IH. exact H.
Qed.

Lemma in_keys : forall (l : ents) k v, In (k, v) l -> In k (keys l).
Proof. intros l k v H. unfold MapLib.keys. change k with (fst (k, v)). apply in_map. exact H. Qed.

Lemma assoc_in_nodup : forall (l : ents) k v, NoDup (keys l) -> In (k, v) l -> assoc k l = Some v.
Proof.
  induction l as [|[k' v'] l IH]; intros k v ND HI; simpl in *; [contradiction|].
  inversion ND as [|x xs Hnot ND']; subst.
  destruct HI as [HI|HI].
  - inversion HI; subst. rewrite str_eqb_refl. reflexivity.
  - destruct (str_eqb k k') eqn:E.
    + apply str_eqb_true in E. subst. exfalso. apply Hnot. eapply in_keys. exact HI.
    + apply IH; assumption.
Qed.

Lemma assoc_app : forall (a b : ents) k,
  assoc k (a ++ b) = match assoc k a with Some v => Some v | None => assoc k b end.
Proof.
  induction a as [|[k' v'] a IH]; intros b k; simpl; [reflexivity|].
  destruct (str_eqb k k'); [reflexivity|apply IH].
Qed.

Lemma keys_app : forall (a b : ents), keys (a ++ b) = keys a ++ keys b.
Proof. intros. unfold MapLib.keys. apply map_app. Qed.

Lemma is_some_assoc : forall (l : ents) k, is_some (assoc k l) = false <-> ~ In k (keys l).
Proof.
  intros l k. rewrite <- assoc_none. destruct (assoc k l); simpl; split; intros H; try reflexivity; discriminate.
Qed.

Lemma nodup_app_intro : forall (a b : list str),
  NoDup a -> NoDup b -> (forall k, In k b -> ~ In k a) -> NoDup (a ++ b).
Proof.
  induction a as [|x a IH]; intros b Ha Hb Hd; simpl; [exact Hb|].
  inversion Ha as [|y ys Hx Ha']; subst. constructor.
  - intros Hin. apply in_app_or in Hin. destruct Hin as [Hin|Hin]; [contradiction|].
    apply (Hd x Hin). left. reflexivity.
  - apply IH; try assumption. intros k Hk Hka. apply (Hd k Hk). right. exact Hka.
Qed.

Lemma nodup_app_l : forall (a b : list str), NoDup (a ++ b) -> NoDup a.
Proof.
  induction a as [|x a IH]; intros b H; [constructor|]. simpl in H. inversion H as [|y ys Hx H']; subst.
  constructor; [|eapply IH; eassumption]. intros Hin. apply Hx. apply in_or_app. left. exact Hin.
Qed.

Lemma nodup_app_r : forall (a b : list str), NoDup (a ++ b) -> NoDup b.
Proof.
  induction a as [|x a IH]; intros b H; [exact H|]. simpl in H. inversion H; subst. apply IH. assumption.
Qed.

Lemma nodup_app_disj : forall (a b : list str) k, NoDup (a ++ b) -> In k a -> ~ In k b.
Proof.
  induction a as [|x a IH]; intros b k H Ha Hb; [contradiction|]. simpl in H. inversion H as [|y ys Hx H']; subst.
  destruct Ha as [Ha|Ha].
  - subst. apply Hx. apply in_or_app. right. exact Hb.
  - eapply IH; eassumption.
Qed.

(* ---------------------------------------------------------------- ListMap.Append *)

Lemma lm_append_fresh : forall (l : ents) k v, ~ In k (keys l) -> lm_append l k v = l ++ [(k, v)].
Proof.
  induction l as [|[k' v'] l IH]; intros k v H; simpl; [reflexivity|].
  simpl in H. destruct (str_eqb k k') eqn:E.
  - apply str_eqb_true in E. subst. exfalso. apply H. left. reflexivity.
  - rewrite IH; [reflexivity|]. intros Hin. apply H. right. exact Hin.
Qed.

Lemma lm_append_keys_in : forall (l : ents) k v x, In x (keys (lm_append l k v)) <-> x = k \/ In x (keys l).
Proof.
  induction l as [|[k' v'] l IH]; intros k v x; simpl.
  - split; [intros [H|[]]; left; congruence | intros [H|[]]; left; congruence].
  - destruct (str_eqb k k') eqn:E.
    + apply str_eqb_true in E. subst. simpl. split; [intros [H|H]; [right; left; exact H | right; right; exact H]|].
      intros [H|[H|H]]; [left; congruence | left; exact H | right; exact H].
    + simpl. rewrite IH. split.
      * intros [H|[H|H]]; [right; left; exact H | left; exact H | right; right; exact H].
      * intros [H|[H|H]]; [right; left; exact H | left; exact H | right; right; exact H].
Qed.

Lemma fold_append_fresh : forall (l acc : ents),
  NoDup (keys (acc ++ l)) ->
  fold_left (fun a kv => lm_append a (fst kv) (snd kv)) l acc = acc ++ l.
Proof.
  induction l as [|[k v] l IH]; intros acc ND; simpl.
  - rewrite app_nil_r. reflexivity.
  - rewrite lm_append_fresh.
    + rewrite IH; rewrite <- app_assoc; simpl; [reflexivity|exact ND].
    + rewrite keys_app in ND. simpl in ND. intros Hin.
      apply (nodup_app_disj _ _ k ND Hin). left. reflexivity.
Qed.

Lemma collect_nodup : forall l : ents, NoDup (keys l) -> collect l = l.
Proof. intros l H. unfold MapLib.collect. rewrite fold_append_fresh; [reflexivity|exact H]. Qed.

(* ---------------------------------------------------------------- coherence of each representation *)

Lemma coherent_assoc_list : forall l : ents, NoDup (keys l) ->
  NoDup (keys l) /\ length l = length l /\ forall k, assoc k l = assoc k l.
Proof. intros. repeat split; auto. Qed.

Lemma coherent_list : forall l : ents, NoDup (keys l) -> coherent (SList l).
Proof. intros l H. unfold MapLib.coherent. simpl. unfold lm_get. repeat split; auto. Qed.

Lemma coherent_real : forall l : ents, NoDup (keys l) -> coherent (SReal l).
Proof. intros l H. unfold MapLib.coherent. simpl. repeat split; auto. Qed.

Lemma coherent_wrap : forall l : ents, NoDup (keys l) -> coherent (SWrap l).
Proof. intros l H. unfold MapLib.coherent. simpl. repeat split; auto. Qed.

Lemma coherent_empty : coherent SEmpty.
Proof. unfold MapLib.coherent. simpl. repeat split; auto. constructor. Qed.

Lemma coherent_bin : forall ismin vmin ismax vmax vstr, coherent (SBin ismin vmin ismax vmax vstr).
Proof.
  intros ismin vmin ismax vmax vstr. unfold MapLib.coherent.
  split; [|split].
  - destruct ismin, ismax; simpl; repeat constructor; simpl; intros H;
      repeat match goal with Hx : _ \/ _ |- _ => destruct Hx as [Hx|Hx] end; try discriminate; try contradiction.
  - destruct ismin, ismax; reflexivity.
  - intros k. cbn [MapLib.get MapLib.iter].
    destruct (str_eqb k key_str) eqn:E1.
    + simpl. rewrite E1. reflexivity.
    + destruct (str_eqb k key_min) eqn:E2; destruct (str_eqb k key_max) eqn:E3;
        destruct ismin, ismax; simpl; rewrite ?E1, ?E2, ?E3; try reflexivity.
      all: apply str_eqb_true in E2; apply str_eqb_true in E3; subst; discriminate.
Qed.

Lemma func_iter_keys : forall (ks : list str) (f : str -> option V) x,
  In x (keys (iter (SFunc ks f))) <-> In x ks /\ f x <> None.
Proof.
  induction ks as [|k ks IH]; intros f x; simpl.
  - split; [intros []|intros [[] _]].
  - simpl in IH. rewrite keys_app, in_app_iff, IH. destruct (f k) eqn:E; simpl.
    + split.
      * intros [[H|[]]|[H1 H2]]; [subst; split; [left; reflexivity|congruence] | split; [right; exact H1|exact H2]].
      * intros [[H|H] H2]; [left; left; exact H | right; split; assumption].
    + split.
      * intros [[]|[H1 H2]]. split; [right; exact H1|exact H2].
      * intros [[H|H] H2]; [subst; congruence | right; split; assumption].
Qed.

Lemma coherent_func : forall (ks : list str) (f : str -> option V),
  NoDup ks -> (forall k, f k <> None -> In k ks) -> coherent (SFunc ks f).
Proof.
  intros ks f ND Hdecl. unfold MapLib.coherent. split; [|split].
  - clear Hdecl. induction ks as [|k ks IH]; simpl; [constructor|].
    inversion ND as [|x xs Hk ND']; subst. rewrite keys_app. destruct (f k) eqn:E; simpl.
    + constructor; [|apply IH; exact ND']. intros Hin. apply func_iter_keys in Hin. apply Hk. apply Hin.
    + apply IH. exact ND'.
  - clear. induction ks as [|k ks IH]; simpl; [reflexivity|]. simpl in IH.
    rewrite app_length. destruct (f k); simpl; rewrite IH; reflexivity.
  - intros k. simpl. destruct (f k) eqn:E.
    + symmetry. apply assoc_in_nodup.
      * clear Hdecl E. induction ks as [|k0 ks IH]; simpl; [constructor|].
        inversion ND as [|x xs Hk ND']; subst. rewrite keys_app. destruct (f k0) eqn:E0; simpl.
        -- constructor; [|apply IH; exact ND']. intros Hin. apply func_iter_keys in Hin. apply Hk. apply Hin.
        -- apply IH. exact ND'.
      * assert (Hin : In k ks) by (apply Hdecl; congruence).
        clear Hdecl ND. induction ks as [|k0 ks IH]; simpl in *; [contradiction|].
        apply in_or_app. destruct Hin as [Hin|Hin].
        -- subst. rewrite E. left. left. reflexivity.
        -- right. apply IH. exact Hin.
    + symmetry. apply assoc_none. intros Hin. apply func_iter_keys in Hin. destruct Hin as [_ Hin]. congruence.
Qed.

Lemma coherent_append : forall k v p, coherent p -> get p k = None -> coherent (SAppend k v p).
Proof.
  intros k v p [ND [SZ GE]] Hk. unfold MapLib.coherent. simpl. split; [|split].
  - constructor; [|exact ND]. apply assoc_none. rewrite <- GE. exact Hk.
  - rewrite SZ. lia.
  - intros k0. destruct (str_eqb k0 k); [reflexivity|apply GE].
Qed.

Lemma coherent_merge : forall a b, coherent a -> coherent b ->
  (forall k, In k (keys (iter b)) -> get a k = None) -> coherent (SMerge a b).
Proof.
  intros a b [NDa [SZa GEa]] [NDb [SZb GEb]] Hd. unfold MapLib.coherent. simpl. split; [|split].
  - rewrite keys_app. apply nodup_app_intro; try assumption.
    intros k Hk. apply assoc_none. rewrite <- GEa. apply Hd. exact Hk.
  - rewrite app_length, SZa, SZb. reflexivity.
  - intros k. rewrite assoc_app, GEa, GEb. reflexivity.
Qed.

Lemma replace_iter_keys : forall (g : str -> option V) (l : ents),
  keys (map (fun kv => match g (fst kv) with Some r => (fst kv, r) | None => kv end) l) = keys l.
Proof.
  intros g l. unfold MapLib.keys. rewrite map_map. apply map_ext. intros [k v]. simpl. destruct (g k); reflexivity.
Qed.

Lemma replace_iter_assoc : forall (g : str -> option V) (l : ents) k,
  assoc k (map (fun kv => match g (fst kv) with Some r => (fst kv, r) | None => kv end) l)
  = match assoc k l with None => None | Some o => match g k with Some e => Some e | None => Some o end end.
Proof.
  intros g l k. induction l as [|[k' v'] l IH]; simpl; [reflexivity|].
  destruct (g k') eqn:G; simpl; destruct (str_eqb k k') eqn:E; try apply IH.
  - apply str_eqb_true in E. subst. rewrite G. reflexivity.
  - apply str_eqb_true in E. subst. rewrite G. reflexivity.
Qed.

(* the replacement map may be any storage: only its Get is consulted *)
Lemma coherent_replace : forall o rep d, coherent o -> coherent (SReplace o rep d).
Proof.
  intros o rep d [ND [SZ GE]]. unfold MapLib.coherent. cbn [MapLib.iter MapLib.size MapLib.get]. split; [|split].
  - rewrite replace_iter_keys. exact ND.
  - rewrite map_length. exact SZ.
  - intros k. rewrite replace_iter_assoc, GE. reflexivity.
Qed.

Lemma replace_iter_spec : forall o rep d, (forall k, get rep k = assoc k (iter rep)) ->
  iter (SReplace o rep d) = fm_replace V (iter o) (iter rep).
Proof.
  intros o rep d GE. cbn [MapLib.iter]. unfold fm_replace. apply map_ext. intros [k v]. simpl. rewrite GE. reflexivity.
Qed.

(* ---------------------------------------------------------------- operations *)

Local Notation rel := (rel V).

Lemma has_dup_false : forall l : list str, has_dup l = false <-> NoDup l.
Proof.
  induction l as [|k l IH]; simpl.
  - split; [constructor|reflexivity].
  - rewrite orb_false_iff, IH. split.
    + intros [H1 H2]. constructor; [|exact H2]. intros Hin.
      assert (existsb (str_eqb k) l = true) as C; [|congruence].
      apply existsb_exists. exists k. split; [exact Hin|apply str_eqb_refl].
    + intros H. inversion H as [|x xs Hk ND]; subst. split; [|exact ND].
      destruct (existsb (str_eqb k) l) eqn:E; [|reflexivity].
      apply existsb_exists in E. destruct E as [x [Hx Hx2]]. apply str_eqb_true in Hx2. subst. contradiction.
Qed.

Lemma literal_from_spec : forall (l acc : ents), NoDup (keys acc) ->
  literal_from V acc l = if has_dup (keys (acc ++ l)) then None else Some (acc ++ l).
Proof.
  induction l as [|[k v] l IH]; intros acc ND; simpl.
  - rewrite app_nil_r. destruct (has_dup (keys acc)) eqn:E; [|reflexivity].
    apply has_dup_false in ND. congruence.
  - unfold lm_get. destruct (is_some (assoc k acc)) eqn:E.
    + destruct (has_dup (keys (acc ++ (k, v) :: l))) eqn:D; [reflexivity|].
      apply has_dup_false in D. rewrite keys_app in D. simpl in D.
      assert (In k (keys acc)) as Hin.
      { destruct (assoc k acc) eqn:A; [|discriminate]. eapply in_keys. apply assoc_some_in. exact A. }
      exfalso. apply (nodup_app_disj _ _ k D Hin). left. reflexivity.
    + apply is_some_assoc in E. rewrite lm_append_fresh by exact E. rewrite IH.
      * rewrite <- app_assoc. reflexivity.
      * rewrite keys_app. simpl. apply nodup_app_intro; [exact ND|repeat constructor; intros []|].
        intros x [Hx|[]]. subst. exact E.
Qed.

Lemma literal_rel : forall l : ents, rel (literal V l) (fm_literal V l).
Proof.
  intros l. unfold literal, fm_literal. rewrite literal_from_spec by constructor. simpl.
  destruct (has_dup (keys l)) eqn:E; simpl; [exact I|].
  split; [|reflexivity]. apply coherent_list. apply has_dup_false. exact E.
Qed.

Lemma put_rel : forall s k v, coherent s -> rel (put V s k v) (fm_put V (iter s) k v).
Proof.
  intros s k v C. unfold put, fm_put. destruct C as [ND [SZ GE]]. rewrite <- GE.
  destruct (get s k) eqn:E; simpl; [exact I|].
  split; [|reflexivity]. apply coherent_append; [repeat split; assumption|exact E].
Qed.

Lemma merge_rel : forall a b, coherent a -> coherent b ->
  rel (merge V a b) (fm_merge V (iter a) (iter b)).
Proof.
  intros a b Ca Cb. unfold merge, fm_merge.
  assert (forall l : ents, existsb (fun kv => is_some (get a (fst kv))) l
                           = existsb (fun kv => is_some (assoc (fst kv) (iter a))) l) as EX.
  { intros l. destruct Ca as [_ [_ GE]]. induction l as [|kv l IHl]; simpl; [reflexivity|]. rewrite GE, IHl. reflexivity. }
  rewrite EX. destruct (existsb _ (iter b)) eqn:E; simpl; [exact I|].
  split; [|reflexivity]. apply coherent_merge; try assumption.
  intros k Hk. unfold MapLib.keys in Hk. apply in_map_iff in Hk. destruct Hk as [[k' v'] [Hk1 Hk2]]. simpl in Hk1. subst.
  rewrite <- EX in E. destruct (get a k) eqn:G; [|reflexivity].
  assert (existsb (fun kv => is_some (get a (fst kv))) (iter b) = true) as C; [|congruence].
  apply existsb_exists. exists (k, v'). split; [exact Hk2|]. simpl. rewrite G. reflexivity.
Qed.

Lemma create_flat_rel : forall o rep d, coherent o ->
  coherent (create_flat V (SReplace o rep d)) /\
  iter (create_flat V (SReplace o rep d)) = iter (SReplace o rep d).
Proof.
  intros o rep d C. pose proof (coherent_replace o rep d C) as [ND [SZ GE]].
  unfold create_flat. rewrite (collect_nodup _ ND).
  destruct (Nat.ltb 20 (size (SReplace o rep d))); split; try reflexivity.
  - apply coherent_real. exact ND.
  - apply coherent_list. exact ND.
Qed.

Lemma replace_rel : forall s r, coherent s -> coherent r ->
  rel (Some (replace V s r)) (Some (fm_replace V (iter s) (iter r))).
Proof.
  intros s r Cs Cr. simpl. unfold replace.
  assert (forall k, get r k = assoc k (iter r)) as GEr by apply Cr.
  destruct (N.leb 10 (N.max (depth_of V s) (depth_of V r))).
  - pose proof (create_flat_rel s r (N.max (depth_of V s) (depth_of V r) + 1) Cs) as [C E].
    split; [exact C|]. rewrite E. apply replace_iter_spec. exact GEr.
  - split; [apply coherent_replace; exact Cs|]. apply replace_iter_spec. exact GEr.
Qed.

Lemma eval_rel : forall s, coherent s -> rel (Some (eval V s)) (Some (iter s)).
Proof.
  intros s [ND [SZ GE]]. simpl. unfold eval. rewrite (collect_nodup _ ND).
  split; [apply coherent_real; exact ND|reflexivity].
Qed.

(* the loops of Map, Accept and Combine: on distinct keys the fresh ListMap receives the entries in order *)

Lemma fm_map_keys : forall f (m r : ents), fm_map V f m = Some r -> keys r = keys m.
Proof.
  induction m as [|[k v] m IH]; intros r H; simpl in H.
  - inversion H. reflexivity.
  - destruct (f k v); [|discriminate]. destruct (fm_map V f m) eqn:E; [|discriminate].
    simpl in H. inversion H. subst. simpl. f_equal. apply IH. reflexivity.
Qed.

Lemma map_loop_spec : forall f (es acc : ents), NoDup (keys (acc ++ es)) ->
  map_loop V f es acc = option_map (app acc) (fm_map V f es).
Proof.
  induction es as [|[k v] es IH]; intros acc ND; simpl.
  - rewrite app_nil_r. reflexivity.
  - destruct (f k v) as [w|]; [|reflexivity].
    assert (~ In k (keys acc)) as Hk.
    { rewrite keys_app in ND. simpl in ND. intros Hin. apply (nodup_app_disj _ _ k ND Hin). left. reflexivity. }
    rewrite lm_append_fresh by exact Hk. rewrite IH.
    + destruct (fm_map V f es); simpl; [|reflexivity]. rewrite <- app_assoc. reflexivity.
    + rewrite <- app_assoc. simpl. rewrite keys_app in *. simpl in *. exact ND.
Qed.

Lemma map_rel : forall s f, coherent s -> rel (map_m V s f) (fm_map V f (iter s)).
Proof.
  intros s f [ND [SZ GE]]. unfold map_m. rewrite map_loop_spec by exact ND.
  destruct (fm_map V f (iter s)) eqn:E; simpl; [|exact I].
  split; [|reflexivity]. apply coherent_list. rewrite (fm_map_keys _ _ _ E). exact ND.
Qed.

Lemma fm_accept_keys : forall p (m r : ents), fm_accept V p m = Some r -> forall k, In k (keys r) -> In k (keys m).
Proof.
  induction m as [|[k v] m IH]; intros r H x Hx; simpl in H.
  - inversion H. subst. exact Hx.
  - destruct (p k v) as [[|]|]; [| |discriminate].
    + destruct (fm_accept V p m) eqn:E; [|discriminate]. simpl in H. inversion H. subst. simpl in Hx.
      destruct Hx as [Hx|Hx]; [left; exact Hx|right; eapply IH; [reflexivity|exact Hx]].
    + right. eapply IH; eassumption.
Qed.

Lemma fm_accept_nodup : forall p (m r : ents), NoDup (keys m) -> fm_accept V p m = Some r -> NoDup (keys r).
Proof.
  induction m as [|[k v] m IH]; intros r ND H; simpl in H.
  - inversion H. constructor.
  - simpl in ND. inversion ND as [|x xs Hk ND']; subst.
    destruct (p k v) as [[|]|]; [| |discriminate].
    + destruct (fm_accept V p m) eqn:E; [|discriminate]. simpl in H. inversion H. subst. simpl.
      constructor; [|apply IH; [exact ND'|reflexivity]]. intros Hin. apply Hk. eapply fm_accept_keys; eassumption.
    + apply IH; assumption.
Qed.

Lemma accept_loop_spec : forall p (es acc : ents), NoDup (keys (acc ++ es)) ->
  accept_loop V p es acc = option_map (app acc) (fm_accept V p es).
Proof.
  induction es as [|[k v] es IH]; intros acc ND; simpl.
  - rewrite app_nil_r. reflexivity.
  - assert (~ In k (keys acc)) as Hk.
    { rewrite keys_app in ND. simpl in ND. intros Hin. apply (nodup_app_disj _ _ k ND Hin). left. reflexivity. }
    destruct (p k v) as [[|]|]; [| |reflexivity].
    + rewrite lm_append_fresh by exact Hk. rewrite IH.
      * destruct (fm_accept V p es); simpl; [|reflexivity]. rewrite <- app_assoc. reflexivity.
      * rewrite <- app_assoc. simpl. exact ND.
    + apply IH. rewrite keys_app in *. simpl in ND.
      apply nodup_app_intro.
      * eapply nodup_app_l. exact ND.
      * apply nodup_app_r in ND. inversion ND. assumption.
      * intros x Hx Hxa. apply (nodup_app_disj _ _ x ND Hxa). right. exact Hx.
Qed.

Lemma accept_rel : forall s p, coherent s -> rel (accept V s p) (fm_accept V p (iter s)).
Proof.
  intros s p [ND [SZ GE]]. unfold accept. rewrite accept_loop_spec by exact ND.
  destruct (fm_accept V p (iter s)) eqn:E; simpl; [|exact I].
  split; [|reflexivity]. apply coherent_list. eapply fm_accept_nodup; eassumption.
Qed.

Lemma fm_combine_keys : forall f (b m r : ents), fm_combine V f b m = Some r -> keys r = keys m.
Proof.
  induction m as [|[k v] m IH]; intros r H; simpl in H.
  - inversion H. reflexivity.
  - destruct (assoc k b); [|discriminate]. destruct (f v v0); [|discriminate].
    destruct (fm_combine V f b m) eqn:E; [|discriminate].
    simpl in H. inversion H. subst. simpl. f_equal. apply IH. reflexivity.
Qed.

Lemma combine_loop_spec : forall f other (es acc : ents), NoDup (keys (acc ++ es)) ->
  (forall k, get other k = assoc k (iter other)) ->
  combine_loop V f other es acc = option_map (app acc) (fm_combine V f (iter other) es).
Proof.
  induction es as [|[k v] es IH]; intros acc ND GE; simpl.
  - rewrite app_nil_r. reflexivity.
  - rewrite GE. destruct (assoc k (iter other)) as [o|]; [|reflexivity].
    destruct (f v o) as [w|]; [|reflexivity].
    assert (~ In k (keys acc)) as Hk.
    { rewrite keys_app in ND. simpl in ND. intros Hin. apply (nodup_app_disj _ _ k ND Hin). left. reflexivity. }
    rewrite lm_append_fresh by exact Hk. rewrite IH.
    + destruct (fm_combine V f (iter other) es); simpl; [|reflexivity]. rewrite <- app_assoc. reflexivity.
    + rewrite <- app_assoc. simpl. rewrite keys_app in *. simpl in *. exact ND.
    + exact GE.
Qed.

Lemma combine_rel : forall a b f, coherent a -> coherent b ->
  rel (combine V a b f) (fm_combine V f (iter b) (iter a)).
Proof.
  intros a b f [ND [SZ GE]] Cb. unfold combine. rewrite combine_loop_spec; [|exact ND|apply Cb].
  destruct (fm_combine V f (iter b) (iter a)) eqn:E; simpl; [|exact I].
  split; [|reflexivity]. apply coherent_list. rewrite (fm_combine_keys _ _ _ _ E). exact ND.
Qed.

(* ---------------------------------------------------------------- histories *)

Lemma handle_rel : forall e se, Forall2 rel e se -> forall h, rel (handle V e h) (shandle V se h).
Proof.
  intros e se F. induction F as [|a b e se Hab F IH]; intros h.
  - destruct h; exact I.
  - destruct h as [|h]; [|apply IH].
    unfold handle, shandle. simpl. destruct a, b; simpl in *; try exact Hab; contradiction.
Qed.

Definition host_ok (o : op V) : Prop := match o with OHost s => coherent s | _ => True end.

Lemma step_rel : forall e se o, Forall2 rel e se -> host_ok o -> rel (step V e o) (sstep V se o).
Proof.
  intros e se o F HO. pose proof (handle_rel e se F) as HR.
  destruct o as [l|s|h k v|h1 h2|h hr|h|h f|h p|h1 h2 f]; cbn [MapLib.step MapLib.sstep].
  - apply literal_rel.
  - simpl in *. split; [exact HO|reflexivity].
  - specialize (HR h). destruct (handle V e h), (shandle V se h); simpl in HR; try contradiction; [|exact I].
    destruct HR as [C E]. subst. apply put_rel. exact C.
  - pose proof (HR h1) as H1. pose proof (HR h2) as H2.
    destruct (handle V e h1), (shandle V se h1); simpl in H1; try contradiction; [|exact I].
    destruct (handle V e h2), (shandle V se h2); simpl in H2; try contradiction; [|exact I].
    destruct H1 as [C1 E1], H2 as [C2 E2]. subst. apply merge_rel; assumption.
  - pose proof (HR h) as H1. pose proof (HR hr) as H2.
    destruct (handle V e h), (shandle V se h); simpl in H1; try contradiction; [|exact I].
    destruct (handle V e hr), (shandle V se hr); simpl in H2; try contradiction; [|exact I].
    destruct H1 as [C1 E1], H2 as [C2 E2]. subst. apply replace_rel; assumption.
  - specialize (HR h). destruct (handle V e h), (shandle V se h); simpl in HR; try contradiction; [|exact I].
    destruct HR as [C E]. subst. apply eval_rel. exact C.
  - specialize (HR h). destruct (handle V e h), (shandle V se h); simpl in HR; try contradiction; [|exact I].
    destruct HR as [C E]. subst. apply map_rel. exact C.
  - specialize (HR h). destruct (handle V e h), (shandle V se h); simpl in HR; try contradiction; [|exact I].
    destruct HR as [C E]. subst. apply accept_rel. exact C.
  - pose proof (HR h1) as H1. pose proof (HR h2) as H2.
    destruct (handle V e h1), (shandle V se h1); simpl in H1; try contradiction; [|exact I].
    destruct (handle V e h2), (shandle V se h2); simpl in H2; try contradiction; [|exact I].
    destruct H1 as [C1 E1], H2 as [C2 E2]. subst. apply combine_rel; assumption.
Qed.

Lemma hosts_ok_cons : forall o r, hosts_ok V (o :: r) -> host_ok o /\ hosts_ok V r.
Proof. intros o r H. destruct o; simpl in *; try (split; [exact I|exact H]). exact H. Qed.

Lemma run_rel : forall ops e se, Forall2 rel e se -> hosts_ok V ops ->
  Forall2 rel (run V e ops) (srun V se ops).
Proof.
  induction ops as [|o ops IH]; intros e se F HO; simpl; [exact F|].
  apply hosts_ok_cons in HO. destruct HO as [HO1 HO2].
  apply IH; [|exact HO2]. apply Forall2_app; [exact F|].
  constructor; [|constructor]. apply step_rel; assumption.
Qed.

(* every history: the implementation model and the finite-map specification agree handle by handle *)
Theorem ops_preserve_coherent : forall ops, hosts_ok V ops ->
  Forall2 rel (run V [] ops) (srun V [] ops).
Proof. intros ops H. apply run_rel; [constructor|exact H]. Qed.

Corollary history_values_coherent : forall ops h s, hosts_ok V ops ->
  handle V (run V [] ops) h = Some s ->
  coherent s /\ shandle V (srun V [] ops) h = Some (iter s).
Proof.
  intros ops h s HO H. pose proof (handle_rel _ _ (ops_preserve_coherent ops HO) h) as R.
  rewrite H in R. destruct (shandle V (srun V [] ops) h); simpl in R; [|contradiction].
  destruct R as [C E]. subst. split; [exact C|reflexivity].
Qed.

(* ---------------------------------------------------------------- observers *)

Lemma insert_sorted_perm : forall k l, Permutation (insert_sorted k l) (k :: l).
Proof.
  induction l as [|x l IH]; simpl; [apply Permutation_refl|].
  destruct (str_leb k x); [apply Permutation_refl|].
  eapply Permutation_trans; [apply perm_skip; exact IH|apply perm_swap].
Qed.

Lemma sort_keys_perm : forall l, Permutation (sort_keys l) l.
Proof.
  induction l as [|k l IH]; simpl; [constructor|].
  eapply Permutation_trans; [apply insert_sorted_perm|apply perm_skip; exact IH].
Qed.

Lemma export_self : forall (m l : ents), (forall k v, In (k, v) l -> assoc k m = Some v) ->
  flat_map (fun k => match assoc k m with Some v => [(k, v)] | None => [] end) (keys l) = l.
Proof.
  induction l as [|[k v] l IH]; intros H; simpl; [reflexivity|].
  rewrite (H k v) by (left; reflexivity). simpl. f_equal. apply IH. intros k0 v0 H0. apply H. right. exact H0.
Qed.

Lemma export_keys : forall (m : ents) ks, (forall k, In k ks -> In k (keys m)) ->
  keys (flat_map (fun k => match assoc k m with Some v => [(k, v)] | None => [] end) ks) = ks.
Proof.
  induction ks as [|k ks IH]; intros H; simpl; [reflexivity|].
  rewrite keys_app. destruct (assoc k m) eqn:E.
  - simpl. f_equal. apply IH. intros k0 H0. apply H. right. exact H0.
  - exfalso. apply assoc_none in E. apply E. apply H. left. reflexivity.
Qed.

Lemma obs_export_spec : forall s, coherent s ->
  Permutation (obs_export V s) (iter s) /\ keys (obs_export V s) = sort_keys (keys (iter s)).
Proof.
  intros s [ND [SZ GE]]. unfold obs_export.
  assert (forall ks, flat_map (fun k => match get s k with Some v => [(k, v)] | None => [] end) ks
                     = flat_map (fun k => match assoc k (iter s) with Some v => [(k, v)] | None => [] end) ks) as EQ.
  { intros ks. induction ks as [|k ks IH]; simpl; [reflexivity|]. rewrite GE, IH. reflexivity. }
  rewrite EQ. split.
  - eapply Permutation_trans.
    + apply Permutation_flat_map. apply sort_keys_perm.
    + pose proof (export_self (iter s) (iter s)) as ES. unfold MapLib.keys in ES.
      rewrite ES; [apply Permutation_refl|]. intros k v H. apply assoc_in_nodup; assumption.
  - apply export_keys. intros k H. eapply Permutation_in; [apply sort_keys_perm|exact H].
Qed.

(* all observers are functions of the finite map iter s *)
Theorem observers_agree : forall s, coherent s ->
  obs_size V s = length (iter s)
  /\ obs_list V s = iter s
  /\ (forall k, obs_access V s k = fm_get V (iter s) k)
  /\ (forall k, obs_getm V s k = fm_get V (iter s) k)
  /\ (forall ks, obs_isavail V s ks = forallb (fun k => is_some (fm_get V (iter s) k)) ks)
  /\ (forall k, obs_contains V s k = is_some (fm_get V (iter s) k))
  /\ obs_string V vshow s = render V vshow (iter s)
  /\ (Permutation (obs_export V s) (iter s) /\ keys (obs_export V s) = sort_keys (keys (iter s)))
  /\ rel (map_m V s (fun _ v => Some v)) (Some (iter s))
  /\ rel (accept V s (fun _ _ => Some true)) (Some (iter s)).
Proof.
  intros s C. pose proof C as [ND [SZ GE]].
  unfold obs_size, obs_list, obs_access, obs_getm, obs_isavail, obs_contains, obs_string, fm_get.
  repeat split; try (intros; rewrite ?GE; reflexivity); try exact SZ.
  - intros ks. induction ks as [|k ks IH]; simpl; [reflexivity|]. rewrite GE, IH. reflexivity.
  - apply obs_export_spec. exact C.
  - apply obs_export_spec. exact C.
  - pose proof (map_rel s (fun _ v => Some v) C) as R.
    assert (fm_map V (fun _ v => Some v) (iter s) = Some (iter s)) as E.
    { clear. induction (iter s) as [|[k v] l IH]; simpl; [reflexivity|]. rewrite IH. reflexivity. }
    rewrite E in R. exact R.
  - pose proof (accept_rel s (fun _ _ => Some true) C) as R.
    assert (fm_accept V (fun _ _ => Some true) (iter s) = Some (iter s)) as E.
    { clear. induction (iter s) as [|[k v] l IH]; simpl; [reflexivity|]. rewrite IH. reflexivity. }
    rewrite E in R. exact R.
Qed.

(* ---------------------------------------------------------------- equality *)

Local Notation fm_equal := (fm_equal V veq).
Local Notation equals := (equals V veq).

Lemma equals_loop_true : forall (es : ents) b acc,
  equals_loop V veq es b acc = Some true <->
  acc = true /\ forall k v, In (k, v) es -> exists o, get b k = Some o /\ veq o v = Some true.
Proof.
  induction es as [|[k v] es IH]; intros b acc; simpl.
  - split; [intros H; inversion H; split; [reflexivity|intros k v []] | intros [H _]; subst; reflexivity].
  - destruct (get b k) as [o|] eqn:G.
    + destruct (veq o v) as [x|] eqn:E.
      * rewrite IH. split.
        -- intros [Hacc H]. apply andb_true_iff in Hacc. destruct Hacc as [Ha Hx]. subst. split; [reflexivity|].
           intros k0 v0 [H0|H0]; [inversion H0; subst; exists o; split; assumption|apply H; exact H0].
        -- intros [Hacc H]. subst. destruct (H k v (or_introl eq_refl)) as [o' [H1 H2]].
           assert (x = true) by congruence. subst. split; [reflexivity|].
           intros k0 v0 H0. apply H. right. exact H0.
      * split; [discriminate|]. intros [_ H]. destruct (H k v (or_introl eq_refl)) as [o' [H1 H2]]. congruence.
    + rewrite IH. split; [intros [C _]; discriminate|].
      intros [_ H]. destruct (H k v (or_introl eq_refl)) as [o' [H1 H2]]. congruence.
Qed.

(* the outcome is an error exactly when some entry meets an incomparable partner *)
Lemma equals_loop_err : forall (es : ents) b acc,
  equals_loop V veq es b acc = None <->
  exists k v o, In (k, v) es /\ get b k = Some o /\ veq o v = None.
Proof.
  induction es as [|[k v] es IH]; intros b acc; simpl.
  - split; [discriminate|intros [k [v [o [[] _]]]]].
  - destruct (get b k) as [o|] eqn:G.
    + destruct (veq o v) as [x|] eqn:E.
      * rewrite IH. split.
        -- intros [k0 [v0 [o0 [H0 H1]]]]. exists k0, v0, o0. split; [right; exact H0|exact H1].
        -- intros [k0 [v0 [o0 [[H0|H0] [H1 H2]]]]].
           ++ inversion H0; subst. congruence.
           ++ exists k0, v0, o0. repeat split; assumption.
      * split; [|reflexivity]. intros _. exists k, v, o. repeat split; [left; reflexivity|exact G|exact E].
    + rewrite IH. split.
      * intros [k0 [v0 [o0 [H0 H1]]]]. exists k0, v0, o0. split; [right; exact H0|exact H1].
      * intros [k0 [v0 [o0 [[H0|H0] [H1 H2]]]]].
        -- inversion H0; subst. congruence.
        -- exists k0, v0, o0. repeat split; assumption.
Qed.

(* the error condition on finite maps *)
Definition fm_equal_err (A B : ents) : Prop :=
  length A = length B /\ exists k v o, In (k, v) A /\ assoc k B = Some o /\ veq o v = None.

(* Map.Equals answers true exactly when the finite maps are equal *)
Lemma equals_true_iff : forall a b, coherent a -> coherent b ->
  (equals a b = Some true <-> fm_equal (iter a) (iter b)).
Proof.
  intros a b [NDa [SZa GEa]] [NDb [SZb GEb]]. unfold MapLib.equals, MapLib.fm_equal. rewrite SZa, SZb.
  destruct (Nat.eqb (length (iter a)) (length (iter b))) eqn:E.
  - apply Nat.eqb_eq in E. rewrite equals_loop_true. split.
    + intros [_ H]. split; [exact E|]. intros k v Hin. destruct (H k v Hin) as [o [H1 H2]]. exists o. rewrite <- GEb. split; assumption.
    + intros [_ H]. split; [reflexivity|]. intros k v Hin. destruct (H k v Hin) as [o [H1 H2]]. exists o. rewrite GEb. split; assumption.
  - apply Nat.eqb_neq in E. split; [discriminate|]. intros [H _]. contradiction.
Qed.

Lemma equals_err_iff : forall a b, coherent a -> coherent b ->
  (equals a b = None <-> fm_equal_err (iter a) (iter b)).
Proof.
  intros a b [NDa [SZa GEa]] [NDb [SZb GEb]]. unfold MapLib.equals, fm_equal_err. rewrite SZa, SZb.
  destruct (Nat.eqb (length (iter a)) (length (iter b))) eqn:E.
  - apply Nat.eqb_eq in E. rewrite equals_loop_err. split.
    + intros [k [v [o [H0 [H1 H2]]]]]. split; [exact E|]. exists k, v, o. rewrite <- GEb. repeat split; assumption.
    + intros [_ [k [v [o [H0 [H1 H2]]]]]]. exists k, v, o. rewrite GEb. repeat split; assumption.
  - apply Nat.eqb_neq in E. split; [discriminate|]. intros [H _]. contradiction.
Qed.

(* two outcomes with the same "true" and the same "error" condition are the same outcome *)
Lemma outcome_eq : forall x y : option bool,
  (x = Some true <-> y = Some true) -> (x = None <-> y = None) -> x = y.
Proof.
  intros [[|]|] [[|]|] H1 H2; try reflexivity;
    try (destruct H1 as [H1a H1b]; first [discriminate (H1a eq_refl) | discriminate (H1b eq_refl)]);
    try (destruct H2 as [H2a H2b]; first [discriminate (H2a eq_refl) | discriminate (H2b eq_refl)]).
Qed.

Lemma keys_length : forall l : ents, length (keys l) = length l.
Proof. intros. unfold MapLib.keys. apply map_length. Qed.

Lemma in_keys_ex : forall (l : ents) k, In k (keys l) -> exists v, In (k, v) l.
Proof.
  intros l k H. unfold MapLib.keys in H. apply in_map_iff in H. destruct H as [[k' v] [H1 H2]]. simpl in H1. subst.
  exists v. exact H2.
Qed.

(* equal maps have the same key set (pigeonhole on the sizes) *)
Lemma fm_equal_keys_back : forall A B : ents, NoDup (keys A) -> NoDup (keys B) -> fm_equal A B ->
  forall k, In k (keys B) -> In k (keys A).
Proof.
  intros A B NDa NDb [HL H] k Hk.
  assert (incl (keys A) (keys B)) as INC.
  { intros x Hx. apply in_keys_ex in Hx. destruct Hx as [v Hv]. destruct (H x v Hv) as [o [H1 _]].
    eapply in_keys. apply assoc_some_in. exact H1. }
  assert (length (keys B) <= length (keys A)) as LE by (rewrite !keys_length; lia).
  exact (NoDup_length_incl NDa LE INC k Hk).
Qed.

Lemma fm_equal_sym : (forall x y, veq x y = Some true -> veq y x = Some true) ->
  forall A B : ents, NoDup (keys A) -> NoDup (keys B) -> fm_equal A B -> fm_equal B A.
Proof.
  intros SYM A B NDa NDb HE. pose proof HE as [HL H]. split; [symmetry; exact HL|].
  intros k o Hin. pose proof (fm_equal_keys_back A B NDa NDb HE k (in_keys _ _ _ Hin)) as HkA.
  apply in_keys_ex in HkA. destruct HkA as [v Hv]. exists v. split; [apply assoc_in_nodup; assumption|].
  destruct (H k v Hv) as [o' [H1 H2]]. rewrite (assoc_in_nodup B k o NDb Hin) in H1. inversion H1. subst.
  apply SYM. exact H2.
Qed.

Lemma fm_equiv_length : forall A B : ents, NoDup (keys A) -> NoDup (keys B) -> fm_equiv V A B -> length A = length B.
Proof.
  intros A B NDa NDb HE. rewrite <- (keys_length A), <- (keys_length B). apply Permutation_length.
  apply NoDup_Permutation; try assumption. intros k.
  assert (forall L : ents, In k (keys L) <-> assoc k L <> None) as X.
  { intros L. pose proof (assoc_none L k) as Y. destruct (assoc k L).
    - split; [discriminate|]. intros _. destruct (in_dec (list_eq_dec N.eq_dec) k (keys L)) as [i|n]; [exact i|].
      apply Y in n. discriminate.
    - split; [|intros C; contradiction C; reflexivity]. intros Hin. exfalso. apply (proj1 Y eq_refl). exact Hin. }
  rewrite !X, (HE k). reflexivity.
Qed.

Lemma fm_equal_equiv_l : forall A A' B : ents, NoDup (keys A) -> NoDup (keys A') -> fm_equiv V A A' ->
  fm_equal A B -> fm_equal A' B.
Proof.
  intros A A' B ND ND' HE [HL H]. split; [rewrite <- (fm_equiv_length A A' ND ND' HE); exact HL|].
  intros k v Hin. apply H. apply assoc_some_in. rewrite (HE k). apply assoc_in_nodup; assumption.
Qed.

Lemma fm_equal_equiv_r : forall A B B' : ents, NoDup (keys B) -> NoDup (keys B') -> fm_equiv V B B' ->
  fm_equal A B -> fm_equal A B'.
Proof.
  intros A B B' ND ND' HE [HL H]. split; [rewrite <- (fm_equiv_length B B' ND ND' HE); exact HL|].
  intros k v Hin. destruct (H k v Hin) as [o [H1 H2]]. exists o. rewrite <- (HE k). split; assumption.
Qed.

Lemma fm_equiv_sym : forall A B : ents, fm_equiv V A B -> fm_equiv V B A.
Proof. intros A B H k. symmetry. apply H. Qed.

Lemma fm_equal_err_equiv_l : forall A A' B : ents, NoDup (keys A) -> NoDup (keys A') -> fm_equiv V A A' ->
  fm_equal_err A B -> fm_equal_err A' B.
Proof.
  intros A A' B ND ND' HE [HL [k [v [o [H0 [H1 H2]]]]]]. split; [rewrite <- (fm_equiv_length A A' ND ND' HE); exact HL|].
  exists k, v, o. repeat split; try assumption. apply assoc_some_in. rewrite <- (HE k). apply assoc_in_nodup; assumption.
Qed.

Lemma fm_equal_err_equiv_r : forall A B B' : ents, NoDup (keys B) -> NoDup (keys B') -> fm_equiv V B B' ->
  fm_equal_err A B -> fm_equal_err A B'.
Proof.
  intros A B B' ND ND' HE [HL [k [v [o [H0 [H1 H2]]]]]]. split; [rewrite <- (fm_equiv_length B B' ND ND' HE); exact HL|].
  exists k, v, o. rewrite <- (HE k). repeat split; assumption.
Qed.

(* = does not depend on the representation or the key order of either side: the whole outcome
   (true, false or the error of an incomparable pair) is the same *)
Theorem equality_representation_independent : forall a a' b b',
  coherent a -> coherent a' -> coherent b -> coherent b' ->
  fm_equiv V (iter a) (iter a') -> fm_equiv V (iter b) (iter b') ->
  equals a b = equals a' b'.
Proof.
  intros a a' b b' Ca Ca' Cb Cb' Ea Eb. apply outcome_eq.
  - rewrite (equals_true_iff a b Ca Cb), (equals_true_iff a' b' Ca' Cb').
    destruct Ca as [NDa _], Ca' as [NDa' _], Cb as [NDb _], Cb' as [NDb' _]. split; intros H.
    + apply (fm_equal_equiv_r _ (iter b)); try assumption. apply (fm_equal_equiv_l (iter a)); assumption.
    + apply (fm_equal_equiv_r _ (iter b')); try assumption; [apply fm_equiv_sym; exact Eb|].
      apply (fm_equal_equiv_l (iter a')); try assumption. apply fm_equiv_sym. exact Ea.
  - rewrite (equals_err_iff a b Ca Cb), (equals_err_iff a' b' Ca' Cb').
    destruct Ca as [NDa _], Ca' as [NDa' _], Cb as [NDb _], Cb' as [NDb' _]. split; intros H.
    + apply (fm_equal_err_equiv_r _ (iter b)); try assumption. apply (fm_equal_err_equiv_l (iter a)); assumption.
    + apply (fm_equal_err_equiv_r _ (iter b')); try assumption; [apply fm_equiv_sym; exact Eb|].
      apply (fm_equal_err_equiv_l (iter a')); try assumption. apply fm_equiv_sym. exact Ea.
Qed.

(* "true" is symmetric as soon as the element comparison's "true" is *)
Theorem equality_true_symmetric : (forall x y, veq x y = Some true -> veq y x = Some true) ->
  forall a b, coherent a -> coherent b -> equals a b = Some true -> equals b a = Some true.
Proof.
  intros SYM a b Ca Cb H. apply (equals_true_iff b a Cb Ca). apply (equals_true_iff a b Ca Cb) in H.
  destruct Ca as [NDa _], Cb as [NDb _]. apply fm_equal_sym; assumption.
Qed.

Lemma fm_equal_err_sym : (forall x y, veq x y = veq y x) ->
  forall A B : ents, NoDup (keys A) -> NoDup (keys B) -> fm_equal_err A B -> fm_equal_err B A.
Proof.
  intros SYM A B NDa NDb [HL [k [v [o [H0 [H1 H2]]]]]]. split; [symmetry; exact HL|].
  exists k, o, v. split; [apply assoc_some_in; exact H1|]. split; [apply assoc_in_nodup; assumption|].
  rewrite SYM. exact H2.
Qed.

(* with a symmetric element comparison the whole outcome - errors included - is symmetric:
   it does not matter which map is the receiver *)
Theorem equality_symmetric : (forall x y, veq x y = veq y x) ->
  forall a b, coherent a -> coherent b -> equals a b = equals b a.
Proof.
  intros SYM a b Ca Cb. apply outcome_eq.
  - split; apply equality_true_symmetric; try assumption; intros x y H; rewrite SYM; exact H.
  - rewrite (equals_err_iff a b Ca Cb), (equals_err_iff b a Cb Ca).
    destruct Ca as [NDa _], Cb as [NDb _]. split; apply fm_equal_err_sym; assumption.
Qed.

(* when the element comparison decides identity, = is true exactly for the same finite map *)
Theorem equality_is_same_map : (forall x y, veq x y = Some true <-> x = y) ->
  forall a b, coherent a -> coherent b -> (equals a b = Some true <-> fm_equiv V (iter a) (iter b)).
Proof.
  intros VEQ a b Ca Cb. rewrite (equals_true_iff a b Ca Cb).
  destruct Ca as [NDa _], Cb as [NDb _]. split.
  - intros HE k. pose proof HE as [HL H]. destruct (assoc k (iter a)) as [v|] eqn:E.
    + apply assoc_some_in in E. destruct (H k v E) as [o [H1 H2]]. apply VEQ in H2. subst. symmetry. exact H1.
    + symmetry. apply assoc_none. intros Hin. apply assoc_none in E. apply E.
      eapply fm_equal_keys_back; eassumption.
  - intros HE. split; [apply fm_equiv_length; assumption|].
    intros k v Hin. exists v. split; [rewrite <- (HE k); apply assoc_in_nodup; assumption|apply VEQ; reflexivity].
Qed.

(* ---------------------------------------------------------------- keys stay unique *)

Lemma put_present_fails : forall s k v, obs_contains V s k = true -> put V s k v = None.
Proof. intros s k v H. unfold put. unfold obs_contains in H. rewrite H. reflexivity. Qed.

Lemma merge_overlap_fails : forall a b k, obs_contains V a k = true -> In k (keys (iter b)) -> merge V a b = None.
Proof.
  intros a b k Ha Hb. unfold merge.
  assert (existsb (fun kv => is_some (get a (fst kv))) (iter b) = true) as E; [|rewrite E; reflexivity].
  apply in_keys_ex in Hb. destruct Hb as [v Hv]. apply existsb_exists. exists (k, v). split; [exact Hv|exact Ha].
Qed.

Lemma literal_dup_fails : forall l : ents, ~ NoDup (keys l) -> literal V l = None.
Proof.
  intros l H. pose proof (literal_rel l) as R. unfold fm_literal in R.
  destruct (has_dup (keys l)) eqn:E.
  - destruct (literal V l); [contradiction|reflexivity].
  - apply has_dup_false in E. contradiction.
Qed.

Theorem keys_stay_unique :
  (forall s k v, obs_contains V s k = true -> put V s k v = None)
  /\ (forall a b k, obs_contains V a k = true -> In k (keys (iter b)) -> merge V a b = None)
  /\ (forall l : ents, ~ NoDup (keys l) -> literal V l = None)
  /\ (forall ops h s, hosts_ok V ops -> handle V (run V [] ops) h = Some s -> NoDup (keys (iter s))).
Proof.
  split; [exact put_present_fails|]. split; [exact merge_overlap_fails|]. split; [exact literal_dup_fails|].
  intros ops h s HO H. apply (history_values_coherent ops h s HO H).
Qed.

(* ---------------------------------------------------------------- the iteration order of a Go map *)

Lemma assoc_perm : forall l l' : ents, NoDup (keys l) -> Permutation l l' -> forall k, assoc k l' = assoc k l.
Proof.
  intros l l' ND P k.
  assert (NoDup (keys l')) as ND'.
  { eapply Permutation_NoDup; [|exact ND]. unfold MapLib.keys. apply Permutation_map. exact P. }
  destruct (assoc k l) as [v|] eqn:E.
  - apply assoc_in_nodup; [exact ND'|]. eapply Permutation_in; [exact P|]. apply assoc_some_in. exact E.
  - apply assoc_none. intros Hin. apply assoc_none in E. apply E.
    eapply Permutation_in; [|exact Hin]. unfold MapLib.keys. apply Permutation_map. apply Permutation_sym. exact P.
Qed.

(* whatever order the runtime iterates a RealMap in: the storage is coherent and denotes the same finite map *)
Theorem real_order_irrelevant : forall l l' : ents, NoDup (keys l) -> Permutation l l' ->
  coherent (SReal l') /\ fm_equiv V (iter (SReal l')) (iter (SReal l)) /\ size (SReal l') = size (SReal l).
Proof.
  intros l l' ND P. split; [|split].
  - apply coherent_real. eapply Permutation_NoDup; [|exact ND]. unfold MapLib.keys. apply Permutation_map. exact P.
  - intros k. simpl. apply assoc_perm; assumption.
  - simpl. symmetry. apply Permutation_length. exact P.
Qed.

(* ---------------------------------------------------------------- persistence in branching histories *)

Lemma run_app : forall (o1 o2 : list (op V)) e, run V e (o1 ++ o2) = run V (run V e o1) o2.
Proof. induction o1 as [|o o1 IH]; intros o2 e; simpl; [reflexivity|apply IH]. Qed.

Lemma run_extends : forall (ops : list (op V)) e, exists t, run V e ops = e ++ t /\ length t = length ops.
Proof.
  induction ops as [|o ops IH]; intros e; simpl.
  - exists []. rewrite app_nil_r. split; reflexivity.
  - destruct (IH (e ++ [step V e o])) as [t [E L]]. exists (step V e o :: t).
    rewrite E, <- app_assoc. simpl. split; [reflexivity|rewrite L; reflexivity].
Qed.

Lemma run_length : forall (ops : list (op V)), length (run V [] ops) = length ops.
Proof. intros ops. destruct (run_extends ops []) as [t [E L]]. rewrite E. simpl. exact L. Qed.

(* a value, once built, is what it is: operations performed later - on it or on anything else -
   do not change the storage bound to an earlier handle *)
Theorem values_persistent : forall (ops later : list (op V)) h, h < length ops ->
  nth_error (run V [] (ops ++ later)) h = nth_error (run V [] ops) h.
Proof.
  intros ops later h H. rewrite run_app. destruct (run_extends later (run V [] ops)) as [t [E _]].
  rewrite E. apply nth_error_app1. rewrite run_length. exact H.
Qed.

(* in particular the result of m + x is the MergeMap of that step whatever is merged onto m later *)
Theorem merge_result_independent_of_later_merges : forall (ops later : list (op V)) a b,
  nth_error (run V [] (ops ++ OMerge a b :: later)) (length ops)
  = Some (step V (run V [] ops) (OMerge a b)).
Proof.
  intros ops later a b. rewrite run_app. cbn [MapLib.run].
  destruct (run_extends later (run V [] ops ++ [step V (run V [] ops) (OMerge a b)])) as [t [E _]].
  rewrite E, <- app_assoc. rewrite nth_error_app2 by (rewrite run_length; lia).
  rewrite run_length, Nat.sub_diag. reflexivity.
Qed.

(* ---------------------------------------------------------------- storages handed in by the host *)

Theorem host_storages_coherent :
  (forall l : ents, NoDup (keys l) -> coherent (SList l))
  /\ (forall l : ents, NoDup (keys l) -> coherent (SReal l))
  /\ (forall l : ents, NoDup (keys l) -> coherent (SWrap l))
  /\ (forall ismin vmin ismax vmax vstr, coherent (SBin ismin vmin ismax vmax vstr))
  /\ coherent SEmpty.
Proof.
  split; [exact coherent_list|]. split; [exact coherent_real|]. split; [exact coherent_wrap|].
  split; [exact coherent_bin|exact coherent_empty].
Qed.

(* a function map is coherent when its declared keys are distinct and are the only keys the function
   answers for; without that contract Get and Iter can disagree *)
Lemma func_storage_unrestricted_refuted : forall v : V,
  exists (ks : list str) (f : str -> option V), NoDup ks /\ ~ coherent (SFunc ks f).
Proof.
  intros v. exists [], (fun _ => Some v). split; [constructor|].
  intros [_ [_ GE]]. specialize (GE []). simpl in GE. discriminate.
Qed.

End Proofs.
