(* C07 - movingWindow: the loop of the implementation model against the documented model
   ("all items up to i whose key is close to item i's key") for keys that do not decrease.
   Keys live in an abstract ordered type K; far k_later k_earlier = "more than 1 apart". *)
From P2 Require Import Base.Prelude Sem.Num Sem.Syntax Sem.Ops Lib.Names Lib.Builtins Lib.ListLib.
From Coq Require Import Sorted Lia ZifyBool.

Section Pure.
Context {K : Type}.
Variable far : K -> K -> bool.
Variable leK : K -> K -> bool.
Hypothesis far_refl : forall a, far a a = false.
Hypothesis leK_trans : forall a b c, leK a b = true -> leK b c = true -> leK a c = true.
(* an item further to the left is at least as far away *)
Hypothesis far_left : forall a b c, leK a b = true -> leK b c = true -> far c b = true -> far c a = true.
(* what was too far from an earlier key stays too far from a later one *)
Hypothesis far_later : forall a b c, leK a b = true -> leK b c = true -> far b a = true -> far c a = true.

(* the Go loop without failures *)
Fixpoint pw_drop (val : K) (win : list (K * value)) : list (K * value) :=
  match win with
  | [] => []
  | (k, x) :: r => if far val k then pw_drop val r else win
  end.

Fixpoint pw_loop (win : list (K * value)) (l : list (K * value)) : list value :=
  match l with
  | [] => []
  | (k, x) :: r => let win' := pw_drop k (win ++ [(k, x)]) in VList (map snd win') :: pw_loop win' r
  end.

Definition close (a b : K) : bool := negb (far a b).

Definition sorted_keys (l : list (K * value)) : Prop := StronglySorted (fun a b => leK a b = true) (map fst l).

Lemma ss_app_inv : forall (R : K -> K -> Prop) l1 l2, StronglySorted R (l1 ++ l2) ->
  StronglySorted R l1 /\ StronglySorted R l2 /\ forall a b, In a l1 -> In b l2 -> R a b.
Proof.
  intros R. induction l1 as [|x l1 IH]; intros l2 H; cbn [app] in H.
  - repeat split; [constructor|exact H|intros a b []].
  - inversion H as [|? ? Hs Hf]; subst. destruct (IH l2 Hs) as [H1 [H2 H3]]. repeat split.
    + constructor; [exact H1|]. rewrite Forall_forall in *. intros y Hy. apply Hf. apply in_or_app. left. exact Hy.
    + exact H2.
    + intros a b [<-|Ha] Hb; [|apply H3; assumption]. rewrite Forall_forall in Hf. apply Hf. apply in_or_app. right. exact Hb.
Qed.

Lemma ss_filter : forall (p : K * value -> bool) w r,
  sorted_keys (w ++ r) -> sorted_keys (filter p w ++ r).
Proof.
  intros p. unfold sorted_keys. induction w as [|a w IH]; intros r H; cbn [filter app]; [exact H|].
  cbn [app map] in H. inversion H as [|? ? Hs Hf]; subst. specialize (IH r Hs).
  destruct (p a); [|exact IH]. cbn [app map]. constructor; [exact IH|].
  rewrite Forall_forall in *. intros y Hy. apply Hf. rewrite map_app in *. apply in_app_or in Hy.
  apply in_or_app. destruct Hy as [Hy|Hy]; [left|right; exact Hy].
  apply in_map_iff in Hy. destruct Hy as [z [<- Hz]]. apply filter_In in Hz. apply in_map. apply Hz.
Qed.

Lemma filter_filter_imp : forall (p q : K * value -> bool) w,
  (forall a, In a w -> q a = true -> p a = true) -> filter q (filter p w) = filter q w.
Proof.
  intros p q. induction w as [|a w IH]; intros H; cbn [filter]; [reflexivity|].
  assert (IH' : filter q (filter p w) = filter q w) by (apply IH; intros b Hb; apply H; right; exact Hb).
  destruct (p a) eqn:Ep; cbn [filter]; [rewrite IH'; reflexivity|].
  destruct (q a) eqn:Eq; [|exact IH']. rewrite (H a (or_introl eq_refl) Eq) in Ep. discriminate.
Qed.

(* dropping from the front of a list in which "not far" is upward closed = filtering *)
Lemma pw_drop_filter : forall k win,
  (forall pre a post, win = pre ++ a :: post -> far k (fst a) = false -> forall b, In b post -> far k (fst b) = false) ->
  pw_drop k win = filter (fun p => close k (fst p)) win.
Proof.
  intros k. induction win as [|[k0 x0] r IH]; intros H; cbn [pw_drop filter fst]; [reflexivity|].
  unfold close at 1. destruct (far k k0) eqn:E; cbn [negb].
  - apply IH. intros pre a post Hr Ha b Hb. eapply (H ((k0, x0) :: pre) a post); [rewrite Hr; reflexivity|exact Ha|exact Hb].
  - f_equal. symmetry. clear IH.
    assert (Hall : forall b, In b r -> far k (fst b) = false).
    { intros b Hb. eapply (H [] (k0, x0) r); [reflexivity|exact E|exact Hb]. }
    clear H. induction r as [|b r IHr]; [reflexivity|]. cbn [filter]. unfold close at 1.
    rewrite (Hall b (or_introl eq_refl)). cbn [negb]. f_equal. apply IHr. intros c Hc. apply Hall. right. exact Hc.
Qed.

(* the window only ever loses items that are far from every key still to come *)
Lemma pw_loop_spec : forall l seen win,
  sorted_keys (win ++ l) ->
  (forall k, In k (map fst l) -> filter (fun p => close k (fst p)) win = filter (fun p => close k (fst p)) seen) ->
  pw_loop win l = d_windows_from close seen l.
Proof.
  induction l as [|[k x] r IH]; intros seen win Hs Hinv; cbn [pw_loop d_windows_from]; [reflexivity|].
  set (win0 := win ++ [(k, x)]).
  assert (Hs0 : sorted_keys (win0 ++ r)) by (unfold win0; rewrite <- app_assoc; exact Hs).
  assert (Hs0' := Hs0). unfold sorted_keys in Hs0'. rewrite map_app in Hs0'.
  destruct (ss_app_inv _ _ _ Hs0') as [Hw0 [_ Hcross]].
  unfold win0 in Hw0. rewrite map_app in Hw0. cbn [map fst] in Hw0.
  destruct (ss_app_inv _ _ _ Hw0) as [Hwin [_ Hwk]].
  assert (Hle_k : forall a, In a win -> leK (fst a) k = true).
  { intros a Ha. apply Hwk; [apply in_map; exact Ha|left; reflexivity]. }
  (* the window of item k *)
  assert (Hdrop : pw_drop k win0 = filter (fun p => close k (fst p)) win0).
  { apply pw_drop_filter. intros pre a post Heq Ha b Hb.
    assert (Hin : In b win0) by (rewrite Heq; apply in_or_app; right; right; exact Hb).
    unfold win0 in Hin. apply in_app_or in Hin. destruct Hin as [Hin|[<-|[]]]; [|apply far_refl].
    (* a is left of b in win0 *)
    assert (Hss : StronglySorted (fun a b => leK a b = true) (map fst win0)).
    { unfold win0. rewrite map_app. exact Hw0. }
    rewrite Heq, map_app in Hss. cbn [map] in Hss. destruct (ss_app_inv _ _ _ Hss) as [_ [H2 _]].
    inversion H2 as [|? ? _ Hfa]; subst. rewrite Forall_forall in Hfa.
    assert (Hab : leK (fst a) (fst b) = true) by (apply Hfa; apply in_map; exact Hb).
    destruct (far k (fst b)) eqn:Eb; [|reflexivity].
    rewrite (far_left _ _ _ Hab (Hle_k b Hin) Eb) in Ha. discriminate. }
  rewrite Hdrop.
  assert (Hwin0 : filter (fun p => close k (fst p)) win0 = filter (fun p => close k (fst p)) (seen ++ [(k, x)])).
  { unfold win0. rewrite !filter_app. rewrite (Hinv k) by (left; reflexivity). reflexivity. }
  rewrite Hwin0. f_equal.
  apply IH.
  - rewrite <- Hwin0. apply ss_filter. exact Hs0.
  - intros k2 Hk2. rewrite <- Hwin0. rewrite filter_filter_imp.
    + unfold win0. rewrite !filter_app. rewrite (Hinv k2) by (right; exact Hk2). reflexivity.
    + intros a Ha Hq. unfold close in *. apply Bool.negb_true_iff in Hq. apply Bool.negb_true_iff.
      assert (Hkk2 : leK k k2 = true).
      { apply Hcross; [unfold win0; rewrite map_app; apply in_or_app; right; left; reflexivity|exact Hk2]. }
      unfold win0 in Ha. apply in_app_or in Ha. destruct Ha as [Ha|[<-|[]]]; [|apply far_refl].
      destruct (far k (fst a)) eqn:E; [|reflexivity].
      rewrite (far_later _ _ _ (Hle_k a Ha) Hkk2 E) in Hq. discriminate.
Qed.

(* movingWindow on keys that do not decrease: the loop answers, for every item, all items up to it
   whose key is close to its key *)
Theorem pw_loop_documented : forall kl, sorted_keys kl -> pw_loop [] kl = d_movingWindow close kl.
Proof.
  intros kl H. unfold d_movingWindow. apply pw_loop_spec; [exact H|reflexivity].
Qed.

End Pure.

(* ---------- the implementation model (float keys, exact comparison that may be undecided) ---------- *)
Section Model.
Context {K : Type}.
Variable far : K -> K -> bool.
Variable inj : K -> fl.
Hypothesis inj_far : forall a b, far_apart (inj a) (inj b) = Ok (far a b).

Definition injw (p : K * value) : fl * value := (inj (fst p), snd p).

Lemma drop_far_pure : forall k win, drop_far (inj k) (map injw win) = Ok (map injw (pw_drop far k win)).
Proof.
  intros k. induction win as [|[k0 x0] r IH]; cbn [map injw drop_far pw_drop fst snd]; [reflexivity|].
  rewrite inj_far. cbn [bind]. destruct (far k k0); [exact IH|reflexivity].
Qed.

Lemma mw_loop_pure : forall l win, mw_loop (map injw win) (map injw l) = Ok (pw_loop far win l).
Proof.
  induction l as [|[k x] r IH]; intros win; cbn [map injw mw_loop pw_loop fst snd]; [reflexivity|].
  change [(inj k, x)] with (map injw [(k, x)]). rewrite <- map_app, drop_far_pure. cbn [bind].
  rewrite IH. cbn [bind]. rewrite map_map. reflexivity.
Qed.

Variable leK : K -> K -> bool.
Hypothesis far_refl : forall a, far a a = false.
Hypothesis far_left : forall a b c, leK a b = true -> leK b c = true -> far c b = true -> far c a = true.
Hypothesis far_later : forall a b c, leK a b = true -> leK b c = true -> far b a = true -> far c a = true.

(* movingWindow, keys that do not decrease: the Go loop = the documented windows *)
Theorem movingWindow_nondecreasing : forall kl, sorted_keys leK kl ->
  mw_loop [] (map injw kl) = Ok (d_movingWindow (close far) kl).
Proof.
  intros kl H. change (@nil (fl * value)) with (map injw []). rewrite (mw_loop_pure kl []). f_equal.
  apply (pw_loop_documented far leK far_refl far_left far_later). exact H.
Qed.

End Model.

(* integer keys: |a - b| > 1 satisfies the three facts about "far" *)
Definition farZ (a b : Z) : bool := (1 <? Z.abs (a - b))%Z.

Theorem movingWindow_int_keys : forall kl : list (Z * value), sorted_keys Z.leb kl ->
  pw_loop farZ [] kl = d_movingWindow (close farZ) kl.
Proof.
  intros kl H. apply (pw_loop_documented farZ Z.leb); [| | |exact H]; unfold farZ; intros; lia.
Qed.

(* keys that go down: the loop never looks back before the previous window's start, the description
   ("all items that are close to each other") would: keys 0, 2, 1 *)
Definition doc_windows (f : cb1) (l : list value) : res (list value) :=
  bind (mw_keys f l) (fun kl =>
    Ok (d_movingWindow (fun a b => match far_apart a b with Ok false => true | _ => false end) kl)).

Theorem movingWindow_decreasing_refuted :
  exists l, m_movingWindow (fun x => Ok x) l <> doc_windows (fun x => Ok x) l.
Proof. exists [VInt 0; VInt 2; VInt 1]. vm_compute. discriminate. Qed.
