(* C07 - lemmas about the pipeline dispatcher of Run/C07Run.v: misuse is an error, the eager list
   methods, the string methods, and soundness of the method-table obligation. *)
From P2 Require Import Base.Prelude Sem.Num Sem.Syntax Sem.Ops Sem.Lib Lib.Names Lib.Builtins Lib.ListLib
  Lib.BuiltinsProofs Run.C07Run.
From Coq Require Import Lia ZifyBool.
Local Open Scope Z_scope.

(* ---------- eager list methods ---------- *)

Lemma reverse_rev : forall l, run_list (of_list l) M_reverse [] = Ok (PV (VList (d_reverse l))).
Proof. intros. cbn [run_list]. rewrite collect_of_list. reflexivity. Qed.

Lemma append_spec : forall l v, run_list (of_list l) M_append [AV v] = Ok (PV (VList (d_append l v))).
Proof. intros. cbn [run_list]. rewrite collect_of_list. reflexivity. Qed.

Lemma set_spec : forall l i v, m_set i v l = d_set i v l.
Proof.
  intros. unfold m_set, d_set.
  destruct ((i <? 0) || (Z.of_nat (length l) <=? i)) eqn:E1;
    destruct ((0 <=? i) && (i <? Z.of_nat (length l))) eqn:E2; try reflexivity; lia.
Qed.

(* set really replaces position i and nothing else *)
Lemma set_nth_expl : forall (l : list value) k v, (k < length l)%nat ->
  length (firstn k l ++ v :: skipn (S k) l) = length l /\
  nth_error (firstn k l ++ v :: skipn (S k) l) k = Some v /\
  forall j, j <> k -> nth_error (firstn k l ++ v :: skipn (S k) l) j = nth_error l j.
Proof.
  intros l k v Hk.
  assert (Hf : length (firstn k l) = k) by (rewrite firstn_length; lia).
  remember (skipn (S k) l) as sk eqn:Esk.
  assert (Hsk : (length sk = length l - S k)%nat) by (subst sk; apply skipn_length).
  split; [|split].
  - rewrite app_length. cbn [length]. lia.
  - rewrite nth_error_app2 by lia. rewrite Hf, Nat.sub_diag. reflexivity.
  - intros j Hj. destruct (Nat.ltb j k) eqn:Ej.
    + apply Nat.ltb_lt in Ej. rewrite nth_error_app1 by lia.
      symmetry. rewrite <- (firstn_skipn k l) at 1. rewrite nth_error_app1 by lia. reflexivity.
    + apply Nat.ltb_ge in Ej. rewrite nth_error_app2 by lia. rewrite Hf.
      destruct (j - k)%nat as [|d] eqn:Ed; [lia|]. cbn [nth_error].
      symmetry. rewrite <- (firstn_skipn (S k) l) at 1. rewrite <- Esk.
      rewrite nth_error_app2; rewrite firstn_length; [|lia].
      replace (j - Nat.min (S k) (length l))%nat with d by lia. reflexivity.
Qed.

Lemma set_nth : forall l i v out, d_set i v l = Ok out ->
  length out = length l /\ nth_error out (Z.to_nat i) = Some v /\
  forall j, j <> Z.to_nat i -> nth_error out j = nth_error l j.
Proof.
  intros l i v out H. unfold d_set in H.
  destruct ((0 <=? i) && (i <? Z.of_nat (length l))) eqn:E; [|discriminate]. injection H as <-.
  apply set_nth_expl. lia.
Qed.

(* ---------- misuse is an error ---------- *)

(* MethodCall: a call with the wrong number of arguments is an error *)
Lemma wrong_arity_is_error : forall p m args ar, is_pseudo m = false ->
  lookup_arity (tid_of p) m = Some ar -> 0 <= ar -> ar <> Z.of_nat (length args) ->
  run_step p m args = Err None.
Proof.
  intros p m args ar Hp H H0 Hne. unfold run_step. rewrite Hp, H.
  replace ((0 <=? ar) && negb (ar =? Z.of_nat (length args))) with true by lia. reflexivity.
Qed.

(* a method that does not exist for the receiver's type is an error *)
Lemma unknown_method_is_error : forall p m args, is_pseudo m = false ->
  lookup_arity (tid_of p) m = None -> is_unmodelled (tid_of p) m = false ->
  run_step p m args = Err None.
Proof. intros p m args Hp H1 H2. unfold run_step. rewrite Hp, H1, H2. reflexivity. Qed.

Definition cb1_methods : list meth :=
  [M_accept; M_map; M_minMax; M_indexWhere; M_present; M_groupByEqual; M_groupByInt; M_groupByString;
   M_uniqueInt; M_uniqueString; M_order; M_orderRev; M_movingWindow; M_movingWindowRemove].
Definition cb2_methods : list meth := [M_reduce; M_combine; M_compact; M_orderLess; M_fsm; M_number].

(* ToFunc: a value that is not a function, or a function with the wrong number of parameters *)
Lemma not_a_function_is_error : forall m, In m (cb1_methods ++ cb2_methods ++ [M_combine3]) ->
  forall s v, run_list s m [AV v] = Err None.
Proof.
  intros m H s v. cbn [cb1_methods cb2_methods app In] in H.
  repeat (destruct H as [<-|H]; [reflexivity|]). destruct H.
Qed.

Lemma callback_arity_is_error_1 : forall m, In m cb1_methods ->
  forall s n b, n <> 1%nat -> run_list s m [AF n b] = Err None.
Proof.
  intros m H s n b Hn. cbn [cb1_methods In] in H.
  destruct n as [|[|n]]; [|congruence|];
    repeat (destruct H as [<-|H]; [reflexivity|]); destruct H.
Qed.

Lemma callback_arity_is_error_2 : forall m, In m cb2_methods ->
  forall s n b, n <> 2%nat -> run_list s m [AF n b] = Err None.
Proof.
  intros m H s n b Hn. cbn [cb2_methods In] in H.
  destruct n as [|[|[|n]]]; [| |congruence|];
    repeat (destruct H as [<-|H]; [reflexivity|]); destruct H.
Qed.

(* a callback that does not return a bool where one is needed: the stage fails at that item *)
Lemma accept_wrong_result_is_error : forall f x v s,
  f x = Ok v -> (forall b, v <> VBool b) -> collect (s_accept f (SCons x s)) = Err None.
Proof.
  intros f x v s H Hv. cbn [s_accept]. rewrite H. cbn [as_bool bind].
  destruct v; try reflexivity. exfalso. eapply Hv. reflexivity.
Qed.

Lemma indexWhere_wrong_result_is_error : forall f x v s i,
  f x = Ok v -> (forall b, v <> VBool b) -> t_indexWhere f i (SCons x s) = Err None.
Proof.
  intros f x v s i H Hv. cbn [t_indexWhere]. rewrite H. cbn [as_bool bind].
  destruct v; try reflexivity. exfalso. eapply Hv. reflexivity.
Qed.

(* wrong argument type *)
Lemma top_skip_need_int : forall s v, (forall n, v <> VInt n) ->
  run_list s M_top [AV v] = Err None /\ run_list s M_skip [AV v] = Err None.
Proof.
  intros s v H. cbn [run_list with_int arg_val bind].
  destruct v; try (split; reflexivity). exfalso. eapply H. reflexivity.
Qed.

Lemma combineN_needs_positive : forall s n a, n < 1 -> run_list s M_combineN [AV (VInt n); a] = Err None.
Proof. intros s n a H. cbn [run_list with_int arg_val bind]. replace (n <? 1) with true by lia. reflexivity. Qed.

(* reductions of the empty list *)
Lemma empty_reductions_are_errors : forall f,
  t_reduce f SEnd = Err None /\ t_sum SEnd = Err None /\ t_mean SEnd = Err None /\
  t_min SEnd = Err None /\ t_max SEnd = Err None /\ t_first SEnd = Err None /\
  t_last SEnd = Err None /\ t_single SEnd = Err None.
Proof. intros. repeat split. Qed.

Lemma set_out_of_range_is_error : forall l i v, (i < 0 \/ Z.of_nat (length l) <= i) -> m_set i v l = Err None.
Proof.
  intros l i v H. unfold m_set.
  replace ((i <? 0) || (Z.of_nat (length l) <=? i)) with true by lia. reflexivity.
Qed.

(* ---------- string methods ---------- *)

Lemma utf8_len_app : forall a b, utf8_len (a ++ b) = utf8_len a + utf8_len b.
Proof. induction a as [|c a IH]; intros b; cbn [app utf8_len]; [reflexivity|]. rewrite IH. lia. Qed.

(* cut(p, n) on code points: skip p, take n; n <= 0 takes the rest; "" stays "" *)
Lemma cut_spec : forall s p n, 0 <= p ->
  str_cut s p n = if n <=? 0 then skipn (Z.to_nat p) s else firstn (Z.to_nat n) (skipn (Z.to_nat p) s).
Proof.
  intros s p n Hp. unfold str_cut. destruct s as [|c s].
  - rewrite skipn_nil, firstn_nil. destruct (n <=? 0); reflexivity.
  - cbv beta iota zeta. set (l := c :: s).
    assert (Hfin : forall s1 : str,
              (if n <=? 0 then s1 else if Z.of_nat (length s1) <=? n then s1 else firstn (Z.to_nat n) s1)
              = (if n <=? 0 then s1 else firstn (Z.to_nat n) s1)).
    { intros s1. destruct (n <=? 0) eqn:En; [reflexivity|].
      destruct (Z.of_nat (length s1) <=? n) eqn:E2; [|reflexivity].
      symmetry. apply firstn_all2. lia. }
    destruct (p <=? 0) eqn:E0.
    + replace (Z.to_nat p) with 0%nat by lia. cbn [skipn]. apply Hfin.
    + destruct (Z.of_nat (length l) <=? p) eqn:E1.
      * rewrite (skipn_all2 l) by lia. apply Hfin.
      * apply Hfin.
Qed.

Lemma cut_empty : forall p n, str_cut [] p n = [].
Proof. reflexivity. Qed.

Lemma is_prefix_app : forall p s, is_prefix p s = true -> exists post, s = p ++ post.
Proof.
  induction p as [|c p IH]; intros s H; [exists s; reflexivity|].
  destruct s as [|d s]; [discriminate|]. cbn [is_prefix] in H.
  apply Bool.andb_true_iff in H. destruct H as [H1 H2]. apply N.eqb_eq in H1. subst d.
  destruct (IH s H2) as [post ->]. exists post. reflexivity.
Qed.

(* indexOf answers the BYTE offset of an occurrence (the first one: index_of_first) *)
Lemma index_of_sound : forall p s off k, index_of s p off = k -> k <> -1 -> 0 <= off ->
  exists pre post, s = pre ++ p ++ post /\ k = off + utf8_len pre.
Proof.
  intros p. induction s as [|c s IH]; intros off k H Hk Hoff; cbn [index_of] in H.
  - destruct (is_prefix p []) eqn:E; [|congruence].
    destruct (is_prefix_app p [] E) as [post Ep]. exists [], post. cbn [app utf8_len]. split; [exact Ep|lia].
  - destruct (is_prefix p (c :: s)) eqn:E.
    + destruct (is_prefix_app p (c :: s) E) as [post Ep]. exists [], post. cbn [app utf8_len]. split; [exact Ep|lia].
    + assert (Hr : 0 < rune_len c) by (unfold rune_len; repeat destruct (_ <? _)%N; lia).
      destruct (IH (off + rune_len c) k H Hk ltac:(lia)) as [pre [post [Es Ek]]].
      exists (c :: pre), post. split; [cbn [app]; rewrite Es; reflexivity|].
      cbn [utf8_len]. unfold rune_len in *. lia.
Qed.

Lemma index_of_none : forall p s off, 0 <= off -> index_of s p off = -1 -> contains_str s p = false.
Proof.
  intros p. induction s as [|c s IH]; intros off Hoff H; cbn [index_of contains_str] in *.
  - destruct (is_prefix p []); [lia|reflexivity].
  - destruct (is_prefix p (c :: s)); [lia|]. cbn [orb].
    assert (Hr : 0 < rune_len c) by (unfold rune_len; repeat destruct (_ <? _)%N; lia).
    eapply IH; [|exact H]. lia.
Qed.

(* ---------- the method-table obligation ---------- *)

Theorem methods_match_sound : forall gen, methods_match gen = true ->
  (forall tid l n a, In (tid, l) model_methods -> In (n, a) l -> lookup_method gen tid n = Some a) /\
  (forall tid l n a, In (tid, l) gen -> In (n, a) l ->
     lookup_method model_methods tid n <> None \/ declared_unmodelled tid n = true).
Proof.
  intros gen H. unfold methods_match in H. apply Bool.andb_true_iff in H. destruct H as [H1 H2].
  rewrite forallb_forall in H1, H2. split.
  - intros tid l n a Hin Hna. specialize (H1 _ Hin). cbn [fst snd] in H1.
    rewrite forallb_forall in H1. specialize (H1 _ Hna). cbn [fst snd] in H1.
    destruct (lookup_method gen tid n) as [a'|]; [|discriminate]. f_equal. lia.
  - intros tid l n a Hin Hna. specialize (H2 _ Hin). cbn [fst snd] in H2.
    rewrite forallb_forall in H2. specialize (H2 _ Hna). cbn [fst snd] in H2.
    destruct (lookup_method model_methods tid n); [left; congruence|right; exact H2].
Qed.

(* ---------- minMax ---------- *)

(* the same value, or both a failure (which failure is reported first depends on the order of the
   callback calls and comparisons, which the documented model does not fix) *)
Definition same_outcome {A} (r1 r2 : res A) : Prop :=
  match r1, r2 with
  | Ok a, Ok b => a = b
  | Ok _, _ | _, Ok _ => False
  | _, _ => True
  end.

Lemma same_outcome_fail : forall A (r1 r2 : res A),
  (forall a, r1 <> Ok a) -> (forall a, r2 <> Ok a) -> same_outcome r1 r2.
Proof. intros A r1 r2 H1 H2. destruct r1 as [a| | | |]; [exfalso; eapply H1; reflexivity|..]; destruct r2 as [b| | | |]; try exact I; exfalso; eapply H2; reflexivity. Qed.

Definition minmax_spec_from (f : dcb1) (mn mx mni mxi : value) (r : list value) : res value :=
  bind (mapM f r) (fun ks =>
    bind (foldP d_pick_min (mn, mni) (combine ks r)) (fun a =>
    bind (foldP d_pick_max (mx, mxi) (combine ks r)) (fun b =>
    Ok (minmax_map (fst a) (fst b) (snd a) (snd b) true)))).

Lemma bind_not_ok : forall A B (r : res A) (k : A -> res B), (forall a, r <> Ok a) -> forall b, bind r k <> Ok b.
Proof. intros A B r k H b. destruct r as [a| | | |]; cbn [bind]; try discriminate. exfalso. eapply H. reflexivity. Qed.

Lemma minMax_from_spec : forall f r mn mx mni mxi,
  same_outcome (t_minMax_from f mn mx mni mxi (of_list r)) (minmax_spec_from f mn mx mni mxi r).
Proof.
  intros f. induction r as [|x r IH]; intros mn mx mni mxi.
  - reflexivity.
  - cbn [of_list t_minMax_from]. unfold minmax_spec_from. cbn [mapM].
    destruct (f x) as [k| | | |] eqn:Ef; cbn [bind]; try exact I.
    destruct (vless k mn) as [le| | | |] eqn:E1; cbn [bind].
    + destruct (vless mx k) as [gr| | | |] eqn:E2; cbn [bind].
      * specialize (IH (if le then k else mn) (if gr then k else mx) (if le then x else mni) (if gr then x else mxi)).
        unfold minmax_spec_from in IH.
        destruct (mapM f r) as [ks| | | |]; cbn [bind] in *; try exact IH.
        cbn [combine foldP]. unfold d_pick_min at 1, d_pick_max at 1. cbn [fst snd]. rewrite E1, E2. cbn [bind].
        destruct le, gr; exact IH.
      * apply same_outcome_fail; [discriminate|]. intros b.
        destruct (mapM f r) as [ks| | | |]; cbn [bind]; try discriminate.
        cbn [combine foldP]. unfold d_pick_min at 1, d_pick_max at 1. cbn [fst snd]. rewrite E1, E2. cbn [bind].
        destruct (foldP d_pick_min _ _); cbn [bind]; discriminate.
      * apply same_outcome_fail; [discriminate|]. intros b.
        destruct (mapM f r) as [ks| | | |]; cbn [bind]; try discriminate.
        cbn [combine foldP]. unfold d_pick_min at 1, d_pick_max at 1. cbn [fst snd]. rewrite E1, E2. cbn [bind].
        destruct (foldP d_pick_min _ _); cbn [bind]; discriminate.
      * apply same_outcome_fail; [discriminate|]. intros b.
        destruct (mapM f r) as [ks| | | |]; cbn [bind]; try discriminate.
        cbn [combine foldP]. unfold d_pick_min at 1, d_pick_max at 1. cbn [fst snd]. rewrite E1, E2. cbn [bind].
        destruct (foldP d_pick_min _ _); cbn [bind]; discriminate.
      * apply same_outcome_fail; [discriminate|]. intros b.
        destruct (mapM f r) as [ks| | | |]; cbn [bind]; try discriminate.
        cbn [combine foldP]. unfold d_pick_min at 1, d_pick_max at 1. cbn [fst snd]. rewrite E1, E2. cbn [bind].
        destruct (foldP d_pick_min _ _); cbn [bind]; discriminate.
    + apply same_outcome_fail; [discriminate|]. intros b.
      destruct (mapM f r) as [ks| | | |]; cbn [bind]; try discriminate.
      cbn [combine foldP]. unfold d_pick_min at 1. cbn [fst snd]. rewrite E1. cbn [bind]. discriminate.
    + apply same_outcome_fail; [discriminate|]. intros b.
      destruct (mapM f r) as [ks| | | |]; cbn [bind]; try discriminate.
      cbn [combine foldP]. unfold d_pick_min at 1. cbn [fst snd]. rewrite E1. cbn [bind]. discriminate.
    + apply same_outcome_fail; [discriminate|]. intros b.
      destruct (mapM f r) as [ks| | | |]; cbn [bind]; try discriminate.
      cbn [combine foldP]. unfold d_pick_min at 1. cbn [fst snd]. rewrite E1. cbn [bind]. discriminate.
    + apply same_outcome_fail; [discriminate|]. intros b.
      destruct (mapM f r) as [ks| | | |]; cbn [bind]; try discriminate.
      cbn [combine foldP]. unfold d_pick_min at 1. cbn [fst snd]. rewrite E1. cbn [bind]. discriminate.
Qed.

(* minMax: the implementation model and the documented model (first item with the minimal / maximal
   value of f) give the same map, or both fail *)
Theorem minMax_spec : forall f l, same_outcome (t_minMax f (of_list l)) (d_minMax f l).
Proof.
  intros f [|x r]; [reflexivity|]. cbn [of_list t_minMax]. unfold d_minMax. cbn [mapM].
  destruct (f x) as [k| | | |] eqn:Ef; cbn [bind]; try exact I.
  pose proof (minMax_from_spec f r k k x x) as H. unfold minmax_spec_from in H.
  destruct (mapM f r) as [ks| | | |]; cbn [bind] in *; exact H.
Qed.

(* ---------- multiUse = direct application of every function to the list ---------- *)
Lemma multi_apply_spec : forall l fs,
  multi_apply l fs =
  bind (mapM (fun kb => ceval [VList l] (snd kb)) fs) (fun vs => Ok (combine (map fst fs) vs)).
Proof.
  intros l. induction fs as [|[k b] r IH]; cbn [multi_apply mapM map fst snd bind]; [reflexivity|].
  destruct (ceval [VList l] b) as [v| | | |]; cbn [bind]; try reflexivity.
  rewrite IH. destruct (mapM (fun kb => ceval [VList l] (snd kb)) r); reflexivity.
Qed.

Theorem multiUse_spec : forall l fs, fs <> [] ->
  bind (run_list (of_list l) M_multiUse [AFM fs]) force = spec_list l M_multiUse [AFM fs].
Proof.
  intros l fs H. destruct fs as [|f r]; [congruence|]. cbn [run_list spec_list]. rewrite collect_of_list. cbn [bind].
  rewrite multi_apply_spec.
  destruct (mapM (fun kb => ceval [VList l] (snd kb)) (f :: r)); reflexivity.
Qed.

(* ---------- replaceList = the function applied to the list; eval = the list itself ---------- *)
Theorem replaceList_spec : forall l body,
  run_list (of_list l) M_replaceList [AF 1 body] = okV (ceval [VList l] body) /\
  bind (run_list (of_list l) M_replaceList [AF 1 body]) force = spec_list l M_replaceList [AF 1 body].
Proof.
  intros l body. cbn [run_list spec_list arg_f1 bind]. rewrite collect_of_list. split; [reflexivity|].
  destruct (ceval [VList l] body); reflexivity.
Qed.

Theorem list_eval_spec : forall l, run_list (of_list l) M_eval [] = Ok (PV (VList l)).
Proof. intros l. cbn [run_list]. rewrite collect_of_list. reflexivity. Qed.

(* map.replaceMap(f) is f applied to the map *)
Theorem replaceMap_spec : forall e body,
  run_map e M_replaceMap [AF 1 body] = okV (ceval [VMap e] body).
Proof. intros e body. reflexivity. Qed.
