(* Lazy lists of value/list.go + github.com/hneemann/iterator as pull streams with an effect log.

   Go side (push style, range-over-func): a list is a ListProducer; every stage wraps the producer of
   its parent and calls `yield(v, err)` for the elements it lets through; a consumer stops the whole
   chain by returning false from yield.  Model (pull style): one `next` of a pipeline asks every stage
   on the way down to the source for ONE step; a step is
       Done      the producer's loop ended (or a stage returned on its own: FirstN at i == n)
       Skip q    the parent produced an element but this stage's loop body did not call yield
                 (accept rejected it, skip is still skipping, combine has no pair yet, compact dropped it,
                  `+` switches to its second operand)
       Item v q  yield(v, nil)
       Fail e    yield(_, err): an error travelling down the chain.  Every consumer of the library
                 (First, Single, Present, IndexWhere, containsItem, Eval/Size, Reduce, ...) returns at
                 the first error, which stops all producers; what a stage would do if a consumer went on
                 after an error is therefore not modelled (Fail has no successor state).
   A stage's loop body runs once per element its parent yields, so "pulls before it checks" would be
   visible here exactly as in Go (combine needs two parent elements for its first item; skip n needs
   n+1); a stage that returns on its own does so through stage_done, before the parent is asked.

   Effects: a stage that invokes a closure appends `Ev id args` (the harness closures start with
   tick(id, x) / tick2(id, a, b), so the observed tick log is this log).  Closures are total functions
   into `res`; a closure that throws is a function returning Err.

   The second half of the file is the SPECIFICATION side: eager list semantics on source prefixes and
   the least prefix length that decides a consumer's result (what laziness demands).  No proofs here. *)
From P2 Require Import Base.Prelude.
Local Open Scope Z_scope.

(* ------------------------------------------------------------------ results, events *)

Inductive res (A : Type) : Type := Ok (a : A) | Err (e : N).
Arguments Ok {A} a.
Arguments Err {A} e.

(* error codes (never compared with the implementation's message text; ok-vs-error only) *)
Definition e_throw : N := 1.        (* error returned by a closure *)
Definition e_empty : N := 2.        (* first/single/reduce on an empty list *)
Definition e_many : N := 3.         (* single: more than one item *)
Definition e_state : N := 99.       (* ill-formed model state (excluded by init) *)

Inductive event := Ev (id : N) (args : list Z).
Definition log := list event.

Definition fn1 := Z -> res Z.
Definition fn2 := Z -> Z -> res Z.
Definition pr1 := Z -> res bool.
Definition pr2 := Z -> Z -> res bool.

(* ------------------------------------------------------------------ pipelines *)

Inductive stage :=
| SMap (id : N) (f : fn1)                       (* List.Map      -> iterator.MapAuto (sequential branch) / Map *)
| SAccept (id : N) (p : pr1)                    (* List.Accept   -> iterator.FilterAuto / Filter *)
| SCombine (id : N) (g : fn2)                   (* List.Combine  -> iterator.Combine:  g(last, current) *)
| SNumber (id : N) (g : fn2)                    (* List.Number:  g(n, value), n counts from 0 *)
| SIir (id0 : N) (f0 : fn1) (id : N) (g : fn2)  (* List.IIr      -> iterator.IirMap: f0(first), g(item, lastResult) *)
| SCompact (id : N) (eq : pr2)                  (* List.Compact: eq(lastPublished, v) *)
| SSkip (n : Z)                                 (* List.Skip     -> iterator.Skip *)
| STop (n : Z).                                 (* List.Top      -> firstN (value/list.go) *)

Inductive pipe :=
| PNumbers (n : Z)                              (* numbers(n): iterator.Generate, a counter, not a slice *)
| PList (l : list Z)                            (* a literal list: createSliceIterable *)
| PStage (s : stage) (p : pipe)
| PApp (p q : pipe)                             (* list + list: iterator.Append *)
| PCross (id : N) (g : fn2) (p q : pipe)        (* p.cross(q, g): iterator.Cross: for a in p { for b in q { yield g(a,b) } } *)
| PMerge (id : N) (less : pr2) (p q : pipe)     (* p.merge(q, less): iterator.Merge (sequential abstraction, see next) *)
| PThrough (ctx : N) (p : pipe).                (* the list passes through a language construct that must not consume it:
                                                   try .. catch, let, if/then/else, switch, a closure or func that returns
                                                   its argument, a map field, a list element, a host function argument
                                                   (ctx only names the construct; the list value is handed on unchanged) *)

(* local state of one stage: a counter and up to two remembered values *)
Record sst := mk_sst { cnt : Z; lastv : option Z; lastr : option Z }.
Definition sst0 := mk_sst 0 None None.

Inductive pstate :=
| QNum (i : Z)
| QList (rest : list Z)
| QStage (s : sst) (q : pstate)
| QApp (right : bool) (q1 q2 : pstate)
| QCross (row : option Z) (q1 q2 : pstate)      (* row: the element of the first list the inner loop runs for *)
| QMerge (ea eb : bool) (a b : option Z) (q1 q2 : pstate).   (* side ended; element of each side waiting to be compared *)

Inductive step := Done | Skip (q : pstate) | Item (v : Z) (q : pstate) | Fail (e : N).

Definition eff (A : Type) : Type := (log * A)%type.

(* Building a pipeline: what the method calls Map/Accept/Top/... do.  They check the closure's arity and
   wrap the parent's producer in a new closure; no producer is run, so the log is empty by construction
   (the correspondence run observes exactly this on the implementation: zero ticks after Generate+call
   of an expression whose value is an unconsumed list). *)
Fixpoint init (p : pipe) : pstate :=
  match p with
  | PNumbers _ => QNum 0
  | PList l => QList l
  | PStage _ p' => QStage sst0 (init p')
  | PApp p1 p2 => QApp false (init p1) (init p2)
  | PCross _ _ p1 p2 => QCross None (init p1) (init p2)
  | PMerge _ _ p1 p2 => QMerge false false None None (init p1) (init p2)
  | PThrough _ p' => init p'
  end.

Definition build (p : pipe) : eff pstate := ([], init p).

(* What a stage does with an element v its parent yielded (upstream log l already produced).
   q' is the parent's successor state. *)
Definition stage_item (s : stage) (ss : sst) (l : log) (v : Z) (q' : pstate) : eff step :=
  match s with
  | SMap id f =>
      (* o, err = mapper(i, item); yield(o, err); i++  (the index is not passed to the closure) *)
      match f v with
      | Ok o => (l ++ [Ev id [v]], Item o (QStage ss q'))
      | Err e => (l ++ [Ev id [v]], Fail e)
      end
  | SAccept id p =>
      (* acc, err = accept(i); if acc || err != nil { yield(i, err) } *)
      match p v with
      | Ok true => (l ++ [Ev id [v]], Item v (QStage ss q'))
      | Ok false => (l ++ [Ev id [v]], Skip (QStage ss q'))
      | Err e => (l ++ [Ev id [v]], Fail e)
      end
  | SCombine id g =>
      (* if isValue { o, err = combine(last, i); yield(o, err) } else { isValue = true }; last = i *)
      match lastv ss with
      | Some a =>
          match g a v with
          | Ok o => (l ++ [Ev id [a; v]], Item o (QStage (mk_sst (cnt ss) (Some v) (lastr ss)) q'))
          | Err e => (l ++ [Ev id [a; v]], Fail e)
          end
      | None => (l, Skip (QStage (mk_sst (cnt ss) (Some v) (lastr ss)) q'))
      end
  | SNumber id g =>
      (* st.Push(n); st.Push(value); n++; v, err = f(...); yield(v, err) *)
      match g (cnt ss) v with
      | Ok o => (l ++ [Ev id [cnt ss; v]], Item o (QStage (mk_sst (cnt ss + 1) (lastv ss) (lastr ss)) q'))
      | Err e => (l ++ [Ev id [cnt ss; v]], Fail e)
      end
  | SIir id0 f0 id g =>
      (* if isLast { last, err = iir(i, lastItem, last) } else { last, err = initial(i); isLast = true }
         lastItem = i; yield(last, err) *)
      match lastr ss with
      | Some r =>
          match g v r with
          | Ok o => (l ++ [Ev id [v; r]], Item o (QStage (mk_sst (cnt ss) (Some v) (Some o)) q'))
          | Err e => (l ++ [Ev id [v; r]], Fail e)
          end
      | None =>
          match f0 v with
          | Ok o => (l ++ [Ev id0 [v]], Item o (QStage (mk_sst (cnt ss) (Some v) (Some o)) q'))
          | Err e => (l ++ [Ev id0 [v]], Fail e)
          end
      end
  | SCompact id eq =>
      (* if lastPublished == nil { lastPublished = v; yield(v) }
         else { eq, err = f(lastPublished, v); err -> yield(v, err); !eq -> lastPublished = v; yield(v) } *)
      match lastv ss with
      | None => (l, Item v (QStage (mk_sst (cnt ss) (Some v) (lastr ss)) q'))
      | Some a =>
          match eq a v with
          | Ok false => (l ++ [Ev id [a; v]], Item v (QStage (mk_sst (cnt ss) (Some v) (lastr ss)) q'))
          | Ok true => (l ++ [Ev id [a; v]], Skip (QStage ss q'))
          | Err e => (l ++ [Ev id [a; v]], Fail e)
          end
      end
  | SSkip n =>
      (* if i < n { i++ } else { yield(v) } *)
      if cnt ss <? n then (l, Skip (QStage (mk_sst (cnt ss + 1) (lastv ss) (lastr ss)) q'))
      else (l, Item v (QStage ss q'))
  | STop n =>
      (* yield(v); i++; if i == n { return }      -- the return is stage_done at the next step *)
      (l, Item v (QStage (mk_sst (cnt ss + 1) (lastv ss) (lastr ss)) q'))
  end.

(* A stage that returns on its own before asking its parent again: value/list.go firstN (List.Top)
   returns at once for n == 0 and right after the n-th yield (i == n).  (Until the repair "fix: top(n)
   stops after the n-th element" List.Top used iterator.FirstN, which asks the parent for element n+1
   and only then tests i == n: behind accept/compact that element may never come and the whole source
   is scanned; see known_findings.json.)  A negative n never matches: everything passes. *)
Definition stage_done (s : stage) (ss : sst) : bool :=
  match s with
  | STop n => cnt ss =? n
  | _ => false
  end.

Fixpoint next (p : pipe) (q : pstate) {struct p} : eff step :=
  match p, q with
  | PNumbers n, QNum i =>
      (* for i := 0; i < n; i++ { yield(gen(i)) } *)
      if i <? n then ([], Item i (QNum (i + 1))) else ([], Done)
  | PList _, QList rest =>
      match rest with
      | [] => ([], Done)
      | x :: r => ([], Item x (QList r))
      end
  | PStage s p', QStage ss q' =>
      if stage_done s ss then ([], Done) else
      match next p' q' with
      | (l, Done) => (l, Done)
      | (l, Skip q'') => (l, Skip (QStage ss q''))
      | (l, Item v q'') => stage_item s ss l v q''
      | (l, Fail e) => (l, Fail e)          (* every stage passes an error on: yield(_, err) *)
      end
  | PApp p1 p2, QApp false q1 q2 =>
      match next p1 q1 with
      | (l, Done) => (l, Skip (QApp true q1 q2))
      | (l, Skip q1') => (l, Skip (QApp false q1' q2))
      | (l, Item v q1') => (l, Item v (QApp false q1' q2))
      | (l, Fail e) => (l, Fail e)
      end
  | PApp p1 p2, QApp true q1 q2 =>
      match next p2 q2 with
      | (l, Done) => (l, Done)
      | (l, Skip q2') => (l, Skip (QApp true q1 q2'))
      | (l, Item v q2') => (l, Item v (QApp true q1 q2'))
      | (l, Fail e) => (l, Fail e)
      end
  (* iterator.Cross: the second list is iterated from its beginning once for every element of the
     first one, element by element: column j of the second list is produced only when a row reaches
     column j.  (for i1v := range i1 { for i2v := range i2 { o, err = crossFunc(i1v, i2v); yield(o, err) } }) *)
  | PCross id g p1 p2, QCross None q1 q2 =>
      match next p1 q1 with
      | (l, Done) => (l, Done)
      | (l, Skip q1') => (l, Skip (QCross None q1' q2))
      | (l, Item a q1') => (l, Skip (QCross (Some a) q1' (init p2)))   (* the inner loop starts: i2 is called anew *)
      | (l, Fail e) => (l, Fail e)
      end
  | PCross id g p1 p2, QCross (Some a) q1 q2 =>
      match next p2 q2 with
      | (l, Done) => (l, Skip (QCross None q1 q2))                     (* row finished: next element of the first list *)
      | (l, Skip q2') => (l, Skip (QCross (Some a) q1 q2'))
      | (l, Item b q2') =>
          match g a b with
          | Ok o => (l ++ [Ev id [a; b]], Item o (QCross (Some a) q1 q2'))
          | Err e => (l ++ [Ev id [a; b]], Fail e)
          end
      | (l, Fail e) => (l, Fail e)
      end
  (* iterator.Merge as List.Merge uses it (both lists wrapped in stopWhen).  Sequential abstraction: an
     element is fetched from a side only when that side has none waiting; the implementation reads each
     side through a goroutine (iterator.ToChan) that is one element ahead, and reports an error of one side
     when the elements are compared (after fetching the other side's element); the harness therefore judges
     merge by counts with that read-ahead, not event by event.
       if !isA { a, isA = <-aMain; if !isA { if isB { yield(b) }; copyValues(bMain, yield); return } }   (same for b)
       lessA, err = less(a, b); if lessA { yield(a, err); isA = false } else { yield(b, err); isB = false } *)
  | PMerge id less p1 p2, QMerge ea eb a b q1 q2 =>
      match a, ea with
      | None, false =>
          match next p1 q1 with
          | (l, Done) => (l, Skip (QMerge true eb None b q1 q2))
          | (l, Skip q1') => (l, Skip (QMerge ea eb None b q1' q2))
          | (l, Item x q1') => (l, Skip (QMerge ea eb (Some x) b q1' q2))
          | (l, Fail e) => (l, Fail e)
          end
      | _, _ =>
          match b, eb with
          | None, false =>
              match next p2 q2 with
              | (l, Done) => (l, Skip (QMerge ea true a None q1 q2))
              | (l, Skip q2') => (l, Skip (QMerge ea eb a None q1 q2'))
              | (l, Item y q2') => (l, Skip (QMerge ea eb a (Some y) q1 q2'))
              | (l, Fail e) => (l, Fail e)
              end
          | _, _ =>
              match a, b with
              | Some x, Some y =>
                  match less x y with
                  | Ok true => ([Ev id [x; y]], Item x (QMerge ea eb None b q1 q2))
                  | Ok false => ([Ev id [x; y]], Item y (QMerge ea eb a None q1 q2))
                  | Err e => ([Ev id [x; y]], Fail e)
                  end
              | Some x, None => ([], Item x (QMerge ea eb None None q1 q2))   (* the other side has ended *)
              | None, Some y => ([], Item y (QMerge ea eb None None q1 q2))
              | None, None => ([], Done)
              end
          end
      end
  | PThrough _ p', _ => next p' q          (* identity: the construct returns the *List it was given *)
  | _, _ => ([], Fail e_state)
  end.

(* ------------------------------------------------------------------ consumers *)

Inductive term :=
| TNone                                 (* the list is returned unconsumed *)
| TFirst                                (* List.First *)
| TSingle                               (* List.Single *)
| TSize                                 (* List.Size -> Eval: collects everything *)
| TPresent (id : N) (p : pr1)           (* List.Present *)
| TIndexWhere (id : N) (p : pr1)        (* List.IndexWhere *)
| TContains (x : Z)                     (* x ~ list -> containsItem (no closure) *)
| TReduce (id : N) (g : fn2).           (* List.Reduce -> iterator.Reduce: g(sum, v) *)

Inductive outcome := OInt (v : Z) | OBool (b : bool) | OErr (e : N) | OList | OutOfFuel.

(* consumer state: a counter and an optional remembered value *)
Record tst := mk_tst { tcnt : Z; tacc : option Z }.
Definition tst0 := mk_tst 0 None.

Inductive tres := TCont (s : tst) | TStop (o : outcome).

(* loop body of the consumer for an element v (err == nil) *)
Definition term_item (t : term) (s : tst) (v : Z) : eff tres :=
  match t with
  | TNone => ([], TStop OList)
  | TFirst => ([], TStop (OInt v))                                        (* return v, err *)
  | TSingle =>
      match tacc s with
      | Some _ => ([], TStop (OErr e_many))                               (* if found { return error } *)
      | None => ([], TCont (mk_tst (tcnt s) (Some v)))
      end
  | TSize => ([], TCont (mk_tst (tcnt s + 1) (tacc s)))                   (* it = append(it, v) *)
  | TPresent id p =>
      match p v with
      | Ok true => ([Ev id [v]], TStop (OBool true))
      | Ok false => ([Ev id [v]], TCont s)
      | Err e => ([Ev id [v]], TStop (OErr e))
      end
  | TIndexWhere id p =>
      match p v with
      | Ok true => ([Ev id [v]], TStop (OInt (tcnt s)))
      | Ok false => ([Ev id [v]], TCont (mk_tst (tcnt s + 1) (tacc s)))
      | Err e => ([Ev id [v]], TStop (OErr e))
      end
  | TContains x => if x =? v then ([], TStop (OBool true)) else ([], TCont s)
  | TReduce id g =>
      match tacc s with
      | None => ([], TCont (mk_tst (tcnt s) (Some v)))
      | Some a =>
          match g a v with
          | Ok o => ([Ev id [a; v]], TCont (mk_tst (tcnt s) (Some o)))
          | Err e => ([Ev id [a; v]], TStop (OErr e))
          end
      end
  end.

(* the producer's loop ended *)
Definition term_done (t : term) (s : tst) : outcome :=
  match t with
  | TNone => OList
  | TFirst => OErr e_empty
  | TSingle => match tacc s with Some v => OInt v | None => OErr e_empty end
  | TSize => OInt (tcnt s)
  | TPresent _ _ => OBool false
  | TIndexWhere _ _ => OInt (-1)
  | TContains _ => OBool false
  | TReduce _ _ => match tacc s with Some v => OInt v | None => OErr e_empty end
  end.

(* result of running a consumer: log, outcome, number of steps asked from the pipeline *)
Definition runres := (log * outcome * nat)%type.

Fixpoint loop (fuel : nat) (p : pipe) (t : term) (q : pstate) (s : tst) : runres :=
  match fuel with
  | O => ([], OutOfFuel, O)
  | S f =>
      match next p q with
      | (l, Done) => (l, term_done t s, 1%nat)
      | (l, Fail e) => (l, OErr e, 1%nat)
      | (l, Skip q') =>
          match loop f p t q' s with (l', o, n) => (l ++ l', o, S n) end
      | (l, Item v q') =>
          match term_item t s v with
          | (l1, TStop o) => (l ++ l1, o, 1%nat)
          | (l1, TCont s') =>
              match loop f p t q' s' with (l', o, n) => (l ++ l1 ++ l', o, S n) end
          end
      end
  end.

(* the sequential meaning of `source -> stages -> consumer` *)
Definition run (fuel : nat) (t : term) (p : pipe) : runres :=
  match t with
  | TNone => (fst (build p), OList, O)
  | _ => loop fuel p t (snd (build p)) tst0
  end.

(* ------------------------------------------------------------------ multiUse (one consumer)
   List.MultiUse hands the list to its consumers through iterator.CopyProducer: `run` pulls an element
   from the pipeline and then offers it to every consumer that has not stopped.  Sequential abstraction
   for one consumer: when the consumer has stopped (returned from its loop), `run` is already asking
   the pipeline for the NEXT element and notices only when it tries to hand it over.  That read-ahead
   is one element of multiUse's input: the pipeline is stepped until it yields again (or ends/fails).
   The goroutine interleaving is not modelled; only the demand is (judged by counts in the harness). *)
Fixpoint drain (fuel : nat) (p : pipe) (q : pstate) : log * nat :=
  match fuel with
  | O => ([], O)
  | S f =>
      match next p q with
      | (l, Skip q') => let (l', n) := drain f p q' in (l ++ l', S n)
      | (l, _) => (l, 1%nat)
      end
  end.

Fixpoint loop_ra (fuel : nat) (p : pipe) (t : term) (q : pstate) (s : tst) : runres :=
  match fuel with
  | O => ([], OutOfFuel, O)
  | S f =>
      match next p q with
      | (l, Done) => (l, term_done t s, 1%nat)
      | (l, Fail e) => (l, OErr e, 1%nat)
      | (l, Skip q') =>
          match loop_ra f p t q' s with (l', o, n) => (l ++ l', o, S n) end
      | (l, Item v q') =>
          match term_item t s v with
          | (l1, TStop o) => let (l2, n2) := drain f p q' in (l ++ l1 ++ l2, o, S n2)
          | (l1, TCont s') =>
              match loop_ra f p t q' s' with (l', o, n) => (l ++ l1 ++ l', o, S n) end
          end
      end
  end.

Definition run_multi1 (fuel : nat) (t : term) (p : pipe) : runres := loop_ra fuel p t (init p) tst0.

(* ------------------------------------------------------------------ counting *)

Definition ev_is (id : N) (e : event) : bool := match e with Ev i _ => N.eqb i id end.
Definition count (id : N) (l : log) : nat := length (filter (ev_is id) l).

Definition b2n (b : bool) : nat := if b then 1%nat else 0%nat.

Definition occ_stage (id : N) (s : stage) : nat :=
  match s with
  | SMap i _ | SAccept i _ | SCombine i _ | SNumber i _ | SCompact i _ => b2n (N.eqb i id)
  | SIir i0 _ i _ => (b2n (N.eqb i0 id) + b2n (N.eqb i id))%nat
  | SSkip _ | STop _ => 0%nat
  end.

Fixpoint occ_pipe (id : N) (p : pipe) : nat :=
  match p with
  | PNumbers _ | PList _ => 0%nat
  | PStage s p' => (occ_stage id s + occ_pipe id p')%nat
  | PApp p1 p2 => (occ_pipe id p1 + occ_pipe id p2)%nat
  | PCross i _ p1 p2 | PMerge i _ p1 p2 => (b2n (N.eqb i id) + occ_pipe id p1 + occ_pipe id p2)%nat
  | PThrough _ p' => occ_pipe id p'
  end.

Definition occ_term (id : N) (t : term) : nat :=
  match t with
  | TPresent i _ | TIndexWhere i _ | TReduce i _ => b2n (N.eqb i id)
  | _ => 0%nat
  end.

(* ================================================================== SPECIFICATION SIDE
   Eager semantics on a prefix of every source: each source is cut after its first N elements; a
   partial list is the items known so far and whether more may follow.  A consumer's result is
   DECIDED on a partial list when no continuation of the list can change it.  What laziness demands:
   with `need` the least N that decides the result, the implementation returns that result and
   evaluates a stage closure at most once more than there are items in the stage's input on that prefix (one element of read-ahead is allowed by the property). *)

Inductive status := Open | Closed | Failed (e : N).
Definition partial := (list Z * status)%type.

(* apply f to the items up to the first failure *)
Fixpoint map_until (f : Z -> res Z) (l : list Z) : list Z * option N :=
  match l with
  | [] => ([], None)
  | x :: r =>
      match f x with
      | Ok y => let (ys, e) := map_until f r in (y :: ys, e)
      | Err e => ([], Some e)
      end
  end.

Definition cut (items : list Z) (e : option N) (st : status) : partial :=
  match e with Some e => (items, Failed e) | None => (items, st) end.

Fixpoint filter_until (p : pr1) (l : list Z) : list Z * option N :=
  match l with
  | [] => ([], None)
  | x :: r =>
      match p x with
      | Ok b => let (ys, e) := filter_until p r in ((if b then x :: ys else ys), e)
      | Err e => ([], Some e)
      end
  end.

Fixpoint pairs_until (g : fn2) (a : Z) (l : list Z) : list Z * option N :=
  match l with
  | [] => ([], None)
  | b :: r =>
      match g a b with
      | Ok y => let (ys, e) := pairs_until g b r in (y :: ys, e)
      | Err e => ([], Some e)
      end
  end.

Fixpoint number_until (g : fn2) (i : Z) (l : list Z) : list Z * option N :=
  match l with
  | [] => ([], None)
  | x :: r =>
      match g i x with
      | Ok y => let (ys, e) := number_until g (i + 1) r in (y :: ys, e)
      | Err e => ([], Some e)
      end
  end.

Fixpoint scan_until (g : fn2) (acc : Z) (l : list Z) : list Z * option N :=
  match l with
  | [] => ([], None)
  | x :: r =>
      match g x acc with
      | Ok y => let (ys, e) := scan_until g y r in (y :: ys, e)
      | Err e => ([], Some e)
      end
  end.

Fixpoint compact_until (eq : pr2) (a : Z) (l : list Z) : list Z * option N :=
  match l with
  | [] => ([], None)
  | x :: r =>
      match eq a x with
      | Ok true => compact_until eq a r
      | Ok false => let (ys, e) := compact_until eq x r in (x :: ys, e)
      | Err e => ([], Some e)
      end
  end.

Definition spec_stage (s : stage) (pl : partial) : partial :=
  let (items, st) := pl in
  match s with
  | SMap _ f => let (ys, e) := map_until f items in cut ys e st
  | SAccept _ p => let (ys, e) := filter_until p items in cut ys e st
  | SCombine _ g =>
      match items with
      | [] => ([], st)
      | a :: r => let (ys, e) := pairs_until g a r in cut ys e st
      end
  | SNumber _ g => let (ys, e) := number_until g 0 items in cut ys e st
  | SIir _ f0 _ g =>
      match items with
      | [] => ([], st)
      | a :: r =>
          match f0 a with
          | Ok y => let (ys, e) := scan_until g y r in cut (y :: ys) e st
          | Err e => ([], Failed e)
          end
      end
  | SCompact _ eq =>
      match items with
      | [] => ([], st)
      | a :: r => let (ys, e) := compact_until eq a r in cut (a :: ys) e st
      end
  | SSkip n => (skipn (Z.to_nat n) items, st)
  | STop n =>
      (* the first n items are all the list has, whatever follows (a negative n never cuts: the
         documented meaning of top is "the first n items"; value/list.go returns everything) *)
      if (0 <=? n) && (Z.of_nat (length items) >=? n) then (firstn (Z.to_nat n) items, Closed)
      else (items, st)
  end.

Fixpoint zrange (start : Z) (count : nat) : list Z :=
  match count with
  | O => []
  | S c => start :: zrange (start + 1) c
  end.

(* all rows of the cross product, up to the first failure *)
Fixpoint cross_rows (g : fn2) (la lb : list Z) : list Z * option N :=
  match la with
  | [] => ([], None)
  | a :: ra =>
      match map_until (g a) lb with
      | (r, Some e) => (r, Some e)
      | (r, None) => let (rs, e) := cross_rows g ra lb in (r ++ rs, e)
      end
  end.

(* cross on partial lists: as long as the second list may go on, only (a prefix of) the first row is
   known; once it is complete every known element of the first list gives a complete row *)
Definition spec_cross (g : fn2) (pa pb : partial) : partial :=
  let (la, sta) := pa in
  let (lb, stb) := pb in
  match la with
  | [] => ([], sta)
  | a :: _ =>
      match stb with
      | Closed => let (ys, e) := cross_rows g la lb in cut ys e sta
      | _ => let (ys, e) := map_until (g a) lb in cut ys e stb
      end
  end.

(* merge on partial lists: known as far as both sides have an element to compare (or a side is complete) *)
Fixpoint spec_merge (fuel : nat) (less : pr2) (la lb : list Z) (sta stb : status) : partial :=
  match fuel with
  | O => ([], Open)
  | S f =>
      match la, lb with
      | x :: ra, y :: rb =>
          match less x y with
          | Ok true => let (ys, st) := spec_merge f less ra lb sta stb in (x :: ys, st)
          | Ok false => let (ys, st) := spec_merge f less la rb sta stb in (y :: ys, st)
          | Err e => ([], Failed e)
          end
      | [], _ => match sta with Closed => (lb, stb) | Open => ([], Open) | Failed e => ([], Failed e) end
      | _ :: _, [] => match stb with Closed => (la, sta) | Open => ([], Open) | Failed e => ([], Failed e) end
      end
  end.

Fixpoint spec_pipe (N : nat) (p : pipe) : partial :=
  match p with
  | PNumbers n =>
      if Z.of_nat N <? n then (zrange 0 N, Open) else (zrange 0 (Z.to_nat n), Closed)
  | PList l =>
      if (N <? length l)%nat then (firstn N l, Open) else (l, Closed)
  | PStage s p' => spec_stage s (spec_pipe N p')
  | PApp p1 p2 =>
      match spec_pipe N p1 with
      | (items, Closed) => let (items2, st2) := spec_pipe N p2 in (items ++ items2, st2)
      | pl => pl
      end
  | PCross _ g p1 p2 => spec_cross g (spec_pipe N p1) (spec_pipe N p2)
  | PMerge _ less p1 p2 =>
      let (la, sta) := spec_pipe N p1 in
      let (lb, stb) := spec_pipe N p2 in
      spec_merge (S (length la + length lb)) less la lb sta stb
  | PThrough _ p' => spec_pipe N p'
  end.

(* scan for the first item that decides present / indexWhere *)
Fixpoint find_pred (p : pr1) (i : Z) (l : list Z) : option outcome * Z :=
  match l with
  | [] => (None, i)
  | x :: r =>
      match p x with
      | Ok true => (Some (OBool true), i)
      | Ok false => find_pred p (i + 1) r
      | Err e => (Some (OErr e), i)
      end
  end.

Fixpoint fold_until (g : fn2) (acc : Z) (l : list Z) : res Z :=
  match l with
  | [] => Ok acc
  | x :: r => match g acc x with Ok y => fold_until g y r | Err e => Err e end
  end.

Definition at_end (st : status) (o : outcome) : option outcome :=
  match st with Open => None | Closed => Some o | Failed e => Some (OErr e) end.

(* Some o: the consumer's result is o for every continuation of the partial list *)
Definition spec_term (t : term) (pl : partial) : option outcome :=
  let (items, st) := pl in
  match t with
  | TNone => Some OList
  | TFirst => match items with x :: _ => Some (OInt x) | [] => at_end st (OErr e_empty) end
  | TSingle =>
      match items with
      | _ :: _ :: _ => Some (OErr e_many)
      | [x] => at_end st (OInt x)
      | [] => at_end st (OErr e_empty)
      end
  | TSize => at_end st (OInt (Z.of_nat (length items)))
  | TPresent _ p =>
      match find_pred p 0 items with
      | (Some o, _) => Some o
      | (None, _) => at_end st (OBool false)
      end
  | TIndexWhere _ p =>
      match find_pred p 0 items with
      | (Some (OBool true), i) => Some (OInt i)
      | (Some o, _) => Some o
      | (None, _) => at_end st (OInt (-1))
      end
  | TContains x =>
      if existsb (Z.eqb x) items then Some (OBool true) else at_end st (OBool false)
  | TReduce _ g =>
      match items with
      | [] => at_end st (OErr e_empty)
      | a :: r =>
          match fold_until g a r with
          | Err e => Some (OErr e)
          | Ok v => at_end st (OInt v)
          end
      end
  end.

(* least prefix length (searched up to bound) that decides the result *)
Fixpoint spec_need_from (k : nat) (N : nat) (t : term) (p : pipe) : option (nat * outcome) :=
  match spec_term t (spec_pipe N p) with
  | Some o => Some (N, o)
  | None => match k with O => None | S k' => spec_need_from k' (S N) t p end
  end.

Definition spec_need (bound : nat) (t : term) (p : pipe) : option (nat * outcome) :=
  spec_need_from bound O t p.

(* all closure ids of a pipeline and consumer *)
Definition ids_stage (s : stage) : list N :=
  match s with
  | SMap i _ | SAccept i _ | SCombine i _ | SNumber i _ | SCompact i _ => [i]
  | SIir i0 _ i _ => [i0; i]
  | SSkip _ | STop _ => []
  end.

Fixpoint ids_pipe (p : pipe) : list N :=
  match p with
  | PNumbers _ | PList _ => []
  | PStage s p' => ids_stage s ++ ids_pipe p'
  | PApp p1 p2 => ids_pipe p1 ++ ids_pipe p2
  | PCross i _ p1 p2 | PMerge i _ p1 p2 => i :: ids_pipe p1 ++ ids_pipe p2
  | PThrough _ p' => ids_pipe p'
  end.

Definition ids_term (t : term) : list N :=
  match t with
  | TPresent i _ | TIndexWhere i _ | TReduce i _ => [i]
  | _ => []
  end.

(* how many items each closure's stage finds in its input on the prefix N (consumer closures: the
   final list); the demand bound for a closure is one more than that *)
Fixpoint spec_inputs (pre : nat) (p : pipe) : list (N * nat) :=
  match p with
  | PNumbers _ | PList _ => []
  | PStage s p' => map (fun i => (i, length (fst (spec_pipe pre p')))) (ids_stage s) ++ spec_inputs pre p'
  | PApp p1 p2 => spec_inputs pre p1 ++ spec_inputs pre p2
  | PCross i _ p1 p2 =>
      (* the second list is iterated anew for every known element of the first one *)
      let na := length (fst (spec_pipe pre p1)) in
      let nb := length (fst (spec_pipe pre p2)) in
      (i, (na * nb)%nat) :: spec_inputs pre p1
        ++ map (fun e : N * nat => (fst e, (snd e * Nat.max 1 na)%nat)) (spec_inputs pre p2)
  | PMerge i _ p1 p2 =>
      (i, (length (fst (spec_pipe pre p1)) + length (fst (spec_pipe pre p2)))%nat)
        :: spec_inputs pre p1 ++ spec_inputs pre p2
  | PThrough _ p' => spec_inputs pre p'
  end.

Definition spec_bound (pre : nat) (t : term) (p : pipe) (id : N) : nat :=
  S (fold_right (fun (e : N * nat) acc => if N.eqb (fst e) id then (snd e + acc)%nat else acc) O
       (spec_inputs pre p ++ map (fun i => (i, length (fst (spec_pipe pre p)))) (ids_term t))).
