(* C07 - string built-ins: split / replace / contains / trim / case against their documented models *)
From P2 Require Import Base.Prelude Base.PreludeProofs Sem.Num Sem.Syntax Sem.Ops Sem.Lib Lib.Names Lib.Builtins Lib.ListLib.
From Coq Require Import Lia ZifyBool.

Lemma is_prefix_split : forall p s, is_prefix p s = true -> exists post, s = p ++ post.
Proof.
  induction p as [|c p IH]; intros s H; [exists s; reflexivity|].
  destruct s as [|d s]; [discriminate|]. cbn [is_prefix] in H.
  apply Bool.andb_true_iff in H. destruct H as [H1 H2]. apply N.eqb_eq in H1. subst d.
  destruct (IH s H2) as [post ->]. exists post. reflexivity.
Qed.

Lemma is_prefix_app_true : forall p post, is_prefix p (p ++ post) = true.
Proof. induction p as [|c p IH]; intros post; cbn [app is_prefix]; [reflexivity|]. rewrite N.eqb_refl, IH. reflexivity. Qed.

(* ----- split: joining the pieces with the separator gives the string back ----- *)

Lemma split_go_nonempty : forall sep s skip cur, split_go sep skip cur s <> [].
Proof.
  intros sep. induction s as [|c s IH]; intros skip cur; cbn [split_go]; [discriminate|].
  destruct skip; [|apply IH]. destruct (is_prefix sep (c :: s)); [discriminate|apply IH].
Qed.

Lemma join_cons : forall sep x r, r <> [] -> d_join sep (x :: r) = x ++ sep ++ d_join sep r.
Proof. intros sep x [|y r] H; [congruence|reflexivity]. Qed.

Lemma split_go_join : forall sep, sep <> [] -> forall s skip cur, (skip <= length s)%nat ->
  d_join sep (split_go sep skip cur s) = rev cur ++ skipn skip s.
Proof.
  intros sep Hsep. induction s as [|c s IH]; intros skip cur Hlen; cbn [split_go].
  - cbn [length] in Hlen. assert (skip = 0)%nat by lia. subst. cbn [d_join skipn]. rewrite app_nil_r. reflexivity.
  - destruct skip as [|k].
    + destruct (is_prefix sep (c :: s)) eqn:E.
      * destruct (is_prefix_split _ _ E) as [post Ep].
        destruct sep as [|c0 sep']; [congruence|]. cbn [app] in Ep. injection Ep as <- Es.
        rewrite join_cons by apply split_go_nonempty.
        replace (length (c :: sep') - 1)%nat with (length sep') by (cbn [length]; lia).
        rewrite IH by (subst s; rewrite app_length; lia).
        cbn [rev app skipn]. subst s. rewrite skipn_app, skipn_all, Nat.sub_diag. reflexivity.
      * rewrite IH by lia. cbn [rev skipn]. rewrite <- app_assoc. reflexivity.
    + cbn [skipn]. apply IH. cbn [length] in Hlen. lia.
Qed.

Theorem split_join : forall s sep, sep <> [] -> d_join sep (str_split s sep) = s.
Proof.
  intros s sep H. unfold str_split. destruct sep as [|c sep']; [congruence|].
  rewrite split_go_join by (try discriminate; lia). reflexivity.
Qed.

(* an empty separator explodes the string into its code points *)
Theorem split_empty_sep : forall s, str_split s [] = map (fun c => [c]) s /\ concat (str_split s []) = s.
Proof.
  intros s. split; [reflexivity|]. unfold str_split. induction s as [|c s IH]; [reflexivity|].
  cbn [map concat app]. rewrite IH. reflexivity.
Qed.

(* ----- replace = split at old, join with new ----- *)

Lemma replace_go_split : forall old new s skip cur,
  d_join new (split_go old skip cur s) = rev cur ++ replace_go old new skip s.
Proof.
  intros old new. induction s as [|c s IH]; intros skip cur; cbn [split_go replace_go].
  - cbn [d_join]. rewrite app_nil_r. reflexivity.
  - destruct skip as [|k]; [|apply IH].
    destruct (is_prefix old (c :: s)).
    + rewrite join_cons by apply split_go_nonempty. rewrite IH. reflexivity.
    + rewrite IH. cbn [rev]. rewrite <- app_assoc. reflexivity.
Qed.

Theorem replace_split_join : forall s old new, old <> [] ->
  str_replace s old new = d_join new (str_split s old).
Proof.
  intros s old new H. unfold str_replace, str_split. destruct old as [|c o]; [congruence|].
  rewrite replace_go_split. reflexivity.
Qed.

(* an empty old inserts new in front of every code point and at the end *)
Theorem replace_empty_old : forall s new, str_replace s [] new = new ++ flat_map (fun c => c :: new) s.
Proof. reflexivity. Qed.

(* ----- contains: there is an occurrence ----- *)

Theorem contains_spec : forall s p, contains_str s p = true <-> exists pre post, s = pre ++ p ++ post.
Proof.
  induction s as [|c s IH]; intros p; cbn [contains_str]; split.
  - intros H. rewrite Bool.orb_false_r in H. destruct (is_prefix_split _ _ H) as [post E]. exists [], post. exact E.
  - intros [pre [post E]]. rewrite Bool.orb_false_r.
    destruct pre; [|discriminate]. cbn [app] in E. destruct p; [reflexivity|discriminate].
  - intros H. apply Bool.orb_true_iff in H. destruct H as [H|H].
    + destruct (is_prefix_split _ _ H) as [post E]. exists [], post. exact E.
    + apply IH in H. destruct H as [pre [post E]]. exists (c :: pre), post. cbn [app]. rewrite E. reflexivity.
  - intros [pre [post E]]. apply Bool.orb_true_iff. destruct pre as [|d pre].
    + left. cbn [app] in E. rewrite E. apply is_prefix_app_true.
    + right. cbn [app] in E. injection E as _ E. apply IH. exists pre, post. exact E.
Qed.

(* ----- trim (ASCII): leading and trailing blanks are removed, nothing else ----- *)

Lemma trim_left_spec : forall s, exists a, s = a ++ trim_left s /\ forallb is_space a = true /\
  match trim_left s with c :: _ => is_space c = false | [] => True end.
Proof.
  induction s as [|c s IH]; [exists []; repeat split|]. cbn [trim_left].
  destruct (is_space c) eqn:E.
  - destruct IH as [a [Ea [Ha Hh]]]. exists (c :: a). cbn [app forallb]. rewrite E, Ha. repeat split; auto.
    rewrite <- Ea. reflexivity.
  - exists []. repeat split; auto.
Qed.

Theorem trim_spec : forall s t, str_trim s = Ok t ->
  exists a b, s = a ++ t ++ b /\ forallb is_space a = true /\ forallb is_space b = true /\
  match t with c :: _ => is_space c = false | [] => True end /\
  match rev t with c :: _ => is_space c = false | [] => True end.
Proof.
  intros s t H. unfold str_trim in H. destruct (is_ascii s); [|discriminate]. injection H as <-.
  destruct (trim_left_spec s) as [a [Ea [Ha Hh]]].
  set (u := trim_left s) in *.
  destruct (trim_left_spec (rev u)) as [b [Eb [Hb Hl]]].
  set (w := trim_left (rev u)) in *.
  exists a, (rev b). assert (Eu : u = rev w ++ rev b).
  { rewrite <- (rev_involutive u), Eb, rev_app_distr. reflexivity. }
  repeat split.
  - rewrite Ea at 1. rewrite Eu. reflexivity.
  - exact Ha.
  - rewrite forallb_forall in *. intros x Hx. apply Hb. apply in_rev. exact Hx.
  - (* the first item of the result *)
    destruct (rev w) as [|c r] eqn:Er; [exact I|].
    rewrite Eu in Hh. cbn [app] in Hh. exact Hh.
  - rewrite rev_involutive. exact Hl.
Qed.

(* ----- toLower / toUpper (ASCII): letter by letter, idempotent, length kept ----- *)

Theorem lower_upper_spec : forall s t,
  (str_lower s = Ok t -> length t = length s /\ str_lower t = Ok t) /\
  (str_upper s = Ok t -> length t = length s /\ str_upper t = Ok t).
Proof.
  intros s t. split; intros H.
  - unfold str_lower in *. destruct (is_ascii s) eqn:Ea; [|discriminate]. injection H as <-.
    split; [apply map_length|].
    assert (Hasc : is_ascii (map (fun c => if (65 <=? c) && (c <=? 90) then c + 32 else c)%N s) = true).
    { unfold is_ascii in *. rewrite forallb_forall in *. intros x Hx. apply in_map_iff in Hx.
      destruct Hx as [y [<- Hy]]. specialize (Ea y Hy). cbv beta in *. destruct ((65 <=? y) && (y <=? 90))%N eqn:E; lia. }
    rewrite Hasc. f_equal. rewrite map_map. apply map_ext. intros c.
    destruct ((65 <=? c) && (c <=? 90))%N eqn:E; [|rewrite E; reflexivity].
    replace ((65 <=? c + 32) && (c + 32 <=? 90))%N with false by lia. reflexivity.
  - unfold str_upper in *. destruct (is_ascii s) eqn:Ea; [|discriminate]. injection H as <-.
    split; [apply map_length|].
    assert (Hasc : is_ascii (map (fun c => if (97 <=? c) && (c <=? 122) then c - 32 else c)%N s) = true).
    { unfold is_ascii in *. rewrite forallb_forall in *. intros x Hx. apply in_map_iff in Hx.
      destruct Hx as [y [<- Hy]]. specialize (Ea y Hy). cbv beta in *. destruct ((97 <=? y) && (y <=? 122))%N eqn:E; lia. }
    rewrite Hasc. f_equal. rewrite map_map. apply map_ext. intros c.
    destruct ((97 <=? c) && (c <=? 122))%N eqn:E; [|rewrite E; reflexivity].
    replace ((97 <=? c - 32) && (c - 32 <=? 122))%N with false by lia. reflexivity.
Qed.
