#!/bin/bash
# usage: goal.sh File.v LINE  -- prints the goal just before line LINE (1-based) of File.v
f=$1; n=$2
tmp=$(mktemp -d)
head -n $((n-1)) "$f" > $tmp/G.v
echo "Show. Abort All." >> $tmp/G.v
cd "$(dirname "$0")/../coq" && coqc -Q . P2 $tmp/G.v 2>&1 | tail -${3:-40}
rm -rf $tmp
