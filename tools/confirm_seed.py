#!/usr/bin/env python3
"""tools/confirm_seed.py <seed-id> <property[,property]> "<needs>": confirm a seeded change in a scratch worktree:
demo passes without the patch, patch applies, full suite passes with it, demo fails with it. Writes seeded/<id>/meta.json."""
import json, os, re, subprocess, sys, shutil
ROOT = os.path.dirname(os.path.dirname(os.path.abspath(__file__)))
sid, props, needs = sys.argv[1], sys.argv[2].split(","), sys.argv[3]
d = os.path.join(ROOT, "seeded", sid)
env = dict(os.environ, GOFLAGS="-mod=mod", GOPROXY="off")
for k in ("GOTOOLCHAIN", "GOSUMDB"):
    env.pop(k, None)
wt = "/tmp/seedc/" + sid
subprocess.run(["git", "-C", "/repo", "worktree", "remove", "--force", wt], capture_output=True)
os.makedirs("/tmp/seedc", exist_ok=True)
subprocess.run(["git", "-C", "/repo", "worktree", "add", "-q", "--detach", wt, "HEAD"], check=True)
demo = open(os.path.join(d, "demo_test.go")).read()
m = re.search(r"//\s*place in:\s*(\S+)", demo)
pkgdir = m.group(1).strip().rstrip("/") if m else "."
if pkgdir in (".", "<repo root>"):
    pkgdir = ""
dst = os.path.join(wt, pkgdir, "zz_seed_demo_test.go")
shutil.copy(os.path.join(d, "demo_test.go"), dst)
def run(cmd, cwd):
    p = subprocess.run(cmd, cwd=cwd, env=env, capture_output=True, text=True)
    return p.returncode, (p.stdout + p.stderr)[-600:]
log = {}
rc0, out0 = run(["go", "test", "-vet=off", "-count=1", "-run", ".", "./" + pkgdir if pkgdir else "."], wt)
# only the demo's tests matter: run the package's tests; the package's own tests pass on a clean tree
log["demo_without_patch"] = "pass" if rc0 == 0 else "FAIL: " + out0
rca, outa = run(["git", "apply", os.path.join(d, "patch.diff")], wt)
log["patch_applies"] = rca == 0
if rca == 0:
    rc1, out1 = run(["go", "test", "-vet=off", "-count=1", "./" + pkgdir if pkgdir else "."], wt)
    log["demo_with_patch"] = "fails (as required)" if rc1 != 0 else "PASSES (not a valid seed)"
    os.remove(dst)
    rc2, out2 = run(["go", "test", "-vet=off", "-count=1", "./..."], wt)
    log["suite_with_patch"] = "pass" if rc2 == 0 else "FAIL: " + out2
ok = log.get("demo_without_patch") == "pass" and log.get("patch_applies") and log.get("demo_with_patch", "").startswith("fails") and log.get("suite_with_patch") == "pass"
head = subprocess.check_output(["git", "-C", "/repo", "log", "--format=%h", "-1"], text=True).strip()
meta = {"property": props if len(props) > 1 else props[0], "needs_to_manifest": needs, "confirmed": ok, "repo_head": head,
        "what_was_run": {"worktree": "scratch worktree of /repo at " + head,
                         "commands": ["go test -vet=off -count=1 ./%s (demo copied in as zz_seed_demo_test.go) without the patch" % pkgdir,
                                      "git apply patch.diff", "go test -vet=off -count=1 ./%s with the patch" % pkgdir,
                                      "go test -vet=off -count=1 ./... with the patch, demo removed"],
                         "outcomes": log}}
json.dump(meta, open(os.path.join(d, "meta.json"), "w"), indent=1)
subprocess.run(["git", "-C", "/repo", "worktree", "remove", "--force", wt], capture_output=True)
print(sid, "CONFIRMED" if ok else "NOT CONFIRMED", json.dumps(log))
