#!/usr/bin/env python3
"""tools/merge_wp.py <name>: merge work package branch wp-<name> (verif + repo) into the main lines."""
import json, subprocess, sys, os
name = sys.argv[1]
br = "wp-" + name
def sh(cmd, cwd, check=True):
    p = subprocess.run(cmd, cwd=cwd, capture_output=True, text=True)
    if check and p.returncode != 0:
        print("FAILED:", " ".join(cmd), "\n", p.stdout, p.stderr)
        sys.exit(1)
    return p
# ---- repo: cherry-pick the branch's own commits (oldest first)
base = sh(["git", "merge-base", "main", br], "/repo").stdout.strip()
commits = sh(["git", "log", "--reverse", "--no-merges", "--format=%H %s", base + ".." + br], "/repo").stdout.strip().splitlines()
mainlog = sh(["git", "log", "--format=%s", "main"], "/repo").stdout.splitlines()
hookhashes = []
for c in commits:
    h, subj = c.split(" ", 1)
    if subj in mainlog:
        print("repo: already on main:", subj)
        continue
    p = sh(["git", "cherry-pick", h], "/repo", check=False)
    if p.returncode != 0:
        print("repo: CONFLICT cherry-picking", h, subj, "\n", p.stdout[-500:], p.stderr[-500:])
        print("resolve in /repo, `git cherry-pick --continue`, then re-run")
        sys.exit(1)
    nh = sh(["git", "log", "--format=%H", "-1"], "/repo").stdout.strip()
    print("repo: picked", subj, "->", nh[:7])
    if subj.startswith("verif hook"):
        hookhashes.append(nh)
# ---- verif: merge, resolving the shared generated files
def load(ref, path):
    p = sh(["git", "show", ref + ":" + path], "/verif", check=False)
    return json.loads(p.stdout) if p.returncode == 0 else None
kf_ours, kf_theirs = load("HEAD", "known_findings.json"), load(br, "known_findings.json")
if sh(["git", "status", "--porcelain", "--untracked-files=no"], "/verif").stdout.strip():
    print("verif: working tree not clean - commit first"); sys.exit(1)
p = sh(["git", "merge", "--no-commit", "--no-ff", br], "/verif", check=False)
if not os.path.exists("/verif/.git/MERGE_HEAD"):
    print("verif: merge did not start:\n", p.stdout[-600:], p.stderr[-600:]); sys.exit(1)
import glob as _glob
for f in ["MANIFEST.json", "known_findings.json", "tools/hook_commits.json"] + [os.path.relpath(x, "/verif") for x in _glob.glob("/verif/evidence/*.json")]:
    sh(["git", "checkout", "HEAD", "--", f], "/verif", check=False)
st = sh(["git", "status", "--short"], "/verif").stdout
conf = [l for l in st.splitlines() if l[:2] in ("UU", "AA", "DU", "UD")]
if conf:
    print("verif: CONFLICTS\n" + "\n".join(conf))
    sys.exit(1)
# union known findings
if kf_theirs:
    kf = json.load(open("/verif/known_findings.json"))
    for e in kf_theirs.get("findings", []):
        if e not in kf["findings"]:
            kf["findings"].append(e)
    for e in kf_theirs.get("fixed", []):
        if e not in kf["fixed"] and e.split(" ", 3)[1:2] == e.split(" ", 3)[1:2]:
            if not any(e[:60] == x[:60] for x in kf["fixed"]):
                kf["fixed"].append(e)
    json.dump(kf, open("/verif/known_findings.json", "w"), indent=1, ensure_ascii=False)
hc = json.load(open("/verif/tools/hook_commits.json"))
for h in hookhashes:
    if h not in hc:
        hc.append(h)
json.dump(hc, open("/verif/tools/hook_commits.json", "w"), indent=1)
sh(["python3", "tools/gen_manifest.py"], "/verif")
sh(["git", "add", "-A"], "/verif")
sh(["git", "commit", "-q", "-m", "Merge work package %s" % name], "/verif")
print("verif: merged", br)
