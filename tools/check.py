#!/usr/bin/env python3
"""bin/check <Cxx> <quick|thorough> | bin/check <Cxx> --replay <file>

Decides one property on /repo's current working tree (DESIGN.md section 5):
  1. build the harness against /repo (tags verif), regenerate coq/Generated/*.v from the tree
  2. full .vo build of the Coq development (make -k), recompile Props/<Cxx>.v for fresh evidence
  3. run the correspondence harness: implementation observations -> Cases_*.v -> coqc/vm_compute
  4. verdict, replay file, evidence file
Exit 0 held / 1 violation / 2 infrastructure failure.
"""
import fcntl
import glob
import hashlib
import json
import os
import re
import subprocess
import sys
import time
from concurrent.futures import ThreadPoolExecutor

ROOT = os.path.dirname(os.path.dirname(os.path.abspath(__file__)))
COQ = os.path.join(ROOT, "coq")
BUILD = os.path.join(ROOT, "build")
P2H = os.path.join(BUILD, "p2h")
GOENV = dict(os.environ, GOFLAGS="-mod=mod", GOPROXY="off", GOCACHE=os.path.join(BUILD, "gocache"))
for k in ("GOTOOLCHAIN", "GOSUMDB"):
    GOENV.pop(k, None)

sys.path.insert(0, os.path.join(ROOT, "tools"))
from props import PROPS  # noqa: E402


def log(msg):
    print(msg, flush=True)


def run(cmd, cwd=None, timeout=1800, env=None):
    try:
        p = subprocess.run(cmd, cwd=cwd, timeout=timeout, env=env, stdout=subprocess.PIPE,
                           stderr=subprocess.STDOUT, text=True, errors="replace")
        return p.returncode, p.stdout
    except subprocess.TimeoutExpired as e:
        out = e.stdout.decode(errors="replace") if isinstance(e.stdout, bytes) else (e.stdout or "")
        return 124, out + "\nTIMEOUT after %ss: %s" % (timeout, " ".join(cmd))


class Lock:
    def __init__(self, name):
        os.makedirs(BUILD, exist_ok=True)
        self.path = os.path.join(BUILD, name)

    def __enter__(self):
        self.f = open(self.path, "w")
        fcntl.flock(self.f, fcntl.LOCK_EX)

    def __exit__(self, *a):
        fcntl.flock(self.f, fcntl.LOCK_UN)
        self.f.close()


def infra(msg, out=""):
    log("INFRASTRUCTURE FAILURE: " + msg)
    if out:
        log(out[-4000:])
    sys.exit(2)


# ---------------------------------------------------------------- build steps

# scratch worktrees of /repo can be checked by setting VERIF_REPO (or a .verif_repo file in a scratch copy of /verif)
REPO = os.environ.get("VERIF_REPO") or (open(os.path.join(ROOT, ".verif_repo")).read().strip()
                                        if os.path.exists(os.path.join(ROOT, ".verif_repo")) else "/repo")


def build_harness():
    """go build -tags verif against the working tree of REPO (replace directive in a generated modfile)"""
    hdir = os.path.join(ROOT, "harness")
    mod = open(os.path.join(hdir, "go.mod")).read().replace("=> /repo", "=> " + REPO)
    modfile = os.path.join(BUILD, "harness.mod")
    os.makedirs(BUILD, exist_ok=True)
    open(modfile, "w").write(mod)
    subprocess.run(["cp", os.path.join(REPO, "go.sum"), os.path.join(BUILD, "harness.sum")], check=False)
    rc, out = run(["go", "build", "-tags", "verif", "-modfile", modfile, "-o", P2H, "."], cwd=hdir, env=GOENV, timeout=900)
    return rc, out


def gen_tables():
    rc, out = run([P2H, "tables", "--out", os.path.join(COQ, "Generated")], cwd=ROOT, timeout=600)
    if rc != 0:
        infra("gen-tables failed", out)


def coq_files():
    fs = []
    for d, _, names in os.walk(COQ):
        for n in names:
            if n.endswith(".v"):
                fs.append(os.path.relpath(os.path.join(d, n), COQ))
    return sorted(fs)


def coq_make():
    """full .vo build, keep going on errors; returns (failed .v files, log)"""
    files = coq_files()
    listing = "\n".join(files)
    stamp = os.path.join(COQ, ".filelist")
    old = open(stamp).read() if os.path.exists(stamp) else None
    if old != listing or not os.path.exists(os.path.join(COQ, "Makefile.coq")):
        rc, out = run(["coq_makefile", "-f", "_CoqProject", "-o", "Makefile.coq"] + files, cwd=COQ)
        if rc != 0:
            infra("coq_makefile failed", out)
        open(stamp, "w").write(listing)
    rc, out = run(["timeout", "3000", "make", "-k", "-j16", "-f", "Makefile.coq"], cwd=COQ, timeout=3100)
    failed = []
    # a target make reports as failed may still have a .vo from an earlier build (its own source unchanged, a
    # dependency changed): remove it, so that nothing downstream loads the stale file
    for m in re.finditer(r"\*\*\* \[[^\]]*?:\s*(\S+)\.vo\] Error", out):
        f = m.group(1) + ".v"
        for ext in (".vo", ".vos", ".vok", ".glob"):
            try:
                os.remove(os.path.join(COQ, m.group(1) + ext))
            except OSError:
                pass
        if f in files and f not in failed:
            failed.append(f)
    for f in files:
        vo = os.path.join(COQ, f[:-2] + ".vo")
        if f not in failed and (not os.path.exists(vo) or os.path.getmtime(vo) < os.path.getmtime(os.path.join(COQ, f))):
            failed.append(f)
    return failed, out


GATE = re.compile(r"\b(Admitted|admit|Axiom|Axioms|Parameter|Parameters|Conjecture|Hypothesis|Hypotheses|Variable|Variables)\b|Unset Guard|bypass_check|Admit Obligations|type-in-type|impredicative-set")


def strip_comments(src):
    out, depth, i = [], 0, 0
    while i < len(src):
        if src.startswith("(*", i):
            depth += 1
            i += 2
        elif src.startswith("*)", i) and depth > 0:
            depth -= 1
            i += 2
        else:
            if depth == 0:
                out.append(src[i])
            i += 1
    return "".join(out)


def grep_gate():
    """no axioms, admits or switched-off checks anywhere; Variable/Hypothesis only inside sections"""
    bad = []
    for f in coq_files():
        src = strip_comments(open(os.path.join(COQ, f)).read())
        depth = 0
        for ln, line in enumerate(src.split("\n"), 1):
            if re.match(r"\s*Section\s", line):
                depth += 1
            if re.match(r"\s*End\s", line) and depth > 0:
                depth -= 1
            for m in GATE.finditer(line):
                w = m.group(0)
                if w in ("Variable", "Variables", "Hypothesis", "Hypotheses") and depth > 0:
                    continue
                bad.append("%s:%d: %s" % (f, ln, line.strip()))
    return bad


def compile_props(pid):
    """recompile Props/<pid>.v; returns (ok, theorems, discharged, assumptions{name:text}, output)"""
    pf = "Props/%s.v" % pid
    src = open(os.path.join(COQ, pf)).read()
    clean = strip_comments(src)
    thms = re.findall(r"^\s*(?:Theorem|Corollary)\s+(\w+)", clean, re.M)
    rc, out = run(["timeout", "900", "coqc", "-Q", ".", "P2", pf], cwd=COQ, timeout=1000)
    ok = rc == 0
    discharged = len(thms)
    err = None
    if not ok:
        m = re.search(r'line (\d+), characters', out)
        errline = int(m.group(1)) if m else 0
        discharged = 0
        # theorems whose proof ended before the error line were accepted
        lines = src.split("\n")
        for t in thms:
            for i, l in enumerate(lines, 1):
                if re.match(r"\s*(Theorem|Corollary)\s+%s\b" % t, l):
                    # find the closing Qed
                    for j in range(i, len(lines) + 1):
                        if re.search(r"\bQed\.", lines[j - 1]):
                            if j < errline:
                                discharged += 1
                            break
                    break
        err = out[-1500:]
    assumptions = {}
    # Print Assumptions output follows in order of the commands
    pa = re.findall(r"^Print Assumptions\s+(\w+)\.", clean, re.M)
    blocks = re.split(r"(?m)^(?=Closed under the global context|Axioms:)", out)
    blocks = [b.strip() for b in blocks if b.startswith("Closed under") or b.startswith("Axioms:")]
    for name, b in zip(pa, blocks):
        assumptions[name] = b
    return ok, thms, discharged, assumptions, err


def parse_printed_list(out, name):
    m = re.search(r"%s\s*=\s*(.*?)\n\s*:\s*list" % name, out, re.S)
    if not m:
        return None
    body = m.group(1)
    return [int(x) for x in re.findall(r"\d+", body.replace("%N", ""))]


def run_case_file(path):
    d = os.path.dirname(path)
    rc, out = run(["timeout", "1700", "coqc", "-noglob", "-Q", COQ, "P2", "-Q", d, "Cases", os.path.basename(path)], cwd=d, timeout=1800)
    if rc != 0:
        return path, None, None, out
    return path, parse_printed_list(out, "bad_im"), parse_printed_list(out, "bad_is"), out


def coq_eval(expr, imports, tag):
    """evaluate a closed term with vm_compute in a scratch file (used for witness search)"""
    d = os.path.join(BUILD, "run", "search")
    os.makedirs(d, exist_ok=True)
    p = os.path.join(d, "Search_%s.v" % tag)
    open(p, "w").write("%s\nDefinition r := Eval vm_compute in (%s).\nPrint r.\n" % (imports, expr))
    rc, out = run(["timeout", "600", "coqc", "-Q", COQ, "P2", os.path.basename(p)], cwd=d, timeout=700)
    return rc, out


# ---------------------------------------------------------------- known findings

def load_known():
    p = os.path.join(ROOT, "known_findings.json")
    if not os.path.exists(p):
        return []
    return json.load(open(p)).get("findings", [])


def known_for(pid, sig, known):
    for k in known:
        if k["property"] == pid and k["signature"] == sig:
            return k
    return None


# ---------------------------------------------------------------- main

def sha(path):
    return hashlib.sha256(open(path, "rb").read()).hexdigest()[:16]


def setup():
    with Lock("build.lock"):
        rc, out = build_harness()
        if rc != 0:
            infra("harness does not build", out)
        gen_tables()
        failed, mout = coq_make()
        open(os.path.join(BUILD, "setup-coq.log"), "w").write(mout)
        if failed:
            log("setup: Coq files that did not compile (reported by the checks that depend on them): " + ", ".join(failed))
    log("setup done")


def main():
    if len(sys.argv) == 2 and sys.argv[1] == "--setup":
        setup()
        return
    if len(sys.argv) < 3:
        print(__doc__)
        sys.exit(2)
    pid = sys.argv[1]
    if pid not in PROPS:
        infra("unknown property " + pid)
    cfg = PROPS[pid]
    replay_in = None
    if sys.argv[2] == "--replay":
        replay_in = os.path.abspath(sys.argv[3])
        tier = "quick"
    else:
        tier = os.environ.get("VERIF_TIER") or sys.argv[2]
    if tier not in ("quick", "thorough"):
        infra("tier must be quick or thorough")
    seed = int(os.environ.get("VERIF_SEED", "1"))
    t0 = time.time()
    os.makedirs(os.path.join(BUILD, "logs"), exist_ok=True)
    logf = open(os.path.join(BUILD, "logs", "%s-%s.log" % (pid, tier)), "w")

    broken = []      # things that no longer check (theorem / correspondence), for no-failing-input-found
    with Lock("build.lock"):
        rc, out = build_harness()
        logf.write(out)
        if rc != 0:
            # the harness links against /repo: a tree that does not build is not a verdict about the property
            infra("harness does not build against /repo", out)
        gen_tables()
        failed, mout = coq_make()
        logf.write(mout)
        gate = grep_gate()
        if gate:
            infra("forbidden construct in the Coq development:\n" + "\n".join(gate))
        props_ok, thms, discharged, assumptions, perr = compile_props(pid)
        # a private copy of the harness binary: a check started with another VERIF_REPO may rebuild build/p2h as soon
        # as the lock is released (seeded changes tried side by side)
        global P2H
        priv = os.path.join(BUILD, "p2h-%s-%d" % (pid, os.getpid()))
        subprocess.run(["cp", P2H, priv], check=True)
        P2H = priv
        # ... and of the module file the binary was built with (harnesses that build a race-detector worker at run time)
        privmod = priv + ".mod"
        subprocess.run(["cp", os.path.join(BUILD, "harness.mod"), privmod], check=True)
        subprocess.run(["cp", os.path.join(BUILD, "harness.sum"), priv + ".sum"], check=False)
        GOENV["P2H_MODFILE"] = privmod
        import atexit
        atexit.register(lambda: [os.remove(f) for f in (priv, privmod, priv + ".sum", priv + "-race") if os.path.exists(f)])
    model_files = cfg.get("model_files", [])
    run_file = cfg.get("run_file")
    infra_failed = [f for f in failed if not f.startswith("Props/") and f not in cfg.get("obligation_files", [])]
    if run_file and run_file in failed:
        infra("correspondence checker %s does not compile" % run_file, mout)
    for f in failed:
        if f in cfg.get("obligation_files", []) or f == "Props/%s.v" % pid:
            broken.append({"theorem": f, "coqc_error": (perr or mout)[-1200:]})
    if not props_ok and not any(b["theorem"] == "Props/%s.v" % pid for b in broken):
        broken.append({"theorem": "Props/%s.v" % pid, "coqc_error": (perr or "")[-1200:]})
    tables = {os.path.basename(p): sha(p) for p in sorted(glob.glob(os.path.join(COQ, "Generated", "*.v")))}

    # witness search for a broken table obligation: the model computes candidate inputs
    extra_args = []
    if broken and cfg.get("witness"):
        rc, wout = coq_eval(cfg["witness"]["expr"], cfg["witness"]["imports"], pid)
        logf.write(wout)
        vals = parse_printed_list(wout, "r") if rc == 0 else None
        if vals:
            extra_args = [cfg["witness"]["flag"], ",".join(str(v) for v in vals[:64])]

    # correspondence run
    rundir = os.path.join(BUILD, "run", pid + ("-replay" if replay_in else ""))
    hcmd = [P2H, cfg["harness_cmd"], "--seed", str(seed), "--tier", tier, "--out", rundir] + extra_args
    if replay_in:
        hcmd += ["--replay", replay_in]
    if broken:
        hcmd += ["--boost", "10"]
    rc, hout = run(hcmd, cwd=ROOT, timeout=cfg.get("harness_timeout", 3000), env=dict(GOENV, P2H=P2H))
    logf.write(hout)
    if rc != 0:
        infra("harness run failed (exit %d)" % rc, hout)
    summ = json.load(open(os.path.join(rundir, "summary.json")))
    bad_im, bad_is = [], []
    coq_cases = 0
    # optional per-property count lists printed by the case files (e.g. skipped comparisons): summed over the shards
    coq_counts = {name: None for name in cfg.get("count_lists", {})}
    with ThreadPoolExecutor(max_workers=16) as ex:
        for path, im, isl, out in ex.map(run_case_file, summ.get("case_files") or []):
            logf.write(out)
            if im is None or isl is None:
                infra("case file %s did not evaluate" % path, out)
            bad_im += im
            bad_is += isl
            coq_cases += 1
            for name in coq_counts:
                vals = parse_printed_list(out, name)
                if vals is not None:
                    old = coq_counts[name] or [0] * len(vals)
                    coq_counts[name] = [a + b for a, b in zip(old, vals)]
    cases = summ.get("cases", {})

    # ---------------- verdict
    known = load_known()
    violations = []   # (signature, description dict)
    known_hit = {}
    for gv in (summ.get("go_violations") or []):
        violations.append((gv.get("signature", ""), dict(gv, source="implementation vs property oracle (Go)")))
    seen_ids = {v[1].get("case_id") for v in violations}
    for cid in bad_is:
        if cid in seen_ids:
            continue
        c = cases.get(str(cid), {})
        violations.append((c.get("signature", ""), {"case_id": cid, "what": "implementation output does not satisfy the model's specification side",
                                                       "human": c, "source": "implementation vs Coq spec (vm_compute)"}))
    im_only = [cid for cid in bad_im if cid not in bad_is and cid not in seen_ids]
    for cid in im_only[:20]:
        broken.append({"correspondence": cases.get(str(cid), {"case_id": cid}), "note": "model of the implementation disagrees with the implementation"})

    new_violations = []
    for sig, v in violations:
        k = known_for(pid, sig, known)
        if k:
            known_hit.setdefault(sig, (k, v))
        else:
            new_violations.append((sig, v))

    os.makedirs(os.path.join(ROOT, "replays"), exist_ok=True)
    exit_code = 0
    reported = []
    for sig, (k, v) in sorted(known_hit.items()):
        log("KNOWN-FINDING: property=%s %s [signature %s]" % (pid, k["what_fails"], sig))
    by_sig = {}
    for sig, v in new_violations:
        by_sig.setdefault(sig, v)   # first (harness sorts smallest first) decides the replay
    n = 0
    for sig, v in by_sig.items():
        rp = os.path.join("replays", "%s-%d-%d.json" % (pid, seed, n))
        n += 1
        json.dump({"property": pid, "seed": seed, "tier": tier, "signature": sig, "case": v.get("human", {}).get("repro"),
                   "human": v.get("human"), "what": v.get("what"), "expected_S": v.get("expected_S"), "observed_I": v.get("observed_I"),
                   "source": v.get("source"), "broken": broken or None,
                   "rerun": "bin/check %s --replay %s" % (pid, rp)}, open(os.path.join(ROOT, rp), "w"), indent=1, ensure_ascii=False)
        log("VIOLATION property=%s replay=%s" % (pid, rp))
        reported.append(rp)
        exit_code = 1
    if not by_sig and broken:
        rp = os.path.join("replays", "%s-%d-broken.json" % (pid, seed))
        json.dump({"property": pid, "seed": seed, "tier": tier, "case": None, "broken": broken,
                   "note": "a proof obligation or the model/implementation correspondence no longer checks; the search found no input on which the implementation violates the property",
                   "rerun": "bin/check %s %s" % (pid, tier)}, open(os.path.join(ROOT, rp), "w"), indent=1, ensure_ascii=False)
        log("VIOLATION property=%s replay=%s no-failing-input-found" % (pid, rp))
        reported.append(rp)
        exit_code = 1

    # ---------------- evidence
    wall = time.time() - t0
    if not replay_in:
        thm_list = []
        src = strip_comments(open(os.path.join(COQ, "Props/%s.v" % pid)).read())
        for t in thms:
            kind = "full"
            if t.endswith("_partial"):
                kind = "partial"
            elif t.endswith("_refuted"):
                kind = "refuted"
            elif "finite" in t:
                kind = "finite-domain"
            thm_list.append({"name": t, "kind": kind, "assumptions": assumptions.get(t, "not printed")})
        ev = {
            "property_id": pid, "tier": tier, "seed": seed, "level": cfg["level"],
            "coverage": {
                "obligations": len(thms), "discharged": discharged,
                "checker_cmd": "coqc -Q . P2 Props/%s.v (after make -k -j16 -f Makefile.coq over the whole development; Coq 8.16.1)" % pid,
                "trusted_base": cfg["trusted_base"],
                "theorems": thm_list,
                "evaluations": summ.get("evaluations", 0),
                "distinct_nontrivial": summ.get("distinct_nontrivial", 0),
                "rule": summ.get("rule", ""),
                "samples": summ.get("samples", [])[:5],
                "correspondence": {"cases": summ.get("evaluations", 0), "case_files_evaluated_by_vm_compute": coq_cases,
                                   "disagree_IM": len(bad_im), "disagree_IS_coq": len(bad_is),
                                   "disagree_IS_go": len(summ.get("go_violations") or []),
                                   "skipped": summ.get("skipped", {}),
                                   "coq_counts": {name: dict(zip(cfg["count_lists"][name], vals or []))
                                                  for name, vals in coq_counts.items()}},
                "distribution": summ.get("distribution", {}),
                "tables": tables,
                "known_findings_reobserved": sorted(known_hit.keys()),
                "broken": broken,
                "extra": summ.get("extra", {}),
                "correspondence_only": cfg.get("correspondence_only", []),
                "residue": cfg.get("residue", ""),
            },
            "assumptions": cfg["assumptions"],
            "wall_s": round(wall, 2),
            "violations": len(by_sig) + (1 if (not by_sig and broken) else 0),
        }
        # evidence describes runs against /repo itself; runs against a scratch worktree (VERIF_REPO) go elsewhere
        evdir = os.path.join(ROOT, "evidence") if REPO == "/repo" else os.path.join(BUILD, "evidence-scratch")
        os.makedirs(evdir, exist_ok=True)
        json.dump(ev, open(os.path.join(evdir, "%s.json" % pid), "w"), indent=1, ensure_ascii=False)
    log("%s %s: theorems %d/%d, cases %d (non-trivial %d), I!=M %d, I!=S %d, known %d, %.1fs -> exit %d" % (
        pid, tier, discharged, len(thms), summ.get("evaluations", 0), summ.get("distinct_nontrivial", 0),
        len(bad_im), len(violations), len(known_hit), wall, exit_code))
    sys.exit(exit_code)


if __name__ == "__main__":
    main()
