#!/usr/bin/env python3
"""Writes MANIFEST.json from tools/props.py so that the two never drift."""
import json, os, sys
ROOT = os.path.dirname(os.path.dirname(os.path.abspath(__file__)))
sys.path.insert(0, os.path.join(ROOT, "tools"))
from props import PROPS, NOT_APPLICABLE, MANIFEST_TEXT

checks = []
for pid in sorted(PROPS):
    c = PROPS[pid]
    t = MANIFEST_TEXT[pid]
    checks.append({
        "property_id": pid,
        "quick_cmd": "bin/check %s quick" % pid,
        "thorough_cmd": "bin/check %s thorough" % pid,
        "evidence_file": "evidence/%s.json" % pid,
        "replay_cmd_template": "bin/check %s --replay {path}" % pid,
        "engine": "coq-model",
        "level_claimed": {"category": c["level"], "text": t["text"], "design_ref": t["design_ref"]},
        "level_note": t["note"],
        "technique": t["technique"],
    })
na = dict(NOT_APPLICABLE)
for line in open(os.path.join(ROOT, "properties.jsonl")):
    pid = json.loads(line)["id"]
    if pid not in PROPS and pid not in na:
        na[pid] = "not claimed yet: its model and check are still under construction (DESIGN.md section 10.1, order of work); no other technique is substituted"
m = {
    "version": 1,
    "setup_cmd": "bin/setup",
    "hooks": {
        "guard": "verif",
        "enable": "go build -tags verif (the harness module /verif/harness replaces github.com/hneemann/parser2 by /repo)",
        "baseline_off_cmd": "cd /repo && GOFLAGS=-mod=mod go test -json -vet=off -count=1 -timeout 25m ./...",
        "source_commits": json.load(open(os.path.join(ROOT, "tools", "hook_commits.json"))),
        "add_only": True,
    },
    "engines": [{"name": "coq-model", "path": "coq/", "serves_properties": sorted(PROPS),
                 "kind_free_text": "hand-written executable Gallina model + theorems (Coq 8.16.1), tied to /repo by regenerated tables (coq/Generated) and a vm_compute correspondence run driven by harness/ and tools/check.py"}],
    "checks": checks,
    "not_applicable": [{"property_id": k, "reason": v} for k, v in sorted(na.items())],
    "notes": "See DESIGN.md. known_findings.json lists recorded findings and fixed defects.",
}
json.dump(m, open(os.path.join(ROOT, "MANIFEST.json"), "w"), indent=1)
print("MANIFEST.json written:", len(checks), "checks,", len(m["not_applicable"]), "not applicable")
