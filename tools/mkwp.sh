#!/bin/bash
# tools/mkwp.sh <name>: scratch work area /tmp/wp/<name>/{verif,repo} (git worktrees on branch wp-<name>)
set -e
n=$1
mkdir -p /tmp/wp/$n
git -C /verif worktree add -q -B wp-$n /tmp/wp/$n/verif HEAD
git -C /repo worktree add -q -B wp-$n /tmp/wp/$n/repo HEAD
echo /tmp/wp/$n/repo > /tmp/wp/$n/verif/.verif_repo
(cd /tmp/wp/$n/verif && bin/setup | tail -2)
