#!/bin/bash
# usage: tools/goal_local.sh File.v LINE [taillines] -- like goal.sh but relative to the worktree this script lives in
root="$(cd "$(dirname "$0")/.." && pwd)"
f=$1; n=$2
tmp=$(mktemp -d)
head -n $((n-1)) "$root/coq/$f" > $tmp/G.v
echo "Show. Abort All." >> $tmp/G.v
cd $root/coq && timeout 120 coqc -Q . P2 $tmp/G.v 2>&1 | tail -${3:-40}
rm -rf $tmp
