#!/usr/bin/env python3
"""tools/seedtest.py [id ...]: run the registered quick check of the property each seeded change breaks against a
scratch worktree of /repo with the change applied (VERIF_REPO), and report caught / missed.
seeded/<id>/meta.json: {"property": "Cxx", ...}; seeded/<id>/patch.diff."""
import json, os, subprocess, sys, shutil, time
ROOT = os.path.dirname(os.path.dirname(os.path.abspath(__file__)))
ids = sys.argv[1:] or sorted(d for d in os.listdir(os.path.join(ROOT, "seeded")) if os.path.isdir(os.path.join(ROOT, "seeded", d)))
results = {}
for sid in ids:
    d = os.path.join(ROOT, "seeded", sid)
    meta = json.load(open(os.path.join(d, "meta.json")))
    props = meta["property"] if isinstance(meta["property"], list) else [meta["property"]]
    wt = "/tmp/seed/" + sid
    subprocess.run(["git", "-C", "/repo", "worktree", "remove", "--force", wt], capture_output=True)
    os.makedirs("/tmp/seed", exist_ok=True)
    subprocess.run(["git", "-C", "/repo", "worktree", "add", "-q", "--detach", wt, "HEAD"], check=True)
    ap = subprocess.run(["git", "-C", wt, "apply", os.path.join(d, "patch.diff")], capture_output=True, text=True)
    if ap.returncode != 0:
        results[sid] = {"status": "patch does not apply", "detail": ap.stderr[-300:]}
    else:
        res = {}
        for pid in props:
            t0 = time.time()
            p = subprocess.run(["bin/check", pid, "quick"], cwd=ROOT, env=dict(os.environ, VERIF_REPO=wt), capture_output=True, text=True)
            lines = [l for l in p.stdout.splitlines() if l.startswith("VIOLATION") or l.startswith("INFRA")]
            res[pid] = {"exit": p.returncode, "lines": lines[:3], "s": round(time.time() - t0)}
        results[sid] = res
    subprocess.run(["git", "-C", "/repo", "worktree", "remove", "--force", wt], capture_output=True)
    print(sid, json.dumps(results[sid]), flush=True)
# leave the framework built against /repo again
pass
json.dump(results, open(os.path.join(ROOT, "build", "seedtest_%s.json" % "_".join(ids)[:40]), "w"), indent=1)
