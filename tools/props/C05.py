from props import KERNEL, HARNESS, NOAX

PROP = {
    "level": "proof",
    "harness_cmd": "c05",
    "run_file": "Run/C05Run.v",
    "obligation_files": ["Props/C05.v", "Conc/CrashProofs.v", "Conc/NoPanicProofs.v", "Conc/TryProofs.v"],
    "harness_timeout": 3000,
    "trusted_base": [KERNEL, HARNESS, NOAX,
                     "modelled, not verified: coq/Conc/Crash.v (which goroutine runs which closure, where the code recovers: record code_sites) is hand-written after funcGen/generator.go generateIntern, value/list.go Map/Accept/Merge, value/multiUse.go runConsumer, value/value.go TryCatch and iterator.MapAuto/initParallel/ToChan/CopyProducer; it is tied to the code by the fault enumeration only (every context x fault class in an isolated worker process)",
                     "modelled, not verified: the operator and library model coq/Sem/Ops.v, coq/Sem/Lib.v (shared with C01/C02/C07/C14), tied by the same enumeration: every operator x operand-kind pair and the modelled built-ins are evaluated by the real code and compared by class",
                     "the worker protocol of harness/c05_worker.go: a case counts as 'process died' when the worker printed no result line and the Go runtime wrote 'panic:' / 'fatal error:' to stderr"],
    "assumptions": ["a Go panic that reaches the outermost frame of a goroutine without a deferred recover terminates the process, exhaustion of the Go stack terminates it on every goroutine and cannot be recovered (Go runtime behaviour: observed in the worker processes, not modelled)",
                    "the default 1 GB Go stack holds the at most 10002 recursion levels the value-stack guard lets through when one level nests few Go calls (model parameter D; observed: the guard's panic arrives, see source_kind guard-recursion)",
                    "host functions are represented by three kinds: returns an error, panics with a value, hits a Go runtime error; a host function that calls os.Exit, deadlocks or corrupts memory is outside the property"],
    "residue": "which goroutine runs a closure is decided by timing inside iterator.MapAuto; the run forces the switch with a host function sleeping 300 us and records the goroutine ids (distribution parallel_switch); the theorem C05_schedule_independent makes the model's answer independent of that bit. Depth at which the Go stack is exhausted: observed at reduced limits (debug.SetMaxStack 4 MB / 16 MB), parameter D in the model.",
    "correspondence_only": ["static functions and methods of value.New() outside the pool of coq/Sem/Lib.v: only the specification side (process survives, try/catch catches) is checked on them, there is no model class to compare (LUnknown / method_arity = None)",
                            "part of the evidence is enumeration, not proof: that the real operators/built-ins/host-function paths raise no Go panic off the calling goroutine is established per (source kind, context, GOMAXPROCS) case, bounded-exhaustively over the stated product"],
}

MANIFEST = {
    "text": "Theorems (Coq, all operands / all context trees / all schedules / all stack capacities): the operators, index and member access and the modelled built-ins never answer with a Go panic; in the crash model (goroutine contexts Main/Worker/Collector/Producer/Consumer, recover sites as in the repaired code) every fault of class error or panic is an error of the evaluation call, try/catch returns the catch value for both, the outcome is independent of the parallel-switch schedule, and no program without a Go-stack-exhausting fault source is fatal (C05_no_fatal_partial). The unrestricted statement is refuted (C05_no_fatal_refuted: Go stack exhaustion cannot be recovered; recorded finding: recursion with a deep body). Recursion through any closure-taking method is stopped by the guard (C05_recursion_through_method_is_an_error). Tie to the code: bounded-exhaustive fault enumeration, every case (fault source x context x GOMAXPROCS in {1,2,16}) evaluated by the real generated function in its own worker process; compared: value / catch value / error / process died against the model and against the property; recursion to depth 12000 through each of the 47 closure-taking built-ins and call forms (the guard must fire; the set of built-ins is read from the generator and must be covered), and faults inside still-lazy lists nested in returned maps/lists (the deep evaluation must return the error).",
    "design_ref": "DESIGN.md section 6 C05",
    "note": "Proof for the model; the correspondence part is fault enumeration (one subprocess per case). Trusted: Coq kernel + VM, the hand-written crash model and operator model (tied by enumeration only), the harness and worker protocol. One recorded finding remains: recursion with a deep body exhausts the Go stack before the slot guard fires. Recursion through list.map / list.accept / list.multiUse was repaired (funcGen.NewEmptyStackBelow); the signature is per method, so a method losing the guard is reported as new.",
    "technique": "Coq proof over a goroutine/recover-site model + isolated-subprocess fault enumeration compared by vm_compute",
}
