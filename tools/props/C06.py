from props import KERNEL, HARNESS, NOAX

PROP = {
    "level": "proof",
    "harness_cmd": "c06",
    "run_file": "Run/C06Run.v",
    "obligation_files": ["Props/C06.v", "Conc/ConcProofs.v"],
    "harness_timeout": 6000,
    "trusted_base": [KERNEL, HARNESS, NOAX,
                     "modelled by hand, tied by correspondence only: Conc/ParMap.v after github.com/hneemann/iterator MapAuto/initParallel/FilterAuto (dependency source), Conc/SharedStack.v after funcGen.Stack/stackStorage, the ownership map `own` and the sequential stage/terminal semantics of Conc/Pipeline.v after value/list.go, value/multiUse.go, value/operations.go",
                     "the Go race detector and `taskset` (runtime.NumCPU()==1 selects the library's sequential path); the host function h that forces the wall-clock switch and records goroutine ids",
                     "a plain Go reference fold (harness/c06.go Ref) as second, independent oracle next to the Coq specification side pipe_seq"],
    "assumptions": ["closures called by the stages are pure functions of their arguments apart from the host function h (closures of the generated family capture nothing mutable); lists captured by closures and materialised concurrently (List.Eval) are C11's business",
                    "the timing decision of MapAuto is an input of the model (both outcomes are covered); channel hand-overs are atomic steps, goroutines are sequentially consistent agents",
                    "pipelines containing a failing element are consumed completely; which error is reported and errors behind an early-stopping consumer's read-ahead are not claimed (as in the property's quantifier)",
                    "par_map_eq_seq is stated for the parallel phase (initParallel) from any start index with the recording consumer; the composition with MapAuto's sequential prefix, FilterAuto's wrapper, Merge/ToChan, CopyProducer (multiUse) and every other stage is executable in the model and compared on every generated pipeline, not proved"],
    "residue": "Data-race freedom is a statement about the Go memory model: it is observed by the race detector on the schedules that occurred (GOMAXPROCS 1/2/4/16, forced switch), not proved. The theorems prove the protocol (order restoration, failure reporting, schedule independence of the parallel map) and the stack discipline (noninterference on private storages, ownership map of the repaired list.go); they do not prove the channel code of the iterator dependency race-free, nor that the Go runtime realises only the interleavings of the model.",
    "correspondence_only": ["iterator.Merge / ToChan producer goroutines", "multiUse / CopyProducer", "MapAuto sequential prefix + timing switch composition", "FilterAuto wrapper",
                            "re-iteration of lazy lists (a lazy pipeline as second list of cross, m.cross(m), m.merge(m), m+m, [m.sum(), m.mapReduce(..), m.size()]): the model denotes a pipeline by a function of its source, the implementation is compared on generated programs", "sequential meaning of combine, combine3, combineN, iir, iirCombine, number, compact, cross, top, skip, fsm, '+', and of all terminals (C07/C08 own their theorems)"],
}

MANIFEST = {
    "text": "Theorems (Coq, all schedules, all worker counts, all inputs, no bounds): the collector of iterator.initParallel emits results arriving in any order in index order and reports a failing item at its position at the latest; feeder + workers + collector under every complete schedule give the outcome of the sequential map; goroutines pushing call frames on pairwise different stack storages never see each other's arguments, whereas two agents on one storage do (4-step witness); the ownership map of the repaired value/list.go puts no two goroutines on one stack storage for any pipeline. A second traversal of a parallel map under any other schedule gives the same outcome (iteration_is_repeatable). Tie: pipelines of up to 6 stages over every lazy stage and terminal, the other operand of cross/merge/+ being itself a generated lazy pipeline (depth <= 3, nested merge/cross/map/accept/...) and the same lazy list value used several times (let m = ...; m.cross(m), m.merge(m), m+m, three terminals over m), lists of 0..2000 elements, per-stage cost profiles forcing/forbidding the wall-clock switch (verified by goroutine ids), GOMAXPROCS 1/2/4/16, evaluated by the real library in a `go build -race` worker and compared with the protocol model under a seeded schedule, the sequential specification (both by vm_compute), the library's own sequential path under taskset and a plain Go fold; a race report is a violation.",
    "design_ref": "DESIGN.md section 6 C06, section 3.5",
    "note": "Trusted: Coq kernel + VM, the hand-written protocol/stack/ownership models (tied by correspondence), the Go harness, race detector and taskset. Data-race freedom and the Go runtime's interleavings are observed, not proved (residue).",
    "technique": "Coq protocol models with explicit schedules (induction over schedules) + forced-parallel correspondence run under the race detector",
}
