from props import KERNEL, TABLES, HARNESS, NOAX

PROP = {
    "level": "proof",
    "harness_cmd": "c19",
    "run_file": "Run/C19Run.v",
    "obligation_files": ["Props/C19.v", "Gen/GenericProofs.v"],
    "harness_timeout": 3000,
    "trusted_base": [KERNEL, TABLES, HARNESS, NOAX],
    "assumptions": [],
    "residue": "",
    "correspondence_only": [],
}

MANIFEST = {
    "text": "preliminary",
    "design_ref": "DESIGN.md section 6 C19",
    "note": "preliminary",
    "technique": "Coq proof + bounded-exhaustive vm_compute correspondence run",
}
