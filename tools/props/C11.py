from props import KERNEL, HARNESS, NOAX

PROP = {
    "level": "proof",
    "harness_cmd": "c11",
    "run_file": "Run/C11Run.v",
    "obligation_files": ["Props/C11.v", "Heap/ConcurrentProofs.v"],
    "trusted_base": [KERNEL, HARNESS, NOAX],
    "assumptions": [],
    "residue": "",
    "correspondence_only": [],
}

MANIFEST = {
    "text": "provisional",
    "design_ref": "DESIGN.md section 6 C11",
    "note": "provisional",
    "technique": "Coq proof + vm_compute correspondence run",
}
