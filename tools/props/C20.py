from props import KERNEL, HARNESS, NOAX

PROP = {
    "level": "proof",
    "harness_cmd": "c20",
    "run_file": "Run/C20Run.v",
    "obligation_files": ["Props/C20.v", "Lib/BinningProofs.v"],
    "trusted_base": [KERNEL, HARNESS, NOAX,
                     "modelled, not verified: coq/Lib/Binning.v is hand-written after value/binning.go (axis.getIndex/getDescr, Add, Result, the 2-d variants, collectBinning1d/2d) over exact rationals and tied to the code by the correspondence run: result maps of list.binning / binning2d / collectBinning evaluated through value.New().Generate are compared entry by entry (values exactly, descriptions by min/max presence and exact bounds)",
                     "floats: the model computes in Q; it agrees with the float code wherever every float operation of the code is exact. The harness decides that domain with math/big (v-start, start+i*size, to-size exact; quotient exact or rounded to a non-integer; all partial sums representable) and skips and counts the other cases",
                     "the argument plumbing of Binning/Binning2d (ToFloat, int(count), closure calls, MustFloat) and the list/map machinery are Go's and only exercised, not modelled"],
    "assumptions": ["size > 0 and 0 <= count for the index/description theorems (count < 0 panics in make: C05's business; bin.Size(): C13's); mass conservation, additivity and collect_is_whole hold for every size",
                    "element positions and values are finite floats and every float operation on them is exact (the property's own domain); outside it (e.g. a denormal x just below start with size > 1, where the quotient underflows to -0) the float code can differ from the rational model",
                    "collectBinning is applied to results of binning/binning2d on one grid (the correspondence run also feeds results from different grids: summed when the counts agree, error otherwise, as the model predicts)"],
    "residue": "float-to-int conversion of out-of-range values is implementation-defined in Go; after the repair the code no longer performs it, before the repair the observed amd64 behaviour (minimum int) put values >= start+2^63*size into the underflow bin",
    "correspondence_only": ["str entry of a bin description (presence only; its text is formatting, not part of C20)"],
}

MANIFEST = {
    "text": "Theorems (Coq, all lists, all grids, no bounds) over an executable model of value/binning.go on exact rationals: getIndex puts every value into exactly the bin the statement names (underflow / [start+(i-1)*size, start+i*size) / overflow) for every size>0 and count>=0; the bins of binning and binning2d sum to the sum of the element values and bin i holds exactly the sum of the elements its description admits; binning(xs++ys) is the entrywise sum of binning(xs) and binning(ys); collectBinning over the binnings of any list of parts returns the binning of the concatenation (1-d and 2-d). The model is compared with the real list.binning / binning2d / collectBinning (through Generate) on generated record lists (edges, next-float-beside-edge, far outside up to 2^900*size, negative, zero) x grids (count 0..64) x splittings into <= 4 parts, on histories over the same partial results (parts binned once, 2-4 collectBinning calls over permutations/sub-multisets, every partial result re-read after every call; in the model partial results are immutable values, so their persistence is checked by the run, the value of every collect of a history is a theorem) and on all map observers of the bin descriptions (isAvail/get/member/~/list/size/string/= against the description record, theorem C20_descr_observers), floats transported exactly, with the laws re-evaluated on the implementation's outputs in exact rational arithmetic.",
    "design_ref": "DESIGN.md section 6 C20",
    "note": "Trusted: Coq kernel + VM, the Go harness (generators, exactness filter, oracle); the model is hand-written and tied by correspondence only; agreement of float and rational arithmetic is restricted to cases where no float operation rounds (decided per case by the harness, skipped cases counted).",
    "technique": "Coq proof over an exact-rational model + vm_compute correspondence run + exact-arithmetic law oracle on the implementation's outputs",
}
