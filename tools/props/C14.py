from props import KERNEL, TABLES, HARNESS, NOAX

PROP = {
    "level": "proof",
    "harness_cmd": "c14",
    "run_file": "Run/C14Run.v",
    "obligation_files": ["Props/C14.v", "Sem/OpsLaws.v"],
    "harness_timeout": 3000,
    "trusted_base": [KERNEL, TABLES, HARNESS, NOAX,
                     "modelled, not verified: coq/Sem/Ops.v (veq, worse, eq_scalar, vless, calc for = != < > <= >= ~, contains_item/contains_all) and coq/Sem/Lib.v (pick_min/pick_max) are hand-written after value/operations.go, value/value.go New, value/list.go Equals/containsItem/containsAllItems/Min/Max and value/map.go Equals; they are tied to the code by the regenerated operator matrices (Generated/ValueOps.v, obligation C14_definedness_table) and by the bounded-exhaustive correspondence run (implementation = model on every case)",
                     "floats are exact dyadic rationals m*2^e (no IEEE model): comparisons are exact; an int that is not exactly a float (|z| >= 2^53, outside the property's quantifier) is outside the model (Unsup) and not in the pool",
                     "strings are code-point lists; Go compares bytes, which coincides on valid UTF-8 (the pool holds valid UTF-8 only)"],
    "assumptions": ["maps: the keys of one map value are pairwise different (wf_keys; C13's business); the model's maps are association lists in the iteration order of the value",
                    "theorems about exact int/float comparison assume |z| < 2^53 (small_ints), the property's own bound",
                    "reflexivity excludes NaN and closures (clean_val), as the property does",
                    "a caught error text handed to a catch closure (VErrText) is outside the theorems (is_errtext = false)"],
    "residue": "",
    "correspondence_only": ["order: List.Order + sort.Sort is modelled for at most 12 elements (where Go's pdqsort is the insertion sort) in Run/C14Run.v order_model and compared case by case; no theorem about it: its output is judged by the checker order_allowed (permutation + no inversion w.r.t. the exact order, error iff two elements are incomparable) and by the same law on the implementation's own < answers",
                            "switch: the case loop of GenerateFunc is modelled in Run/C14Run.v (switch_model over equal_fg); the theorem states only that equal_fg is veq",
                            "representation independence: no theorem (the model's lists and maps are abstract). Run-level specification: every pair is also evaluated with the lists of both operands (down to nesting depth 2) in each of 24 un-evaluated representations rebuilt per evaluation (accept, accept dropping items, skip, top n = / > available over sized and unsized sources, combine, concat, append, map(e->e) over each: size-hint inheritance) - representation x representation exhaustively for the same abstract value on a core of list values, sampled for the others and for different values, plus x ~ l in every representation; the cases handed to Coq carry abstract values only, and the answers must also equal those of the pool's own representations (Go oracle, law 'representation'); the hook-visible state (itemsPresent, SizeIfKnown, hint exact) of every representation is in the distribution"],
}

MANIFEST = {
    "text": "Theorems (Coq, all values with unbounded nesting): = answers a boolean only if it is the evident equality (numbers by exact value, lists element-wise, maps key-wise) and finds every such equality; it is reflexive (no NaN/closure) and symmetric as an outcome - true, false or error - after the repair of Map.Equals; < is irreflexive, asymmetric and transitive on ints, floats (mixed, +-0, infinities) and strings and answers the exact order; != is the negation of =, a>b is b<a, a<=b is a<b or a=b, a>=b is b<=a; x~list (x not a list) is the first decisive equality; operands whose kinds are not registered in the operator matrices regenerated from value.New() give an error, never a boolean; min/max return an argument that no argument is smaller/larger than. Refuted with a witness and recorded as a known finding: list~list (multiset containment). Repaired in the repository: = on maps depended on entry order and on which map was the receiver (false one way, error the other). Correspondence: all pairs of a ~120-value pool x {= != < > <= >= ~ min max switch order} in both directions and ~20k triples, implementation = model and implementation within specification, plus the laws evaluated in Go on the implementation's own answers.",
    "design_ref": "DESIGN.md section 6 C14",
    "note": "Trusted: Coq kernel + VM, the matrix dump hook, the Go harness. The operator model is hand-written and tied by the regenerated matrices and the exhaustive pool run; order (sort.Sort) is checked by a specification checker only. One deviation (list ~ list) is recorded in known_findings.json with refuted/partial theorems; the asymmetry of = on maps was repaired (fix: commit in the repository) and its witness stays in the corpus.",
    "technique": "Coq proof over regenerated operator matrices + bounded-exhaustive vm_compute correspondence run + law oracle on the implementation's own answers",
}
