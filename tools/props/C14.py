from props import KERNEL, TABLES, HARNESS, NOAX

PROP = {
    "level": "proof",
    "harness_cmd": "c14",
    "run_file": "Run/C14Run.v",
    "obligation_files": ["Props/C14.v", "Sem/OpsLaws.v"],
    "trusted_base": [KERNEL, TABLES, HARNESS, NOAX],
    "assumptions": [],
    "residue": "",
    "correspondence_only": [],
}

MANIFEST = {
    "text": "placeholder",
    "design_ref": "DESIGN.md section 6 C14",
    "note": "placeholder",
    "technique": "Coq proof over regenerated operator matrices + vm_compute correspondence run",
}
