from props import KERNEL, TABLES, HARNESS, NOAX

PROP = {
    "level": "proof",
    "harness_cmd": "c18",
    "run_file": "Run/C18Run.v",
    "obligation_files": ["Props/C18.v", "Exp/XmlProofs.v"],
    # when the table obligation is broken the model computes candidate code points; they are replayed on the
    # implementation in character data, in an attribute value and in a key
    "witness": {"expr": "c18_bad_runes", "imports": "From P2 Require Import Run.C18Run.", "flag": "--extra-runes"},
    "trusted_base": [KERNEL, TABLES, HARNESS, NOAX,
                     "modelled, not verified: the XMLWriter state machine (coq/Exp/Xml.v step/run), the XML exporter's traversal (xml_ops: Export + xmlExporter incl. isSimpleMap/isAttrName) and the ToHtml core (coq/Exp/Html.v) are hand-written after value/export/xmlWriter/xmlWriter.go, xml.go, export.go, html.go and tied by byte-for-byte correspondence on generated value trees; ToString of scalars, sort.Strings, Map.Iter/Get, strconv and the float formatting are Go's",
                     "the specification parser xml_parse/xml_fragment (XML 1.0 subset: elements, double-quoted attributes with unique names, character data, predefined entities, numeric references, line-end and attribute-value normalisation, 5th-edition names; formatting white space in element content is not data) is compared with encoding/xml on every case (the tree after the same white-space rule)",
                     "the two escape tables are swept through the public Write / Attr API over all 1,112,064 Unicode scalar values on every run"],
    "assumptions": ["strings and map keys consist of legal XML 1.0 characters (production [2] Char); other code points (C0 controls except TAB/LF/CR, U+FFFE, U+FFFF) cannot be represented in XML 1.0 at all and are outside the property",
                    "map keys of one map are pairwise different and Get(k) returns the value Iter yields for k (C13's business)",
                    "xmlWriter.writeEsc is context-free (output of a string = concatenation of per-rune outputs): checked on every generated string by the byte comparison, not proved",
                    "the root value is a list or a map (a scalar root gives no root element; the property is stated for lists and maps)",
                    "the writer theorem covers call sequences that do not mix Write with child elements inside one element (all the XML exporter issues); with PrettyPrint, mixed content gets indentation inside character data - this occurs in ToHtml output (plainList, Link around a table) and is covered by the correspondence run only"],
    "residue": "ToHtml: no Coq theorem; its modelled core is compared byte-for-byte, the rest through encoding/xml and the placeholder oracle. The class list ToHtml returns in class mode carries the style strings of the value as template.CSS (a type html/template does not escape): whoever writes them into a <style> element must neutralise '</style>' himself - outside the markup ToHtml produces, noted here. A failing closure in a table format (style key 'table') is deliberately swallowed by tableExporter.format (the cell is rendered unformatted); closure styles on non-list values inside table cells are never evaluated.",
    "correspondence_only": [
        "ToHtml core (scalars, floats, numbered lists, tables with the maxListSize cut-off, plainList, maps, Format with string / css-map styles inline or as classes, Cell, ColSpan, Link, http/https/host strings): Coq model coq/Exp/Html.v compared byte-for-byte, no theorem",
        "ToHtml beyond the core (File values, closure styles, table formats rNcM/rN/cN/all incl. closures, custom renderers incl. raw HTML, error returns, recover): encoding/xml tokenisation, constant element/attribute names, and the placeholder oracle (same skeleton with inert data; every text / attribute value / class-list style equals the placeholder text with the original strings substituted); failing closure / custom renderer / panicking renderer must give err != nil and no markup",
        "XML exporter: Go-side oracle encoding/xml + reader of the documented format, independent of the Coq side",
    ],
}

MANIFEST = {
    "text": "Theorems (Coq, all call sequences / all value trees, no size bound): (1) in every configuration of the XMLWriter (AvoidShort x PrettyPrint) the calls for any element tree with XML names, unique attribute names, legal characters and no mixed content yield markup that a specification parser for the emitted XML 1.0 subset accepts and that parses back to exactly that tree - every attribute value and every piece of character data decodes to the string given, nothing stays open; (2) for every value tree the XML exporter issues exactly the balanced call sequence of a specification tree whose element names are list/entry/map and whose attribute names are 'key' or plain-ASCII-name map keys; (3) composition: for every list/map value with legal XML characters export.XML() does not panic, the document parses, and a reader of the documented list/entry/map/key format gets back exactly the value (lists in order, keys as given, scalars as text) - for any pair of escape tables satisfying a decidable predicate; the tables are regenerated on every run by sweeping the real Write/Attr over all Unicode scalar values. The writer, exporter and ToHtml-core models are compared byte-for-byte with export.XML()/export.ToHtml on generated trees (all list/map representations, Format/Link/File wrappers, hostile keys and strings), the specification parser is compared with encoding/xml on every case, and ToHtml is additionally checked by a placeholder oracle (markup skeleton independent of the data, data only in text / attribute values, decoded exactly) and for errors-not-panics.",
    "design_ref": "DESIGN.md section 6 C18",
    "note": "Trusted: Coq kernel + VM, the table sweep (translator), the Go harness; the writer/exporter/ToHtml models are hand-written and tied by correspondence only; ToHtml has no theorem (correspondence_only); context-freeness of writeEsc is checked, not proved. Two defects found at the pinned commit were repaired in /repo (fix: commits) and the models follow the repaired code.",
    "technique": "Coq proof over regenerated escape tables + vm_compute correspondence run + encoding/xml and placeholder oracles",
}
