from props import KERNEL, TABLES, HARNESS, NOAX

PROP = {
    "level": "proof",
    "harness_cmd": "c18",
    "run_file": "Run/C18Run.v",
    "obligation_files": ["Props/C18.v", "Exp/XmlProofs.v"],
    # when the table obligation is broken the model computes candidate code points that are replayed on the implementation
    "witness": {"expr": "c18_bad_runes", "imports": "From P2 Require Import Run.C18Run.", "flag": "--extra-runes"},
    "trusted_base": [KERNEL, TABLES, HARNESS, NOAX],
    "assumptions": [],
    "residue": "",
    "correspondence_only": [],
}

MANIFEST = {
    "text": "under construction",
    "design_ref": "DESIGN.md section 6 C18",
    "note": "",
    "technique": "Coq proof over regenerated escape tables + vm_compute correspondence run",
}
