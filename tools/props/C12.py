from props import KERNEL, HARNESS, NOAX

PROP = {
    "level": "proof",
    "harness_cmd": "c12",
    "run_file": "Run/C12Run.v",
    "obligation_files": ["Props/C12.v", "Conc/TokChanProofs.v", "Conc/TokSysProofs.v", "Lex/TokProofs.v"],
    "harness_timeout": 3400,
    "trusted_base": [KERNEL, HARNESS, NOAX,
                     "modelled, not verified: coq/Conc/TokChan.v is a protocol model of Tokenizer.Start/run, Tokenizer.forward/Next and the deferred drain of Parser.Parse (unbuffered channel = rendezvous; close and receive-on-closed never block); the parser is abstracted to ANY consumer performing k receives; the number of tokens the real parser received is observed through the hook verif_hooks_recv.go, which parses once more through a counting relay",
                     "modelled, not verified: coq/Conc/Quiesce.v (iterator.ToChan after the consumer stopped, with and without the wrapper of value/list.go Merge) and coq/Conc/ParMap.v (iterator.initParallel) are hand-written after the dependency's source; iterator.CopyProducer (multiUse) is not modelled",
                     "goroutine observation is the runtime's: runtime.Stack(all) filtered by frames of github.com/hneemann/parser2 and github.com/hneemann/iterator, sampled after a grace period; CPU time through getrusage"],
    "assumptions": ["no operator of the configuration contains NUL (ops_ok)",
                    "the parser performs finitely many receives and then returns (C03_parse_total / C04 parse_total for the parser model)",
                    "goroutines started by the host application's own functions are not the library's business"],
    "residue": "Goroutine termination is observed through the runtime's goroutine dump after a grace period (100 ms, doubling up to 2 s while the count still falls), not proved; the protocol models say which goroutines can still move. Background CPU is measured for merge only (300 ms window after the grace period). multiUse (iterator.CopyProducer, 5 s timeout) is observed only.",
    "correspondence_only": ["multiUse consumers and the CopyProducer protocol (value/multiUse.go, iterator.CopyProducer): goroutine counts after early-stopping, failing and complete consumers",
                            "number of receives of the real parser (k) per input: observed through the hook, the theorems hold for every k",
                            "which workers hold a result when the collector returns depends on the schedule: the model bounds the goroutines left per evaluation by workers+1, the harness checks the bound"],
}

MANIFEST = {
    "text": "Theorems (Coq, every token list, every parser = any consumer performing k receives, EVERY interleaving of the rendezvous protocol): with the deferred drain of Parse every schedule has at most max(#tokens,k)+3 actions, exactly that many iff both goroutines have returned, and a state in which nothing more can happen has the tokenizer goroutine returned and every token received (drain_terminates_producer, no_goroutine_left for the scanner model's token stream of every input); Parse before the repair leaves the tokenizer blocked forever exactly if the parser performed fewer receives than there are tokens (leak_iff_unsent_without_drain, witness \"1 ) )\"); a parse that has seen TokenEof leaves none. list.merge after the repair: each producer goroutine returns within two steps after the consumer stopped, whatever its source could still produce (tochan_quiesces_promptly); iterator.ToChan as shipped goes through its whole source (tochan_unwrapped_refuted). Parallel map/accept (iterator.initParallel, dependency): a worker holding a result when the collector returns holds it under every schedule (par_stage_quiesces_refuted, stopped_stage_never_quiet; known finding), quiescence only if no worker holds a result (par_stage_quiesces_partial). Correspondence on every run: the C04 input streams, Generate called 200 times per input in worker processes, goroutine dump filtered by parser2/iterator frames after a grace period, compared with the model's prediction from the scanner model's token stream and the observed number of receives; pipelines with every early-stopping consumer and error path over parallel map/accept (switch forced by a sleeping host function and verified), merge (plus CPU after return) and multiUse.",
    "design_ref": "DESIGN.md section 6 C12",
    "note": "Trusted: Coq kernel + VM, the hand-written protocol models (tied by correspondence), the Go harness, the runtime's goroutine dump. Repaired in the repository: Parse drains the token channel (1116b62, before this package); list.merge left two iterator.ToChan goroutines iterating their lists to the end after an early-stopping consumer - numbers(10^11).merge(numbers(10^11),(a,b)->a<b).first() kept two cores busy for hours per evaluation (fix: c6cc3c9). Known finding, in the dependency github.com/hneemann/iterator (initParallel), not repaired: when the consumer of a parallel map/accept stops early or an error ends the evaluation, up to NumCPU workers blocked in `result <-` and the wg.Wait goroutine stay forever (signatures worker/consumer-stops-early, worker/error). multiUse is observed only.",
    "technique": "Coq proof over protocol models (all interleavings by induction over schedules) + vm_compute correspondence run against the runtime's goroutine dump in worker processes",
}
