from props import KERNEL, TABLES, HARNESS, NOAX

PROP = {
    "level": "proof",
    "harness_cmd": "c07",
    "run_file": "Run/C07Run.v",
    "obligation_files": ["Props/C07.v", "Lib/BuiltinsProofs.v", "Lib/PipelineProofs.v"],
    "trusted_base": [KERNEL, TABLES, HARNESS, NOAX,
                     "modelled, not verified: the implementation models of coq/Lib/Builtins.v are hand-written after value/list.go, value/string.go, value/map.go and the iterator package (Map, Filter, Combine, Combine3, CombineN, IirMap, Cross, Merge, FirstN, Skip, Reduce, MapReduce) and tied to the code by the correspondence run (every case: implementation = model, exact values) and by the regenerated method tables",
                     "modelling decision: a lazy list is the stream of values yielded before the first error pair, ended by a clean end or that failure; what a producer yields after its first error is not modelled because every consumer of list.go returns at the first error (argued in Builtins.v, exercised by the run with callbacks failing mid-list in front of top/skip/first/...)",
                     "sort.Sort is modelled as the insertion sort it is for at most 12 items (pdqsort's small-slice case); longer lists answer 'unsupported' in the model and are not generated",
                     "operators used by the built-ins (+ / < = on values, ToString) are those of coq/Sem/Ops.v (the coordinator's model); floats are exact dyadic numbers, inexact results are skipped"],
    "assumptions": ["callbacks are pure functions of their arguments (the theorems take any Coq function value -> res value, failing ones included; closures with effects such as random() are outside)",
                    "list elements are fully evaluated values (a lazy list stored inside another value is C08's business); maps are seen as entry lists in iteration order with pairwise different keys (C13's business)",
                    "lists handed to order/orderRev/orderLess have at most 12 items and map/accept stay below the parallel switch of MapAuto (C06's business)",
                    "strings are sequences of Unicode scalar values; trim/toLower/toUpper are modelled on ASCII strings only"],
    "residue": "Specification side for failures: an error inside the callback of a lazy stage (or a comparison of a sort that fails on some pairs only) is required to surface only if the element is demanded, so for such cases the eager reference accepts an error or a value and exactness rests on implementation = model (1 of 1446 quick cases, seed 1). Measured on the quick run: 2.3 % of the cases are outside the model (answer 'unsupported': closure as a data argument, inexact float, unmodelled built-in) and are skipped for implementation = model; 3.1 % are not judged by the eager reference (top/skip with negative n, whose meaning the description leaves open, and the same unsupported cases); a panic is a violation even then.",
    # built-ins with an implementation model and correspondence but without a refinement lemma yet
    "correspondence_only": ["list.minMax (documented model d_minMax is compared on every case, no lemma)", "list.groupByEqual / groupByInt / groupByString (first-occurrence model + check_groups verdict, checker soundness proved, model-satisfies-checker not proved)",
                            "list.uniqueInt / uniqueString (check_unique verdict)", "list.movingWindow", "list.movingWindowRemove", "list.eval",
                            "list.order / orderRev / orderLess with a comparison that is not asymmetric or with more than 12 items",
                            "merge_sorted (sorted inputs give a sorted output) - only merge_spec is proved",
                            "string.len string.trim string.toLower string.toUpper string.contains string.split string.replace string.toInt (model = spec, compared on every case; lemmas only for cut, indexOf, len additivity)",
                            "map.accept map.map map.list map.size map.get map.put map.isAvail map.combine map.eval",
                            "static functions abs sign sqr int float min max binAnd binOr isInt isFloat string numbers (model of coq/Sem/Lib.v)",
                            "out of model, reported as such: sprintf, sqrt/ln/exp/sin/... (transcendental), Unicode case mapping and TrimSpace beyond ASCII, createLowPass, bisection, linearReg, createInterpolation, binning*, multiUse, replaceList, iirApply (only: never panics), string.behind/behindList/toFloat, map.replace/replaceMap, closure.args/invoke, round, trunc/floor/ceil, random, goto"],
}

MANIFEST = {
    "text": "Theorems (Coq, all lists and all callbacks, no size bound): for 30 list built-ins the implementation model written after the Go loops (lazy streams that end at the first error) computes exactly the documented result - map, accept, reduce, mapReduce, visit, sum, mean, min, max, top/skip (n>=0), first, last, single, size, reverse, append, set, indexWhere, present, combine, combine3, combineN (groups in list order, after the repair), number, compact, cross (row-major), merge, iir, iirCombine, fsm; whatever order/orderRev/orderLess answer is a sorted permutation (for asymmetric comparisons, at most 12 items); the checkers for sorted permutations and for groupings are proved correct; cut and indexOf (byte offset) on code points; and misuse (call arity, unknown method, non-function or wrong-arity callback, non-bool callback result, non-int n, combineN n<1, empty reductions, set out of range) is an error. The method and static-function tables of the model are compared with the tables dumped from value.New() on every run. Correspondence: pipelines of up to 4 built-ins on generated receivers and a closed callback pool run through the real Generate/Eval and, on the same inputs, through the implementation models (exact values) and the documented models plus verified checkers; an independent eager Go reference judges the most used list built-ins.",
    "design_ref": "DESIGN.md section 6 C07",
    "note": "Trusted: Coq kernel + VM, the table dump, the Go harness; the implementation models are hand-written and tied by correspondence, not derived from the Go source. Laziness makes errors demand-dependent: for those cases the specification side accepts error-or-value and exactness rests on implementation = model. Built-ins without a refinement lemma are listed as correspondence only; transcendental functions, sprintf, Unicode case mapping, regression/interpolation/low-pass helpers are out of model.",
    "technique": "Coq refinement proofs (implementation model vs documented model) + verified checkers + regenerated method tables + vm_compute correspondence run",
}
