from props import KERNEL, TABLES, HARNESS, NOAX

PROP = {
    "level": "proof",
    "harness_cmd": "c07",
    "run_file": "Run/C07Run.v",
    "obligation_files": ["Props/C07.v", "Lib/BuiltinsProofs.v"],
    "trusted_base": [KERNEL, TABLES, HARNESS, NOAX],
    "assumptions": [],
    "residue": "",
    "correspondence_only": [],
}

MANIFEST = {
    "text": "placeholder",
    "design_ref": "DESIGN.md section 6 C07",
    "note": "placeholder",
    "technique": "Coq proof + vm_compute correspondence run",
}
