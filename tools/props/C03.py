from props import KERNEL, HARNESS, NOAX

PROP = {
    "level": "proof",
    "harness_cmd": "c03",
    "run_file": "Run/C03Run.v",
    "obligation_files": ["Props/C03.v", "Syn/ParseRel.v", "Syn/ParseProofs.v"],
    "trusted_base": [KERNEL, HARNESS, NOAX],
    "assumptions": [],
    "residue": "",
    "correspondence_only": [],
}

MANIFEST = {
    "text": "under construction",
    "design_ref": "DESIGN.md section 6 C03",
    "note": "",
    "technique": "Coq proof + vm_compute correspondence run",
}
