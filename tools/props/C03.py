from props import KERNEL, HARNESS, NOAX

PROP = {
    "level": "proof",
    "harness_cmd": "c03",
    "run_file": "Run/C03Run.v",
    "obligation_files": ["Props/C03.v", "Syn/ParseRel.v", "Syn/ParseProofs.v", "Syn/ParseSound.v", "Syn/ParseTotal.v", "Syn/ParseCor.v", "Syn/Full.v", "Syn/FullRel.v", "Syn/FullProofs.v", "Syn/TextToAst.v"],
    "trusted_base": [KERNEL, HARNESS, NOAX,
                     "modelled, not verified: coq/Syn/Parse.v is hand-written after parser2.go (one Gallina function per Go function: parseLet, parseExpression, parseOp and its loop, parseUnary, parseNonOperator and its postfix loop, parseLiteral, the switch loop, parseArgs, parseMap, parseIdentList, Identifiers chain) and tied to the implementation by AST-for-AST correspondence on the token lists the real tokenizer delivered (hook verif_hooks_parse.go: token stream + AST dump incl. Operator, Priority, OuterIdents, Recursive, ThisName)",
                     "the specification side coq/Syn/Render.v (rendering trees, wf / flatten / erase, follow bound) is what 'groups by priority' means here; the Go generator has its own implementation of the same rule and the real parser's AST is compared with the generator's tree independently of Coq"],
    "assumptions": ["the operator table has pairwise distinct binary operators and does not declare the closure arrow '->' as a binary operator (table_ok; decidable, checked on every generated table)",
                    "theorems cover the expression fragment (binary and prefix operators, parentheses, identifiers, numbers, strings, member access, method call, call, index, list literal); the remaining grammar (let/func, if, switch, try, closures, map literals) is in the executable model and is covered by the correspondence run only",
                    "tokens are those of the expression fragment as the tokenizer writes them (frag_toks; the tokenizer is C15's business); in the run the token list is taken from the implementation's tokenizer",
                    "fuel is a modelling artefact: C03_parse_total shows that the fuel (2*|ops|+12)*(|tokens|+2) used by `parse` never runs out and C03_parse_fuel_stable that more fuel never changes a result, for every configuration and every token list of the full grammar"],
    "residue": "",
    "correspondence_only": ["let/func with constant propagation, if/then/else, switch/case/default, try/catch, closures with OuterIdents/Recursive/ThisName bookkeeping, map literals: executable model compared with the implementation's AST on generated and mutated programs over the value-language table; no theorem"],
}

MANIFEST = {
    "text": "Theorems (Coq, every operator table with pairwise distinct binary operators - any number of levels, any prefix operators incl. ones that are also binary at any level, the empty table - every identifier chain, every expression, no depth bound): the parser model maps every well-formed rendering (parentheses omitted only where priority, left associativity, the postfix rule and the follow bound of prefix operators allow it) to exactly the tree it denotes (parse_complete, printer round trips for minimal / arbitrary redundant / full parenthesisation), and whatever it accepts is, token for token, such a rendering of the returned tree (parse_sound: no truncation, no regrouping; corollaries: a token list has one tree, unbalanced or otherwise non-rendering input is rejected). Parser half of C04, for every configuration and the full grammar: the model never panics (parse_no_panic) and needs at most (2*|ops|+12)*(|tokens|+2) calls (parse_total). The model follows parser2.go function by function and is compared AST-for-AST with the real parser on the real tokenizer's tokens over random tables x trees x three parenthesisations, all single-token deletions/insertions, string literals and quoted identifiers that spell an operator or text alias put in operator position (must be rejected or read as operands: token-by-token, kind-by-kind accounting of every accepted input), and generated/mutated programs of the full grammar; the generator's own tree is a second, Coq-independent oracle.",
    "design_ref": "DESIGN.md section 6 C03 (and C04 for the parser half: no panic for any table)",
    "note": "Trusted: Coq kernel + VM, the Go harness, the hand-written model (tied by correspondence only). Two genuine defects found and fixed in the repo: parser without binary operators panicked (parseOp index out of range), prefix operator that is also the highest-priority binary operator panicked on every use.",
    "technique": "Coq proof (big-step relation + induction on rendering trees / fuel) + vm_compute correspondence run",
}
