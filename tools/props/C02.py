from props import KERNEL, TABLES, HARNESS, NOAX

PROP = {
    "level": "proof",
    "harness_cmd": "c02",
    "run_file": "Run/C02Run.v",
    "obligation_files": ["Props/C02.v", "Sem/OptCfg.v"],
    "harness_timeout": 3000,
    "count_lists": {"c02_counts": ["M_compared", "M_skipped_unsupported", "M_skipped_out_of_fuel", "M_skipped_laziness",
                                   "cases_optimizer_model_cannot_follow_unmodelled_builtin",
                                   "S_compared_both_optimizer_settings", "S_skipped_unsupported", "S_skipped_out_of_fuel",
                                   "S_skipped_laziness", "S_excluded_redeclaration",
                                   "cases_model_optimizer_rewrote_and_variable_survives", "cases_model_optimizer_rewrote_to_variable_free",
                                   "cases_inside_hypotheses_of_C02_optimize_sound_cfg_side_ok",
                                   "cases_that_also_met_the_previous_side_condition_strict_eq_nonstrict"]},
    "trusted_base": [KERNEL, TABLES, HARNESS, NOAX,
                     "modelled, not verified against the Go source: coq/Sem/Opt.v (optimizer.Optimize, the Optimize traversals of parser2.go, const-let propagation of parseLet) is hand-written after funcGen/optimizer.go and parser2.go and tied to the code by the correspondence run (Gen.run on the model-optimized AST = implementation with the optimizer) and by the regenerated flags (C02_flags_match)",
                     "the handler flags of cfgflags (toBool, list, map, closure, method handlers present) are not read from the code; value.New() installs all of them",
                     "the effect log of the Coq model (coq/Sem/Trace.v: calls of host functions with their arguments, results from an oracle) is a model of what the harness counters observe; the counters themselves are read on the implementation only"],
    "assumptions": ["floats: only exactly representable results are compared; a regrouped float chain that is inexact is `unsupported` in the model and counted as skipped",
                    "programs that redeclare a name inside one function body, random/randomConst are excluded as in C01",
                    "value instance only (the bool and float instances of the generic generator are C19's business)"],
    "residue": "the theorem asks for first-order constants in the SOURCE program (side_ok): programs with host-registered closure constants are outside; built-ins outside coq/Sem/Lib.v are left alone by the optimizer model (the run skips those trees); the conclusion is up to the value relation on results that contain closures (equality on first-order outcomes)",
    "correspondence_only": ["the implementation's counters of the harness functions tick/ptick (per evaluation with and without the optimizer, and 0 during Generate) are compared by the Go oracle: this ties the events of the trace model (C02_optimize_preserves_trace, C02_optimize_preserves_call_counts, C02_generate_runs_no_host_call_*) to the code; programs in which a callback of a built-in method makes a host call are outside the trace model (Unsup there) and rest on the Go oracle alone",
                            "AST equality between the model's optimizer and the real one is not compared node by node; the model is tied through the outcomes of the optimized program",
                            "built-ins outside the pool of coq/Sem/Lib.v + coq/Sem/StrLib.v: the optimizer model leaves them alone (counted as not followable); since work package semlib the pool has the first-order string methods (trim toLower toUpper contains indexOf split cut replace behind behindList toInt; non-ASCII trim/case conversion stays outside), list visit eval set and closure args, so folds of these methods on constant receivers are followed by the model and covered by C02_optimize_sound_*"],
}

MANIFEST = {
    "text": "Coq model of the constant-folding optimizer (Sem/Opt.v: every rule of optimizer.Optimize, the child-first traversal with its omissions, const-let propagation) with theorems for all programs: every optimized form simulates the original (optimized_form_sound), the optimizer is sound for ALL programs with first-order source constants and for every configuration passing the decidable test cfg_ok - the flags of value.New(), the flags regenerated from the tree, the strict variant - with the outcome relation as conclusion and plain equality on first-order outcomes (C02_optimize_sound_cfg, C02_optimize_sound_all, C02_optimize_sound_generated, C02_optimize_sound_first_order_exact); a constant computed at Generate time may be a closure: C01's exec_sim relates it to the reference value and the value relation absorbs that relation (generate_time_*_related, computed_constant_stands_for_value), folding never runs a function that is not flagged pure, a trace semantics (Sem/Trace.v: the reference evaluator with a log of host-function calls, erasing to Ref.eval) in which the optimized program has the same events - same functions, order, number, related arguments, also before an error or a panic - as the original (C02_optimize_preserves_trace, C02_optimize_preserves_call_counts, exact on first-order arguments) and in which everything the optimizer evaluates at Generate time has an empty trace under every oracle (C02_generate_runs_no_host_call_*), refutations for the flags of the pinned commit (= & | * commutative, method rule without closure-field check); table obligation C02_flags_match: the flags regenerated from the current value.New() equal the flags the theorems are about. Correspondence on every run: outcome with optimizer = outcome without = reference semantics on the generator's own tree; Gen.run on the model-optimized AST = implementation with the optimizer; counters of an impure host function: none during Generate, equal per evaluation with and without optimizer. Corpus: every operator x every pair of constant kinds x the three chain shapes.",
    "design_ref": "DESIGN.md section 6 C02",
    "note": "Call counts of impure functions: theorem in the trace model (host oracle must respect the value relation; callbacks of built-in methods that make host calls are outside the model) + the Go oracle with counters on the implementation. The soundness theorem needs no per-program test any more; the run counts the dumped ASTs inside its hypothesis (side_ok) and, for comparison, those that met the side condition of the previous version (strict = non-strict optimizer). Trusted: Coq kernel + VM, table hooks, the Go harness.",
    "technique": "Coq model + proofs over regenerated flags + vm_compute three-way correspondence run with effect counters",
}
