from props import KERNEL, TABLES, HARNESS, NOAX

PROP = {
    "level": "proof",
    "harness_cmd": "c13",
    "run_file": "Run/C13Run.v",
    "obligation_files": ["Props/C13.v", "Lib/MapLibProofs.v"],
    "trusted_base": [KERNEL, HARNESS, NOAX],
    "assumptions": [],
    "residue": "",
    "correspondence_only": [],
}

MANIFEST = {
    "text": "C13",
    "design_ref": "DESIGN.md section 6 C13",
    "note": "",
    "technique": "Coq proof + vm_compute correspondence run",
}
