from props import KERNEL, HARNESS, NOAX

PROP = {
    "level": "proof",
    "harness_cmd": "c13",
    "run_file": "Run/C13Run.v",
    "obligation_files": ["Props/C13.v", "Lib/MapLibProofs.v"],
    "trusted_base": [KERNEL, HARNESS, NOAX,
                     "modelled, not verified: coq/Lib/MapLib.v is hand-written after value/map.go (funcMapType, emptyMapStorage, RealMap, AppendMap, MergeMap, ReplaceMap incl. depth and createFlat, PutM, Merge, Replace, Eval, Map, Accept, Combine, Equals, ToString, IsAvail, ContainsKey, GetM, List), value/wrapper.go (toMapWrapper), value/binning.go (bin), listMap/listMap.go, parser2.go parseMap + funcGen MapLiteral, value/export/export.go (map case); it is tied to the code only by the correspondence run (every observation of the real code is recomputed by the model with vm_compute)",
                     "Go map iteration order (RealMap, toMapWrapper.attr) is unspecified: the model keeps such maps in insertion order, theorem C13_real_order_irrelevant shows that the order does not change the abstract map, and the run compares order-sensitive observations modulo permutation whenever a Go map can have influenced the order (the order string() used is recovered by the harness and re-checked in Coq)",
                     "closures of map/accept/combine/replace are arbitrary Coq functions in the theorems and a fixed family of 12 closures in the run; sort.Strings is modelled as insertion sort; the hook value.VerifMapRepr (coverage only) reads the storage nesting"],
    "assumptions": ["host-provided storages are coherent: Go map keys are distinct (RealMap, ToMap attributes); a NewFuncMapFactory function answers only for its declared, pairwise distinct keys (it may decline declared keys) - without this contract Get and Iter of a function map disagree (C13_func_storage_unrestricted_refuted)",
                    "the value comparison handed to Map.Equals may fail (None): equality theorems are stated for the answer 'true'; for nested maps/lists as values the real comparison always fails (operationMatrixDeepEqual passes the simple matrix to Equals: {a:{b:1}}={a:{b:1}} is an error) - that is C14's subject and is reproduced by the model of the run (veq)",
                    "iteration with early exit (yield returning false) is modelled as a fold that stops; Value.ToString of stored values does not fail"],
    "residue": "",
    "correspondence_only": ["NewToMapReflection field discovery (reflect) and the bin description strings are taken as observed", "keyListDescription (error message text) is not compared"],
}

MANIFEST = {
    "text": "Theorems (Coq, any value type, all histories of literal/host storage/put/+/replace/eval/map/accept/combine of any length, replace chains through the flattening at depth 10 included): every step fails exactly when the finite-map specification fails (put of a present key, + of overlapping maps incl. the empty key, duplicate literal key) and otherwise yields a storage whose Get, Iter and Size agree (coherent) and whose iteration is the finite map the specification computes; every observer (size, list, member access, get, isAvail, ~, string, map/accept, export) is the corresponding function of that finite map; = is true exactly for equal finite maps, hence independent of representation and key order, and symmetric. Each MapStorage of the Go code is modelled with its own Get/Iter/Size clause; the model is compared on every run with the real code: histories of up to 15 operations over colliding key pools driven through value.New().Generate, every observer applied after every step, plus an independent Go finite-map oracle.",
    "design_ref": "DESIGN.md section 6 C13",
    "note": "Holds after four repairs in /repo (ReplaceMap.Get, Map.Merge empty key, bin.Size, funcMapType.Size); the corpus keeps their witnesses. Trusted: Coq kernel + VM, the hand-written model (tied by correspondence only), the Go harness. Function maps need the host contract stated in the assumptions.",
    "technique": "Coq proof (simulation of storage wrappers by finite maps, induction over histories) + vm_compute correspondence run + Go finite-map oracle",
}
