from props import KERNEL, TABLES, HARNESS, NOAX

PROP = {
    "level": "proof",
    "harness_cmd": "c15",
    "run_file": "Run/C15Run.v",
    "obligation_files": ["Props/C15.v", "Lex/TokProofs.v"],
    "trusted_base": [KERNEL, HARNESS, NOAX],
    "assumptions": [],
    "residue": "",
    "correspondence_only": [],
}

MANIFEST = {
    "text": "TODO",
    "design_ref": "DESIGN.md section 6 C15 (and C04, tokenizer half)",
    "note": "TODO",
    "technique": "Coq proof over an executable model of token.go + vm_compute correspondence run on token streams",
}
