from props import KERNEL, HARNESS, NOAX

PROP = {
    "level": "proof",
    "harness_cmd": "c15",
    "run_file": "Run/C15Run.v",
    "obligation_files": ["Props/C15.v", "Lex/TokProofs.v"],
    "trusted_base": [KERNEL, HARNESS, NOAX,
                     "modelled, not verified: coq/Lex/Tok.v is a hand transcription of token.go (Tokenizer.run/peek/next/unread/readSkip/readStr/parseOperator, NewOperatorDetector) and of simpleNumber/simpleIdentifier in parser2.go; it is tied to the implementation by comparing complete token streams (type, image, line) through the hook verif_hooks_tokens.go on every generated input, including a malformed stream",
                     "UTF-8 decoding (utf8.DecodeRuneInString, one U+FFFD per invalid byte) and unicode.IsLetter/IsNumber are Go's: the model starts after decoding and receives the classes of the runes of each input as data",
                     "the tokenizer goroutine and the channel hand-over to the parser are not part of this model (Conc/TokChan.v, C12)"],
    "assumptions": ["no operator of the configuration contains NUL (ops_ok); for operator lexemes in front of separators: no operator contains a blank, tab, CR or LF (ops_clean) - both hold for every table in the repository",
                    "layout theorems are stated for well-formed layouts: every lexeme satisfies the hypotheses of its lexeme theorem (number / word / operator / literal / punctuation) and is followed by text its continuation predicate admits (a separator, the end of input, or a rune that cannot continue it); a comment is not written tight behind a token ending in '/'",
                    "string literals without NUL; quoted identifiers without NUL and quote, and without LF for the line statement",
                    "typographic operator spellings: the alias rune and its neighbours do not spell a comment opener in either spelling (noopen)"],
    "residue": "AST equality between layout variants follows from token-list equality only because the parser reads nothing but the token stream; that step is observed (printed ASTs of variant and canonical layout are compared on every generated program), the parser model belongs to C03/C04. Wall-clock linearity is not proved; the fuel bound length+2 is.",
    "correspondence_only": ["AST equality of layout variants (Parser.Parse on variant vs canonical layout)",
                            "line carried by a syntax error equals the line of the offending token: error-line family (24 kinds of injected syntax error - missing comma in map/list/arguments/parameters, wrong or missing closer, missing then/else/catch/colon, bad let/func header, stray token - inside generated programs under multi-line layouts with LF, CRLF, line comments and block comments containing LF; the offending token is known by construction, its line is computed from the source text and equals the line of that token in the observed stream, which the model reproduces) and stray-token cases; the parser model Syn/Parse.v returns errors without position, so this is observed, not proved",
                            "programs whose names are quoted identifiers spelling keywords parse (let 'if' = 1; 'if'+1, {'case':1}.'case' for every keyword)",
                            "string literal evaluates to the string it spells (Generate + Eval on every literal case)"],
}

MANIFEST = {
    "text": "Theorems (Coq, all inputs, no bounds) about an executable model of the tokenizer: scanning terminates within length+2 loop iterations for every rune string (C04, tokenizer half); for every well-formed layout - lexemes separated by arbitrary runs of blanks, tabs, CR, LF, // and /* */ comments with arbitrary bodies, comment at end of input - the token stream is exactly the lexemes' tokens, each on line 1 + number of LF before it (inside block comments included), hence independent of the separators; every NUL-free string written with the escapes \\\\ \\\" \\n \\r \\t lexes to exactly that string, quoted identifiers to their exact content, superscript digits to ^n, alias spellings to their ASCII operator token, and in comfort mode number/identifier/')' followed by number/identifier/'(' receives the implicit '*'. The model is compared token by token (type, image, line) with the real tokenizer on generated programs x separator choices x {comments, comfort} x two operator tables, Unicode-stratified literals, all comfort juxtaposition patterns and a malformed stream; Go-side oracle: variant and canonical layout give the same tokens and the same printed AST.",
    "design_ref": "DESIGN.md section 6 C15 (and C04, tokenizer half)",
    "note": "Trusted: Coq kernel + VM, the hand-written model (tied by correspondence only), the Go harness and generators. The five defects visible at the pinned commit were repaired in the repository (fix: commits on branch wp-tok) and the model follows the repaired code; their inputs are corpus cases.",
    "technique": "Coq proof over an executable model of token.go + vm_compute correspondence run on token streams",
}
