"""Per-property configuration for tools/check.py: one module per property (tools/props/Cxx.py)
defining PROP (what to build/run/trust) and MANIFEST (text for MANIFEST.json)."""
import importlib, os, pkgutil

KERNEL = "Coq 8.16.1 kernel and coqc; vm_compute is used inside proofs (table obligations, finite-domain and witness computations) and for the correspondence run, so the VM is trusted; native_compute is not used"
TABLES = "translator: harness `p2h tables` (Go, tags verif) dumps tables from the current /repo tree into coq/Generated/*.v by calling the real functions"
HARNESS = "correspondence harness (Go generators, canonicalisation, comparison) and tools/check.py (verdict logic)"
NOAX = "axioms: none declared; Print Assumptions output of every property theorem is copied into coverage.theorems"

PROPS, MANIFEST_TEXT = {}, {}
# properties deliberately not claimed, with the reason (kept current)
NOT_APPLICABLE = {}


def _load():
    here = os.path.dirname(__file__)
    for m in sorted(pkgutil.iter_modules([here])):
        if re_ok(m.name):
            mod = importlib.import_module("props." + m.name)
            PROPS[m.name] = mod.PROP
            MANIFEST_TEXT[m.name] = mod.MANIFEST


def re_ok(name):
    return len(name) >= 3 and name[0] == "C" and name[1:].isdigit()


_load()
