from props import KERNEL, TABLES, HARNESS, NOAX

PROP = {
    "level": "proof",
    "harness_cmd": "c01",
    "run_file": "Run/C01Run.v",
    "obligation_files": ["Props/C01.v", "Lib/SemLibAgreeProofs.v", "Sem/GenBuggyProofs.v", "Sem/GenProofs.v", "Sem/PinnedProofs.v", "Sem/FromText.v", "Syn/Lower.v",
                         "Syn/TextToAst.v", "Syn/RenderText.v", "Syn/FullProofs.v", "Syn/FullRel.v", "Syn/Full.v", "Run/C01TextRun.v"],
    "harness_timeout": 3000,
    # lists of counts printed by every case file, summed over the shards into coverage.correspondence.coq_counts
    "count_lists": {"c01_counts": ["M_compared", "M_skipped_unsupported", "M_skipped_out_of_fuel", "M_skipped_laziness",
                                   "S_compared_both_optimizer_settings", "S_skipped_unsupported", "S_skipped_out_of_fuel",
                                   "S_skipped_laziness", "S_excluded_redeclaration",
                                   "cases_where_hypotheses_of_C01_generated_hold", "cases_Generate_rejects",
                                   "cases_outside_side_ok"],
                    "c01t_counts": ["text_to_ast_agree", "text_to_ast_outside_lower"]},
    "trusted_base": [KERNEL, TABLES, HARNESS, NOAX,
                     "modelled, not verified against the Go source: coq/Sem/Gen.v (GenerateFunc fused with execution on the shared stack), coq/Sem/Ops.v and coq/Sem/Lib.v (operators and the pool of built-ins) are hand-written after funcGen/generator.go, value/value.go, value/operations.go and tied to the code by the three-way correspondence run on every check",
                     "the harness's own scope tracking when it translates its surface tree to a Coq ast (an unbound identifier that names a static function in call position is a static call) and its renderer; a mistake there shows as a disagreement, not as a hidden defect",
                     "the AST dump of the real parser (harness/c01.go dumpAst) reads only exported fields of parser2's AST nodes",
                     "coq/Syn/Lower.v (parser AST of Syn/Ast.v -> semantic AST of Sem/Syntax.v: operator spellings kept, IsFunc callee = static call, constants through ParseNumber / FromString / the constant table; numbers only where the decimal is exactly a binary64 value) and the concrete value configuration (value_pcfg from the regenerated operator tables, value_ids, keyword list of value_tcfg) are hand-written; they are tied to the code by the text-to-ast condition of the run: on every generated program the parser model on the REAL tokens, lowered, must equal the AST the real parser built (signature text-to-ast)"],
    "assumptions": ["floats: only results that are exactly representable are compared (the model answers `unsupported` for inexact operations and the case is counted as skipped)",
                    "programs that redeclare a name inside one function body, random/randomConst, overflow of ^, out-of-range float-to-int conversion are excluded as the property states",
                    "lists are eager in the model: when the model reports an error, the implementation a value, and the program contains a lazy stage (map/accept), the case is counted as skipped (laziness); callbacks of lazy stages are generated total"],
    "residue": "",
    "correspondence_only": ["text -> AST of the REAL code: the tokenizer and parser models are tied to the code by C15 / C03 / the text-to-ast condition (tokens from the real tokenizer -> parser model -> lower = dumped AST of the real parser); C01_from_text composes the MODELS (tokenizer, parser, lowering, generator) against the reference semantics",
                            "built-in methods and static functions outside the pool of coq/Sem/Lib.v (the model answers `unsupported`)"],
}

MANIFEST = {
    "text": "Theorems (Coq, all programs, all fuel, all frames; Props/C01.v): C01_lib_agrees_with_C07_models - the eager list stages of the pool exec_sim covers (number, compact, combine, combine3, combineN, iir, iirCombine, cross, merge, minMax in Sem/Lib.v) compute exactly what the implementation models of the same Go loops that C07 validates against value/list.go (Lib/Builtins.v, lazy streams) yield when collected, for every way of applying a closure (compact/merge: when the callback does not answer the opaque text of a caught error); exec_sim - the generator model (Sem/Gen.v: compile-time slot indices, shared value stack with reserved slots for pending arguments, closure contexts) refines the lexically scoped reference semantics (Sem/Ref.v) in lock-step and leaves the caller's frame untouched; C01_from_ast / C01_generated - Generate then Eval equals the reference for every AST that gen_check accepts (plus the decidable side condition side_ok); call_frame_independent; exec_sim_pinned_refuted and C01_pinned_discipline_refuted - the call-site discipline of the pinned commit violates the statement (505 instead of 506 on the probed program); C01_tables_ok - the arity tables of the models agree with the tables regenerated from value.New(). Three-way correspondence on every run: implementation (optimizer on and off) vs generator model on the AST dumped from the REAL parser vs reference semantics on the harness's own unannotated tree, over type-directed programs with binders boosted inside call, method and literal arguments; C01_from_text / C01_from_text_tokens / C01_text_layout_irrelevant - for every well-formed layout of a well-formed program of the full grammar the function generated FROM THE TEXT (tokenizer model, parser model, lowering, generator model) agrees with the reference semantics of its AST, and layout does not matter; the run checks on every generated program that the parser model on the real tokens, lowered, is the AST the real parser built; the run checks gen_check/side_ok on every dumped AST (hypotheses of C01_generated) and that Generate fails exactly when the model says so.",
    "design_ref": "DESIGN.md section 6 C01",
    "note": "Text -> AST (T2/T3 of the design): C01_from_text composes the tokenizer model, the full-grammar parser completeness (OuterIdents/Recursive annotations, const-let propagation), Syn/Lower.v and C01_generated; the models are tied to the real tokenizer/parser by the correspondence runs of C15, C03 and the text-to-ast condition of this run. Operators and built-ins (Sem/Ops.v, Sem/Lib.v) are shared by both semantics, their fidelity to the Go code is C07/C14's business and the run's. Trusted: Coq kernel + VM, table hooks, the Go harness (generator, renderer, scope tracking for static calls, canonicalisation).",
    "technique": "Coq model + simulation proof + vm_compute three-way correspondence run (implementation / generator model / reference semantics) + table obligations",
}
