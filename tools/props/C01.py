from props import KERNEL, TABLES, HARNESS, NOAX

PROP = {
    "level": "proof",
    "harness_cmd": "c01",
    "run_file": "Run/C01Run.v",
    "obligation_files": ["Props/C01.v", "Sem/GenBuggyProofs.v"],
    "harness_timeout": 3000,
    # lists of counts printed by every case file, summed over the shards into coverage.correspondence.coq_counts
    "count_lists": {"c01_counts": ["M_compared", "M_skipped_unsupported", "M_skipped_out_of_fuel", "M_skipped_laziness",
                                   "S_compared_both_optimizer_settings", "S_skipped_unsupported", "S_skipped_out_of_fuel",
                                   "S_skipped_laziness", "S_excluded_redeclaration",
                                   "cases_where_hypotheses_of_C01_generated_hold", "cases_Generate_rejects",
                                   "cases_outside_side_ok"]},
    "trusted_base": [KERNEL, TABLES, HARNESS, NOAX,
                     "modelled, not verified against the Go source: coq/Sem/Gen.v (GenerateFunc fused with execution on the shared stack), coq/Sem/Ops.v and coq/Sem/Lib.v (operators and the pool of built-ins) are hand-written after funcGen/generator.go, value/value.go, value/operations.go and tied to the code by the three-way correspondence run on every check",
                     "the harness's own scope tracking when it translates its surface tree to a Coq ast (an unbound identifier that names a static function in call position is a static call) and its renderer; a mistake there shows as a disagreement, not as a hidden defect",
                     "the AST dump of the real parser (harness/c01.go dumpAst) reads only exported fields of parser2's AST nodes"],
    "assumptions": ["floats: only results that are exactly representable are compared (the model answers `unsupported` for inexact operations and the case is counted as skipped)",
                    "programs that redeclare a name inside one function body, random/randomConst, overflow of ^, out-of-range float-to-int conversion are excluded as the property states",
                    "lists are eager in the model: when the model reports an error, the implementation a value, and the program contains a lazy stage (map/accept), the case is counted as skipped (laziness); callbacks of lazy stages are generated total"],
    "residue": "",
    "correspondence_only": ["text -> AST (tokenizer and parser: the model starts from the AST the real parser produced; the specification side starts from the harness's own tree)",
                            "exec_sim / C01_generated (Gen.exec refines Ref.eval for all programs) are stated in Props/C01_core.v, not yet in Props/C01.v; the run counts the dumped ASTs on which their hypotheses hold",
                            "built-in methods and static functions outside the pool of coq/Sem/Lib.v (the model answers `unsupported`)"],
}

MANIFEST = {
    "text": "Executable Coq model of GenerateFunc on an explicitly threaded shared stack (Sem/Gen.v) and lexically scoped reference semantics (Sem/Ref.v). Theorems of Props/C01.v: the arity tables the models use agree with the tables regenerated from value.New(); the call-site discipline of the pinned commit (no reserved slots) is refuted by a computed witness (505 vs 506); non-vacuity examples (recursion, three closure levels, let in a later call argument, map-field closure). The simulation theorem exec_sim / C01_generated (all programs, all fuel) lives in Props/C01_core.v. Three-way correspondence on every run: implementation (optimizer on and off) vs generator model on the AST of the REAL parser vs reference semantics on the harness's own unannotated tree, over type-directed programs with binders boosted inside call, method and literal arguments; the run also counts on how many of the dumped ASTs the hypotheses of C01_generated (gen_check, side_ok) hold.",
    "design_ref": "DESIGN.md section 6 C01",
    "note": "Text -> AST (tokenizer, parser, OuterIdents/Recursive annotations, const-let propagation) is covered by correspondence only: the specification side starts from the generator's own tree, the model from the dumped parser AST. Trusted: Coq kernel + VM, table hooks, the Go harness (generator, renderer, scope tracking for static calls, canonicalisation).",
    "technique": "Coq model + proofs + vm_compute three-way correspondence run (implementation / generator model / reference semantics) + table obligations",
}
