from props import KERNEL, TABLES, HARNESS, NOAX

PROP = {
    "level": "proof",
    "harness_cmd": "c17",
    "run_file": "Run/C17Run.v",
    "obligation_files": ["Props/C17.v"],
    # when an obligation is broken the model computes candidate inputs that are replayed on the implementation
    "witness": {"expr": "c17_bad_runes", "imports": "From P2 Require Import Run.C17Run.", "flag": "--extra-runes"},
    "trusted_base": [KERNEL, TABLES, HARNESS, NOAX,
                     "modelled, not verified: Export's traversal (coq/Exp/Json.v export) is hand-written after value/export/export.go + json.go and tied by byte-for-byte correspondence on generated value trees; ToString of scalars, sort.Strings and Map.Iter/Get are Go's",
                     "the specification decoder json_parse (RFC 8259 subset: whitespace, strings with all escapes, arrays, objects) is validated against encoding/json on every case"],
    "assumptions": ["map keys of one map are pairwise different and Get(k) returns the value Iter yields for k (C13's business)",
                    "strings are sequences of Unicode scalar values (invalid UTF-8 is outside the property)",
                    "jsonExporter.String is context-free (output of a string = concatenation of per-rune outputs): checked on every generated string by the byte comparison, not proved"],
    "residue": "",
    "correspondence_only": ["returned documents are not aliased by later exports: history mode (sequences of 2-6 exports on one goroutine and some spread over goroutines; every returned document is kept without copying and checked only after the last export: byte-identical to what was returned, model bytes, specification round trip). The Coq model is a pure function, so there the statement is trivial; it is a property of the buffers of the implementation only"],
}

MANIFEST = {
    "text": "Theorem (Coq, all strings and all value trees incl. style/link wrapper stacks (export.Format, export.Link) of any depth and order around any sub-value, no size bound): the exporter model's output is accepted by an RFC 8259 decoder and decodes to the same structure and text, for any escape table satisfying a decidable predicate; the table is regenerated on every run by sweeping the real jsonExporter.String over all 1,112,064 Unicode scalar values, and the traversal model is compared byte-for-byte with export.JSON() on generated value trees in every list/map representation, with encoding/json as a second decoder; Format/Link wrappers are proved transparent (json_wrappers_transparent: export (wrap ws v) = export v, and the same at every level of the tree) and are generated in the run as stacks of depth 0-4 in every order around scalars, lists, maps, list elements and map values.",
    "design_ref": "DESIGN.md section 6 C17",
    "note": "Trusted: Coq kernel + VM, the table sweep (translator), the Go harness; the traversal model is hand-written and tied by correspondence only; context-freeness of the escaper is checked, not proved.",
    "technique": "Coq proof over a regenerated escape table + vm_compute correspondence run",
}
