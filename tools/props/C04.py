from props import KERNEL, HARNESS, NOAX

PROP = {
    "level": "proof",
    "harness_cmd": "c04",
    "run_file": "Run/C04Run.v",
    "obligation_files": ["Props/C04.v", "Lex/TokProofs.v", "Conc/TokChanProofs.v", "Conc/TokSysProofs.v"],
    "harness_timeout": 3400,
    "trusted_base": [KERNEL, HARNESS, NOAX,
                     "modelled, not verified: coq/Lex/Tok.v is a hand transcription of token.go and of simpleNumber/simpleIdentifier; it is tied to the implementation by comparing complete token streams (type, image, line) on every input of this run, malformed ones included (hook verif_hooks_tokens.go)",
                     "modelled, not verified: coq/Conc/TokChan.v is a protocol model of Tokenizer.Start/run, Tokenizer.forward/Next and the deferred drain of Parser.Parse (unbuffered channel = rendezvous; close and receive-on-closed never block); the parser is abstracted to ANY consumer performing k receives; the number of receives the real parser performed is observed through the hook verif_hooks_recv.go",
                     "UTF-8 decoding (one U+FFFD per invalid byte) and unicode.IsLetter/IsNumber are Go's: the model starts after decoding",
                     "worker isolation, watchdog and wall-clock measurement are the harness's (harness/c04.go): every input runs in a worker process of the harness binary, a panic is recovered and classified, a dead worker is attributed to the input it was running"],
    "assumptions": ["no operator of the configuration contains NUL (ops_ok) - holds for every table in the repository and for every table the harness builds",
                    "the parser is any consumer of the token channel that performs finitely many receives and then returns (that the real parser functions do return for every token list is parse_total, see correspondence_only)"],
    "residue": "Wall-clock time and the absence of a real deadlock are observed, not proved: Generate must return within 50 ms + 50 us x bytes + 2 ms x bracket nesting depth (fastest of up to three runs, the first under 16-fold parallel load, the others alone); the nesting term pays for about 8.5 KB of goroutine stack per nesting level of the 18-operator value grammar (19 parser frames per level), whose first touch dominates the run time of deeply nested input: 30000 levels take 7-25 s and 256 MB of stack on this machine, 65536 open parentheses (64 KiB) 25 s and about 0.9 GB resident, and do return. That the parser functions return for every token list is observed on every input, not proved here.",
    "correspondence_only": ["parse_total: every parse function returns an AST or an error for every token list (parser model Syn/Parse.v belongs to property C03 and was not merged when this package was built); observed on every input of the run",
                            "generate_total: GenerateFunc returns a function or an error for every AST; observed on every input that parses",
                            "time bound (linear-ish) and real deadlock freedom: watchdog per input in an isolated worker process"],
}

MANIFEST = {
    "text": "Theorems (Coq, all rune strings, all configurations, no bounds): the scanner model terminates within length+2 iterations of its main loop and yields a token list (no comment opener at the end of input, invalid UTF-8 or NUL can make it loop); the tokenizer goroutine and the parser cannot deadlock: for every token list and every number k of receives the parser performs, every interleaving of the rendezvous protocol (with the deferred drain of Parse) has at most max(#tokens,k)+3 actions and can always continue until both goroutines have returned, and a consumer in a receive is always served by the matching send or the close. Correspondence on every run: each input (corpus of past failures; unterminated string/comment/quoted identifier, NUL and invalid UTF-8 at every position of valid programs; random bytes; token soup; mutated valid programs; inputs up to 64 KiB; nesting up to 30000) x {value, bool, float generators, a generator without binary operators, one whose prefix operator is its last binary operator} x {comments, comfort} runs through FunctionGenerator.Generate in an isolated worker process with a watchdog; compared: worker survived, no panic escaped, returned within the time bound, and the complete token stream against the scanner model.",
    "design_ref": "DESIGN.md section 6 C04",
    "note": "Trusted: Coq kernel + VM, the hand-written scanner and protocol models (tied by correspondence), the Go harness (isolation, watchdog, timing). parse_total / generate_total are correspondence-only: the parser model belongs to C03 and was not merged when this package was built. Repaired in the repository: parseOp indexed the operator table one past its end for a generator without binary operators (funcGen.New[float64]().Generate(\"1\")) and for a prefix operator that is also the last binary operator (operators + -, prefix -, input -1): index-out-of-range panic (fix: dcae05b). Wall-clock time is observed, not proved.",
    "technique": "Coq proof over executable models of token.go and of the tokenizer/parser channel protocol + vm_compute correspondence run in isolated worker processes",
}
