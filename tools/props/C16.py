from props import KERNEL, TABLES, HARNESS, NOAX

PROP = {
    "level": "proof",
    "harness_cmd": "c16",
    "run_file": "Run/C16Run.v",
    "obligation_files": ["Props/C16.v", "Syn/Qualify.v", "Syn/QualifyProofs.v", "Syn/Full.v", "Syn/FullRel.v", "Syn/FullProofs.v", "Syn/FullSound.v", "Syn/QualifyFull.v", "Syn/QualifyFullProofs.v"],
    "count_lists": {"c16_counts": ["S_compared", "S_skipped_unsupported", "S_skipped_out_of_fuel", "S_skipped_laziness"]},
    "trusted_base": [KERNEL, TABLES, HARNESS, NOAX,
                     "modelled, not verified: the parser model coq/Syn/Parse.v (Identifiers chain with AddMap / AddArgs / AddThis layers as a scope stack with a pure lookup; OuterIdents and Recursive as functions of the lookups that reach a layer) is tied to the implementation AST-for-AST on both texts of every case; the reference semantics coq/Sem/Ref.v is C01's",
                     "the qualified program is computed by the harness on its own surface tree (free identifier = not bound by let/func/closure parameter, not pi/true/false, not a static function) and rendered with every attribute as (m.x); the Coq definition free_attr / qualify is the same rule on the scope stack without the AddMap layer"],
    "assumptions": ["the map name m is not rebound inside the program and is not the empty string",
                    "theorem C16_withmap_is_qualify covers the full grammar (rendering trees of Syn/Full.v: let/func/if/switch/try/closures/list and map literals) under every stack of enclosing binders; C16_withmap_is_qualify_tokens starts from the token list: every token list the parser accepts is the rendering of a tree (C03_parse_sound_full)",
                    "an attribute x is written ( m . x ) with parentheses: m.x(args) would be a method call while x(args) in implicit-attribute mode is a call of the attribute's value",
                    "programs that redeclare a name inside one function body are excluded from the reference-semantics comparison as in C01 (AST equality and outcome equality of the two functions are still checked)"],
    "residue": "",
    "correspondence_only": ["that the real generator has no state besides its identifier chain that influences GenerateWithMap (histories of AddConstant / GenerateWithMap on one generator object: C16_withmap_history is a statement about the model, whose state is the chain)",
                            
                            "GenerateWithMap(exp) = Generate(qualified exp) as functions on maps in every representation, optimizer on and off",
                            "reference semantics (Sem/Ref.v) of the qualified surface tree = outcomes of the function GenerateWithMap produced"],
}

MANIFEST = {
    "text": "Theorems (Coq, any operator table with distinct binary operators, any generator identifiers B, any stack L of enclosing binders that does not rebind m, no size bound): a lookup through AddMap answers the map exactly for the identifiers that are free attributes by the specification rule (not bound locally, not a constant or static function - stated without the AddMap layer), local bindings and constants shadow attributes, every well-formed program of the FULL grammar (let, func, if, switch, try, closures, list and map literals) parses in implicit-attribute mode to the same annotated AST (OuterIdents / Recursive / ThisName included) as its qualified form ( m . x ) parses in plain mode; the pre-repair AddArgs is refuted on l.map(e->e+a). The whole grammar is covered by the correspondence run: C01-generator programs whose arguments become attributes of one map (uses at top level, inside 1..3+ closures, recursive funcs, lets in call arguments; names colliding with pi, sqr, locals) x maps in every representation: real GenerateWithMap(exp) vs real Generate(qualified exp) (outcomes, optimizer on and off; ASTs incl. annotations), parser model with/without the AddMap layer vs both ASTs, reference semantics of the qualified tree vs the observed outcomes.",
    "design_ref": "DESIGN.md section 6 C16",
    "note": "withmap_is_qualify is proved for the full grammar on well-formed rendering trees (completeness of the parser model for the full grammar + qualification lemma on the scope stack). Trusted: Coq kernel + VM, harness, hand-written parser model and C01's reference semantics.",
    "technique": "Coq proof (scope-stack lemmas + C03 completeness) + vm_compute correspondence run",
}
