from props import KERNEL, TABLES, HARNESS, NOAX

PROP = {
    "level": "proof",
    "harness_cmd": "c16",
    "run_file": "Run/C16Run.v",
    "obligation_files": ["Props/C16.v", "Syn/Qualify.v", "Syn/QualifyProofs.v"],
    "count_lists": {"c16_counts": ["S_compared", "S_skipped_unsupported", "S_skipped_out_of_fuel", "S_skipped_laziness"]},
    "trusted_base": [KERNEL, TABLES, HARNESS, NOAX,
                     "modelled, not verified: the parser model coq/Syn/Parse.v (Identifiers chain with AddMap / AddArgs / AddThis layers as a scope stack with a pure lookup; OuterIdents and Recursive as functions of the lookups that reach a layer) is tied to the implementation AST-for-AST on both texts of every case; the reference semantics coq/Sem/Ref.v is C01's",
                     "the qualified program is computed by the harness on its own surface tree (free identifier = not bound by let/func/closure parameter, not pi/true/false, not a static function) and rendered with every attribute as (m.x); the Coq definition free_attr / qualify is the same rule on the scope stack without the AddMap layer"],
    "assumptions": ["the map name m is not rebound inside the program and is not the empty string",
                    "theorem C16_withmap_is_qualify_partial covers the expression fragment of C03 (operators, parentheses, identifiers, literals, member access, method call, call, index, list literal) under every stack of enclosing binders; the composition through let/func/if/switch/try/closure/map-literal constructs is checked by the correspondence run on every generated program (model parse with AddMap = implementation AST, model parse of the qualified text = implementation AST, both ASTs equal), not proved",
                    "an attribute x is written ( m . x ) with parentheses: m.x(args) would be a method call while x(args) in implicit-attribute mode is a call of the attribute's value",
                    "programs that redeclare a name inside one function body are excluded from the reference-semantics comparison as in C01 (AST equality and outcome equality of the two functions are still checked)"],
    "residue": "",
    "correspondence_only": ["withmap_is_qualify for the whole grammar (binding constructs, if/switch/try, map literals)",
                            "GenerateWithMap(exp) = Generate(qualified exp) as functions on maps in every representation, optimizer on and off",
                            "reference semantics (Sem/Ref.v) of the qualified surface tree = outcomes of the function GenerateWithMap produced"],
}

MANIFEST = {
    "text": "Theorems (Coq, any operator table with distinct binary operators, any generator identifiers B, any stack L of enclosing binders that does not rebind m, no size bound): a lookup through AddMap answers the map exactly for the identifiers that are free attributes by the specification rule (not bound locally, not a constant or static function - stated without the AddMap layer), local bindings and constants shadow attributes, every expression of the C03 fragment parses in implicit-attribute mode to the same AST as its qualified form ( m . x ) parses in plain mode, and closures record the same OuterIdents / Recursive flag in both modes; the pre-repair AddArgs is refuted on l.map(e->e+a). The whole grammar is covered by the correspondence run: C01-generator programs whose arguments become attributes of one map (uses at top level, inside 1..3+ closures, recursive funcs, lets in call arguments; names colliding with pi, sqr, locals) x maps in every representation: real GenerateWithMap(exp) vs real Generate(qualified exp) (outcomes, optimizer on and off; ASTs incl. annotations), parser model with/without the AddMap layer vs both ASTs, reference semantics of the qualified tree vs the observed outcomes.",
    "design_ref": "DESIGN.md section 6 C16",
    "note": "Whole-grammar withmap_is_qualify is _partial (fragment + capture bookkeeping proved; binding constructs by correspondence). Trusted: Coq kernel + VM, harness, hand-written parser model and C01's reference semantics.",
    "technique": "Coq proof (scope-stack lemmas + C03 completeness) + vm_compute correspondence run",
}
