from props import KERNEL, HARNESS, NOAX

PROP = {
    "level": "proof",
    "harness_cmd": "c10",
    "run_file": "Run/C10Run.v",
    "obligation_files": ["Props/C10.v", "Heap/FuncStateProofs.v"],
    "trusted_base": [KERNEL, HARNESS, NOAX],
    "assumptions": [],
    "residue": "",
    "correspondence_only": [],
}

MANIFEST = {
    "text": "provisional",
    "design_ref": "DESIGN.md section 6 C10",
    "note": "provisional",
    "technique": "Coq proof + vm_compute correspondence run",
}
