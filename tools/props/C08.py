from props import KERNEL, HARNESS, NOAX

PROP = {
    "level": "proof",
    "harness_cmd": "c08",
    "run_file": "Run/C08Run.v",
    "obligation_files": ["Props/C08.v", "Lib/StreamProofs.v"],
    "trusted_base": [KERNEL, HARNESS, NOAX,
                     "modelled, not verified: coq/Lib/Stream.v is hand-written after value/list.go (Map Accept Combine Number IIr Compact Skip Top First Single Size Present IndexWhere containsItem Reduce), value/list.go Cross and Merge, value/operations.go (list + list), value/value.go (numbers) and iterator.go (MapAuto/FilterAuto sequential branch, Combine, IirMap, FirstN, Skip, Append, Cross, Merge (sequential abstraction: no goroutine read-ahead), Generate, Reduce); the push-style producers are rendered as a pull machine with Skip steps, and tied to the implementation by comparing outcome and tick log event by event on every generated pipeline",
                     "the tick log is produced by harness host functions tick/tick2/tick2b registered with IsPure=false; they also record the goroutine id to detect a switch to parallel mode"],
    "assumptions": ["stages run in sequential mode (MapAuto/FilterAuto switch to worker goroutines only when a closure needs more than 200 us per element; the harness detects a switch by goroutine id, retries, and otherwise applies only the demand bound)",
                    "elements are ints; closures are total functions of their arguments apart from the logged tick (no other side effects)",
                    "every consumer stops at the first error it receives (true for all consumers in value/list.go); what a stage would do if a consumer continued after an error is not modelled"],
    "residue": "promptness (the call returns within 2 s on numbers(10^11)) is observed on every case, not proved; the parallel branches of MapAuto/FilterAuto (read-ahead = worker count) are outside the sequential model (C06 covers schedules): a case observed in parallel mode is repeated on one CPU (taskset -c 0, where MapAuto/FilterAuto are plain Map/Filter); multiUse runs its consumers on goroutines: only its demand (tick counts) and outcome are judged, by the Go oracle, on one CPU, and its read-ahead is modelled by `drain` (recorded finding: unbounded behind accept/compact)",
    "correspondence_only": ["merge: outcome and tick counts against the eager Go oracle with one element of read-ahead per operand (iterator.ToChan goroutines; no event-by-event comparison), each merge case in a process of its own",
                            "multiUse: outcome and tick counts against the eager Go oracle (no event-by-event comparison: goroutine interleaving)",
                            "model = specification (run agrees with the eager prefix semantics spec_need: same outcome, every closure at most need+1 calls) is checked on every generated case through c08_im and c08_is, not proved in general"],
}

MANIFEST = {
    "text": "Theorems (Coq, all pipelines of map/accept/combine/number/iir/compact/skip/top/+/cross/merge (the other operand of +, cross and merge is a pipeline of its own) over numbers(n) and list sources, all closures as arbitrary total functions, all consumers first/single/size/present/indexWhere/~/reduce, no bound on lengths): building emits no event; one step of a pipeline asks the source for at most one element and runs each stage closure at most once, so a consumer that stops after N steps has run every closure at most N times; the outcome and the log of such a run are unchanged by any change of closures on arguments that were not logged and of numbers(n) beyond N (late failing elements and the source length are invisible); fuel N suffices whatever the source length; a map closure directly under top(n) runs at most n times (no read-ahead, after the repair of List.Top); numbers(n).map(f).present(p) decided at position k makes exactly k+1 steps; in p1.cross(p2.map(f),g) the closure f of the second list runs at most once more than g (column j is evaluated only when a row reaches it); in a.map(fa).merge(b.map(fb),<).map(fm) each operand is at most one element ahead of what was delivered; the read-ahead of a one-consumer multiUse pass is refuted as a bounded quantity (witness by vm_compute) and proved to cost one step when no element is dropped on the way. The model is compared event by event with the real library on generated pipelines over numbers(10^11) with an impure tick in every closure, decisive position 0..40, failing element at offsets -3..+3; an eager prefix semantics (specification side) and an independent Go oracle check outcome and the demand bound need+1.",
    "design_ref": "DESIGN.md section 6 C08",
    "note": "Trusted: Coq kernel + VM, the Go harness; the stream model is hand-written and tied by correspondence only; sequential mode only; wall-clock promptness is observed.",
    "technique": "Coq proof over an executable pull-stream model + vm_compute correspondence run with tick logs",
}
