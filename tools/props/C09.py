from props import KERNEL, TABLES, HARNESS, NOAX

PROP = {
    "level": "proof",
    "harness_cmd": "c09",
    "run_file": "Run/C09Run.v",
    "obligation_files": ["Props/C09.v"],
    "trusted_base": [KERNEL, HARNESS, NOAX],
    "assumptions": [],
    "residue": "",
    "correspondence_only": [],
}

MANIFEST = {
    "text": "TODO",
    "design_ref": "DESIGN.md section 6 C09",
    "note": "TODO",
    "technique": "Coq proof over a heap model + vm_compute correspondence run",
}
