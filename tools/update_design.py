#!/usr/bin/env python3
"""tools/update_design.py: splice the generated tables (tools/gen_design_tables.py) into DESIGN.md section 11
(11.2 repairs, 11.3 per-check coverage, 11.4 seeded changes, 11.8 known findings)."""
import os, re, subprocess, sys
ROOT = os.path.dirname(os.path.dirname(os.path.abspath(__file__)))
out = subprocess.run([sys.executable, os.path.join(ROOT, "tools", "gen_design_tables.py")], capture_output=True, text=True, check=True).stdout
i8 = out.index("### 11.8")
gen_a, gen_b = out[:i8].rstrip() + "\n\n", out[i8:].rstrip() + "\n\n"
p = os.path.join(ROOT, "DESIGN.md")
s = open(p).read()
if "<!-- GEN-A:BEGIN -->" not in s:
    a = s.index("### 11.2 Defects repaired"); b = s.index("### 11.5 Per-property notes")
    s = s[:a] + "<!-- GEN-A:BEGIN -->\n<!-- GEN-A:END -->\n" + s[b:]
    a = s.index("## Appendix A.")
    s = s[:a] + "<!-- GEN-B:BEGIN -->\n<!-- GEN-B:END -->\n" + s[a:]
s = re.sub(r"<!-- GEN-A:BEGIN -->.*?<!-- GEN-A:END -->\n", lambda m: "<!-- GEN-A:BEGIN -->\n" + gen_a + "<!-- GEN-A:END -->\n", s, flags=re.S)
s = re.sub(r"<!-- GEN-B:BEGIN -->.*?<!-- GEN-B:END -->\n", lambda m: "<!-- GEN-B:BEGIN -->\n" + gen_b + "<!-- GEN-B:END -->\n", s, flags=re.S)
open(p, "w").write(s)
print("DESIGN.md updated")
