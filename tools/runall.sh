#!/bin/bash
# tools/runall.sh [tier]: run every registered check once, print one summary line per check
cd "$(dirname "$0")/.."
tier=${1:-quick}
for p in $(python3 -c "import json;print(' '.join(c['property_id'] for c in json.load(open('MANIFEST.json'))['checks']))"); do
  s=$(date +%s); out=$(bin/check $p $tier 2>&1); rc=$?; e=$(date +%s)
  echo "$p rc=$rc $((e-s))s :: $(echo "$out" | tail -1)"
  echo "$out" | grep -E "^(VIOLATION|INFRA)" | head -3
done
