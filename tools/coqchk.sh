#!/bin/bash
# tools/coqchk.sh: re-check every compiled Props file and all it depends on with the independent checker,
# and print the axioms they rely on (thorough tier; takes tens of minutes).
cd "$(dirname "$0")/../coq" || exit 2
mods=$(ls Props/C*.v | sed 's|/|.|; s|\.v$||; s|^|P2.|')
timeout 14000 coqchk -silent -o -Q . P2 $mods 2>&1 | tail -60
