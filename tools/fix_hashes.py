#!/usr/bin/env python3
"""Rewrite commit hashes in known_findings.json 'fixed' lines to the hashes the commits have on /repo main."""
import json, subprocess, re
def sh(*a): return subprocess.check_output(a, text=True)
main = {l.split(" ", 1)[1]: l.split(" ", 1)[0] for l in sh("git", "-C", "/repo", "log", "--format=%h %s", "main").splitlines()}
allc = {l.split(" ", 1)[0]: l.split(" ", 1)[1] for l in sh("git", "-C", "/repo", "log", "--all", "--format=%h %s").splitlines()}
k = json.load(open("/verif/known_findings.json"))
out = []
for e in k["fixed"]:
    m = re.match(r"(fixed: property=\S+ )([0-9a-f]{7,40})( .*)", e)
    if m:
        h = m.group(2)[:7]
        subj = allc.get(h)
        if subj and subj in main and main[subj] != h:
            e = m.group(1) + main[subj] + m.group(3)
        elif not subj:
            print("unknown hash", h)
    out.append(e)
k["fixed"] = out
json.dump(k, open("/verif/known_findings.json", "w"), indent=1, ensure_ascii=False)
for e in out: print(e[:110])

# hook commits: every commit on main whose subject starts with "verif hook"
hooks = [l.split(" ", 1)[0] for l in sh("git", "-C", "/repo", "log", "--reverse", "--format=%H %s", "main").splitlines() if l.split(" ", 1)[1].startswith("verif hook")]
json.dump(hooks, open("/verif/tools/hook_commits.json", "w"), indent=1)
print(len(hooks), "hook commits")
