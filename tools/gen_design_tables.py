#!/usr/bin/env python3
"""Prints the 'as built' tables for DESIGN.md section 11 from evidence/*.json, tools/props, known_findings.json,
seeded/*/meta.json and build/seedtest*.log."""
import json, glob, os, re, sys
ROOT = os.path.dirname(os.path.dirname(os.path.abspath(__file__)))
sys.path.insert(0, os.path.join(ROOT, "tools"))
from props import PROPS
kf = json.load(open(os.path.join(ROOT, "known_findings.json")))
print("### 11.2 Defects repaired in /repo (each a separate `fix:` commit; the model follows the repaired code)\n")
print("| commit | property | what failed at the pinned commit |")
print("|---|---|---|")
seen = set()
for f in kf["fixed"]:
    m = re.match(r"fixed: property=(\S+) (\S+) (?:\(branch \S+\) )?(.*)", f)
    if not m or (m.group(1), m.group(2)) in seen:
        continue
    seen.add((m.group(1), m.group(2)))
    print("| %s | %s | %s |" % (m.group(2), m.group(1), m.group(3).replace("|", "\\|")))
print()
print("### 11.3 What each check proves and runs (from evidence/*.json of the last clean-tree run)\n")
print("| Prop | theorems in Props/Cxx.v (all `Closed under the global context`) | partial / refuted | correspondence run (quick) | known findings |")
print("|---|---|---|---|---|")
for pid in sorted(PROPS):
    p = os.path.join(ROOT, "evidence", pid + ".json")
    if not os.path.exists(p):
        print("| %s | (no evidence yet) | | | |" % pid); continue
    e = json.load(open(p)); c = e["coverage"]
    th = c.get("theorems", [])
    full = [t["name"] for t in th if t["kind"] in ("full", "finite-domain")]
    pr = [t["name"] for t in th if t["kind"] in ("partial", "refuted")]
    closed = all("Closed under the global context" in t.get("assumptions", "") for t in th)
    co = c.get("correspondence", {})
    k = [f["signature"] for f in kf["findings"] if f["property"] == pid]
    print("| %s | %d/%d%s: %s | %s | %d cases, %d distinct non-trivial, I≠M %s, I≠S %s, %.0f s | %s |" % (
        pid, c.get("discharged", 0), c.get("obligations", 0), "" if closed else " (NOT all closed!)",
        ", ".join("`%s`" % t for t in full[:40]), ", ".join("`%s`" % t for t in pr) or "—",
        c.get("evaluations", 0), c.get("distinct_nontrivial", 0), co.get("disagree_IM", "?"),
        (co.get("disagree_IS_coq", 0) or 0) + (co.get("disagree_IS_go", 0) or 0), e.get("wall_s", 0),
        "; ".join(k) or "—"))
print("\n### 11.4 Seeded changes (written by sub-agents that saw only the property text) and which check reports them\n")
res = {}
for lf in sorted(glob.glob(os.path.join(ROOT, "build", "seedtest*.log")), key=os.path.getmtime):  # later runs win
    for line in open(lf):
        m = re.match(r"(\S+) (\{.*\})", line.strip())
        if m:
            res[m.group(1)] = json.loads(m.group(2))
# results of individual runs (tools/seedtest_nosetup.py writes one json per run; a later run of a seed for one property updates
# that property only), and the stored results of earlier sessions (seeded/results.json, committed: build/ is not)
for jf in sorted(glob.glob(os.path.join(ROOT, "build", "seedtest_*.json")), key=os.path.getmtime):
    for sid, r in json.load(open(jf)).items():
        if isinstance(r, dict) and "status" not in r:
            res.setdefault(sid, {}).update(r)
stored_p = os.path.join(ROOT, "seeded", "results.json")
stored = json.load(open(stored_p)) if os.path.exists(stored_p) else {"results": {}}
print("| seed | breaks | needs to manifest | result of the registered quick checks |")
print("|---|---|---|---|")
for d in sorted(glob.glob(os.path.join(ROOT, "seeded", "*"))):
    sid = os.path.basename(d)
    mp = os.path.join(d, "meta.json")
    if not os.path.exists(mp):
        continue
    m = json.load(open(mp))
    r = res.get(sid, {})
    if "status" in r:
        out = r["status"]
    else:
        fresh = {k: ("VIOLATION" if v["exit"] == 1 and v.get("lines") else ("silent" if v["exit"] == 0 else None)) for k, v in r.items()}
        old = dict(x.split(": ", 1) for x in stored["results"].get(sid, "").split(" (")[0].split("; ") if ": " in x)
        old.update({k: v for k, v in fresh.items() if v})
        out = "; ".join("%s: %s" % kv for kv in old.items()) or "not run yet"
        stored["results"][sid] = out
    if not m.get("confirmed", True):
        out += " (no longer a violation on the repaired tree: see meta.json)"
    props = m["property"] if isinstance(m["property"], str) else ",".join(m["property"])
    print("| %s | %s | %s | %s |" % (sid, props, m.get("needs_to_manifest", ""), out))

json.dump(stored, open(stored_p, "w"), indent=1)
print("\n### 11.8 Known findings (genuine defects recorded, not repaired; `known_findings.json`)\n")
for f in kf["findings"]:
    print("* **%s** `%s` - %s\n  Example: `%s`.\n  Theorems: %s (the statement that fails) / %s (what holds)." % (
        f["property"], f["signature"], f["what_fails"], f["example"].replace("`", "'")[:400],
        f.get("refuted_theorem", "-"), f.get("partial_theorem", "-")))
