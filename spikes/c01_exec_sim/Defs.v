From Coq Require Import List ZArith Lia Bool Arith.
Import ListNotations.

Notation name := nat (only parsing).

Inductive ast :=
| Const (z : Z)
| Ident (x : name)
| Let (x : name) (v b : ast)
| Add (a b : ast)
| Lam (ps : list name) (outer : list name) (body : ast)
| Call (f : ast) (args : list ast).

Inductive value :=
| VInt (z : Z)
| VClo (ps : list name) (body : ast) (cap : list (name * value)).

Inductive res := Ok (v : value) | Fail | OOF.

Fixpoint lookup (x : name) (env : list (name * value)) : option value :=
  match env with
  | [] => None
  | (y, v) :: r => if Nat.eqb x y then Some v else lookup x r
  end.

(* ---------- reference semantics: environments, closures capture everything ---------- *)

Fixpoint eval (fuel : nat) (env : list (name * value)) (a : ast) : res :=
  match fuel with
  | O => OOF
  | S f =>
    match a with
    | Const z => Ok (VInt z)
    | Ident x => match lookup x env with Some v => Ok v | None => Fail end
    | Let x v b =>
        match eval f env v with
        | Ok vv => eval f ((x, vv) :: env) b
        | r => r
        end
    | Add a b =>
        match eval f env a with
        | Ok (VInt x) =>
            match eval f env b with
            | Ok (VInt y) => Ok (VInt (x + y))
            | Ok _ => Fail
            | r => r
            end
        | Ok _ => Fail
        | r => r
        end
    | Lam ps outer body => Ok (VClo ps body env)
    | Call fn args =>
        match eval f env fn with
        | Ok (VClo ps body cap) =>
            (fix go (l : list ast) (acc : list value) : res :=
               match l with
               | [] => if Nat.eqb (length acc) (length ps)
                       then eval f (combine ps acc ++ cap) body else Fail
               | a :: r => match eval f env a with
                           | Ok v => go r (acc ++ [v])
                           | e => e
                           end
               end) args []
        | Ok _ => Fail
        | r => r
        end
    end
  end.

(* ---------- generator model: frames on a shared, threaded storage ---------- *)

Fixpoint index_of {A} (eqb : A -> A -> bool) (x : A) (l : list A) : option nat :=
  match l with
  | [] => None
  | y :: r => if eqb x y then Some 0 else option_map S (index_of eqb x r)
  end.

Definition oeqb (a b : option name) : bool :=
  match a, b with
  | Some x, Some y => Nat.eqb x y
  | _, _ => false            (* reserved slots (None) are never found *)
  end.

Fixpoint set (st : list value) (i : nat) (v : value) : list value :=
  match i, st with
  | O, [] => [v]
  | O, _ :: r => v :: r
  | S i, [] => [v]                     (* never reached under the frame invariant *)
  | S i, x :: r => x :: set r i v
  end.

Definition resolve (am : list (option name)) (cm : list name)
           (st : list value) (offs : nat) (cs : list value) (x : name) : option value :=
  match index_of oeqb (Some x) am with
  | Some i => nth_error st (offs + i)
  | None => match index_of Nat.eqb x cm with
            | Some i => nth_error cs i
            | None => None
            end
  end.

Fixpoint capture am cm st offs cs (outer : list name) : option (list (name * value)) :=
  match outer with
  | [] => Some []
  | n :: r => match resolve am cm st offs cs n, capture am cm st offs cs r with
              | Some v, Some l => Some ((n, v) :: l)
              | _, _ => None
              end
  end.

Fixpoint exec (fuel : nat) (am : list (option name)) (cm : list name)
         (st : list value) (offs size : nat) (cs : list value) (a : ast) : res * list value :=
  match fuel with
  | O => (OOF, st)
  | S f =>
    match a with
    | Const z => (Ok (VInt z), st)
    | Ident x => (match resolve am cm st offs cs x with Some v => Ok v | None => Fail end, st)
    | Let x v b =>
        match exec f am cm st offs size cs v with
        | (Ok vv, st1) => exec f (am ++ [Some x]) cm (set st1 (offs + size) vv) offs (S size) cs b
        | r => r
        end
    | Add a b =>
        match exec f am cm st offs size cs a with
        | (Ok (VInt x), st1) =>
            match exec f am cm st1 offs size cs b with
            | (Ok (VInt y), st2) => (Ok (VInt (x + y)), st2)
            | (Ok _, st2) => (Fail, st2)
            | r => r
            end
        | (Ok _, st1) => (Fail, st1)
        | r => r
        end
    | Lam ps outer body =>
        (match capture am cm st offs cs outer with
         | Some cap => Ok (VClo ps body cap)
         | None => Fail
         end, st)
    | Call fn args =>
        match exec f am cm st offs size cs fn with
        | (Ok (VClo ps body cap), st1) =>
            (* argument k is compiled with k reserved slots and evaluated after k pushes *)
            (fix go (l : list ast) (k : nat) (st : list value) : res * list value :=
               match l with
               | [] => if Nat.eqb k (length ps)
                       then exec f (map Some ps) (map fst cap) st (offs + size) k (map snd cap) body
                       else (Fail, st)
               | a :: r =>
                   match exec f (am ++ repeat None k) cm st offs (size + k) cs a with
                   | (Ok v, st') => go r (S k) (set st' (offs + size + k) v)
                   | e => e
                   end
               end) args 0 st1
        | (Ok _, st1) => (Fail, st1)
        | r => r
        end
    end
  end.

(* the pinned commit's behaviour: argument k compiled WITHOUT reserved slots *)
Fixpoint exec_buggy (fuel : nat) (am : list (option name)) (cm : list name)
         (st : list value) (offs size : nat) (cs : list value) (a : ast) : res * list value :=
  match fuel with
  | O => (OOF, st)
  | S f =>
    match a with
    | Const z => (Ok (VInt z), st)
    | Ident x => (match resolve am cm st offs cs x with Some v => Ok v | None => Fail end, st)
    | Let x v b =>
        match exec_buggy f am cm st offs size cs v with
        | (Ok vv, st1) => exec_buggy f (am ++ [Some x]) cm (set st1 (offs + size) vv) offs (S size) cs b
        | r => r
        end
    | Add a b =>
        match exec_buggy f am cm st offs size cs a with
        | (Ok (VInt x), st1) =>
            match exec_buggy f am cm st1 offs size cs b with
            | (Ok (VInt y), st2) => (Ok (VInt (x + y)), st2)
            | (Ok _, st2) => (Fail, st2)
            | r => r
            end
        | (Ok _, st1) => (Fail, st1)
        | r => r
        end
    | Lam ps outer body =>
        (match capture am cm st offs cs outer with
         | Some cap => Ok (VClo ps body cap)
         | None => Fail
         end, st)
    | Call fn args =>
        match exec_buggy f am cm st offs size cs fn with
        | (Ok (VClo ps body cap), st1) =>
            (fix go (l : list ast) (k : nat) (st : list value) : res * list value :=
               match l with
               | [] => if Nat.eqb k (length ps)
                       then exec_buggy f (map Some ps) (map fst cap) st (offs + size) k (map snd cap) body
                       else (Fail, st)
               | a :: r =>
                   match exec_buggy f am cm st offs (size + k) cs a with
                   | (Ok v, st') => go r (S k) (set st' (offs + size + k) v)
                   | e => e
                   end
               end) args 0 st1
        | (Ok _, st1) => (Fail, st1)
        | r => r
        end
    end
  end.

(* f(a,b) = a + b ... use: (λ a b. a+a+...)  program:  (\(a,b). b) (x, let y = x+1 in y)  with x = 5 *)
Definition prog :=
  Call (Lam [10; 11] [] (Ident 11)) [Ident 0; Let 1 (Add (Ident 0) (Const 1)) (Ident 1)].

Definition ref_result   := Eval vm_compute in eval 10 [(0, VInt 5)] prog.
Definition fixed_result := Eval vm_compute in fst (exec 10 [Some 0] [] [VInt 5] 0 1 [] prog).
Definition buggy_result := Eval vm_compute in fst (exec_buggy 10 [Some 0] [] [VInt 5] 0 1 [] prog).
Print ref_result. Print fixed_result. Print buggy_result.
