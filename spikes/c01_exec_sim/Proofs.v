From Coq Require Import List ZArith Lia Bool Arith.
Import ListNotations.
From S Require Import Defs.
Arguments oeqb : simpl never.

(* ---------- well-formedness: every name used is resolvable; outer lists cover closures ---------- *)

Fixpoint wf (am : list (option name)) (cm : list name) (a : ast) : Prop :=
  match a with
  | Const _ => True
  | Ident x => In (Some x) am \/ In x cm
  | Let x v b => wf am cm v /\ ~ In (Some x) am /\ wf (am ++ [Some x]) cm b
  | Add a b => wf am cm a /\ wf am cm b
  | Lam ps outer body =>
      (forall n, In n outer -> In (Some n) am \/ In n cm) /\ wf (map Some ps) outer body
  | Call f args =>
      wf am cm f /\ (fix wfl (l : list ast) : Prop :=
                       match l with [] => True | a :: r => wf am cm a /\ wfl r end) args
  end.

Inductive vrel : value -> value -> Prop :=
| vr_int z : vrel (VInt z) (VInt z)
| vr_clo ps b c1 c2 :
    (forall x v2, lookup x c2 = Some v2 -> exists v1, lookup x c1 = Some v1 /\ vrel v1 v2) ->
    wf (map Some ps) (map fst c2) b ->
    vrel (VClo ps b c1) (VClo ps b c2).

Inductive orel : res -> res -> Prop :=
| or_ok v1 v2 : vrel v1 v2 -> orel (Ok v1) (Ok v2)
| or_fail : orel Fail Fail
| or_oof : orel OOF OOF.

Definition same_below (n : nat) (st st' : list value) : Prop :=
  length st <= length st' /\ forall i, i < n -> nth_error st' i = nth_error st i.

Definition frame_ok am cm st offs size cs env : Prop :=
  length am = size /\ offs + size <= length st /\
  forall x, In (Some x) am \/ In x cm ->
    exists v1 v2, lookup x env = Some v1 /\ resolve am cm st offs cs x = Some v2 /\ vrel v1 v2.

(* ---------- a usable induction principle for ast ---------- *)

Section ast_ind2.
  Variable P : ast -> Prop.
  Hypothesis HC : forall z, P (Const z).
  Hypothesis HI : forall x, P (Ident x).
  Hypothesis HL : forall x v b, P v -> P b -> P (Let x v b).
  Hypothesis HA : forall a b, P a -> P b -> P (Add a b).
  Hypothesis HM : forall ps o b, P b -> P (Lam ps o b).
  Hypothesis HK : forall f args, P f -> Forall P args -> P (Call f args).
  Fixpoint ast_ind2 (a : ast) : P a :=
    match a with
    | Const z => HC z
    | Ident x => HI x
    | Let x v b => HL x v b (ast_ind2 v) (ast_ind2 b)
    | Add a b => HA a b (ast_ind2 a) (ast_ind2 b)
    | Lam ps o b => HM ps o b (ast_ind2 b)
    | Call f args =>
        HK f args (ast_ind2 f)
           ((fix go (l : list ast) : Forall P l :=
               match l with [] => Forall_nil _ | a :: r => Forall_cons _ (ast_ind2 a) (go r) end) args)
    end.
End ast_ind2.

(* ---------- list / index lemmas ---------- *)

Lemma length_set st i v : i <= length st -> length (set st i v) = Nat.max (length st) (S i).
Proof.
  revert i; induction st as [|x st IH]; intros [|i] H; simpl in *; try lia.
  rewrite IH by lia. lia.
Qed.

Lemma nth_set_eq st i v : i <= length st -> nth_error (set st i v) i = Some v.
Proof.
  revert i; induction st as [|x st IH]; intros [|i] H; simpl in *; try lia; auto.
  apply IH; lia.
Qed.

Lemma nth_set_neq st i j v : i <= length st -> j <> i -> j < length st -> nth_error (set st i v) j = nth_error st j.
Proof.
  revert i j; induction st as [|x st IH]; intros [|i] [|j] H Hn Hj; simpl in *; try lia; auto.
  apply IH; lia.
Qed.

Lemma nth_set_lt st i j v : i <= length st -> j < i -> nth_error (set st i v) j = nth_error st j.
Proof. intros; apply nth_set_neq; lia. Qed.

Lemma index_of_some_lt {A} eqb (x : A) l i : index_of eqb x l = Some i -> i < length l.
Proof.
  revert i; induction l as [|y l IH]; simpl; intros i H; [discriminate|].
  destruct (eqb x y). { inversion H; lia. }
  destruct (index_of eqb x l) eqn:E; simpl in H; inversion H; subst. specialize (IH _ eq_refl). lia.
Qed.

Lemma index_of_cons_some x y am :
  index_of oeqb (Some x) (Some y :: am) = if Nat.eqb x y then Some 0 else option_map S (index_of oeqb (Some x) am).
Proof. reflexivity. Qed.
Lemma index_of_cons_none x am :
  index_of oeqb (Some x) (None :: am) = option_map S (index_of oeqb (Some x) am).
Proof. reflexivity. Qed.

Lemma index_of_oeqb_in x am : In (Some x) am -> exists i, index_of oeqb (Some x) am = Some i.
Proof.
  induction am as [|[y|] am IH]; intros H; [destruct H| |].
  - rewrite index_of_cons_some. destruct (Nat.eqb x y) eqn:E; [eauto|].
    destruct H as [H|H]. { inversion H; subst. rewrite Nat.eqb_refl in E. discriminate. }
    destruct (IH H) as [i Hi]. rewrite Hi. simpl. eauto.
  - rewrite index_of_cons_none. destruct H as [H|H]; [discriminate|].
    destruct (IH H) as [i Hi]. rewrite Hi. simpl. eauto.
Qed.

Lemma index_of_oeqb_notin x am : ~ In (Some x) am -> index_of oeqb (Some x) am = None.
Proof.
  induction am as [|[y|] am IH]; intros H; auto.
  - rewrite index_of_cons_some. destruct (Nat.eqb x y) eqn:E.
    + apply Nat.eqb_eq in E. subst. exfalso. apply H. left; auto.
    + rewrite IH; auto. intros H'. apply H. right; auto.
  - rewrite index_of_cons_none. rewrite IH; auto. intros H'. apply H. right; auto.
Qed.

Lemma index_of_oeqb_some_in x am i : index_of oeqb (Some x) am = Some i -> In (Some x) am.
Proof.
  revert i; induction am as [|[y|] am IH]; intros i H; [discriminate| |].
  - rewrite index_of_cons_some in H. destruct (Nat.eqb x y) eqn:E.
    + apply Nat.eqb_eq in E. subst. left; auto.
    + destruct (index_of oeqb (Some x) am) eqn:E2; simpl in H; [|discriminate]. right. eapply IH; eauto.
  - rewrite index_of_cons_none in H.
    destruct (index_of oeqb (Some x) am) eqn:E2; simpl in H; [|discriminate]. right. eapply IH; eauto.
Qed.

Lemma index_of_app_l x am am' i :
  index_of oeqb (Some x) am = Some i -> index_of oeqb (Some x) (am ++ am') = Some i.
Proof.
  revert i; induction am as [|y am IH]; simpl; intros i H; [discriminate|].
  destruct (oeqb (Some x) y); auto.
  destruct (index_of oeqb (Some x) am) eqn:E; simpl in H; [|discriminate].
  rewrite (IH _ eq_refl). auto.
Qed.

Lemma index_of_app_r x am am' :
  index_of oeqb (Some x) am = None ->
  index_of oeqb (Some x) (am ++ am') = option_map (fun i => length am + i) (index_of oeqb (Some x) am').
Proof.
  induction am as [|y am IH]; simpl; intros H.
  - destruct (index_of oeqb (Some x) am'); auto.
  - destruct (oeqb (Some x) y); [discriminate|].
    destruct (index_of oeqb (Some x) am) eqn:E; simpl in H; [discriminate|].
    rewrite IH by auto. destruct (index_of oeqb (Some x) am'); auto.
Qed.

Lemma index_of_repeat_none x k : index_of oeqb (Some x) (repeat None k) = None.
Proof. induction k; simpl; auto. rewrite IHk. auto. Qed.

Lemma index_of_reserved x am k :
  index_of oeqb (Some x) (am ++ repeat None k) = index_of oeqb (Some x) am.
Proof.
  destruct (index_of oeqb (Some x) am) eqn:E.
  - apply index_of_app_l; auto.
  - rewrite index_of_app_r by auto. rewrite index_of_repeat_none. auto.
Qed.

Lemma resolve_reserved am cm st offs cs x k :
  resolve (am ++ repeat None k) cm st offs cs x = resolve am cm st offs cs x.
Proof. unfold resolve. rewrite index_of_reserved. auto. Qed.

Lemma in_reserved (x : name) (am : list (option name)) k : In (Some x) (am ++ repeat None k) <-> In (Some x) am.
Proof.
  rewrite in_app_iff. split; [intros [H|H]; auto|auto].
  apply repeat_spec in H. discriminate.
Qed.

(* wf only depends on which names are present *)
Lemma wf_equiv : forall a am am' cm,
  (forall x : name, In (Some x) am <-> In (Some x) am') -> wf am cm a -> wf am' cm a.
Proof.
  intros a.
  induction a as [z|x|x v IHv b IHb|a1 IH1 a2 IH2|ps o b IHb|fn args IHf IHargs] using ast_ind2;
    intros am am' cm E W; simpl in *; auto.
  - destruct W; [left; apply E|right]; auto.
  - destruct W as (W1 & W2 & W3). split; [eauto|]. split; [rewrite <- E; auto|].
    eapply IHb; [|eauto]. intros y. rewrite !in_app_iff. rewrite E. tauto.
  - destruct W; split; eauto.
  - destruct W as [W1 W2]. split; auto. intros n Hn. destruct (W1 n Hn); [left; apply E|right]; auto.
  - destruct W as [W1 W2]. split; [eauto|].
    induction IHargs as [|a l Ha Hl IH]; auto. destruct W2 as [Wa Wl]. split; [eapply Ha; eauto|apply IH; auto].
Qed.

Lemma wf_reserved a am cm k : wf am cm a -> wf (am ++ repeat None k) cm a.
Proof. apply wf_equiv. intros; symmetry; apply in_reserved. Qed.

(* ---------- frame lemmas ---------- *)

Lemma same_below_refl n st : same_below n st st.
Proof. split; auto. Qed.

Lemma same_below_trans n m st1 st2 st3 :
  m <= n -> same_below n st1 st2 -> same_below m st2 st3 -> same_below m st1 st3.
Proof.
  intros L [l1 H1] [l2 H2]. split; [lia|]. intros i Hi. rewrite H2 by lia. apply H1; lia.
Qed.

Lemma same_below_set n st i v : n <= i -> i <= length st -> same_below n st (set st i v).
Proof.
  intros. split. { rewrite length_set by lia. lia. }
  intros j Hj. apply nth_set_lt; lia.
Qed.

Lemma resolve_same am cm st st' offs size cs x :
  length am = size -> same_below (offs + size) st st' ->
  resolve am cm st' offs cs x = resolve am cm st offs cs x.
Proof.
  intros L [_ H]. unfold resolve. destruct (index_of oeqb (Some x) am) eqn:E; auto.
  apply index_of_some_lt in E. apply H. lia.
Qed.

Lemma frame_ok_same am cm st st' offs size cs env :
  frame_ok am cm st offs size cs env -> same_below (offs + size) st st' ->
  frame_ok am cm st' offs size cs env.
Proof.
  intros (L & B & R) S. split; auto. split. { destruct S; lia. }
  intros x Hx. destruct (R x Hx) as (v1 & v2 & A1 & A2 & A3).
  exists v1, v2. split; auto. split; auto. erewrite resolve_same; eauto.
Qed.

Lemma frame_ok_reserved am cm st offs size cs env k :
  frame_ok am cm st offs size cs env -> offs + size + k <= length st ->
  frame_ok (am ++ repeat None k) cm st offs (size + k) cs env.
Proof.
  intros (L & B & R) Hk. split. { rewrite app_length, repeat_length. lia. }
  split; [lia|]. intros x Hx. rewrite in_reserved in Hx.
  destruct (R x Hx) as (v1 & v2 & A1 & A2 & A3). exists v1, v2. rewrite resolve_reserved. auto.
Qed.

Lemma lookup_index c x i :
  index_of Nat.eqb x (map fst c) = Some i -> nth_error (map snd c) i = lookup x c.
Proof.
  revert i; induction c as [|[y v] c IH]; simpl; intros i H; [discriminate|].
  destruct (Nat.eqb x y). { inversion H; auto. }
  destruct (index_of Nat.eqb x (map fst c)) eqn:E; simpl in H; inversion H; subst. simpl. auto.
Qed.

Lemma index_of_in x l : In x l -> exists i, index_of Nat.eqb x l = Some i.
Proof.
  induction l as [|y l IH]; simpl; intros H; [tauto|].
  destruct (Nat.eqb x y) eqn:E; [eauto|]. destruct H as [->|H]. { rewrite Nat.eqb_refl in E; discriminate. }
  destruct (IH H) as [i ->]. simpl; eauto.
Qed.

Lemma lookup_app_notin x l1 l2 : ~ In x (map fst l1) -> lookup x (l1 ++ l2) = lookup x l2.
Proof.
  induction l1 as [|[y v] l1 IH]; simpl; intros H; auto.
  destruct (Nat.eqb x y) eqn:E. { apply Nat.eqb_eq in E. subst. tauto. } apply IH. tauto.
Qed.

(* capture computes exactly the resolved values of the outer names *)
Lemma capture_spec am cm st offs cs outer :
  (forall n, In n outer -> exists v, resolve am cm st offs cs n = Some v) ->
  exists cap, capture am cm st offs cs outer = Some cap /\ map fst cap = outer /\
    forall x v, lookup x cap = Some v -> resolve am cm st offs cs x = Some v.
Proof.
  induction outer as [|n outer IH]; simpl; intros H.
  - exists []. split; auto. split; auto. simpl. discriminate.
  - destruct (H n (or_introl eq_refl)) as [v Hv]. rewrite Hv.
    destruct IH as (cap & C1 & C2 & C3). { intros; apply H; auto. }
    rewrite C1. exists ((n, v) :: cap). split; auto. split. { simpl. congruence. }
    intros x w. simpl. destruct (Nat.eqb x n) eqn:E.
    + apply Nat.eqb_eq in E. subst. intros [= <-]. auto.
    + apply C3.
Qed.

(* ---------- the parameter frame of a call ---------- *)

Lemma index_of_map_some x ps : index_of oeqb (Some x) (map Some ps) = index_of Nat.eqb x ps.
Proof. induction ps as [|p ps IH]; auto. cbn [map]. rewrite index_of_cons_some. simpl. destruct (Nat.eqb x p); auto. rewrite IH. auto. Qed.

Lemma in_map_some (x : name) ps : In (Some x) (map Some ps) <-> In x ps.
Proof. rewrite in_map_iff. split. { intros (y & [= ->] & H); auto. } eauto. Qed.

Lemma lookup_combine (ps : list name) (acc : list value) x i :
  length acc = length ps -> index_of Nat.eqb x ps = Some i ->
  lookup x (combine ps acc) = nth_error acc i.
Proof.
  revert acc i; induction ps as [|p ps IH]; intros [|a acc] i L H; simpl in *; try discriminate.
  destruct (Nat.eqb x p). { inversion H; auto. }
  destruct (index_of Nat.eqb x ps) eqn:E; simpl in H; inversion H; subst. simpl. apply IH; auto.
Qed.

Lemma combine_keys (ps : list name) (acc : list value) : length acc = length ps -> map fst (combine ps acc) = ps.
Proof. revert acc; induction ps as [|p ps IHps]; intros [|v acc] L; simpl in *; try discriminate; auto. f_equal. auto. Qed.

(* ---------- main simulation ---------- *)

Definition pushed (st : list value) (base : nat) (acc : list value) : Prop :=
  forall j v1, nth_error acc j = Some v1 -> exists v2, nth_error st (base + j) = Some v2 /\ vrel v1 v2.

Theorem exec_sim : forall fuel a env am cm st offs size cs,
  frame_ok am cm st offs size cs env -> wf am cm a ->
  orel (eval fuel env a) (fst (exec fuel am cm st offs size cs a)) /\
  same_below (offs + size) st (snd (exec fuel am cm st offs size cs a)).
Proof.
  induction fuel as [|f IH]; intros a env am cm st offs size cs F W.
  { simpl. split; [constructor|apply same_below_refl]. }
  destruct a as [z|x|x v b|a b|ps outer body|fn args]; simpl.
  - (* Const *) split; [repeat constructor|apply same_below_refl].
  - (* Ident *) split; [|apply same_below_refl].
    destruct F as (_ & _ & R). destruct (R x W) as (v1 & v2 & A1 & A2 & A3).
    rewrite A1, A2. constructor; auto.
  - (* Let *)
    destruct W as (W1 & W2 & W3).
    destruct (IH v env am cm st offs size cs F W1) as [O1 S1].
    destruct (exec f am cm st offs size cs v) as [r1 st1]. simpl in *.
    inversion O1 as [v1 v2 Hv| |]; subst; try (split; [constructor|auto]; fail).
    assert (F1 := frame_ok_same _ _ _ _ _ _ _ _ F S1).
    destruct F1 as (L & B & R).
    set (st2 := set st1 (offs + size) v2).
    assert (S2 : same_below (offs + size) st1 st2) by (apply same_below_set; lia).
    assert (F2 : frame_ok (am ++ [Some x]) cm st2 offs (S size) cs ((x, v1) :: env)).
    { split. { rewrite app_length; simpl; lia. }
      split. { unfold st2. rewrite length_set by lia. lia. }
      intros y Hy. simpl. destruct (Nat.eqb y x) eqn:E.
      - apply Nat.eqb_eq in E. subst y. exists v1, v2. split; auto. split; auto.
        unfold resolve. rewrite index_of_app_r by (apply index_of_oeqb_notin; auto).
        rewrite index_of_cons_some, Nat.eqb_refl. simpl. rewrite L, Nat.add_0_r. apply nth_set_eq. lia.
      - assert (Hy' : In (Some y) am \/ In y cm).
        { destruct Hy as [Hy|Hy]; auto. apply in_app_iff in Hy. destruct Hy as [Hy|[Hy|[]]]; auto.
          inversion Hy; subst. rewrite Nat.eqb_refl in E. discriminate. }
        destruct (R y Hy') as (w1 & w2 & A1 & A2 & A3). exists w1, w2. split; auto. split; auto.
        rewrite <- A2. unfold resolve.
        destruct (index_of oeqb (Some y) am) eqn:E2.
        + rewrite (index_of_app_l _ _ _ _ E2). apply index_of_some_lt in E2.
          unfold st2. apply nth_set_lt; lia.
        + rewrite index_of_app_r by auto. rewrite index_of_cons_some, E. simpl. auto. }
    destruct (IH b ((x, v1) :: env) _ cm st2 offs (S size) cs F2 W3) as [O2 S3].
    fold st2. split; auto.
    eapply same_below_trans; [|exact S1|]. { lia. }
    eapply same_below_trans; [|exact S2|]. { lia. }
    destruct S3 as [l3 H3]. split; auto. intros i Hi. apply H3. lia.
  - (* Add *)
    destruct W as (W1 & W2).
    destruct (IH a env am cm st offs size cs F W1) as [O1 S1].
    destruct (exec f am cm st offs size cs a) as [r1 st1]. simpl in *.
    inversion O1 as [v1 v2 Hv| |]; subst; try (split; [constructor|auto]; fail).
    assert (F1 := frame_ok_same _ _ _ _ _ _ _ _ F S1).
    destruct (IH b env am cm st1 offs size cs F1 W2) as [O2 S2].
    destruct (exec f am cm st1 offs size cs b) as [r2 st2]. simpl in *.
    assert (S12 : same_below (offs + size) st st2) by (eapply same_below_trans; eauto).
    inversion Hv; subst.
    + inversion O2 as [w1 w2 Hw| |]; subst; simpl; try (split; [constructor|auto]; fail).
      inversion Hw; subst; simpl; split; auto; repeat constructor.
    + inversion O2; subst; simpl; split; auto; constructor.
  - (* Lam *)
    split; [|apply same_below_refl].
    destruct W as (W1 & W2). destruct F as (L & B & R).
    destruct (capture_spec am cm st offs cs outer) as (cap & C1 & C2 & C3).
    { intros n Hn. destruct (R n (W1 n Hn)) as (? & v2 & _ & A & _). eauto. }
    rewrite C1. constructor. constructor.
    + intros x v2 Hx. specialize (C3 _ _ Hx).
      assert (Hin : In x outer).
      { rewrite <- C2. clear - Hx. induction cap as [|[y w] cap IHc]; simpl in *; [discriminate|].
        destruct (Nat.eqb x y) eqn:E; [apply Nat.eqb_eq in E; auto|auto]. }
      destruct (R x (W1 x Hin)) as (v1 & v2' & A1 & A2 & A3). rewrite C3 in A2. inversion A2; subst. eauto.
    + rewrite C2. auto.
  - (* Call *)
    destruct W as (W1 & W2).
    destruct (IH fn env am cm st offs size cs F W1) as [O1 S1].
    destruct (exec f am cm st offs size cs fn) as [r1 st1]. simpl in *.
    inversion O1 as [fv1 fv2 Hfv| |]; subst; try (split; [constructor|auto]; fail).
    inversion Hfv as [|ps b c1 c2 Hcap Wbody]; subst; simpl. { split; [constructor|auto]. }
    assert (F1 := frame_ok_same _ _ _ _ _ _ _ _ F S1).
    (* generalised loop invariant *)
    assert (LOOP : forall largs acc k stk,
      (fix wfl (l : list ast) : Prop := match l with [] => True | a :: r => wf am cm a /\ wfl r end) largs ->
      length acc = k -> offs + size + k <= length stk ->
      same_below (offs + size) st stk -> pushed stk (offs + size) acc ->
      let ref :=
        (fix go (l : list ast) (acc : list value) : res :=
           match l with
           | [] => if Nat.eqb (length acc) (length ps)
                   then eval f (combine ps acc ++ c1) b else Fail
           | a :: r => match eval f env a with Ok v => go r (acc ++ [v]) | e => e end
           end) largs acc in
      let gen :=
        (fix go (l : list ast) (k : nat) (st : list value) : res * list value :=
           match l with
           | [] => if Nat.eqb k (length ps)
                   then exec f (map Some ps) (map fst c2) st (offs + size) k (map snd c2) b
                   else (Fail, st)
           | a :: r =>
               match exec f (am ++ repeat None k) cm st offs (size + k) cs a with
               | (Ok v, st') => go r (S k) (set st' (offs + size + k) v)
               | e => e
               end
           end) largs k stk in
      orel ref (fst gen) /\ same_below (offs + size) st (snd gen)).
    { induction largs as [|a largs IHa]; intros acc k stk Wl La Hb Ss Hp; cbn zeta.
      - rewrite La. destruct (Nat.eqb k (length ps)) eqn:E; [|split; [constructor|auto]].
        apply Nat.eqb_eq in E.
        assert (Fc : frame_ok (map Some ps) (map fst c2) stk (offs + size) k (map snd c2) (combine ps acc ++ c1)).
        { split. { rewrite map_length; lia. } split; [lia|].
          intros x Hx. unfold resolve. rewrite index_of_map_some.
          destruct (index_of Nat.eqb x ps) eqn:Ei.
          - assert (Hi := index_of_some_lt _ _ _ _ Ei).
            assert (exists v1, nth_error acc n = Some v1) as [v1 Hv1].
            { destruct (nth_error acc n) eqn:En; eauto. apply nth_error_None in En. exfalso. lia. }
            destruct (Hp _ _ Hv1) as (v2 & A & Bv). exists v1, v2. split; [|split; auto].
            assert (Lc : lookup x (combine ps acc) = Some v1) by (rewrite (lookup_combine ps acc x n); auto; lia).
            clear - Lc. induction (combine ps acc) as [|[y w] l IHl]; simpl in *; [discriminate|].
            destruct (Nat.eqb x y); auto.
          - assert (Hn : ~ In x ps).
            { intros Hin. destruct (index_of_in _ _ Hin) as [i Hi]. congruence. }
            destruct Hx as [Hx|Hx]. { apply in_map_some in Hx. tauto. }
            destruct (index_of_in _ _ Hx) as [i Hi]. rewrite Hi. rewrite (lookup_index _ _ _ Hi).
            destruct (lookup x c2) eqn:E2.
            + destruct (Hcap _ _ E2) as (v1 & A & Bv). exists v1, v. split; auto.
              rewrite lookup_app_notin; auto. rewrite combine_keys by lia. auto.
            + exfalso. clear - Hx E2. induction c2 as [|[y w] c IHc]; simpl in *; [tauto|].
              destruct (Nat.eqb x y) eqn:E; [discriminate|]. destruct Hx as [->|Hx]; [rewrite Nat.eqb_refl in E; discriminate|auto]. }
        destruct (IH b _ _ _ stk (offs + size) k (map snd c2) Fc Wbody) as [Oc Sc].
        split; auto. eapply same_below_trans; [|exact Ss|]. { lia. }
        destruct Sc as [lc Hc]. split; auto. intros i Hi. apply Hc. lia.
      - destruct Wl as [Wa Wl].
        assert (Fk : frame_ok (am ++ repeat None k) cm stk offs (size + k) cs env).
        { apply frame_ok_reserved; [|lia]. exact (frame_ok_same _ _ _ _ _ _ _ _ F Ss). }
        destruct (IH a env _ cm stk offs (size + k) cs Fk (wf_reserved _ _ _ k Wa)) as [Oa Sa].
        destruct (exec f (am ++ repeat None k) cm stk offs (size + k) cs a) as [ra sta]. simpl in *.
        assert (Sst : same_below (offs + size) st sta).
        { eapply same_below_trans; [|exact Ss|]. { lia. }
          destruct Sa as [la Ha]. split; auto. intros i Hi. apply Ha. lia. }
        revert La. inversion Oa as [v1 v2 Hv12| |]; subst; intros La; try (split; [constructor|auto]; fail).
        destruct Sa as [la Ha].
        apply IHa; auto.
        + rewrite app_length; simpl; lia.
        + rewrite length_set by lia. lia.
        + eapply same_below_trans; [|exact Sst|]. { lia. } apply same_below_set; lia.
        + intros j w1 Hj. destruct (Nat.eq_dec j k) as [->|Hne].
          * rewrite nth_error_app2 in Hj by lia. rewrite La, Nat.sub_diag in Hj. simpl in Hj.
            inversion Hj; subst w1. exists v2. split; auto. apply nth_set_eq. lia.
          * assert (j < k).
            { assert (Hlt : j < length (acc ++ [v1])) by (apply nth_error_Some; congruence).
              rewrite app_length in Hlt; simpl in Hlt. lia. }
            rewrite nth_error_app1 in Hj by lia. destruct (Hp _ _ Hj) as (w2 & A & Bv).
            exists w2. split; auto. rewrite nth_set_lt by lia. rewrite Ha by lia. auto. }
    apply (LOOP args [] 0 st1); auto.
    + destruct F1 as (L & B & _). lia.
    + intros j v1 Hj. destruct j; discriminate.
Qed.

Print Assumptions exec_sim.

(* the pinned commit's discipline violates the same statement *)
Theorem exec_buggy_refuted :
  exists a env am cm st offs size cs,
    frame_ok am cm st offs size cs env /\ wf am cm a /\
    ~ orel (eval 10 env a) (fst (exec_buggy 10 am cm st offs size cs a)).
Proof.
  exists prog, [(0, VInt 5)], [Some 0], [], [VInt 5], 0, 1, [].
  split; [|split].
  - split; auto. split; auto. intros x [H|[]]. destruct H as [H|[]]. inversion H; subst.
    exists (VInt 5), (VInt 5). repeat split; constructor.
  - simpl. repeat split; auto; try tauto. intros [H|[]]; discriminate.
  - vm_compute. intros H. inversion H; subst. inversion H2.
Qed.
