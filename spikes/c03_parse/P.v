From Coq Require Import List Arith Lia Bool.
Import ListNotations.

(* tokens: operator tokens carry their table index; an index >= nlev is "some other operator" *)
Inductive tok := TAtom (n : nat) | TOp (j : nat) | TOpen | TClose.
Inductive expr := Atom (n : nat) | Bin (j : nat) (l r : expr).

Section Table.
Variable nlev : nat.                     (* any operator table: nlev binary operators, ascending priority *)

(* ---------- the parser as in parser2.go: parseOp(level) / loop / parseLiteral ---------- *)
Inductive pres := POk (e : expr) (rest : list tok) | PErr | POOF.

Fixpoint parse_level (fuel k : nat) (ts : list tok) : pres :=
  match fuel with O => POOF | S f =>
    if k <? nlev then
      match parse_level f (S k) ts with
      | POk a rest => loop f k a rest
      | r => r
      end
    else
      match ts with
      | TAtom n :: rest => POk (Atom n) rest
      | TOpen :: rest =>
          match parse_level f 0 rest with
          | POk e (TClose :: rest') => POk e rest'
          | POk _ _ => PErr
          | r => r
          end
      | _ => PErr
      end
  end
with loop (fuel k : nat) (a : expr) (ts : list tok) : pres :=
  match fuel with O => POOF | S f =>
    match ts with
    | TOp j :: rest =>
        if j =? k then
          match parse_level f (S k) rest with
          | POk b rest' => loop f k (Bin k a b) rest'
          | r => r
          end
        else POk a ts
    | _ => POk a ts
    end
  end.

(* ---------- big-step relational presentation of the same algorithm ---------- *)
Definition hd_not_op (k : nat) (ts : list tok) : Prop :=
  match ts with TOp j :: _ => j <> k | _ => True end.

Inductive PL : nat -> list tok -> expr -> list tok -> Prop :=
| PL_atom k n rest : nlev <= k -> PL k (TAtom n :: rest) (Atom n) rest
| PL_paren k ts e rest : nlev <= k -> PL 0 ts e (TClose :: rest) -> PL k (TOpen :: ts) e rest
| PL_lvl k ts a mid e rest : k < nlev -> PL (S k) ts a mid -> LP k a mid e rest -> PL k ts e rest
with LP : nat -> expr -> list tok -> expr -> list tok -> Prop :=
| LP_stop k a ts : hd_not_op k ts -> LP k a ts a ts
| LP_step k a ts b mid e rest :
    PL (S k) ts b mid -> LP k (Bin k a b) mid e rest -> LP k a (TOp k :: ts) e rest.

Scheme PL_ind2 := Minimality for PL Sort Prop
  with LP_ind2 := Minimality for LP Sort Prop.
Combined Scheme PL_LP_ind from PL_ind2, LP_ind2.

(* ---------- renderings: which token lists denote which tree ---------- *)
Inductive R : nat -> expr -> list tok -> Prop :=
| R_atom k n : nlev <= k -> R k (Atom n) [TAtom n]
| R_paren k e t : nlev <= k -> R 0 e t -> R k e (TOpen :: t ++ [TClose])      (* redundant or needed *)
| R_lift k e t : k < nlev -> R (S k) e t -> R k e t
| R_bin j l r tl tr : j < nlev -> R j l tl -> R (S j) r tr ->                   (* left-assoc: same level on the left only *)
    R j (Bin j l r) (tl ++ TOp j :: tr).

(* head of the continuation may not be an operator of a level in [k, nlev) *)
Definition stop (k : nat) (ts : list tok) : Prop :=
  match ts with TOp j :: _ => j < k \/ nlev <= j | _ => True end.

Lemma stop_weaken k ts : stop k ts -> stop (S k) ts.
Proof. destruct ts as [|[n|j| |] ts]; simpl; auto. lia. Qed.
Lemma stop_hd k ts : stop k ts -> k < nlev -> hd_not_op k ts.
Proof. destruct ts as [|[n|j| |] ts]; simpl; auto. lia. Qed.

(* what happens after a level-k sub-parse: below nlev the level-k loop runs on, at nlev nothing *)
Definition cont (k : nat) (e : expr) (rest : list tok) (e' : expr) (rest' : list tok) : Prop :=
  if k <? nlev then stop (S k) rest /\ LP k e rest e' rest' else e' = e /\ rest' = rest.

Lemma cont_refl k e rest : stop k rest -> cont k e rest e rest.
Proof.
  intros S. unfold cont. destruct (k <? nlev) eqn:E; auto.
  apply Nat.ltb_lt in E. split; [apply stop_weaken; auto|]. apply LP_stop. apply stop_hd; auto.
Qed.

(* COMPLETENESS, in loop-continuation form *)
Lemma complete_cont : forall k e t, R k e t ->
  forall rest e' rest', cont k e rest e' rest' -> PL k (t ++ rest) e' rest'.
Proof.
  induction 1 as [k n Hk|k e t Hk _ IH|k e t Hk _ IH|j l r tl tr Hj _ IHl _ IHr];
    intros rest e' rest' C.
  - unfold cont in C. destruct (k <? nlev) eqn:E; [apply Nat.ltb_lt in E; lia|].
    destruct C as [-> ->]. simpl. apply PL_atom; auto.
  - unfold cont in C. destruct (k <? nlev) eqn:E; [apply Nat.ltb_lt in E; lia|].
    destruct C as [-> ->]. simpl. rewrite <- app_assoc. simpl. apply PL_paren; auto.
    apply IH. apply cont_refl. simpl. auto.
  - unfold cont in C. destruct (k <? nlev) eqn:E; [|apply Nat.ltb_ge in E; lia].
    destruct C as [S L]. eapply PL_lvl; eauto.
    apply IH. apply cont_refl. exact S.
  - unfold cont in C. destruct (j <? nlev) eqn:E; [|apply Nat.ltb_ge in E; lia].
    destruct C as [S L]. rewrite <- app_assoc. simpl.
    apply IHl. unfold cont. rewrite E. split. { simpl. lia. }
    eapply LP_step; eauto. apply IHr. apply cont_refl. exact S.
Qed.

Theorem parse_complete : forall e t rest, R 0 e t -> stop 0 rest -> PL 0 (t ++ rest) e rest.
Proof. intros. eapply complete_cont; eauto. apply cont_refl; auto. Qed.

(* SOUNDNESS: whatever the algorithm accepts is a rendering of the tree it returns *)
Lemma sound_both :
  (forall k ts e rest, PL k ts e rest -> exists t, ts = t ++ rest /\ R k e t) /\
  (forall k a ts e rest, LP k a ts e rest -> k < nlev ->
     forall ta, R k a ta -> exists t, ts = t ++ rest /\ R k e (ta ++ t)).
Proof.
  apply PL_LP_ind.
  - intros k n rest Hk. exists [TAtom n]. split; auto. apply R_atom; auto.
  - intros k ts e rest Hk _ (t & -> & Rt). exists (TOpen :: t ++ [TClose]). split.
    + simpl. rewrite <- app_assoc. auto.
    + apply R_paren; auto.
  - intros k ts a mid e rest Hk _ (t1 & -> & R1) _ IHL.
    destruct (IHL Hk t1 (R_lift _ _ _ Hk R1)) as (t2 & -> & R2).
    exists (t1 ++ t2). split; [rewrite app_assoc; auto|auto].
  - intros k a ts _ _ ta Ra. exists []. rewrite app_nil_r. auto.
  - intros k a ts b mid e rest _ (tb & -> & Rb) _ IHL Hk ta Ra.
    destruct (IHL Hk (ta ++ TOp k :: tb) (R_bin _ _ _ _ _ Hk Ra Rb)) as (t2 & -> & R2).
    exists (TOp k :: tb ++ t2). split.
    + simpl. rewrite <- app_assoc. reflexivity.
    + rewrite <- app_assoc in R2. simpl in R2. exact R2.
Qed.

Theorem parse_sound : forall ts e, PL 0 ts e [] -> R 0 e ts.
Proof.
  intros ts e H. destruct (proj1 sound_both _ _ _ _ H) as (t & -> & Rt). rewrite app_nil_r. auto.
Qed.

(* ---------- the executable parser computes exactly the relation ---------- *)
Lemma fun_sound : forall fuel,
  (forall k ts e rest, parse_level fuel k ts = POk e rest -> PL k ts e rest) /\
  (forall k a ts e rest, loop fuel k a ts = POk e rest -> k < nlev -> LP k a ts e rest).
Proof.
  induction fuel as [|f [IHP IHL]]; [split; intros; discriminate|].
  split.
  - intros k ts e rest H. simpl in H. destruct (k <? nlev) eqn:E.
    + apply Nat.ltb_lt in E.
      destruct (parse_level f (S k) ts) as [a mid| |] eqn:E1; try discriminate.
      eapply PL_lvl; eauto.
    + apply Nat.ltb_ge in E. destruct ts as [|[n|j| |] ts]; try discriminate.
      * inversion H; subst. apply PL_atom; auto.
      * destruct (parse_level f 0 ts) as [e0 [|[n|j| |] r0]| |] eqn:E1; try discriminate.
        inversion H; subst. apply PL_paren; auto.
  - intros k a ts e rest H Hk. simpl in H. destruct ts as [|[n|j| |] ts];
      try (inversion H; subst; apply LP_stop; simpl; auto; fail).
    destruct (j =? k) eqn:E.
    + apply Nat.eqb_eq in E. subst j.
      destruct (parse_level f (S k) ts) as [b mid| |] eqn:E1; try discriminate.
      eapply LP_step; eauto.
    + apply Nat.eqb_neq in E. inversion H; subst. apply LP_stop. simpl. auto.
Qed.

Lemma fun_complete :
  (forall k ts e rest, PL k ts e rest -> exists f0, forall f, f0 <= f -> parse_level f k ts = POk e rest) /\
  (forall k a ts e rest, LP k a ts e rest -> exists f0, forall f, f0 <= f -> loop f k a ts = POk e rest).
Proof.
  apply PL_LP_ind.
  - intros k n rest Hk. exists 1. intros [|f] Hf; [lia|]. simpl.
    destruct (k <? nlev) eqn:E; [apply Nat.ltb_lt in E; lia|auto].
  - intros k ts e rest Hk _ [f0 IH]. exists (S f0). intros [|f] Hf; [lia|]. simpl.
    destruct (k <? nlev) eqn:E; [apply Nat.ltb_lt in E; lia|]. rewrite IH by lia. auto.
  - intros k ts a mid e rest Hk _ [f1 IH1] _ [f2 IH2]. exists (S (Nat.max f1 f2)).
    intros [|f] Hf; [lia|]. simpl. destruct (k <? nlev) eqn:E; [|apply Nat.ltb_ge in E; lia].
    rewrite IH1 by lia. apply IH2; lia.
  - intros k a ts Hh. exists 1. intros [|f] Hf; [lia|]. simpl.
    destruct ts as [|[n|j| |] ts]; auto. simpl in Hh. destruct (j =? k) eqn:E; auto.
    apply Nat.eqb_eq in E. tauto.
  - intros k a ts b mid e rest _ [f1 IH1] _ [f2 IH2]. exists (S (Nat.max f1 f2)).
    intros [|f] Hf; [lia|]. simpl. rewrite Nat.eqb_refl. rewrite IH1 by lia. apply IH2; lia.
Qed.

(* the two directions for the executable parser, for EVERY table size nlev *)
Theorem C03_complete : forall e t, R 0 e t -> exists f0, forall f, f0 <= f -> parse_level f 0 t = POk e [].
Proof.
  intros e t H. pose proof (parse_complete e t [] H I) as P. rewrite app_nil_r in P.
  exact (proj1 fun_complete _ _ _ _ P).
Qed.

Theorem C03_sound : forall f ts e, parse_level f 0 ts = POk e [] -> R 0 e ts.
Proof. intros f ts e H. apply parse_sound. exact (proj1 (fun_sound f) _ _ _ _ H). Qed.

End Table.

Print Assumptions C03_complete.
Print Assumptions C03_sound.

(* sanity: 3 levels,  1 op0 2 op2 3 op1 4  =  Bin0 1 (Bin1 (Bin2 2 3) 4) *)
Definition t1 := [TAtom 1; TOp 0; TAtom 2; TOp 2; TAtom 3; TOp 1; TAtom 4].
Eval vm_compute in parse_level 3 40 0 t1.
