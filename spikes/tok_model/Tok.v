From Coq Require Import List NArith Bool Ascii String.
Import ListNotations.
Open Scope N_scope.

Notation rune := N (only parsing).

(* --- scanner state: token.go Tokenizer{str,isLast,last,line} --- *)
Record st := mk { str : list rune; isLast : bool; last : rune; line : N }.

Definition EOFr : rune := 0.
Definition alias (c : rune) : rune :=
  if c =? 8226 then 42 (* • -> * *) else if c =? 215 then 42 (* × *) else
  if c =? 247 then 47 (* ÷ -> / *) else if c =? 8211 then 45 (* – -> - *) else
  if c =? 710 then 94 (* ˆ -> ^ *) else c.

(* drop a // comment: stops in front of \n or \r; None = input ended inside the comment *)
Fixpoint skip_line (r : list rune) : option (list rune) :=
  match r with
  | [] => None
  | c :: r' => if (c =? 10) || (c =? 13) then Some r else skip_line r'
  end.

(* drop a block comment body; counts LF; None = input ended (also right after the closing star-slash) *)
Fixpoint skip_block (r : list rune) (ln : N) : option (list rune * N) * N :=
  match r with
  | [] => (None, ln)
  | c :: r' =>
      if c =? 42 then
        match r' with
        | [] => (None, ln)                                  (* '*' is the last rune: else-branch, then len==0 *)
        | d :: r'' => if d =? 47
                      then match r'' with [] => (None, ln) | _ => (Some (r'', ln), ln) end
                      else skip_block r' ln
        end
      else skip_block r' (if c =? 10 then ln + 1 else ln)
  end.

(* peek with an empty cache.  Result: rune, new state.  isLast=false afterwards means "EOF path" *)
Definition peek_fresh (comments skip : bool) (s : st) : rune * st :=
  match str s with
  | [] => (EOFr, mk [] false EOFr (line s))
  | c :: rest =>
      let plain := (alias c, mk rest true (alias c) (line s)) in
      if comments && skip && (c =? 47) then
        match rest with
        | d :: rest' =>
            if d =? 47 then
              match skip_line rest' with
              | None => (EOFr, mk [] false EOFr (line s))
              | Some (c2 :: r2) => (alias c2, mk r2 true (alias c2) (line s))
              | Some [] => (EOFr, mk [] false EOFr (line s))
              end
            else if d =? 42 then
              match skip_block rest' (line s) with
              | (None, ln) => (EOFr, mk [] false EOFr ln)
              | (Some (c2 :: r2, _), ln) => (alias c2, mk r2 true (alias c2) ln)   (* ONE comment only *)
              | (Some ([], _), ln) => (EOFr, mk [] false EOFr ln)
              end
            else plain
        | [] => plain
        end
      else plain
  end.

Definition peek (comments skip : bool) (s : st) : rune * st :=
  if isLast s then (last s, s) else peek_fresh comments skip s.
Definition next (comments skip : bool) (s : st) : rune * st :=
  let '(c, s') := peek comments skip s in (c, mk (str s') false (last s') (line s')).
Definition unread (s : st) : st := mk (str s) true (last s) (line s).

(* readSkip: collect while valid; the first invalid rune is unread *)
Fixpoint read_skip (fuel : nat) (comments skip : bool) (valid : rune -> bool) (s : st) (acc : list rune)
  : list rune * st :=
  match fuel with
  | O => (acc, s)
  | S f => let '(c, s') := next comments skip s in
           if negb (c =? 0) && valid c then read_skip f comments skip valid s' (acc ++ [c])
           else (acc, unread s')
  end.

(* operator trie as a list of remaining suffixes *)
Definition step_ops (sufs : list (list rune)) (r : rune) : list (list rune) :=
  flat_map (fun s => match s with c :: t => if c =? r then [t] else [] | [] => [] end) sufs.
Definition end_valid (sufs : list (list rune)) : bool := existsb (fun s => match s with [] => true | _ => false end) sufs.

Fixpoint op_loop (fuel : nat) (comments : bool) (sufs : list (list rune)) (s : st) (acc : list rune)
  : list rune * bool * st :=
  match fuel with
  | O => (acc, false, s)
  | S f => let '(r, s') := next comments false s in
           match step_ops sufs r with
           | [] => (acc, end_valid sufs, unread s')
           | sufs' => op_loop f comments sufs' s' (acc ++ [r])
           end
  end.
Definition parse_operator (fuel : nat) (comments : bool) (ops : list (list rune)) (s : st) : list rune * bool * st :=
  let '(r, s') := next comments false s in
  match step_ops ops r with
  | [] => ([r], false, s')
  | sufs => op_loop fuel comments sufs s' [r]
  end.

Inductive ttyp := tIdent | tKeyWord | tOpen | tClose | tNumber | tString | tOperate | tInvalid.
Definition token := (ttyp * list rune * N)%type.

Fixpoint read_str (fuel : nat) (comments : bool) (s : st) (acc : list rune) : token * st :=
  match fuel with
  | O => ((tInvalid, acc, line s), s)
  | S f =>
      let '(c, s1) := next comments false s in
      if c =? 34 then ((tString, acc, line s1), s1)
      else if (c =? 0) || (c =? 10) || (c =? 13) then ((tInvalid, [69;79;76], line s1), s1)
      else if c =? 92 then
        let '(i, s2) := next comments false s1 in
        let out := if i =? 110 then [10] else if i =? 114 then [13] else if i =? 116 then [9]
                   else if i =? 34 then [34] else if i =? 92 then [92] else [92; i] in
        read_str f comments s2 (acc ++ out)
      else read_str f comments s1 (acc ++ [c])
  end.

Definition is_digit (c : rune) := (48 <=? c) && (c <=? 57).
Definition is_alpha (c : rune) := ((97 <=? c) && (c <=? 122)) || ((65 <=? c) && (c <=? 90)) || (c =? 95).
Definition list_eqb (a b : list rune) : bool :=
  (Nat.eqb (List.length a) (List.length b)) && forallb (fun p => fst p =? snd p) (combine a b).

Fixpoint run (fuel : nat) (comments : bool) (ops kws : list (list rune)) (s : st) (out : list token) : list token :=
  match fuel with
  | O => out
  | S f =>
      let '(n, s1) := next comments true s in
      if n =? 10 then run f comments ops kws (mk (str s1) (isLast s1) (last s1) (line s1 + 1)) out
      else if (n =? 32) || (n =? 13) || (n =? 9) then run f comments ops kws s1 out
      else if n =? 0 then out
      else if n =? 40 then run f comments ops kws s1 (out ++ [(tOpen, [40], line s1)])
      else if n =? 41 then run f comments ops kws s1 (out ++ [(tClose, [41], line s1)])
      else if n =? 34 then let '(t, s2) := read_str f comments s1 [] in run f comments ops kws s2 (out ++ [t])
      else
        let s2 := unread s1 in
        let '(c, s3) := peek comments true s2 in
        if is_digit c then
          let '(img, s4) := read_skip f comments true (fun r => is_digit r || (r =? 46)) s3 [] in
          run f comments ops kws s4 (out ++ [(tNumber, img, line s4)])
        else if is_alpha c then
          let '(img, s4) := read_skip f comments true (fun r => is_alpha r || is_digit r) s3 [] in
          let ty := if existsb (list_eqb img) kws then tKeyWord else tIdent in
          run f comments ops kws s4 (out ++ [(ty, img, line s4)])
        else
          let '(img, ok, s4) := parse_operator f comments ops s3 in
          run f comments ops kws s4 (out ++ [(if ok then tOperate else tInvalid, img, line s4)])
  end.

(* ---------- helpers to write tests ---------- *)
Fixpoint runes (s : string) : list rune :=
  match s with EmptyString => [] | String a r => N_of_ascii a :: runes r end.
Fixpoint unrunes (l : list rune) : string :=
  match l with [] => EmptyString | c :: r => String (ascii_of_N c) (unrunes r) end.
Definition show (ts : list token) := map (fun t => (fst (fst t), unrunes (snd (fst t)), snd t)) ts.
Definition OPS := map runes ["+"; "-"; "*"; "/"; "<"; "="; "->"]%string.
Definition KWS := map runes ["if"; "then"; "else"; "let"]%string.
Definition tokz (comments : bool) (src : list rune) :=
  show (run (2 * List.length src + 4) comments OPS KWS (mk src false 0 1) []).
Definition LF := String (ascii_of_N 10) EmptyString.

Open Scope string_scope.
(* 1. comment set off by a blank: fine *)
Eval vm_compute in tokz true (runes "x /*c*/ +1").
(* 2. comment tight after an operator rune: the slash is cached by next(false) and never re-examined *)
Eval vm_compute in tokz true (runes "x+/*c*/1").
(* 3. comment tight after a keyword: read_skip reads through it and glues the neighbours *)
Eval vm_compute in tokz true (runes "then/*c*/1").
(* 4. two adjacent comments: only one is skipped per peek *)
Eval vm_compute in tokz true (runes "x/*a*//*b*/+1").
(* 5. alias rewrite inside a string literal *)
Eval vm_compute in tokz true (runes """a" ++ [8226] ++ runes "b""")%list.
(* 6. identifier followed by a block comment with LF: token carries the later line *)
Eval vm_compute in tokz true (runes ("abc/*" ++ LF ++ "*/ +")).
(* 7. line comment at end of input, and unterminated block comment *)
Eval vm_compute in tokz true (runes "a//").
Eval vm_compute in tokz true (runes ("a" ++ LF ++ "/* *")).
(* 8. from token_test.go: "a//ss\n//ss\n\na" -> a@1 a@4 ; "a\n/*\n***\n*/\n+1" -> a@1 +@5 1@5 *)
Eval vm_compute in tokz true (runes ("a//ss" ++ LF ++ "//ss" ++ LF ++ LF ++ "a")).
Eval vm_compute in tokz true (runes ("a" ++ LF ++ "/*" ++ LF ++ "***" ++ LF ++ "*/" ++ LF ++ "+1")).
