package main

// C13 - all map representations behave as one abstract key-value map.
// Histories of map operations are run through the expression language of the real implementation
// (value.New().Generate, handles passed as arguments); after every step every observer is applied to
// the value just built.  The observations go (a) into Coq case files, where they are compared with the
// model of the implementation (c13_im) and with the finite-map specification (c13_is), and (b) through
// an independent Go-side oracle: a plain ordered finite map.

import (
	"bytes"
	"encoding/json"
	"encoding/xml"
	"fmt"
	"io"
	"sort"
	"strings"

	"github.com/hneemann/parser2/funcGen"
	"github.com/hneemann/parser2/listMap"
	"github.com/hneemann/parser2/value"
	"github.com/hneemann/parser2/value/export"
)

func init() { register("c13", cmdC13) }

// ---------- values of the history language ----------

type gval struct {
	K string `json:"k"` // i f s m
	I int    `json:"i,omitempty"`
	S string `json:"s,omitempty"`
	M []gkv  `json:"m,omitempty"`
}
type gkv struct {
	K string `json:"k"`
	V gval   `json:"v"`
}

func gi(i int) gval    { return gval{K: "i", I: i} }
func gs(s string) gval { return gval{K: "s", S: s} }

func (g gval) build() value.Value {
	switch g.K {
	case "i":
		return value.Int(g.I)
	case "f":
		return value.Float(float64(g.I))
	case "s":
		return value.String(g.S)
	}
	lm := listMap.New[value.Value](len(g.M))
	for _, e := range g.M {
		lm = lm.Append(e.K, e.V.build())
	}
	return value.NewMap(lm)
}

// Case files are dominated by repeated keys, values and entry lists; every distinct term is defined once
// per case file and referred to by name (coqc parses a name much faster than a list of code points).
type interner struct {
	names map[string]string
	defs  []string
}

var c13Names = &interner{names: map[string]string{}}

func (it *interner) get(ty, term string) string {
	key := ty + "|" + term
	if n, ok := it.names[key]; ok {
		return n
	}
	name := fmt.Sprintf("x%d", len(it.defs))
	it.defs = append(it.defs, fmt.Sprintf("Definition %s : %s := %s.", name, ty, term))
	it.names[key] = name
	return name
}

func (it *interner) flushInto(cw *CaseWriter) {
	cw.prelude = strings.Join(it.defs, "\n") + "\n"
	cw.Flush()
	it.names = map[string]string{}
	it.defs = nil
}

// number literals are slow to parse (number notations run a Coq-level conversion): name them as well
func cN(n int) string   { return c13Names.get("N", fmt.Sprintf("%d%%N", n)) }
func cNat(n int) string { return c13Names.get("nat", fmt.Sprintf("%d%%nat", n)) }

func cStr(s string) string {
	rs := Runes(s)
	parts := make([]string, len(rs))
	for i, r := range rs {
		parts[i] = cN(int(r))
	}
	return c13Names.get("str", CoqList(parts))
}

func (g gval) coq() string { return c13Names.get("val", g.coqTerm()) }

func (g gval) coqTerm() string {
	z := func(i int) string {
		if i < 0 {
			return fmt.Sprintf("(%d)%%Z", i)
		}
		return fmt.Sprintf("%d%%Z", i)
	}
	switch g.K {
	case "i":
		return "VI " + z(g.I)
	case "f":
		return "VF " + z(g.I)
	case "s":
		return "VS " + cStr(g.S)
	case "m":
		return "VM " + coqEnt(g.M)
	}
	return "VS " + cStr("<unexpected value: "+g.S+">")
}

func (g gval) show() string {
	switch g.K {
	case "i", "f":
		return fmt.Sprint(g.I)
	case "s":
		return g.S
	}
	var b strings.Builder
	b.WriteString("{")
	for i, e := range g.M {
		if i > 0 {
			b.WriteString(", ")
		}
		b.WriteString(e.K + ":" + e.V.show())
	}
	return b.String() + "}"
}

func (g gval) same(h gval) bool {
	if g.K != h.K || g.I != h.I || g.S != h.S || len(g.M) != len(h.M) {
		return false
	}
	for i := range g.M {
		if g.M[i].K != h.M[i].K || !g.M[i].V.same(h.M[i].V) {
			return false
		}
	}
	return true
}

func coqEnt(es []gkv) string {
	parts := make([]string, len(es))
	for i, e := range es {
		parts[i] = c13Names.get("(str * val)", "("+cStr(e.K)+", "+e.V.coq()+")")
	}
	return c13Names.get("ent", CoqList(parts))
}

func coqOptVal(g *gval) string {
	if g == nil {
		return "None"
	}
	return "Some " + g.coq()
}

func coqOptBool(b *bool) string {
	if b == nil {
		return "None"
	}
	return "Some " + CoqBool(*b)
}

func coqStrs(ks []string) string {
	parts := make([]string, len(ks))
	for i, k := range ks {
		parts[i] = cStr(k)
	}
	return c13Names.get("list str", CoqList(parts))
}

var c13Stack = funcGen.NewEmptyStack[value.Value]()

// observed value -> gval (only the kinds the histories can produce)
func fromValue(v value.Value) gval {
	switch x := v.(type) {
	case value.Int:
		return gi(int(x))
	case value.Float:
		if float64(int(x)) == float64(x) {
			return gval{K: "f", I: int(x)}
		}
	case value.String:
		return gs(string(x))
	case value.Map:
		g := gval{K: "m"}
		x.Iter(func(k string, e value.Value) bool {
			g.M = append(g.M, gkv{k, fromValue(e)})
			return true
		})
		return g
	}
	return gval{K: "?", S: fmt.Sprintf("%T %v", v, v)}
}

// ---------- histories ----------

type hop struct {
	Op   string   `json:"op"` // lit real wrap struct func bin empty put merge replace eval map accept combine
	Ents []gkv    `json:"ents,omitempty"`
	Keys []string `json:"keys,omitempty"`
	H    int      `json:"h,omitempty"`
	H2   int      `json:"h2,omitempty"`
	K    string   `json:"key,omitempty"`
	V    gval     `json:"v,omitempty"`
	F    string   `json:"f,omitempty"`
	FS   string   `json:"fs,omitempty"`
	Bin  [4]int   `json:"bin,omitempty"` // start, size, count, index of the description
}

type history struct {
	Probes []string `json:"probes"`
	Ops    []hop    `json:"ops"`
}

func (o hop) human() string {
	switch o.Op {
	case "lit":
		return "literal " + c13LitText(o.Ents) + " " + gval{K: "m", M: o.Ents}.show()
	case "real", "wrap", "struct":
		return o.Op + " " + gval{K: "m", M: o.Ents}.show()
	case "func":
		return fmt.Sprintf("funcmap keys=%q table=%s", o.Keys, gval{K: "m", M: o.Ents}.show())
	case "bin":
		return fmt.Sprintf("[].binning(%d,%d,%d,..).descr[%d]", o.Bin[0], o.Bin[1], o.Bin[2], o.Bin[3])
	case "empty":
		return "EmptyMap"
	case "put":
		return fmt.Sprintf("h%d.put(%q,%s)", o.H, o.K, o.V.show())
	case "merge":
		return fmt.Sprintf("h%d+h%d", o.H, o.H2)
	case "replace":
		return fmt.Sprintf("h%d.replace(m->h%d)", o.H, o.H2)
	case "eval":
		return fmt.Sprintf("h%d.eval()", o.H)
	case "map":
		return fmt.Sprintf("h%d.map(%s %s)", o.H, o.F, o.V.show())
	case "accept":
		return fmt.Sprintf("h%d.accept(%s %q)", o.H, o.F, o.FS)
	case "combine":
		return fmt.Sprintf("h%d.combine(h%d,%s)", o.H, o.H2, o.F)
	}
	return o.Op
}

func c13LitText(es []gkv) string {
	var b strings.Builder
	b.WriteString("{")
	for i, e := range es {
		if i > 0 {
			b.WriteString(",")
		}
		fmt.Fprintf(&b, "'%s':a%d", e.K, i)
	}
	return b.String() + "}"
}

type c13Struct struct {
	Alpha int
	Beta  string
	Gamma float64
}

var c13StructToMap = value.NewToMapReflection[c13Struct]()

var mapFuns = map[string]string{"id": "m.map((k,v)->v)", "key": "m.map((k,v)->k)", "const": "m.map((k,v)->c)"}
var acceptFuns = map[string]string{"all": "m.accept((k,v)->true)", "none": "m.accept((k,v)->false)", "lt": "m.accept((k,v)->k<s)",
	"ne": "m.accept((k,v)->k!=s)", "notbool": "m.accept((k,v)->1)"}
var combineFuns = map[string]string{"fst": "a.combine(b,(x,y)->x)", "snd": "a.combine(b,(x,y)->y)", "fail": "a.combine(b,(x,y)->x.nokey)"}

// run one operation on the real implementation
func (o *hop) exec(hs []value.Value) (value.Value, error) {
	arg := func(i int) value.Value {
		if i < 0 || i >= len(hs) || hs[i] == nil {
			fatal("history refers to a missing handle %d", i)
		}
		return hs[i]
	}
	switch o.Op {
	case "lit":
		names := make([]string, len(o.Ents))
		args := make([]value.Value, len(o.Ents))
		for i, e := range o.Ents {
			names[i] = fmt.Sprintf("a%d", i)
			args[i] = e.V.build()
		}
		return evalExpr(c13LitText(o.Ents), names, args...)
	case "real":
		rm := value.RealMap{}
		for _, e := range o.Ents {
			rm[e.K] = e.V.build()
		}
		return value.NewMap(rm), nil
	case "wrap":
		tm := value.NewToMap[int]()
		for _, e := range o.Ents {
			v := e.V.build()
			tm.Attr(e.K, func(int) value.Value { return v })
		}
		return tm.Create(0)
	case "struct":
		return c13StructToMap.Create(c13Struct{Alpha: o.Ents[0].V.I, Beta: o.Ents[1].V.S, Gamma: float64(o.Ents[2].V.I)})
	case "func":
		table := map[string]value.Value{}
		for _, e := range o.Ents {
			table[e.K] = e.V.build()
		}
		mf := value.NewFuncMapFactory(func(_ value.Int, key string) (value.Value, bool) {
			v, ok := table[key]
			return v, ok
		}, o.Keys...)
		return mf.Create(0), nil
	case "bin":
		d, err := evalExpr("l.binning(s,z,c,x->x,x->1).descr", []string{"l", "s", "z", "c"},
			value.NewList(), value.Int(o.Bin[0]), value.Int(o.Bin[1]), value.Int(o.Bin[2]))
		if err != nil {
			return nil, err
		}
		sl, err := d.(*value.List).ToSlice(c13Stack)
		if err != nil {
			return nil, err
		}
		return sl[o.Bin[3]], nil
	case "empty":
		return value.EmptyMap, nil
	case "put":
		return evalExpr("m.put(k,v)", []string{"m", "k", "v"}, arg(o.H), value.String(o.K), o.V.build())
	case "merge":
		return evalExpr("a+b", []string{"a", "b"}, arg(o.H), arg(o.H2))
	case "replace":
		return evalExpr("m.replace(x->r)", []string{"m", "r"}, arg(o.H), arg(o.H2))
	case "eval":
		return evalExpr("m.eval()", []string{"m"}, arg(o.H))
	case "map":
		return evalExpr(mapFuns[o.F], []string{"m", "c"}, arg(o.H), o.V.build())
	case "accept":
		return evalExpr(acceptFuns[o.F], []string{"m", "s"}, arg(o.H), value.String(o.FS))
	case "combine":
		return evalExpr(combineFuns[o.F], []string{"a", "b"}, arg(o.H), arg(o.H2))
	}
	fatal("unknown op %q", o.Op)
	return nil, nil
}

// the fields of a bin description as the model receives them (read through the public Get)
func binFields(m value.Map) (bool, gval, bool, gval, gval) {
	vs, _ := m.Get("str")
	vmin, isMin := m.Get("min")
	vmax, isMax := m.Get("max")
	return isMin, fromValue(vmin), isMax, fromValue(vmax), fromValue(vs)
}

func (o *hop) coq(built value.Value) string {
	switch o.Op {
	case "lit":
		return "RLit " + coqEnt(o.Ents)
	case "real":
		return "RReal " + coqEnt(o.Ents)
	case "wrap", "struct":
		return "RWrap " + coqEnt(o.Ents)
	case "func":
		return "RFunc " + coqStrs(o.Keys) + " " + coqEnt(o.Ents)
	case "bin":
		a, b, c, d, e := binFields(built.(value.Map))
		return fmt.Sprintf("RBin %s %s %s %s %s", CoqBool(a), b.coq(), CoqBool(c), d.coq(), e.coq())
	case "empty":
		return "REmpty"
	case "put":
		return fmt.Sprintf("RPut %s %s %s", cNat(o.H), cStr(o.K), o.V.coq())
	case "merge":
		return fmt.Sprintf("RMerge %s %s", cNat(o.H), cNat(o.H2))
	case "replace":
		return fmt.Sprintf("RReplace %s %s", cNat(o.H), cNat(o.H2))
	case "eval":
		return fmt.Sprintf("REval %s", cNat(o.H))
	case "map":
		f := map[string]string{"id": "MId", "key": "MKey", "const": "(MConst " + o.V.coq() + ")"}[o.F]
		return fmt.Sprintf("RMap %s %s", cNat(o.H), f)
	case "accept":
		f := map[string]string{"all": "AAll", "none": "ANone", "lt": "(AKeyLt " + cStr(o.FS) + ")", "ne": "(AKeyNe " + cStr(o.FS) + ")", "notbool": "ANotBool"}[o.F]
		return fmt.Sprintf("RAccept %s %s", cNat(o.H), f)
	case "combine":
		f := map[string]string{"fst": "CFst", "snd": "CSnd", "fail": "CFail"}[o.F]
		return fmt.Sprintf("RCombine %s %s %s", cNat(o.H), cNat(o.H2), f)
	}
	return "REmpty"
}

// ---------- the Go-side oracle: an ordered finite map ----------

type gmap []gkv

func (m gmap) get(k string) *gval {
	for i := range m {
		if m[i].K == k {
			return &m[i].V
		}
	}
	return nil
}

func (m gmap) sorted() gmap {
	c := append(gmap(nil), m...)
	sort.SliceStable(c, func(i, j int) bool { return c[i].K < c[j].K })
	return c
}

// outcome of "=" on two values: 0 false, 1 true, 2 error ("operation '=' not defined")
func gveq(a, b gval) int {
	b2i := func(b bool) int {
		if b {
			return 1
		}
		return 0
	}
	num := func(g gval) bool { return g.K == "i" || g.K == "f" }
	if num(a) && num(b) {
		return b2i(a.I == b.I)
	}
	if a.K == "s" && b.K == "s" {
		return b2i(a.S == b.S)
	}
	if a.K == "m" && b.K == "m" {
		return gmap(a.M).equalOutcome(gmap(b.M))
	}
	return 2
}

// outcome of "m = o" for finite maps, independent of any order: false if the sizes differ; otherwise an
// error if some common key has incomparable values, else false if a key is missing or a value differs, else true
func (m gmap) equalOutcome(o gmap) int {
	if len(m) != len(o) {
		return 0
	}
	res := 1
	for _, e := range m {
		x := o.get(e.K)
		if x == nil {
			res = 0
			continue
		}
		switch gveq(*x, e.V) {
		case 2:
			return 2
		case 0:
			res = 0
		}
	}
	return res
}

// what the property demands of an operation; ok=false: the operation has to fail
func (o *hop) oracle(ms []gmap, built value.Value) (gmap, bool) {
	switch o.Op {
	case "lit":
		seen := map[string]bool{}
		for _, e := range o.Ents {
			if seen[e.K] {
				return nil, false
			}
			seen[e.K] = true
		}
		return append(gmap{}, o.Ents...), true
	case "real", "wrap", "struct":
		return append(gmap{}, o.Ents...), true
	case "func":
		var r gmap
		for _, k := range o.Keys {
			if v := gmap(o.Ents).get(k); v != nil {
				r = append(r, gkv{k, *v})
			}
		}
		return r, true
	case "bin":
		isMin, vmin, isMax, vmax, vs := binFields(built.(value.Map))
		r := gmap{{"str", vs}}
		if isMin {
			r = append(r, gkv{"min", vmin})
		}
		if isMax {
			r = append(r, gkv{"max", vmax})
		}
		return r, true
	case "empty":
		return gmap{}, true
	case "put":
		if ms[o.H].get(o.K) != nil {
			return nil, false
		}
		return append(gmap{{o.K, o.V}}, ms[o.H]...), true
	case "merge":
		for _, e := range ms[o.H2] {
			if ms[o.H].get(e.K) != nil {
				return nil, false
			}
		}
		return append(append(gmap{}, ms[o.H]...), ms[o.H2]...), true
	case "replace":
		var r gmap
		for _, e := range ms[o.H] {
			if x := ms[o.H2].get(e.K); x != nil {
				r = append(r, gkv{e.K, *x})
			} else {
				r = append(r, e)
			}
		}
		return r, true
	case "eval":
		return append(gmap{}, ms[o.H]...), true
	case "map":
		var r gmap
		for _, e := range ms[o.H] {
			switch o.F {
			case "id":
				r = append(r, e)
			case "key":
				r = append(r, gkv{e.K, gs(e.K)})
			default:
				r = append(r, gkv{e.K, o.V})
			}
		}
		return r, true
	case "accept":
		var r gmap
		for _, e := range ms[o.H] {
			keep := false
			switch o.F {
			case "all":
				keep = true
			case "lt":
				keep = e.K < o.FS
			case "ne":
				keep = e.K != o.FS
			case "notbool":
				return nil, false
			}
			if keep {
				r = append(r, e)
			}
		}
		if o.F == "notbool" && len(ms[o.H]) == 0 {
			return gmap{}, true
		}
		return r, true
	case "combine":
		var r gmap
		for _, e := range ms[o.H] {
			x := ms[o.H2].get(e.K)
			if x == nil || o.F == "fail" {
				return nil, false
			}
			if o.F == "fst" {
				r = append(r, e)
			} else {
				r = append(r, gkv{e.K, *x})
			}
		}
		return r, true
	}
	return nil, false
}

// ---------- observers ----------

type probeObs struct {
	tested        bool
	access, get   *gval
	avail, member bool
}

type stepObs struct {
	err       bool
	size      int
	list      gmap
	raw       string
	order     []string
	probes    []probeObs
	availAll  bool
	mapid     gmap
	acceptall gmap
	exported  gmap
	xjson     []skv    // export.JSON() parsed back by encoding/json: (key, rendered value) in document order
	xxml      []skv    // export.XML() parsed back by encoding/xml
	eqs       [][3]any // j, *bool, *bool
	repr      string
}

type captureExporter struct{ got gmap }
type captureMap struct{ c *captureExporter }

func (c *captureExporter) String(string) error              { return nil }
func (c *captureExporter) List() export.ListExporter        { return nil }
func (c *captureExporter) Map(value.Map) export.MapExporter { return captureMap{c} }
func (c *captureExporter) Custom(value.Value) (bool, error) { return false, nil }
func (c *captureExporter) Result() int                      { return 0 }
func (m captureMap) Open() error                            { return nil }
func (m captureMap) Close() error                           { return nil }
func (m captureMap) Add(k string, v value.Value) error {
	m.c.got = append(m.c.got, gkv{k, fromValue(v)})
	return nil
}

type skv struct{ K, V string }

func renderSkv(es []skv) string {
	var b strings.Builder
	b.WriteString("{")
	for i, e := range es {
		if i > 0 {
			b.WriteString(", ")
		}
		b.WriteString(e.K + ":" + e.V)
	}
	return b.String() + "}"
}

// a JSON object as (key, rendered value) pairs in document order (duplicates kept); nested objects are
// rendered like Map.ToString, scalars are the exported strings
func jsonObject(dec *json.Decoder) ([]skv, error) {
	r := []skv{}
	for dec.More() {
		kt, err := dec.Token()
		if err != nil {
			return nil, err
		}
		k, ok := kt.(string)
		if !ok {
			return nil, fmt.Errorf("key is not a string: %v", kt)
		}
		vt, err := dec.Token()
		if err != nil {
			return nil, err
		}
		switch x := vt.(type) {
		case string:
			r = append(r, skv{k, x})
		case json.Delim:
			if x != '{' {
				return nil, fmt.Errorf("unexpected %v", x)
			}
			in, err := jsonObject(dec)
			if err != nil {
				return nil, err
			}
			r = append(r, skv{k, renderSkv(in)})
		default:
			return nil, fmt.Errorf("unexpected JSON value %v", vt)
		}
	}
	_, err := dec.Token() // closing brace
	return r, err
}

func parseJSONMap(bs []byte) ([]skv, error) {
	dec := json.NewDecoder(bytes.NewReader(bs))
	t, err := dec.Token()
	if err != nil {
		return nil, err
	}
	if d, ok := t.(json.Delim); !ok || d != '{' {
		return nil, fmt.Errorf("not an object")
	}
	r, err := jsonObject(dec)
	if err != nil {
		return nil, err
	}
	if _, err := dec.Token(); err != io.EOF {
		return nil, fmt.Errorf("trailing data")
	}
	return r, nil
}

// <map k="v" .../> (attribute form) or <map><entry key="k">text | <map .../></entry>...</map> (entry form);
// an entry without a key attribute is reported with the key "<no key attribute>"
func xmlMap(dec *xml.Decoder, start xml.StartElement) ([]skv, error) {
	if start.Name.Local != "map" {
		return nil, fmt.Errorf("unexpected element %s", start.Name.Local)
	}
	r := []skv{}
	for _, a := range start.Attr {
		r = append(r, skv{a.Name.Local, a.Value})
	}
	for {
		t, err := dec.Token()
		if err != nil {
			return nil, err
		}
		switch x := t.(type) {
		case xml.EndElement:
			return r, nil
		case xml.StartElement:
			if x.Name.Local != "entry" {
				return nil, fmt.Errorf("unexpected element %s", x.Name.Local)
			}
			key := "<no key attribute>"
			for _, a := range x.Attr {
				if a.Name.Local == "key" {
					key = a.Value
				}
			}
			text, nested, isNested := "", "", false
		entry:
			for {
				t2, err := dec.Token()
				if err != nil {
					return nil, err
				}
				switch y := t2.(type) {
				case xml.CharData:
					text += string(y)
				case xml.StartElement:
					in, err := xmlMap(dec, y)
					if err != nil {
						return nil, err
					}
					nested, isNested = renderSkv(in), true
				case xml.EndElement:
					break entry
				}
			}
			if isNested {
				r = append(r, skv{key, nested})
			} else {
				r = append(r, skv{key, text})
			}
		}
	}
}

func parseXMLMap(bs []byte) ([]skv, error) {
	dec := xml.NewDecoder(bytes.NewReader(bs))
	for {
		t, err := dec.Token()
		if err != nil {
			return nil, err
		}
		if st, ok := t.(xml.StartElement); ok {
			return xmlMap(dec, st)
		}
	}
}

func exportParsed(m value.Value) ([]skv, []skv) {
	fail := func(what string, err error) []skv { return []skv{{"<" + what + " failed>", err.Error()}} }
	var js, xs []skv
	je := export.JSON()
	if err := export.Export(c13Stack, m, je); err != nil {
		js = fail("JSON export", err)
	} else if p, err := parseJSONMap(je.Result()); err != nil {
		js = fail("encoding/json on "+string(je.Result()), err)
	} else {
		js = p
	}
	xe := export.XML()
	if err := export.Export(c13Stack, m, xe); err != nil {
		xs = fail("XML export", err)
	} else if p, err := parseXMLMap(xe.Result()); err != nil {
		xs = fail("encoding/xml on "+string(xe.Result()), err)
	} else {
		xs = p
	}
	return js, xs
}

func listObs(v value.Value, err error) (gmap, bool) {
	if err != nil {
		return nil, false
	}
	l, ok := v.(*value.List)
	if !ok {
		return nil, false
	}
	sl, err := l.ToSlice(c13Stack)
	if err != nil {
		return nil, false
	}
	r := gmap{}
	for _, e := range sl {
		em, ok := e.(value.Map)
		if !ok {
			return nil, false
		}
		k, _ := em.Get("key")
		x, _ := em.Get("value")
		ks, _ := k.(value.String)
		r = append(r, gkv{string(ks), fromValue(x)})
	}
	return r, true
}

// in which key order does raw = "{k:v, k:v}" list the given entries?
func stringOrder(raw string, es gmap) []string {
	if !strings.HasPrefix(raw, "{") {
		return nil
	}
	used := make([]bool, len(es))
	var order []string
	budget := 20000
	var rec func(pos, n int) bool
	rec = func(pos, n int) bool {
		budget--
		if budget < 0 {
			return false
		}
		if n == len(es) {
			return raw[pos:] == "}"
		}
		for i, e := range es {
			if used[i] {
				continue
			}
			piece := e.K + ":" + e.V.show()
			if n > 0 {
				piece = ", " + piece
			}
			if strings.HasPrefix(raw[pos:], piece) {
				used[i] = true
				order = append(order, e.K)
				if rec(pos+len(piece), n+1) {
					return true
				}
				order = order[:len(order)-1]
				used[i] = false
			}
		}
		return false
	}
	if rec(1, 0) {
		return append([]string{}, order...)
	}
	return nil
}

func normRepr(s string) string {
	for _, p := range [][2]string{{"value.funcMapType[", "func"}, {"value.toMapWrapper[", "wrap"}} {
		for {
			i := strings.Index(s, p[0])
			if i < 0 {
				break
			}
			depth, j := 0, i+len(p[0])-1
			for ; j < len(s); j++ {
				if s[j] == '[' {
					depth++
				} else if s[j] == ']' {
					depth--
					if depth == 0 {
						break
					}
				}
			}
			s = s[:i] + p[1] + s[min(j+1, len(s)):]
		}
	}
	return s
}

func reprDepth(s string) int {
	d, m := 1, 1
	for _, c := range s {
		if c == '(' {
			d++
			if d > m {
				m = d
			}
		} else if c == ')' {
			d--
		}
	}
	return m
}

// outermost wrapper and the constructors directly below it
func reprHead(s string) string {
	var b strings.Builder
	d := 0
	for _, c := range s {
		if c == '(' {
			d++
			if d > 1 {
				continue
			}
		} else if c == ')' {
			d--
			if d >= 1 {
				continue
			}
		}
		if d <= 1 && !(c >= '0' && c <= '9') {
			b.WriteRune(c)
		}
	}
	return b.String()
}

func observe(hs []value.Value, cur int, probes []string) stepObs {
	m := hs[cur]
	var o stepObs
	if mm, ok := m.(value.Map); ok {
		o.repr = normRepr(value.VerifMapRepr(mm))
	} else {
		o.repr = fmt.Sprintf("not-a-map:%T", m)
	}
	o.size = 999999
	if v, err := evalExpr("m.size()", []string{"m"}, m); err == nil {
		if i, ok := v.(value.Int); ok {
			o.size = int(i)
		}
	}
	var ok bool
	if o.list, ok = listObs(evalExpr("m.list()", []string{"m"}, m)); !ok {
		o.list = gmap{{"<list() failed>", gi(0)}}
	}
	if v, err := evalExpr("m.string()", []string{"m"}, m); err == nil {
		if s, ok := v.(value.String); ok {
			o.raw = string(s)
		}
	} else {
		o.raw = "<string() failed: " + err.Error() + ">"
	}
	o.order = stringOrder(o.raw, o.list)
	var allArgs []value.Value
	allNames := []string{"m"}
	allArgs = append(allArgs, m)
	call := "m.isAvail("
	for i, k := range probes {
		var p probeObs
		if !strings.ContainsAny(k, "'\n\r") {
			p.tested = true
			if v, err := evalExpr("m.'"+k+"'", []string{"m"}, m); err == nil {
				g := fromValue(v)
				p.access = &g
			}
		}
		if v, err := evalExpr("m.get(k)", []string{"m", "k"}, m, value.String(k)); err == nil {
			g := fromValue(v)
			p.get = &g
		}
		if v, err := evalExpr("m.isAvail(k)", []string{"m", "k"}, m, value.String(k)); err == nil {
			p.avail = v == value.Bool(true)
		}
		if v, err := evalExpr("k~m", []string{"m", "k"}, m, value.String(k)); err == nil {
			p.member = v == value.Bool(true)
		}
		o.probes = append(o.probes, p)
		if i > 0 {
			call += ","
		}
		call += fmt.Sprintf("k%d", i)
		allNames = append(allNames, fmt.Sprintf("k%d", i))
		allArgs = append(allArgs, value.String(k))
	}
	if len(probes) == 0 {
		o.availAll = true
	} else if v, err := evalExpr(call+")", allNames, allArgs...); err == nil {
		o.availAll = v == value.Bool(true)
	}
	if o.mapid, ok = listObs(evalExpr("m.map((k,v)->v).list()", []string{"m"}, m)); !ok {
		o.mapid = gmap{{"<map failed>", gi(0)}}
	}
	if o.acceptall, ok = listObs(evalExpr("m.accept((k,v)->true).list()", []string{"m"}, m)); !ok {
		o.acceptall = gmap{{"<accept failed>", gi(0)}}
	}
	ce := &captureExporter{got: gmap{}}
	if err := export.Export[int](c13Stack, m, ce); err != nil {
		ce.got = append(ce.got, gkv{"<export failed>", gi(0)})
	}
	o.exported = ce.got
	o.xjson, o.xxml = exportParsed(m)
	// equality with the most recent earlier values and with itself, both directions
	lo := cur - 4
	if lo < 0 {
		lo = 0
	}
	for j := lo; j <= cur; j++ {
		if hs[j] == nil {
			continue
		}
		ev := func(a, b value.Value) *bool {
			v, err := evalExpr("a=b", []string{"a", "b"}, a, b)
			if err != nil {
				return nil
			}
			r := v == value.Bool(true)
			return &r
		}
		o.eqs = append(o.eqs, [3]any{j, ev(m, hs[j]), ev(hs[j], m)})
	}
	return o
}

func (o *stepObs) coq() string {
	if o.err {
		return "ObErr"
	}
	ps := make([]string, len(o.probes))
	for i, p := range o.probes {
		ps[i] = c13Names.get("probe", fmt.Sprintf("(%s, %s, %s, %s, %s)", CoqBool(p.tested), coqOptVal(p.access), coqOptVal(p.get), CoqBool(p.avail), CoqBool(p.member)))
	}
	es := make([]string, len(o.eqs))
	for i, e := range o.eqs {
		es[i] = c13Names.get("(nat * option bool * option bool)", fmt.Sprintf("(%s, %s, %s)", cNat(e[0].(int)), coqOptBool(e[1].(*bool)), coqOptBool(e[2].(*bool))))
	}
	sk := func(es []skv) string {
		parts := make([]string, len(es))
		for i, e := range es {
			parts[i] = c13Names.get("(str * str)", "("+cStr(e.K)+", "+cStr(e.V)+")")
		}
		return c13Names.get("list (str * str)", CoqList(parts))
	}
	// whole observations repeat (every value is observed again at the end of its history): name them, too
	return c13Names.get("obs", fmt.Sprintf("ObOk %s %s %s %s %s %s %s %s %s %s %s %s", cN(o.size), coqEnt(o.list), cStr(o.raw), coqStrs(o.order),
		c13Names.get("list probe", CoqList(ps)), CoqBool(o.availAll), coqEnt(o.mapid), coqEnt(o.acceptall), coqEnt(o.exported),
		sk(o.xjson), sk(o.xxml), c13Names.get("list (nat * option bool * option bool)", CoqList(es))))
}

func sameSet(a, b gmap) bool {
	if len(a) != len(b) {
		return false
	}
	x, y := a.sorted(), b.sorted()
	for i := range x {
		if x[i].K != y[i].K || !x[i].V.same(y[i].V) {
			return false
		}
	}
	return true
}

func sameOpt(a, b *gval) bool {
	if a == nil || b == nil {
		return a == nil && b == nil
	}
	return a.same(*b)
}

// compare the observations with the finite map the property demands; returns the observers that disagree
func (o *stepObs) disagreements(want gmap, ms []gmap, okm []bool, probes []string) []string {
	var bad []string
	add := func(c bool, name string) {
		if !c {
			bad = append(bad, name)
		}
	}
	add(o.size == len(want), "size")
	add(sameSet(o.list, want), "list")
	str := o.order != nil && len(o.order) == len(want)
	if str {
		seen := map[string]bool{}
		for _, k := range o.order {
			v := want.get(k)
			if v == nil || seen[k] {
				str = false
			}
			seen[k] = true
		}
	}
	add(str, "string")
	all := true
	for i, k := range probes {
		w := want.get(k)
		p := o.probes[i]
		if p.tested {
			add(sameOpt(p.access, w), "access")
		}
		add(sameOpt(p.get, w), "get")
		add(p.avail == (w != nil), "isAvail")
		add(p.member == (w != nil), "contains")
		all = all && w != nil
	}
	add(o.availAll == all, "isAvail-n")
	add(sameSet(o.mapid, want), "map")
	add(sameSet(o.acceptall, want), "accept")
	exp := want.sorted()
	eq := len(exp) == len(o.exported)
	for i := 0; eq && i < len(exp); i++ {
		eq = exp[i].K == o.exported[i].K && exp[i].V.same(o.exported[i].V)
	}
	add(eq, "export")
	// JSON and XML export parsed back: exactly the entries of the map, values as they render
	sameParsed := func(got []skv) bool {
		if len(got) != len(exp) {
			return false
		}
		g := append([]skv(nil), got...)
		sort.SliceStable(g, func(i, j int) bool { return g[i].K < g[j].K })
		for i := range exp {
			if g[i].K != exp[i].K || g[i].V != exp[i].V.show() {
				return false
			}
		}
		return true
	}
	add(sameParsed(o.xjson), "export-json")
	add(sameParsed(o.xxml), "export-xml")
	for _, e := range o.eqs {
		j := e[0].(int)
		if !okm[j] {
			continue
		}
		out := func(b *bool) int {
			if b == nil {
				return 2
			}
			if *b {
				return 1
			}
			return 0
		}
		ab, ba := out(e[1].(*bool)), out(e[2].(*bool))
		add(ab == want.equalOutcome(ms[j]), "equal")
		add(ba == ms[j].equalOutcome(want), "equal")
		add(ab == ba, "equal-symmetry")
	}
	// dedupe, keep order
	seen := map[string]bool{}
	var r []string
	for _, b := range bad {
		if !seen[b] {
			seen[b] = true
			r = append(r, b)
		}
	}
	return r
}

// signature component: which families of observers deviate from the finite map
// (get = member access, get, isAvail, ~; iter = list, string, map, accept, export; size; equal only when alone)
func observerFamilies(bad []string) string {
	fam := map[string]bool{}
	for _, b := range bad {
		switch b {
		case "access", "get", "isAvail", "contains", "isAvail-n":
			fam["get"] = true
		case "list", "string", "map", "accept", "export":
			fam["iter"] = true
		case "export-json", "export-xml":
			fam[b] = true
		case "size":
			fam["size"] = true
		default:
			fam["equal"] = true
		}
	}
	if len(fam) > 1 {
		delete(fam, "equal")
	}
	return strings.Join(sortedKeys(fam), "+")
}

// ---------- running one history ----------

func c13Case(h *history, id int, sum *Summary, cw *CaseWriter, corpus bool) {
	hs := make([]value.Value, 0, len(h.Ops))
	ms := make([]gmap, 0, len(h.Ops))
	okm := make([]bool, 0, len(h.Ops))
	var steps []string
	var humanOps []string
	var firstBad string
	var firstBadWhat, firstBadExp, firstBadObs string
	maxDepth := 0
	lastRepr := ""
	for i := range h.Ops {
		o := &h.Ops[i]
		v, err := o.exec(hs)
		if err == nil {
			if _, isMap := v.(value.Map); !isMap {
				err = fmt.Errorf("result is not a map: %T", v)
			}
		}
		var so stepObs
		sum.Count("ops", o.Op)
		if err != nil {
			hs = append(hs, nil)
			so.err = true
			sum.Count("outcomes", "error")
			sum.Count("errors_by_op", o.Op)
		} else {
			hs = append(hs, v)
			so = observe(hs, i, h.Probes)
			sum.Count("outcomes", "ok")
			sum.Count("outermost", strings.SplitN(so.repr, "(", 2)[0])
			d := reprDepth(so.repr)
			sum.Count("nesting_depth", fmt.Sprint(d))
			sum.Count("size", bucket(so.size))
			if d > maxDepth {
				maxDepth = d
			}
			lastRepr = so.repr
			if d >= 2 {
				for _, ob := range []string{"size", "list", "string", "access", "get", "isAvail", "contains", "map", "accept", "export", "equal"} {
					sum.Nontriv(so.repr + "/" + ob)
				}
			}
			if strings.HasPrefix(so.repr, "replace") {
				var dd int
				fmt.Sscanf(so.repr, "replace%d", &dd)
				sum.Count("replace_depth", fmt.Sprint(dd))
			}
			if o.Op == "replace" && !strings.HasPrefix(so.repr, "replace") {
				sum.Count("flattened_to", so.repr)
			}
		}
		if o.Op == "bin" && err != nil {
			fatal("bin description could not be built: %v", err)
		}
		want, wok := o.oracle(ms, v)
		ms = append(ms, want)
		okm = append(okm, wok && err == nil)
		humanOps = append(humanOps, fmt.Sprintf("h%d = %s", i, o.human()))
		steps = append(steps, "("+o.coq(v)+", "+so.coq()+")")
		if firstBad == "" {
			switch {
			case wok && err != nil:
				firstBad, firstBadWhat = o.Op+"/fails", fmt.Sprintf("step %d (%s) failed (%v) but the finite-map model succeeds", i, o.human(), err)
				firstBadExp, firstBadObs = gval{K: "m", M: want}.show(), "error"
			case !wok && err == nil:
				firstBad, firstBadWhat = o.Op+"/accepted", fmt.Sprintf("step %d (%s) succeeded but has to fail (key uniqueness / failing closure)", i, o.human())
				firstBadExp, firstBadObs = "error", so.raw
			case wok && err == nil:
				if bad := so.disagreements(want, ms, okm, h.Probes); len(bad) > 0 {
					firstBad = strings.SplitN(reprHead(so.repr), "(", 2)[0] + "/" + observerFamilies(bad)
					firstBadWhat = fmt.Sprintf("step %d (%s), representation %s: observers %v disagree with the finite map", i, o.human(), so.repr, bad)
					firstBadExp = fmt.Sprintf("size %d, entries %s", len(want), gval{K: "m", M: want}.show())
					firstBadObs = fmt.Sprintf("size()=%d list()=%s string()=%s json=%s xml=%s", so.size, gval{K: "m", M: so.list}.show(), so.raw, renderSkv(so.xjson), renderSkv(so.xxml))
				}
			}
		}
		if err != nil && wok {
			// the implementation failed where the property demands success: later steps may need this value
			h = &history{Probes: h.Probes, Ops: h.Ops[:i+1]}
			break
		}
	}
	// every value once more, after the whole history: later operations on a value must not have changed it
	var finals []string
	for i := range hs {
		if hs[i] == nil {
			continue
		}
		so := observe(hs, i, h.Probes)
		finals = append(finals, "("+cNat(i)+", "+so.coq()+")")
		sum.Count("reobserved", "values")
		if firstBad == "" && okm[i] {
			if bad := so.disagreements(ms[i], ms, okm, h.Probes); len(bad) > 0 {
				firstBad = strings.SplitN(reprHead(so.repr), "(", 2)[0] + "/" + observerFamilies(bad) + "@later"
				firstBadWhat = fmt.Sprintf("value h%d (%s), representation %s, observed again after the later steps of the history: observers %v disagree with the finite map it was built as", i, h.Ops[i].human(), so.repr, bad)
				firstBadExp = fmt.Sprintf("size %d, entries %s", len(ms[i]), gval{K: "m", M: ms[i]}.show())
				firstBadObs = fmt.Sprintf("size()=%d list()=%s string()=%s json=%s xml=%s", so.size, gval{K: "m", M: so.list}.show(), so.raw, renderSkv(so.xjson), renderSkv(so.xxml))
			}
		}
	}
	sum.Evaluations++
	sum.Count("history_len", bucket(len(h.Ops)))
	sum.Count("max_nesting_depth", fmt.Sprint(maxDepth))
	sig := firstBad
	if sig == "" {
		sig = strings.SplitN(reprHead(lastRepr), "(", 2)[0] + "/unclassified"
	}
	human := map[string]any{"history": humanOps, "probes": h.Probes, "repro": h, "signature": sig, "last_representation": lastRepr}
	sum.Cases[fmt.Sprint(id)] = human
	if !corpus {
		sum.Sample(human)
	}
	cw.Add(fmt.Sprintf("(%s, %s, %s, %s)", cN(id), coqStrs(h.Probes), CoqList(steps), CoqList(finals)))
	if firstBad != "" {
		sum.GoViolations = append(sum.GoViolations, GoViolation{CaseID: id, What: firstBadWhat, Sig: sig, Human: human, Expected: firstBadExp, Observed: firstBadObs})
	}
}

// ---------- generator ----------

var c13Pool = []string{"a", "b", "c", "", "a b", "size", "key", "ä", "str", "min", "max", "a'b", "x:1, y", "d"}

type c13Gen struct {
	r     *Rng
	pool  []string
	ops   []hop
	ms    []gmap // oracle state, to steer collisions
	ok    []bool
	limit int
}

func (g *c13Gen) val() gval {
	switch k := g.r.Pick(20); {
	case k < 11:
		return gi(g.r.Pick(4))
	case k < 17:
		return gs([]string{"", "x", "a b", "1", "x, y:2"}[g.r.Pick(5)])
	case k < 18:
		return gval{K: "f", I: g.r.Pick(3)}
	default:
		return gval{K: "m", M: []gkv{{"p", gi(g.r.Pick(2))}}}
	}
}

func (g *c13Gen) key() string { return g.pool[g.r.Pick(len(g.pool))] }

func (g *c13Gen) litKey() string {
	for {
		if k := g.key(); !strings.Contains(k, "'") {
			return k
		}
	}
}

func (g *c13Gen) add(o hop) int {
	// the oracle needs no built value except for bins, which the generator never steers by
	var want gmap
	wok := false
	if o.Op != "bin" {
		want, wok = o.oracle(g.ms, nil)
	} else {
		wok = true
		want = gmap{{"str", gs("?")}}
		if o.Bin[3] > 0 {
			want = append(want, gkv{"min", gi(0)})
		}
		if o.Bin[3] < o.Bin[2]+1 {
			want = append(want, gkv{"max", gi(0)})
		}
	}
	g.ops = append(g.ops, o)
	g.ms = append(g.ms, want)
	g.ok = append(g.ok, wok)
	return len(g.ops) - 1
}

func (g *c13Gen) okHandles() []int {
	var r []int
	for i, b := range g.ok {
		if b {
			r = append(r, i)
		}
	}
	return r
}

func (g *c13Gen) litHandles() []int {
	var r []int
	for i, o := range g.ops {
		if o.Op == "lit" && g.ok[i] && len(o.Ents) < 6 {
			r = append(r, i)
		}
	}
	return r
}

// pick a handle, preferring recent ones so that wrappers nest
func (g *c13Gen) handle() int {
	hs := g.okHandles()
	if len(hs) == 0 {
		return g.add(g.lit(1+g.r.Pick(3), nil, false))
	}
	if g.r.Chance(0.6) {
		return hs[len(hs)-1]
	}
	return hs[g.r.Pick(len(hs))]
}

// a literal with n keys; avoid = keys not to use (nil: any); dup = allow a duplicate key
func (g *c13Gen) lit(n int, avoid gmap, dup bool) hop {
	var es []gkv
	seen := map[string]bool{}
	for tries := 0; len(es) < n && tries < 40; tries++ {
		k := g.litKey()
		if avoid != nil && avoid.get(k) != nil {
			continue
		}
		if seen[k] && !dup {
			continue
		}
		seen[k] = true
		es = append(es, gkv{k, g.val()})
	}
	return hop{Op: "lit", Ents: es}
}

func (g *c13Gen) entries(n int, quoteOk bool) []gkv {
	var es []gkv
	seen := map[string]bool{}
	for tries := 0; len(es) < n && tries < 40; tries++ {
		k := g.key()
		if seen[k] {
			continue
		}
		seen[k] = true
		es = append(es, gkv{k, g.val()})
	}
	return es
}

func (g *c13Gen) host() hop {
	switch g.r.Pick(7) {
	case 0:
		return hop{Op: "real", Ents: g.entries(g.r.Pick(5), true)}
	case 1:
		return hop{Op: "wrap", Ents: g.entries(g.r.Pick(5), true)}
	case 2:
		return hop{Op: "struct", Ents: []gkv{{"Alpha", gi(g.r.Pick(4))}, {"Beta", gs([]string{"", "x", "a b"}[g.r.Pick(3)])}, {"Gamma", gval{K: "f", I: g.r.Pick(3)}}}}
	case 3:
		es := g.entries(1+g.r.Pick(4), true)
		var keys []string
		for _, e := range es {
			keys = append(keys, e.K)
		}
		// the function declines some of the declared keys
		var table []gkv
		for _, e := range es {
			if g.r.Chance(0.7) {
				table = append(table, e)
			}
		}
		g.r.Shuffle(len(keys), func(i, j int) { keys[i], keys[j] = keys[j], keys[i] })
		return hop{Op: "func", Keys: keys, Ents: table}
	case 4, 5:
		c := 1 + g.r.Pick(3)
		return hop{Op: "bin", Bin: [4]int{g.r.Pick(3), 1 + g.r.Pick(2), c, g.r.Pick(c + 2)}}
	}
	return hop{Op: "empty"}
}

// a branching history: several operations start from the SAME parent value (a merge result, or an accept
// result that dropped entries), so an earlier child can be damaged by a later one if storage is shared
func (g *c13Gen) branch() {
	r := g.r
	p := g.handle()
	if r.Chance(0.4) && len(g.ms[p]) > 0 {
		if q := g.add(hop{Op: "accept", H: p, F: "ne", FS: g.ms[p][r.Pick(len(g.ms[p]))].K}); g.ok[q] {
			p = q
		}
	}
	if r.Chance(0.6) {
		h2 := g.add(g.lit(1+r.Pick(2), g.ms[p], false))
		if q := g.add(hop{Op: "merge", H: p, H2: h2}); g.ok[q] {
			p = q
		}
	}
	for i, n := 0, 2+r.Pick(2); i < n; i++ {
		switch k := r.Pick(10); {
		case k < 7:
			h2 := g.add(g.lit(1+r.Pick(2), g.ms[p], false))
			g.add(hop{Op: "merge", H: p, H2: h2})
		case k < 9:
			key := g.key()
			for t := 0; t < 5 && g.ms[p].get(key) != nil; t++ {
				key = g.key()
			}
			g.add(hop{Op: "put", H: p, K: key, V: g.val()})
		default:
			g.replaceOn(p)
		}
	}
}

func (g *c13Gen) step() {
	r := g.r
	if r.Chance(0.12) {
		g.branch()
		return
	}
	switch k := r.Pick(100); {
	case k < 8:
		g.add(g.lit(r.Pick(5), nil, r.Chance(0.15)))
	case k < 16:
		g.add(g.host())
	case k < 34: // put
		h := g.handle()
		key := g.key()
		if r.Chance(0.6) { // prefer an absent key
			for t := 0; t < 5 && g.ms[h].get(key) != nil; t++ {
				key = g.key()
			}
		}
		g.add(hop{Op: "put", H: h, K: key, V: g.val()})
	case k < 50: // merge
		h := g.handle()
		if r.Chance(0.65) {
			h2 := g.add(g.lit(1+r.Pick(3), g.ms[h], false))
			g.add(hop{Op: "merge", H: h, H2: h2})
		} else {
			g.add(hop{Op: "merge", H: h, H2: g.handle()})
		}
	case k < 72: // replace
		h := g.handle()
		g.replaceOn(h)
	case k < 78:
		g.add(hop{Op: "eval", H: g.handle()})
	case k < 85:
		f := []string{"id", "key", "const"}[r.Pick(3)]
		g.add(hop{Op: "map", H: g.handle(), F: f, V: g.val()})
	case k < 93:
		f := []string{"all", "none", "lt", "ne", "lt", "ne"}[r.Pick(6)]
		if r.Chance(0.04) {
			f = "notbool"
		}
		g.add(hop{Op: "accept", H: g.handle(), F: f, FS: g.key()})
	default:
		h := g.handle()
		h2 := g.handle()
		if r.Chance(0.5) {
			h2 = h
		}
		f := []string{"fst", "snd"}[r.Pick(2)]
		if r.Chance(0.04) {
			f = "fail"
		}
		g.add(hop{Op: "combine", H: h, H2: h2, F: f})
	}
}

// replace on h with a replacement map whose keys lie inside and outside the key set of h
func (g *c13Gen) replaceOn(h int) int {
	r := g.r
	if r.Chance(0.25) {
		return g.add(hop{Op: "replace", H: h, H2: g.handle()})
	}
	var es []gkv
	seen := map[string]bool{}
	for _, e := range g.ms[h] {
		if r.Chance(0.4) && !strings.Contains(e.K, "'") && !seen[e.K] {
			seen[e.K] = true
			es = append(es, gkv{e.K, g.val()})
		}
	}
	if r.Chance(0.4) {
		if k := g.litKey(); !seen[k] {
			es = append(es, gkv{k, g.val()})
		}
	}
	h2 := g.add(hop{Op: "lit", Ents: es})
	return g.add(hop{Op: "replace", H: h, H2: h2})
}

func (r *Rng) genHistory() *history {
	g := &c13Gen{r: r}
	// a pool of 5-8 keys: collisions are frequent
	perm := r.Perm(len(c13Pool))
	n := 5 + r.Pick(4)
	for _, i := range perm[:n] {
		g.pool = append(g.pool, c13Pool[i])
	}
	switch shape := r.Pick(100); {
	case shape < 18:
		// a replace chain deeper than the flattening threshold, sometimes interrupted by another wrapper
		h := g.add(g.lit(1+r.Pick(4), nil, false))
		if shape < 5 {
			// more than 20 keys: createFlat chooses a RealMap
			var es []gkv
			for i := 0; i < 21+r.Pick(4); i++ {
				es = append(es, gkv{fmt.Sprintf("k%d", i), gi(r.Pick(3))})
			}
			g.pool = append(g.pool, "k3", "k20")
			h = g.add(hop{Op: "lit", Ents: es})
		}
		for i := 0; i < 11+r.Pick(3); i++ {
			if lits := g.litHandles(); i > 1 && r.Chance(0.65) && len(lits) > 0 {
				// re-use an earlier replacement map: keeps the history short
				h = g.add(hop{Op: "replace", H: h, H2: lits[r.Pick(len(lits))]})
			} else {
				h = g.replaceOn(h)
			}
			if r.Chance(0.05) {
				h = g.add(hop{Op: "put", H: h, K: g.key(), V: g.val()})
				if !g.ok[h] {
					h = h - 1
				}
			}
		}
		g.step()
	default:
		steps := 2 + r.Pick(c13MaxOps-4)
		for i := 0; i < steps && len(g.ops) < c13MaxOps; i++ {
			g.step()
		}
	}
	// drop steps that refer to failed handles (the generator only uses handles the oracle accepts, but the
	// implementation may fail where the oracle succeeds: such a case is reported, its later steps never run)
	return &history{Probes: g.pool, Ops: g.ops}
}

// histories that have exposed defects of earlier versions (kept first in every run)
func c13Corpus() []*history {
	lit := func(kv ...any) hop {
		var es []gkv
		for i := 0; i < len(kv); i += 2 {
			es = append(es, gkv{kv[i].(string), gi(kv[i+1].(int))})
		}
		return hop{Op: "lit", Ents: es}
	}
	var hsts []*history
	// {a:1}.replace(m->{b:2}): .b was 2 while size() was 1
	hsts = append(hsts, &history{Probes: []string{"a", "b"}, Ops: []hop{lit("a", 1), lit("b", 2), {Op: "replace", H: 0, H2: 1}, {Op: "put", H: 2, K: "b", V: gi(3)}}})
	// the same key vanished again when the chain was flattened at depth 10
	{
		h := &history{Probes: []string{"a", "b"}, Ops: []hop{lit("a", 1), lit("b", 2), lit()}}
		h.Ops = append(h.Ops, hop{Op: "replace", H: 0, H2: 1})
		for i := 0; i < 11; i++ {
			h.Ops = append(h.Ops, hop{Op: "replace", H: len(h.Ops) - 1, H2: 2})
		}
		hsts = append(hsts, h)
	}
	// bin descriptions: Size() was 3 with two entries
	hsts = append(hsts, &history{Probes: []string{"str", "min", "max"}, Ops: []hop{{Op: "bin", Bin: [4]int{0, 1, 3, 0}}, {Op: "bin", Bin: [4]int{0, 1, 3, 4}},
		{Op: "bin", Bin: [4]int{0, 1, 3, 2}}, {Op: "eval", H: 0}, {Op: "map", H: 1, F: "id"}}})
	// merge overlapping on the empty key
	hsts = append(hsts, &history{Probes: []string{"", "a"}, Ops: []hop{lit("", 1), lit("", 2), {Op: "merge", H: 0, H2: 1}}})
	hsts = append(hsts, &history{Probes: []string{"", "a"}, Ops: []hop{lit("a", 1), {Op: "put", H: 0, K: "", V: gi(2)}, lit("", 3), {Op: "merge", H: 1, H2: 2}}})
	// function map declining a declared key
	hsts = append(hsts, &history{Probes: []string{"a", "b", "c"}, Ops: []hop{{Op: "func", Keys: []string{"a", "b", "c"}, Ents: []gkv{{"a", gi(1)}, {"c", gi(3)}}},
		{Op: "eval", H: 0}, {Op: "put", H: 0, K: "b", V: gi(1)}}})
	// wrappers nested in each other
	hsts = append(hsts, &history{Probes: []string{"a", "b", "c", "d"}, Ops: []hop{lit("a", 1, "b", 2), lit("b", 5, "d", 6), {Op: "replace", H: 0, H2: 1},
		lit("c", 3), {Op: "merge", H: 2, H2: 3}, {Op: "put", H: 4, K: "d", V: gi(4)}, {Op: "replace", H: 5, H2: 1}, {Op: "eval", H: 6}, {Op: "put", H: 6, K: "a", V: gi(0)}}})
	// branching merges: "+" must not share storage between m+{d:4} and m+{e:5} (seeded change C13-c)
	hsts = append(hsts, &history{Probes: []string{"a", "c", "d", "e"}, Ops: []hop{lit("a", 1, "b", 2), lit("c", 3), {Op: "merge", H: 0, H2: 1},
		lit("d", 4), {Op: "merge", H: 2, H2: 3}, lit("e", 5), {Op: "merge", H: 2, H2: 5}}})
	hsts = append(hsts, &history{Probes: []string{"a", "b", "d", "e"}, Ops: []hop{lit("a", 1, "b", 2, "c", 3), {Op: "accept", H: 0, F: "ne", FS: "c"},
		lit("d", 4), {Op: "merge", H: 1, H2: 2}, lit("e", 5), {Op: "merge", H: 1, H2: 4}}})
	// export of empty string values and of the empty key, attribute form and entry form (seeded change C13-d)
	hsts = append(hsts, &history{Probes: []string{"a", "b", ""}, Ops: []hop{{Op: "lit", Ents: []gkv{{"a", gs("")}, {"b", gs("y")}}},
		{Op: "lit", Ents: []gkv{{"", gi(1)}, {"b", gs("")}}}, {Op: "put", H: 0, K: "c", V: gs("")}, {Op: "eval", H: 1},
		{Op: "lit", Ents: []gkv{{"a", gval{K: "m", M: []gkv{{"p", gs("")}}}}, {"a b", gs("")}}}}})
	// duplicate key in a literal
	hsts = append(hsts, &history{Probes: []string{"a"}, Ops: []hop{lit("a", 1, "a", 2), lit("", 1, "", 2)}})
	return hsts
}

const c13PerShard = 30

// longest history outside the deep replace chains (quick 15, thorough 25)
var c13MaxOps = 15

func cmdC13(seed int64, tier, outDir string) {
	n := 320
	if tier == "thorough" {
		n = 20000
		c13MaxOps = 25
	}
	r := NewRng(seed)
	sum := NewSummary("C13", seed, tier)
	sum.Rule = "histories of up to 15 map operations (literal, host storages RealMap/ToMap/ToMapReflection/FuncMap/bin/EmptyMap, put, +, replace with replacement keys inside and outside the original key set, eval, map, accept, combine) over pools of 5-8 colliding keys (incl. '', quoted and non-ASCII keys), 18% of them replace chains deeper than the flattening threshold, run through value.New().Generate with handles as arguments; after every step all observers (size, list, string, member access, get, isAvail, ~, map, accept, export calls, JSON and XML export parsed back by encoding/json and encoding/xml, = in both directions with the 5 most recent values (itself included)) are applied, and every value is observed once more after the whole history (12% of the steps branch: several operations on the same parent). Non-trivial = (representation tree as reported by VerifMapRepr, observer) with wrapper nesting depth >= 2; distinct by that pair"
	cw := NewCaseWriter(outDir, "From P2 Require Import Base.Prelude Lib.MapLib Run.C13Run.", "c13_case", "c13_id", "c13_im", "c13_is", 1<<30)
	if optReplay != "" {
		var h history
		if err := json.Unmarshal(loadReplayCase(), &h); err != nil {
			fatal("replay case: %v", err)
		}
		c13Case(&h, 1, sum, cw, false)
		c13Names.flushInto(cw)
		sum.CaseFiles = cw.files
		sum.Write(outDir)
		return
	}
	n *= optBoost
	id := 0
	for _, h := range c13Corpus() {
		id++
		c13Case(h, id, sum, cw, true)
	}
	for i := 0; i < n; i++ {
		id++
		c13Case(r.genHistory(), id, sum, cw, false)
		if id%c13PerShard == 0 {
			c13Names.flushInto(cw)
		}
	}
	c13Names.flushInto(cw)
	sum.CaseFiles = cw.files
	// smallest histories first: the first violation of a signature names the replay
	sort.SliceStable(sum.GoViolations, func(i, j int) bool {
		return len(sum.GoViolations[i].Human["history"].([]string)) < len(sum.GoViolations[j].Human["history"].([]string))
	})
	sum.Write(outDir)
}
