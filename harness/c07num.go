package main

// C07 - numerals and numeric static functions: string.toInt / string.toFloat on generated numeral texts
// (valid stream + malformed stream) and the numeric statics on edge values.  Each case is compared with
// the Coq model (implementation = model, exact values) and judged here by an INDEPENDENT reference that
// uses math/big only (no strconv parsing, no float arithmetic of the machine except big.Rat.Float64).

import (
	"fmt"
	"math"
	"math/big"
	"regexp"
	"strconv"
	"strings"
)

var c07ReInt = regexp.MustCompile(`^[+-]?[0-9]+$`)
var c07ReFloat = regexp.MustCompile(`^([+-]?)([0-9]*)(\.([0-9]*))?([eE]([+-]?[0-9]+))?$`)

var c07BadNumerals = []string{"", "+", "-", " 5", "5 ", "+5", "-5", "+-5", "--5", "0x10", "0X1F", "1e3", "1E3", "1e", "1e+", "e5",
	".", "1.", ".5", "+.5e-1", "-0", "+0", "-0.0", "1_000", "1_0.5", "_1", "inf", "+Inf", "-infinity", "nan", "NaN", "+nan", "Infinit",
	"0x1p4", "0x_1p4", "0X1P-2", "0b11", "1p3", "1f", "1.5.2", "1e5.0", "١٢", "12a", "a12", "1 2", "\t1", "1\n", "1e400", "-1e400", "1e-400", "-1e-400",
	"0e999999999999", "1e99999999999999999999", "1e-99999999999999999999", "1e0000000000000000000000005", "0.1", "0.5", "0.25", "1e-1", "1e22", "1e23",
	"9007199254740993", "9007199254740992", "179769313486231570000000000000000000000000000000000000000000000000000000000000000000000000000000000000000000000000000000000000000000000000000000000000000000000000000000000000000000000000000000000000000000000000000000000000000000000000000000000000000000000000000000000000000000000000000000",
	"4.9406564584124654417656879286822137236505980e-324", "9223372036854775807", "9223372036854775808", "-9223372036854775808", "-9223372036854775809",
	"+9223372036854775807", "0009223372036854775807", "-0009223372036854775808", "18446744073709551616", "00", "-00", "+007", "1e+2", "1e-2", "2.5e1", "25e-1", "125e-3", ".125", "-.5", "5.e0", "0.0", "0e0", ".0", "0.", "-.0e5"}

func (r *Rng) c07Digits(n int) string {
	var b strings.Builder
	for i := 0; i < n; i++ {
		b.WriteByte(byte('0' + r.Pick(10)))
	}
	return b.String()
}

// a numeral text: mostly well-formed
func (r *Rng) c07Numeral(forFloat bool) string {
	switch r.Pick(10) {
	case 0, 1:
		return c07BadNumerals[r.Pick(len(c07BadNumerals))]
	case 2: // an int64 with decoration
		z := int64(r.Uint64())
		if r.Chance(0.5) {
			z >>= uint(r.Pick(64))
		}
		s := strconv.FormatInt(z, 10)
		if z >= 0 && r.Chance(0.3) {
			s = "+" + s
		}
		if r.Chance(0.2) {
			neg := strings.HasPrefix(s, "-") || strings.HasPrefix(s, "+")
			if neg {
				s = s[:1] + strings.Repeat("0", 1+r.Pick(3)) + s[1:]
			} else {
				s = strings.Repeat("0", 1+r.Pick(3)) + s
			}
		}
		return s
	case 3: // around the int64 border
		b := new(big.Int).SetInt64(math.MaxInt64)
		if r.Chance(0.5) {
			b.SetInt64(math.MinInt64)
		}
		b.Add(b, big.NewInt(int64(r.Pick(5)-2)))
		return b.String()
	case 4: // digit strings of any length
		n := []int{1, 2, 5, 18, 19, 20, 25, 40, 120, 400}[r.Pick(10)]
		s := r.c07Digits(n)
		if r.Chance(0.3) {
			s = "-" + s
		}
		return s
	case 5: // spoiled numeral
		s := strconv.Itoa(r.Pick(100000) - 50000)
		bad := []string{" ", "_", "x", ".", "e", "+", "-", "٣", " ", "0x"}[r.Pick(10)]
		p := r.Pick(len(s) + 1)
		return s[:p] + bad + s[p:]
	}
	if !forFloat {
		return strconv.Itoa(r.Pick(2000) - 1000)
	}
	// dyadic values in decimal notation (exact), plain or with exponent
	m := int64(r.Pick(1<<12)) - 1<<11
	if r.Chance(0.2) {
		m = int64(r.Uint64() >> 11)
	}
	e := r.Pick(41) - 30
	f := math.Ldexp(float64(m), e)
	// the exact decimal expansion: a dyadic number m*2^e with e<0 has at most -e decimals
	prec := 0
	if e < 0 {
		prec = -e
	}
	s := strconv.FormatFloat(f, 'f', prec, 64)
	if strings.Contains(s, ".") {
		s = strings.TrimRight(s, "0")
		if r.Chance(0.7) {
			s = strings.TrimSuffix(s, ".")
		}
	}
	if s == "" || s == "-" {
		s += "0"
	}
	switch r.Pick(4) {
	case 0:
	case 1: // shifted decimal point: digits e-k
		if i := strings.IndexByte(s, '.'); i >= 0 {
			k := len(s) - i - 1
			s = s[:i] + s[i+1:] + []string{"e-", "E-"}[r.Pick(2)] + strconv.Itoa(k)
		} else {
			s = s + "000e-3"
		}
	case 2: // scaled up and down again
		k := 1 + r.Pick(5)
		if !strings.Contains(s, ".") {
			s += "."
		}
		s += strings.Repeat("0", r.Pick(3)) + []string{"e", "e+", "E", "E+0"}[r.Pick(4)] + "0"
		_ = k
	default: // leading zeros, explicit plus
		if !strings.HasPrefix(s, "-") {
			s = []string{"+", "00", "+0", ""}[r.Pick(4)] + s
		}
	}
	if r.Chance(0.15) {
		// inexact on purpose: a decimal fraction that is no dyadic number
		s = strconv.Itoa(r.Pick(50)) + "." + r.c07Digits(1+r.Pick(3)) + []string{"", "1", "3", "7"}[r.Pick(4)]
	}
	return s
}

func (r *Rng) c07ParseCase() *C07Case {
	c := &C07Case{Origin: "numeral"}
	m := "toInt"
	if r.Chance(0.55) {
		m = "toFloat"
	}
	c.Src = c07TStr(r.c07Numeral(m == "toFloat"))
	st := c07Step{M: m}
	if r.Chance(0.04) {
		st.Args = []c07Arg{c07Val(c07TInt(10))}
		c.Origin = "misuse:call-arity"
	}
	c.Steps = []c07Step{st}
	if m == "toInt" && r.Chance(0.25) {
		// the round trip through the int's own text
		c.Steps = append(c.Steps, c07Step{M: "string"}, c07Step{M: "toInt"})
	}
	return c
}

// what the documented meaning of a numeral demands, computed with math/big: ("ok", Coq term) /
// ("fail", "") / ("abstain", "")
func c07NumeralRef(m, s string) (string, string) {
	switch m {
	case "toInt":
		if !c07ReInt.MatchString(s) {
			return "fail", ""
		}
		z, ok := new(big.Int).SetString(strings.TrimPrefix(s, "+"), 10)
		if !ok {
			return "abstain", ""
		}
		if !z.IsInt64() {
			return "fail", ""
		}
		return "ok", "VInt " + c07CoqZ(z.Int64())
	case "toFloat":
		g := c07ReFloat.FindStringSubmatch(s)
		if g == nil || g[2]+g[4] == "" {
			// texts that Go's float syntax accepts beyond plain decimals are not judged here
			if strings.ContainsAny(s, "iInNxX_") {
				return "abstain", ""
			}
			return "fail", ""
		}
		mant, ok := new(big.Int).SetString(g[2]+g[4], 10)
		if !ok {
			return "abstain", ""
		}
		neg := g[1] == "-"
		if mant.Sign() == 0 {
			if neg {
				return "ok", "VFloat FNegZero"
			}
			return "ok", "VFloat (FFin 0 0)"
		}
		k := new(big.Int)
		if g[6] != "" {
			if _, ok := k.SetString(strings.TrimPrefix(g[6], "+"), 10); !ok {
				return "abstain", ""
			}
		}
		k.Sub(k, big.NewInt(int64(len(g[4]))))
		if !k.IsInt64() || k.Int64() > 2000 || k.Int64() < -2000 {
			return "abstain", ""
		}
		q := new(big.Rat).SetInt(mant)
		p := new(big.Int).Exp(big.NewInt(10), big.NewInt(abs64(k.Int64())), nil)
		if k.Sign() >= 0 {
			q.Mul(q, new(big.Rat).SetInt(p))
		} else {
			q.Quo(q, new(big.Rat).SetInt(p))
		}
		if neg {
			q.Neg(q)
		}
		f, exact := q.Float64()
		if math.IsInf(f, 0) {
			return "fail", ""
		}
		if !exact {
			// the nearest binary64 value (big.Rat rounds to nearest even); a zero result keeps the sign
			if f == 0 && neg {
				f = math.Copysign(0, -1)
			}
		}
		return "ok", "VFloat " + c07CoqFloat(f)
	}
	return "abstain", ""
}

func abs64(x int64) int64 {
	if x < 0 {
		return -x
	}
	return x
}

// verdict of the math/big reference on numeral cases (single toInt / toFloat step on a string source,
// or toInt.string.toInt which must give the first answer again)
func (c *C07Case) c07NumeralVerdict(o c07Obs) (string, string) {
	if c.Src == nil || c.Src.Kind != "str" || len(c.Steps) == 0 {
		return "", ""
	}
	m := c.Steps[0].M
	if m != "toInt" && m != "toFloat" {
		return "", ""
	}
	if len(c.Steps[0].Args) != 0 {
		if o.Kind == "ok" {
			return m + " with an argument must be an error", "error"
		}
		return "", ""
	}
	switch len(c.Steps) {
	case 1:
	case 3:
		if !(m == "toInt" && c.Steps[1].M == "string" && c.Steps[2].M == "toInt" && len(c.Steps[1].Args)+len(c.Steps[2].Args) == 0) {
			return "", ""
		}
	default:
		return "", ""
	}
	kind, want := c07NumeralRef(m, c.Src.S)
	switch kind {
	case "fail":
		if o.Kind == "ok" {
			return "the text is no numeral of the target type (or its value is out of range): " + m + " must report an error", "error"
		}
	case "ok":
		if o.Kind != "ok" {
			return "the text is a numeral whose value is representable: " + m + " must return it, the implementation reported " + o.Kind + ": " + o.Err, want
		}
		if o.Coq != want {
			return m + " returned a value different from the numeral's decimal value (math/big)", want
		}
	}
	return "", ""
}

// ---------- numeric static functions on edge values ----------

var c07EdgeInts = []int64{0, 1, -1, 2, -2, 3, 7, -8, 255, 256, -256, 1 << 31, -(1 << 31), 1<<31 - 1, 3037000499, 3037000500, -3037000500,
	1 << 32, 1<<53 + 1, 1 << 62, math.MaxInt64, math.MaxInt64 - 1, math.MinInt64, math.MinInt64 + 1, 0x5555555555555555, -0x5555555555555556}

var c07EdgeFloats = []float64{0, math.Copysign(0, -1), 0.5, -0.5, 1.5, -1.5, 2.5, -2.5, 0.25, -0.25, 0.75, -0.75, 1, -1, 3, 1e15, -1e15,
	4503599627370495.5, -4503599627370495.5, 4503599627370496.5, 9007199254740992, 1 << 62, -(1 << 62), 9223372036854775808.0, -9223372036854775808.0, 1e300, -1e300,
	math.SmallestNonzeroFloat64, -math.SmallestNonzeroFloat64, math.MaxFloat64, math.Inf(1), math.Inf(-1), math.NaN(), 0.49999999999999994, -0.49999999999999994}

func (r *Rng) c07EdgeNum(kind string) *Tree {
	switch kind {
	case "int":
		if r.Chance(0.3) {
			return c07TInt(int(int64(r.Uint64()) >> uint(r.Pick(64))))
		}
		return c07TInt(int(c07EdgeInts[r.Pick(len(c07EdgeInts))]))
	case "float":
		if r.Chance(0.3) {
			return c07TFloat(math.Ldexp(float64(r.Pick(1<<10)-1<<9), r.Pick(12)-8))
		}
		return c07TFloat(c07EdgeFloats[r.Pick(len(c07EdgeFloats))])
	}
	return r.c07EdgeNum([]string{"int", "float"}[r.Pick(2)])
}

var c07NumStatics = []string{"abs", "sign", "sqr", "int", "float", "min", "max", "binAnd", "binOr", "isInt", "isFloat", "round", "floor", "ceil", "trunc", "string"}

func (r *Rng) c07NumStaticCase() *C07Case {
	c := &C07Case{Origin: "numeric"}
	st := c07NumStatics[r.Pick(len(c07NumStatics))]
	c.Static = st
	n := 1
	kind := "num"
	switch st {
	case "min", "max":
		n = 1 + r.Pick(4)
		kind = []string{"int", "float", "num"}[r.Pick(3)]
	case "binAnd", "binOr":
		n = 2
		kind = "int"
	}
	for i := 0; i < n; i++ {
		c.StArgs = append(c.StArgs, r.c07EdgeNum(kind))
	}
	switch r.Pick(25) {
	case 0:
		c.StArgs = append(c.StArgs, c07TInt(1))
		c.Origin = "misuse:call-arity"
	case 1:
		c.StArgs[r.Pick(len(c.StArgs))] = r.c07Elem([]string{"str", "list", "map"}[r.Pick(3)])
		c.Origin = "misuse:argument-type"
	case 2:
		if len(c.StArgs) > 1 || st == "min" || st == "max" {
			c.StArgs = c.StArgs[:len(c.StArgs)-1]
			c.Origin = "misuse:call-arity"
		}
	}
	return c
}

func c07Wrap64(z *big.Int) int64 {
	m := new(big.Int).Lsh(big.NewInt(1), 64)
	w := new(big.Int).Mod(z, m) // 0 <= w < 2^64
	if w.Cmp(new(big.Int).Lsh(big.NewInt(1), 63)) >= 0 {
		w.Sub(w, m)
	}
	return w.Int64()
}

// exact integer functions of a finite float through big.Rat: floor, ceil, trunc, round half away from zero
func c07RatInt(f float64, how string) *big.Int {
	q := new(big.Rat).SetFloat64(f)
	fl := new(big.Int).Div(q.Num(), q.Denom()) // Euclidean division, denominator > 0: the floor
	isInt := q.IsInt()
	switch how {
	case "floor":
		return fl
	case "ceil":
		if isInt {
			return fl
		}
		return fl.Add(fl, big.NewInt(1))
	case "trunc":
		if isInt || q.Sign() >= 0 {
			return fl
		}
		return fl.Add(fl, big.NewInt(1))
	}
	// round: floor(|q| + 1/2) with the sign of q
	a := new(big.Rat).Abs(q)
	a.Add(a, big.NewRat(1, 2))
	rd := new(big.Int).Div(a.Num(), a.Denom())
	if q.Sign() < 0 {
		rd.Neg(rd)
	}
	return rd
}

// the mathematical meaning of the numeric statics on ints (math/big, wrap-around of int64 made explicit)
// and on finite floats: ("ok", term) / ("fail", "") / ("abstain", "")
func (c *C07Case) c07NumStaticRef() (string, string) {
	allInt, allFloat := true, true
	for _, a := range c.StArgs {
		if a.Kind != "int" {
			allInt = false
		}
		if a.Kind != "float" {
			allFloat = false
		}
		if a.Kind != "int" && a.Kind != "float" {
			switch c.Static {
			case "isInt", "isFloat":
				if len(c.StArgs) == 1 {
					return "ok", "VBool false"
				}
				return "fail", ""
			case "string", "min", "max":
				return "abstain", "" // min / max compare any values the language can order
			}
			return "fail", "" // a number is required
		}
	}
	bigs := make([]*big.Int, len(c.StArgs))
	for i, a := range c.StArgs {
		bigs[i] = big.NewInt(int64(a.I))
	}
	vint := func(z *big.Int) (string, string) { return "ok", "VInt " + c07CoqZ(c07Wrap64(z)) }
	fixed := map[string]int{"abs": 1, "sign": 1, "sqr": 1, "int": 1, "float": 1, "binAnd": 2, "binOr": 2, "isInt": 1, "isFloat": 1, "round": 1, "floor": 1, "ceil": 1, "trunc": 1, "string": 1}
	if n, ok := fixed[c.Static]; ok && n != len(c.StArgs) {
		return "fail", ""
	}
	if len(c.StArgs) == 0 {
		return "abstain", ""
	}
	a0 := c.StArgs[0]
	switch c.Static {
	case "isInt":
		return "ok", "VBool " + CoqBool(a0.Kind == "int")
	case "isFloat":
		return "ok", "VBool " + CoqBool(a0.Kind == "float")
	case "string":
		if a0.Kind == "int" {
			return "ok", "VStr " + CoqStr(bigs[0].String())
		}
		return "abstain", ""
	case "binAnd", "binOr":
		if !allInt {
			return "fail", ""
		}
		if c.Static == "binAnd" {
			return vint(new(big.Int).And(bigs[0], bigs[1]))
		}
		return vint(new(big.Int).Or(bigs[0], bigs[1]))
	case "min", "max":
		if allInt {
			best := bigs[0]
			for _, b := range bigs[1:] {
				if (c.Static == "min" && b.Cmp(best) < 0) || (c.Static == "max" && b.Cmp(best) > 0) {
					best = b
				}
			}
			return vint(best)
		}
		return "abstain", ""
	}
	if allInt {
		switch c.Static {
		case "abs":
			return vint(new(big.Int).Abs(bigs[0]))
		case "sign":
			return vint(big.NewInt(int64(bigs[0].Sign())))
		case "sqr":
			return vint(new(big.Int).Mul(bigs[0], bigs[0]))
		case "int", "round":
			return vint(bigs[0])
		case "float", "floor", "ceil", "trunc":
			f, exact := new(big.Rat).SetInt(bigs[0]).Float64()
			if !exact {
				return "abstain", ""
			}
			return "ok", "VFloat " + c07CoqFloat(f)
		}
		return "abstain", ""
	}
	if !allFloat {
		return "abstain", ""
	}
	f := a0.F
	if math.IsNaN(f) || math.IsInf(f, 0) {
		return "abstain", ""
	}
	switch c.Static {
	case "float":
		return "ok", "VFloat " + c07CoqFloat(f)
	case "abs":
		q := new(big.Rat).SetFloat64(f)
		g, _ := q.Abs(q).Float64()
		return "ok", "VFloat " + c07CoqFloat(g)
	case "sign":
		return "ok", "VFloat " + c07CoqFloat(float64(new(big.Rat).SetFloat64(f).Sign()))
	case "sqr":
		q := new(big.Rat).SetFloat64(f)
		g, exact := q.Mul(q, q).Float64()
		if !exact || math.IsInf(g, 0) {
			return "abstain", ""
		}
		return "ok", "VFloat " + c07CoqFloat(g)
	case "int", "round":
		how := "trunc"
		if c.Static == "round" {
			how = "round"
		}
		z := c07RatInt(f, how)
		if !z.IsInt64() {
			return "abstain", "" // Go leaves the conversion of an out-of-range float open
		}
		return "ok", "VInt " + c07CoqZ(z.Int64())
	case "floor", "ceil", "trunc":
		z := c07RatInt(f, c.Static)
		g, exact := new(big.Rat).SetInt(z).Float64()
		if !exact {
			return "abstain", ""
		}
		if z.Sign() == 0 && (math.Signbit(f)) {
			g = math.Copysign(0, -1) // IEEE: the sign of the argument is kept
		}
		return "ok", "VFloat " + c07CoqFloat(g)
	}
	return "abstain", ""
}

func (c *C07Case) c07NumStaticVerdict(o c07Obs) (string, string) {
	if c.Origin != "numeric" && !strings.HasPrefix(c.Origin, "misuse:") {
		return "", ""
	}
	if c.Static == "" || len(c.Steps) != 0 {
		return "", ""
	}
	known := false
	for _, n := range c07NumStatics {
		known = known || n == c.Static
	}
	if !known {
		return "", ""
	}
	kind, want := c.c07NumStaticRef()
	switch kind {
	case "fail":
		if o.Kind == "ok" {
			return c.Static + " on these arguments must be an error", "error"
		}
	case "ok":
		if o.Kind != "ok" {
			return c.Static + " has a value here (math/big reference), the implementation reported " + o.Kind + ": " + o.Err, want
		}
		if o.Coq != want {
			return c.Static + " returned a value different from the mathematical function (math/big reference)", want
		}
	}
	return "", ""
}

var _ = fmt.Sprint
