package main

import (
	"fmt"
	"github.com/hneemann/parser2/value/export"
	"os"
	"path/filepath"
	"strings"
)

// jsonEscapeOf runs the real jsonExporter.String on the one-rune string and strips the quotes
func jsonEscapeOf(s string) ([]rune, bool) {
	ex := export.JSON()
	if err := ex.String(s); err != nil {
		return nil, false
	}
	out := []rune(string(ex.Result()))
	if len(out) < 2 || out[0] != '"' || out[len(out)-1] != '"' {
		return out, false
	}
	return out[1 : len(out)-1], true
}

func writeIfChanged(path, content string) {
	old, err := os.ReadFile(path)
	if err == nil && string(old) == content {
		return
	}
	os.MkdirAll(filepath.Dir(path), 0o755)
	if err := os.WriteFile(path, []byte(content), 0o644); err != nil {
		fatal("write %s: %v", path, err)
	}
}

// sweep: every Unicode scalar value through the real escaper; exceptions to the identity become the table
func sweepTable(name string, f func(string) ([]rune, bool)) (string, int) {
	var b strings.Builder
	fmt.Fprintf(&b, "Definition %s : list (N * list N) := [", name)
	n := 0
	for c := rune(0); c <= 0x10ffff; c++ {
		if c >= 0xd800 && c <= 0xdfff {
			continue
		}
		out, ok := f(string(c))
		if ok && len(out) == 1 && out[0] == c {
			continue
		}
		if n > 0 {
			b.WriteString(";")
		}
		n++
		if !ok {
			// the function did not even produce a quoted string: record an impossible form
			fmt.Fprintf(&b, "\n  (%d, [])", c)
			continue
		}
		fmt.Fprintf(&b, "\n  (%d, %s)", c, CoqRunes(out))
	}
	b.WriteString("].\n")
	return b.String(), n
}

const genHeader = "(* GENERATED from /repo on every run by `p2h tables` - do not edit. *)\nFrom P2 Require Import Base.Prelude.\nLocal Open Scope N_scope.\n\n"

func init() {
	registerTables(func(outDir string) {
		var b strings.Builder
		b.WriteString(genHeader)
		b.WriteString("(* jsonExporter.String on every one-rune string: exceptions to the identity *)\n")
		js, _ := sweepTable("json_tbl", jsonEscapeOf)
		b.WriteString(js)
		writeIfChanged(filepath.Join(outDir, "Escapes.v"), b.String())
	})
}

func cmdTables(outDir string) { writeExtraTables(outDir) }
