package main

// C04 stream family "wide": constructs that are WIDE instead of deep - calls with many arguments (vararg static function,
// closure value, method call, closure in a map field), many locals in scope in front of a call, list and map literals with
// many entries, functions with many parameters, switch with many cases, long operator and method chains - at sizes around
// powers of two (31..34, 63..65, 127..129, 255..257), up to 200 for argument/parameter counts, and a few big ones up to
// 64 KiB; value generator with the optimizer on and off, float/bool where their grammar has the construct.
// Expected: Generate returns a function or an error inside the time bound.

import (
	"fmt"
	"strings"
)

func c04Rep(item string, n int, sep string) string {
	if n <= 0 {
		return ""
	}
	return strings.Repeat(item+sep, n-1) + item
}

func c04Seq(prefix string, n int, sep string) string {
	var b strings.Builder
	for i := 1; i <= n; i++ {
		if i > 1 {
			b.WriteString(sep)
		}
		fmt.Fprintf(&b, "%s%d", prefix, i)
	}
	return b.String()
}

// c04WideProgram builds the construct `kind` of width n; ok=false if the kind has no program of that width
func c04WideProgram(kind string, n int) (string, bool) {
	switch kind {
	case "static-vararg": // sprintf(format, a, a, ...): n arguments behind the format
		return "sprintf(\"x\"," + c04Rep("a", n, ",") + ")", true
	case "static-fixed": // a static function called with n arguments (wrong arity for n != 1: an error, not a panic)
		return "sqrt(" + c04Rep("a", n, ",") + ")", true
	case "closure-call": // a closure value with n parameters called with n arguments
		return "((" + c04Seq("p", n, ",") + ")->p1+p" + fmt.Sprint(n) + ")(" + c04Rep("a", n, ",") + ")", true
	case "closure-let": // ... bound by let first
		return "let c=(" + c04Seq("p", n, ",") + ")->p" + fmt.Sprint(n) + "; c(" + c04Rep("a", n, ",") + ")", true
	case "closure-args-mismatch":
		return "((p1,p2)->p1)(" + c04Rep("a", n, ",") + ")", true
	case "method-call": // method with n arguments (string receiver)
		return "\"abc\".cut(" + c04Rep("a", n, ",") + ")", true
	case "method-on-arg": // receiver known at run time only
		return "a.foo(" + c04Rep("b", n, ",") + ")", true
	case "map-field-closure": // closure stored in a map field, called with n arguments
		return "{f:(" + c04Seq("p", n, ",") + ")->p1}.f(" + c04Rep("a", n, ",") + ")", true
	case "map-field-closure-let":
		return "let m={f:(" + c04Seq("p", n, ",") + ")->p" + fmt.Sprint(n) + "}; m.f(" + c04Rep("a", n, ",") + ")", true
	case "lets-then-call": // n locals in scope, then a call with three arguments
		var b strings.Builder
		for i := 1; i <= n; i++ {
			fmt.Fprintf(&b, "let v%d=a+%d; ", i, i)
		}
		return b.String() + "sprintf(\"%d%d%d\",v1,v" + fmt.Sprint(n) + ",a)", true
	case "lets-then-method":
		var b strings.Builder
		for i := 1; i <= n; i++ {
			fmt.Fprintf(&b, "let v%d=a+%d; ", i, i)
		}
		return b.String() + "[v1].map(e->e+v" + fmt.Sprint(n) + ").get(0)", true
	case "lets-and-args": // locals + arguments together cross the size
		h := n / 2
		var b strings.Builder
		for i := 1; i <= h; i++ {
			fmt.Fprintf(&b, "let v%d=a; ", i)
		}
		return b.String() + "sprintf(\"x\"," + c04Rep("a", n-h, ",") + ")", true
	case "func-params": // func with n parameters, called
		return "func g(" + c04Seq("p", n, ",") + ") p1+p" + fmt.Sprint(n) + "; g(" + c04Rep("a", n, ",") + ")", true
	case "nested-call-args": // every argument is itself a call
		return "sprintf(\"x\"," + c04Rep("sqrt(a)", n, ",") + ")", true
	case "list-literal":
		return "[" + c04Rep("a", n, ",") + "].size()", true
	case "list-literal-const":
		return "[" + c04Rep("1", n, ",") + "]", true
	case "map-literal":
		var b strings.Builder
		b.WriteString("{")
		for i := 1; i <= n; i++ {
			if i > 1 {
				b.WriteString(",")
			}
			fmt.Fprintf(&b, "k%d:a", i)
		}
		return b.String() + "}.k1", true
	case "switch-cases":
		var b strings.Builder
		b.WriteString("switch a ")
		for i := 1; i <= n; i++ {
			fmt.Fprintf(&b, "case %d: %d ", i, i)
		}
		return b.String() + "default 0", true
	case "operator-chain":
		return c04Rep("a", n+1, "*2+"), true
	case "compare-chain":
		return c04Rep("a", n+1, "<"), true
	case "method-chain":
		return "[1]" + strings.Repeat(".map(e->e)", n) + ".size()", true
	case "string-concat":
		return c04Rep("\"s\"", n+1, "+"), true
	case "closure-params-unused":
		return "(" + c04Seq("p", n, ",") + ")->1", true
	// float / bool
	case "float-call":
		return "sin(" + c04Rep("a", n, ",") + ")", true
	case "float-chain":
		return c04Rep("a", n+1, "+2*"), true
	case "bool-chain":
		return c04Rep("a", n+1, "&!b|"), true
	case "unknown-call":
		return "f(" + c04Rep("a", n, ",") + ")", true
	}
	return "", false
}

func (s *c04Stream) wide(all bool) {
	sizes := []int{1, 2, 31, 32, 33, 34, 64, 128, 129, 200}
	if all {
		sizes = []int{1, 2, 3, 15, 16, 17, 30, 31, 32, 33, 34, 35, 63, 64, 65, 100, 127, 128, 129, 199, 200}
	}
	bigSizes := []int{255, 256, 257, 1000, 5000}
	valueKinds := []string{"static-vararg", "static-fixed", "closure-call", "closure-let", "closure-args-mismatch", "method-call", "method-on-arg",
		"map-field-closure", "map-field-closure-let", "lets-then-call", "lets-then-method", "lets-and-args", "func-params", "nested-call-args",
		"list-literal", "list-literal-const", "map-literal", "switch-cases", "operator-chain", "compare-chain", "method-chain", "string-concat", "closure-params-unused"}
	bigKinds := map[string]bool{"list-literal": true, "list-literal-const": true, "map-literal": true, "switch-cases": true, "operator-chain": true,
		"method-chain": true, "static-vararg": true, "string-concat": true}
	add := func(gen string, noopt bool, kind string, n int) {
		p, ok := c04WideProgram(kind, n)
		if !ok || len(p) > 65536 {
			return
		}
		c := c04Plain(gen, false, false, "wide/"+kind, p)
		c.NoOpt = noopt
		s.add(c)
	}
	for _, k := range valueKinds {
		for _, n := range sizes {
			add("value", false, k, n)
			if all || n >= 31 && n <= 34 {
				add("value", true, k, n)
			}
		}
		if bigKinds[k] {
			for _, n := range bigSizes {
				if !all && n > 257 && k != "list-literal" && k != "map-literal" {
					continue
				}
				add("value", n%2 == 0, k, n)
			}
		}
	}
	for _, n := range sizes {
		add("float", false, "float-call", n)
		add("float", n%2 == 0, "float-chain", n)
		add("bool", n%2 == 1, "bool-chain", n)
		add("float", false, "unknown-call", n)
		add("empty", false, "unknown-call", n)
	}
}
