package main

// Correspondence run of property C01 (compiled evaluation = lexically scoped reference semantics)
// including the optimizer on/off comparison that C02 needs.
//
// For every generated program the harness emits
//   T   its own surface tree as a Coq ast WITHOUT annotations   (specification side: Ref.eval)
//   A   the AST the REAL parser built with the optimizer off, WITH annotations (model: Gen.run)
//   I   the implementation's outcomes: Generate + Eval with the default optimizer and with
//       SetOptimizer(nil), results forced deeply and canonicalised
// and evaluates in Go the oracle "optimizer on = optimizer off".

import (
	"encoding/json"
	"fmt"
	"io"
	"log"
	"math"
	"sort"
	"strings"

	"github.com/hneemann/parser2"
	"github.com/hneemann/parser2/funcGen"
	"github.com/hneemann/parser2/value"
)

func init() { register("c01", cmdC01) }

// ---------- the two generator instances ----------

var fgOn, fgOff *value.FunctionGenerator
var c01Statics map[string]bool

func c01Setup() {
	log.SetOutput(io.Discard) // the top-level recover of generated functions logs the panic and its stack
	fgOn = value.New()
	fgOff = value.New()
	fgOff.SetOptimizer(nil)
	c01Statics = map[string]bool{}
	for _, f := range fgOn.VerifStaticFunctions() {
		c01Statics[f.Name] = true
	}
}

// ---------- the parser's AST as a Coq term (with the annotations the generator reads) ----------

type dumpErr struct{ what string }

// error message texts travel to Coq only for programs that mention throw (set per case)
var keepMessages = true

func dumpConst(v value.Value) string {
	switch c := v.(type) {
	case value.Int:
		return "(AConst (VInt " + coqZ(int64(c)) + "))"
	case value.Float:
		return "(AConst (VFloat " + coqFloat(float64(c)) + "))"
	case value.String:
		return "(AConst (VStr " + CoqStr(string(c)) + "))"
	case value.Bool:
		return "(AConst (VBool " + CoqBool(bool(c)) + "))"
	}
	panic(dumpErr{fmt.Sprintf("constant of type %T", v)})
}

func dumpList(l []parser2.AST) string {
	parts := make([]string, len(l))
	for i, a := range l {
		parts[i] = dumpAst(a)
	}
	return CoqList(parts)
}

func dumpAst(a parser2.AST) string {
	switch n := a.(type) {
	case *parser2.Const[value.Value]:
		return dumpConst(n.Value)
	case *parser2.Ident:
		return "(AIdent " + CoqStr(n.Name) + ")"
	case *parser2.Let:
		return "(ALet " + CoqStr(n.Name) + " " + dumpAst(n.Value) + " " + dumpAst(n.Inner) + ")"
	case *parser2.If:
		return "(AIf " + dumpAst(n.Cond) + " " + dumpAst(n.Then) + " " + dumpAst(n.Else) + ")"
	case *parser2.Switch[value.Value]:
		var cs []string
		for _, c := range n.Cases {
			cs = append(cs, "("+dumpAst(c.CaseConst)+", "+dumpAst(c.Value)+")")
		}
		return "(ASwitch " + dumpAst(n.SwitchValue) + " " + CoqList(cs) + " " + dumpAst(n.Default) + ")"
	case *parser2.TryCatch:
		return "(ATry " + dumpAst(n.Try) + " " + dumpAst(n.Catch) + ")"
	case *parser2.Unary:
		return "(AUnary " + CoqStr(n.Operator) + " " + dumpAst(n.Value) + ")"
	case *parser2.Operate:
		return "(AOp " + CoqStr(n.Operator) + " " + dumpAst(n.A) + " " + dumpAst(n.B) + ")"
	case *parser2.ClosureLiteral:
		return "(AClosure " + coqNames(n.Names) + " " + dumpAst(n.Func) + " " + coqNames(n.OuterIdents) + " " + CoqBool(n.Recursive) + " " + CoqStr(n.ThisName) + ")"
	case *parser2.ListLiteral:
		return "(AList " + dumpList(n.List) + ")"
	case *parser2.ListAccess:
		return "(AIndex " + dumpAst(n.List) + " " + dumpAst(n.Index) + ")"
	case *parser2.MapLiteral:
		var es []string
		n.Map.Iter(func(k string, v parser2.AST) bool {
			es = append(es, "("+CoqStr(k)+", "+dumpAst(v)+")")
			return true
		})
		return "(AMap " + CoqList(es) + ")"
	case *parser2.MapAccess:
		return "(AMember " + dumpAst(n.MapValue) + " " + CoqStr(n.Key) + ")"
	case *parser2.FunctionCall:
		if id, ok := n.Func.(*parser2.Ident); ok && id.IsFunc {
			return "(AStatic " + CoqStr(id.Name) + " " + dumpList(n.Args) + ")"
		}
		return "(ACall " + dumpAst(n.Func) + " " + dumpList(n.Args) + ")"
	case *parser2.MethodCall:
		return "(AMethod " + dumpAst(n.Value) + " " + CoqStr(n.Name) + " " + dumpList(n.Args) + ")"
	}
	panic(dumpErr{fmt.Sprintf("AST node of type %T", a)})
}

// parseOff: the real parser (optimizer off) exactly as generateIntern calls it
func parseOff(text string, names []string) (term string, parseErr error, unsupported string) {
	defer func() {
		if r := recover(); r != nil {
			if d, ok := r.(dumpErr); ok {
				unsupported = d.what
				return
			}
			parseErr = fmt.Errorf("panic in the parser: %v", r)
		}
	}()
	idents := fgOff.Identifier().AddArgs(names, nil)
	ast, err := fgOff.CreateAst(text, idents)
	if err != nil {
		return "", err, ""
	}
	return dumpAst(ast), nil, ""
}

// ---------- canonical observation of the implementation ----------

type implOut struct {
	Kind  string // val err generr
	Coq   string // Coq term of type Obs.iout
	Canon string // canonical text for the Go-side comparison (errors: "error")
	Msg   string
	Human string
}

func errOut(kind string, err error) implOut {
	msg := err.Error()
	rs := []rune(msg)
	if len(rs) > 3000 {
		rs = rs[:3000]
	}
	ctor := "IErr"
	if kind == "generr" {
		ctor = "IGenErr"
	}
	short := msg
	if len(short) > 300 {
		short = short[:300] + "..."
	}
	if !keepMessages {
		rs = nil // the text is only needed where a text passed through throw has to be found in it
	}
	return implOut{Kind: kind, Coq: "(" + ctor + " " + CoqRunes(rs) + ")", Canon: "error", Msg: msg, Human: kind + ": " + short}
}

// canon forces v deeply; returns the Coq oval term and a canonical text
func canon(v value.Value) (string, string, error) {
	switch c := v.(type) {
	case value.Int:
		return "(OInt " + coqZ(int64(c)) + ")", fmt.Sprintf("i%d", int64(c)), nil
	case value.Float:
		f := float64(c)
		key := fmt.Sprintf("f%016x", math.Float64bits(f))
		if math.IsNaN(f) {
			key = "fNaN"
		}
		return "(OFloat " + coqFloat(f) + ")", key, nil
	case value.String:
		return "(OStr " + CoqStr(string(c)) + ")", fmt.Sprintf("s%q", string(c)), nil
	case value.Bool:
		return "(OBool " + CoqBool(bool(c)) + ")", fmt.Sprintf("b%v", bool(c)), nil
	case *value.List:
		sl, err := c.ToSlice(funcGen.NewEmptyStack[value.Value]())
		if err != nil {
			return "", "", err
		}
		var cs, ks []string
		for _, it := range sl {
			t, k, err := canon(it)
			if err != nil {
				return "", "", err
			}
			cs = append(cs, t)
			ks = append(ks, k)
		}
		return "(OList " + CoqList(cs) + ")", "[" + strings.Join(ks, ",") + "]", nil
	case value.Map:
		type kv struct {
			k string
			v value.Value
		}
		var es []kv
		c.Iter(func(k string, v value.Value) bool {
			es = append(es, kv{k, v})
			return true
		})
		sort.SliceStable(es, func(i, j int) bool { return es[i].k < es[j].k })
		var cs, ks []string
		for _, e := range es {
			t, k, err := canon(e.v)
			if err != nil {
				return "", "", err
			}
			cs = append(cs, "("+CoqStr(e.k)+", "+t+")")
			ks = append(ks, fmt.Sprintf("%q:%s", e.k, k))
		}
		return "(OMap " + CoqList(cs) + ")", "{" + strings.Join(ks, ",") + "}", nil
	case value.Closure:
		return fmt.Sprintf("(OClo %d)", c.Args), fmt.Sprintf("closure/%d", c.Args), nil
	}
	return "OOther", fmt.Sprintf("other(%T)", v), nil
}

func evalForced(f funcGen.Func[value.Value], args []value.Value) (out implOut) {
	defer func() {
		if r := recover(); r != nil {
			out = errOut("err", fmt.Errorf("panic while forcing the result: %v", r))
		}
	}()
	v, err := f.Eval(args...)
	if err != nil {
		return errOut("err", err)
	}
	t, k, err := canon(v)
	if err != nil {
		return errOut("err", err)
	}
	h := k
	if len(h) > 200 {
		h = h[:200] + "..."
	}
	return implOut{Kind: "val", Coq: "(IVal " + t + ")", Canon: k, Human: h}
}

func runImpl(fg *value.FunctionGenerator, text string, names []string, tuples [][]*Tree) []implOut {
	res := make([]implOut, len(tuples))
	var f funcGen.Func[value.Value]
	var gerr error
	func() {
		defer func() {
			if r := recover(); r != nil {
				gerr = fmt.Errorf("panic in Generate: %v", r)
			}
		}()
		f, _, gerr = fg.Generate(text, names...)
	}()
	for i, tu := range tuples {
		if gerr != nil {
			res[i] = errOut("generr", gerr)
			continue
		}
		args := make([]value.Value, len(tu))
		for j, a := range tu {
			args[j] = a.Build()
		}
		res[i] = evalForced(f, args)
	}
	return res
}

// optimizer on = optimizer off, floats up to rounding (regrouped constant operands)
func sameOutcome(a, b implOut) bool {
	if (a.Kind == "val") != (b.Kind == "val") {
		return false
	}
	if a.Kind != "val" || a.Canon == b.Canon {
		return true
	}
	return floatTolerantEq(a.Canon, b.Canon)
}

// canonical texts equal except for float payloads that differ by rounding
func floatTolerantEq(a, b string) bool {
	ta, tb := splitFloats(a), splitFloats(b)
	if len(ta) != len(tb) {
		return false
	}
	diff := false
	for i := range ta {
		if ta[i] == tb[i] {
			continue
		}
		fa, oka := parseFloatKey(ta[i])
		fb, okb := parseFloatKey(tb[i])
		if !oka || !okb {
			return false
		}
		if math.Abs(fa-fb) > 1e-9*math.Max(math.Abs(fa), math.Abs(fb)) {
			return false
		}
		diff = true
	}
	return diff
}

func splitFloats(s string) []string {
	var res []string
	for {
		i := strings.Index(s, "f")
		if i < 0 || i+17 > len(s) {
			return append(res, s)
		}
		if _, ok := parseFloatKey(s[i : i+17]); !ok {
			res = append(res, s[:i+1])
			s = s[i+1:]
			continue
		}
		res = append(res, s[:i], s[i:i+17])
		s = s[i+17:]
	}
}

func parseFloatKey(k string) (float64, bool) {
	if len(k) != 17 || k[0] != 'f' {
		return 0, false
	}
	var bits uint64
	if _, err := fmt.Sscanf(k[1:], "%016x", &bits); err != nil {
		return 0, false
	}
	return math.Float64frombits(bits), true
}

// ---------- one case ----------

func humanValue(t *Tree) any {
	switch t.Kind {
	case "float":
		return fmt.Sprintf("%v (float)", t.F)
	}
	return t.Human()
}

type c01Run struct {
	sum    *Summary
	cw     *CaseWriter
	texts  map[string]bool
	okProg int
	errOut int
	allOut int
}

func signatureOf(p *Program, optDiff bool, shapes map[string]bool) string {
	var keys []string
	for k := range shapes {
		if (strings.Contains(k, " in argument") || strings.Contains(k, "literal element")) && !strings.HasPrefix(k, "binder in") {
			keys = append(keys, k)
		}
	}
	sort.Strings(keys)
	s := strings.Join(keys, "; ")
	if s == "" {
		s = "no binder in an argument or literal element"
	}
	if optDiff {
		s = "optimizer on/off differ: " + s
	}
	return s
}

func (r *c01Run) runCase(p *Program, id int) {
	sum := r.sum
	text := p.T.Render(posLet)
	term, perr, unsupported := parseOff(text, p.ArgNames)
	if unsupported != "" {
		sum.Skipped["ast-dump-unsupported: "+unsupported]++
		return
	}
	keepMessages = false
	p.T.Walk(func(x *Node) {
		if x.K == "ident" && x.Name == "throw" {
			keepMessages = true
		}
	})
	off := runImpl(fgOff, text, p.ArgNames, p.Tuples)
	on := runImpl(fgOn, text, p.ArgNames, p.Tuples)
	sum.Evaluations++

	shapes := p.T.shapes(c01Statics)
	excl := p.T.redeclares(p.ArgNames)
	lazy := p.T.hasLazyStage()
	nodes := p.T.Count()

	// ---- distribution
	sum.Count("stream", p.Stream)
	sum.Count("nodes", bucket(nodes))
	sum.Count("arguments", fmt.Sprint(len(p.ArgNames)))
	p.T.Walk(func(x *Node) {
		k := x.K
		if x.K == "call" || x.K == "method" {
			k = x.K + ":" + callKind(x, c01Statics)
		}
		sum.Count("constructs", k)
		if x.K == "op" || x.K == "unary" {
			sum.Count("operators", x.K+" "+x.Name)
		}
		if x.K == "method" {
			sum.Count("methods", x.Name)
		}
		if x.K == "call" && x.Kids[0].K == "ident" && c01Statics[x.Kids[0].Name] {
			sum.Count("static_functions", x.Kids[0].Name)
		}
		if x.K == "clo" {
			sum.Count("closure_params", fmt.Sprint(len(x.Ps)))
		}
	})
	for k := range shapes {
		sum.Count("boosted_shapes", k)
	}
	if excl {
		sum.Count("exclusions", "redeclaration inside one function body (only model = implementation is checked)")
	}
	if lazy {
		sum.Count("exclusions", "program has a lazy list stage (laziness rule applicable)")
	}
	optDiff := false
	distinctObs := map[string]bool{}
	for i := range off {
		r.allOut++
		sum.Count("outcome_optimizer_off", off[i].Kind)
		sum.Count("outcome_optimizer_on", on[i].Kind)
		if off[i].Kind != "val" {
			r.errOut++
		}
		if !sameOutcome(off[i], on[i]) {
			optDiff = true
		}
		distinctObs[off[i].Canon] = true
	}
	if perr != nil {
		sum.Count("generate", "parse error")
	} else if off[0].Kind == "generr" {
		sum.Count("generate", "generate error")
	} else {
		sum.Count("generate", "ok")
	}

	// ---- distinct non-trivial
	structural := shapes["binder in call argument"] || shapes["binder in literal element"] || closureDepth(p.T) >= 2
	if off[0].Kind != "generr" && structural && len(distinctObs) > 1 {
		sum.Nontriv(text)
	}

	// ---- the case for Coq
	sig := signatureOf(p, optDiff, shapes)
	var tuples []string
	var hargs []any
	var hoff, hon []string
	for i, tu := range p.Tuples {
		vals := make([]string, len(tu))
		ha := map[string]any{}
		for j, a := range tu {
			vals[j] = a.CoqValue()
			ha[p.ArgNames[j]] = humanValue(a)
		}
		hargs = append(hargs, ha)
		hoff = append(hoff, off[i].Human)
		hon = append(hon, on[i].Human)
		tuples = append(tuples, fmt.Sprintf("(%s, %s, %s)", CoqList(vals), off[i].Coq, on[i].Coq))
	}
	aTerm := "None"
	if perr == nil {
		aTerm = "(Some " + term + ")"
	}
	human := map[string]any{"text": text, "arg_names": p.ArgNames, "args": hargs, "stream": p.Stream, "nodes": nodes,
		"implementation_optimizer_off": hoff, "implementation_optimizer_on": hon,
		"signature": sig, "repro": p}
	if perr != nil {
		human["parse_error"] = perr.Error()
	}
	sum.Cases[fmt.Sprint(id)] = human
	if structural {
		sum.Sample(map[string]any{"text": text, "args": hargs, "implementation_optimizer_off": hoff})
	}
	bound := append([]string{}, p.ArgNames...)
	r.cw.Add(fmt.Sprintf("(%d, %s,\n  %s,\n  %s, (%s, %s),\n  %s)", id, p.T.CoqT(bound, c01Statics), aTerm, coqNames(p.ArgNames),
		CoqBool(lazy), CoqBool(excl), CoqList(tuples)))

	// ---- Go-side oracle: the optimizer is unobservable
	if optDiff && !excl {
		for i := range off {
			if !sameOutcome(off[i], on[i]) {
				sum.GoViolations = append(sum.GoViolations, GoViolation{CaseID: id,
					What: "outcome with the default optimizer differs from the outcome with SetOptimizer(nil)",
					Sig:  sig, Human: human, Expected: "optimizer off: " + off[i].Human, Observed: "optimizer on: " + on[i].Human})
				break
			}
		}
	}
}

// ---------- corpus: inputs that were real defects ----------

func tup(vals ...*Tree) []*Tree { return vals }
func ti(i int) *Tree            { return &Tree{Kind: "int", I: i} }
func tb(b bool) *Tree           { return &Tree{Kind: "bool", B: b} }
func ts(s string) *Tree         { return &Tree{Kind: "str", S: s} }

func c01Corpus() []*Program {
	x := func() *Node { return nId("x") }
	ints := [][]*Tree{tup(ti(5)), tup(ti(1)), tup(ti(-7))}
	mk := func(t *Node, tuples [][]*Tree) *Program {
		return &Program{T: t, ArgNames: []string{"x"}, Tuples: tuples, Stream: "corpus"}
	}
	ab := nOp("+", nOp("*", nId("a"), nInt(100)), nId("b"))
	lety := func() *Node { return nLet("y", nOp("+", x(), nInt(1)), nId("y")) }
	return []*Program{
		// func f(a,b) a*100+b; f(x, let y=x+1; y)
		mk(nFunc("f", []string{"a", "b"}, ab, nCall("closure", nId("f"), x(), lety())), ints),
		// "ab".replace("a", let y=x; y)
		mk(nMethod("method", nStr("ab"), "replace", nStr("a"), nLet("y", x(), nId("y"))), [][]*Tree{tup(ts("Q")), tup(ts("")), tup(ts("zz"))}),
		// let m={f:(a,b)->a*100+b}; m.f(x, let y=x+1; y)
		mk(nLet("m", nMap([]string{"f"}, []*Node{nClo([]string{"a", "b"}, ab)}), nMethod("mapfield", nId("m"), "f", x(), lety())), ints),
		// let sin = y->y+100; sin(x)
		mk(nLet("sin", nClo([]string{"y"}, nOp("+", nId("y"), nInt(100))), nCall("closure", nId("sin"), x())), ints),
		// [[1]]=[[x-4]]
		mk(nOp("=", nList(nList(nInt(1))), nList(nList(nOp("-", x(), nInt(4))))), ints),
		// 3&x
		mk(nOp("&", nInt(3), x()), ints),
		// (x=1)=1 with x=true
		mk(nOp("=", nOp("=", x(), nInt(1)), nInt(1)), [][]*Tree{tup(tb(true)), tup(ti(1)), tup(ti(2))}),
		// (false|x)|true
		mk(nOp("|", nOp("|", nId("false"), x()), nId("true")), [][]*Tree{tup(ti(5)), tup(tb(true)), tup(tb(false))}),
		// try x%0 catch 7
		mk(nTry(nOp("%", x(), nInt(0)), nInt(7)), ints),
		// method-call arguments: [10,20].mapReduce(x, (a,b)->a+b) with a let in the second argument's position
		mk(nMethod("method", nList(nInt(10), nInt(20)), "mapReduce", lety(), nClo([]string{"a", "b"}, nOp("+", nId("a"), nId("b")))), ints),
		// three closure levels capturing an argument, a let and an outer captured value
		mk(nLet("p", nOp("*", x(), nInt(2)), nCall("closure", nCall("closure", nCall("closure",
			nClo([]string{"a"}, nClo([]string{"b"}, nClo([]string{"c"}, nOp("+", nOp("+", nOp("+", nId("a"), nId("b")), nOp("+", nId("c"), nId("p"))), x())))),
			nInt(1)), nLet("q", nOp("+", x(), nInt(1)), nId("q"))), nInt(3))), ints),
		// recursion
		mk(nFunc("fac", []string{"n"}, nIf(nOp("<=", nId("n"), nInt(0)), nInt(1), nOp("*", nId("n"), nCall("closure", nId("fac"), nOp("-", nId("n"), nInt(1))))),
			nCall("closure", nId("fac"), nOp("%", x(), nInt(6)))), ints),
	}
}

// ---------- command ----------

func cmdC01(seed int64, tier, outDir string) {
	c01Setup()
	n, maxNodes := 1500, 40
	if tier == "thorough" {
		n, maxNodes = 40000, 120
	}
	sum := NewSummary("C01", seed, tier)
	sum.Rule = "type-directed programs of the value language (operators, unary, let, func with recursion, closures with 1..4 parameters and up to 3+ levels, if, switch, try/catch/throw, list/map literals, index, member access, methods and static functions of the modelled pool, map-field closures, currying; binders boosted inside call/method/literal arguments; <= 40 nodes quick, <= 120 thorough) x 3 argument tuples over ints, floats, strings, bools, lists, maps; implementation run with and without the optimizer. Distinct non-trivial: distinct program texts that generate without error, contain a binder inside a call/method/list/map argument or >= 2 closure levels, and whose three argument tuples do not all give the same observation"
	cw := NewCaseWriter(outDir, "From P2 Require Import Base.Prelude Sem.Num Sem.Syntax Sem.Obs Run.C01Run.", "c01_case", "c01_id", "c01_im", "c01_is", 100)
	cw.epilogue = "Definition c01_counts := Eval vm_compute in c01_stats cases.\nPrint c01_counts.\n"
	run := &c01Run{sum: sum, cw: cw, texts: map[string]bool{}}
	finish := func() {
		cw.Flush()
		sum.CaseFiles = cw.files
		if run.allOut > 0 {
			share := float64(run.errOut) / float64(run.allOut)
			sum.Extra["error_outcome_share"] = math.Round(share*1000) / 1000
			sum.Extra["degraded"] = share > 0.30
		}
		sum.Extra["coq_count_names"] = []string{"M compared", "M unsupported", "M out of fuel", "M laziness",
			"S compared (both optimizer settings)", "S unsupported", "S out of fuel", "S laziness", "S excluded (redeclaration)"}
		sort.SliceStable(sum.GoViolations, func(i, j int) bool {
			return len(fmt.Sprint(sum.GoViolations[i].Human["text"])) < len(fmt.Sprint(sum.GoViolations[j].Human["text"]))
		})
		sum.Write(outDir)
	}
	if optReplay != "" {
		var p Program
		if err := json.Unmarshal(loadReplayCase(), &p); err != nil {
			fatal("replay case: %v", err)
		}
		cw.epilogue += "Definition c01_expected := Eval vm_compute in map c01_explain cases.\nPrint c01_expected.\n"
		run.runCase(&p, 1)
		finish()
		return
	}
	n *= optBoost
	id := 0
	for _, p := range c01Corpus() {
		id++
		run.runCase(p, id)
	}
	sum.Extra["corpus_cases"] = id
	r := NewRng(seed)
	for i := 0; i < n; i++ {
		id++
		run.runCase(GenProgram(r, c01Statics, maxNodes), id)
	}
	finish()
}
