package main

// Correspondence run of property C01 (compiled evaluation = lexically scoped reference semantics)
// including the optimizer on/off comparison that C02 needs.
//
// For every generated program the harness emits
//   T   its own surface tree as a Coq ast WITHOUT annotations   (specification side: Ref.eval)
//   A   the AST the REAL parser built with the optimizer off, WITH annotations (model: Gen.run)
//   I   the implementation's outcomes: Generate + Eval with the default optimizer and with
//       SetOptimizer(nil), results forced deeply and canonicalised
// and evaluates in Go the oracle "optimizer on = optimizer off".

import (
	"encoding/json"
	"fmt"
	"io"
	"log"
	"math"
	"os"
	"path/filepath"
	"sort"
	"strings"
	"syscall"

	"github.com/hneemann/parser2"
	"github.com/hneemann/parser2/funcGen"
	"github.com/hneemann/parser2/value"
)

func init() { register("c01", cmdC01) }

// ---------- the two generator instances ----------

var c01FgOn, c01FgOff *value.FunctionGenerator
var c01Statics map[string]bool

func c01Setup() {
	log.SetOutput(io.Discard) // the top-level recover of generated functions logs the panic and its stack
	c01FgOn = value.New()
	c01FgOff = value.New()
	c01FgOff.SetOptimizer(nil)
	c01Statics = map[string]bool{}
	for _, f := range c01FgOn.VerifStaticFunctions() {
		c01Statics[f.Name] = true
	}
}

// ---------- the parser's AST as a Coq term (with the annotations the generator reads) ----------

type c01DumpErr struct{ what string }

// error message texts travel to Coq only for programs that mention throw (set per case)
var c01KeepMessages = true

func c01DumpConst(v value.Value) string {
	switch c := v.(type) {
	case value.Int:
		return "(AConst (VInt " + pgCoqZ(int64(c)) + "))"
	case value.Float:
		return "(AConst (VFloat " + pgCoqFloat(float64(c)) + "))"
	case value.String:
		return "(AConst (VStr " + CoqStr(string(c)) + "))"
	case value.Bool:
		return "(AConst (VBool " + CoqBool(bool(c)) + "))"
	}
	if c01DumpConstExt != nil {
		return "(AConst " + c01DumpConstExt(v) + ")"
	}
	panic(c01DumpErr{fmt.Sprintf("constant of type %T", v)})
}

// set by a dumper that knows how to print constants the optimizer creates (lists, maps, closures): C02's AST tie
var c01DumpConstExt func(v value.Value) string

func c01DumpList(l []parser2.AST) string {
	parts := make([]string, len(l))
	for i, a := range l {
		parts[i] = c01DumpAst(a)
	}
	return CoqList(parts)
}

func c01DumpAst(a parser2.AST) string {
	switch n := a.(type) {
	case *parser2.Const[value.Value]:
		return c01DumpConst(n.Value)
	case *parser2.Ident:
		return "(AIdent " + CoqStr(n.Name) + ")"
	case *parser2.Let:
		return "(ALet " + CoqStr(n.Name) + " " + c01DumpAst(n.Value) + " " + c01DumpAst(n.Inner) + ")"
	case *parser2.If:
		return "(AIf " + c01DumpAst(n.Cond) + " " + c01DumpAst(n.Then) + " " + c01DumpAst(n.Else) + ")"
	case *parser2.Switch[value.Value]:
		var cs []string
		for _, c := range n.Cases {
			cs = append(cs, "("+c01DumpAst(c.CaseConst)+", "+c01DumpAst(c.Value)+")")
		}
		return "(ASwitch " + c01DumpAst(n.SwitchValue) + " " + CoqList(cs) + " " + c01DumpAst(n.Default) + ")"
	case *parser2.TryCatch:
		return "(ATry " + c01DumpAst(n.Try) + " " + c01DumpAst(n.Catch) + ")"
	case *parser2.Unary:
		return "(AUnary " + CoqStr(n.Operator) + " " + c01DumpAst(n.Value) + ")"
	case *parser2.Operate:
		return "(AOp " + CoqStr(n.Operator) + " " + c01DumpAst(n.A) + " " + c01DumpAst(n.B) + ")"
	case *parser2.ClosureLiteral:
		return "(AClosure " + pgCoqNames(n.Names) + " " + c01DumpAst(n.Func) + " " + pgCoqNames(n.OuterIdents) + " " + CoqBool(n.Recursive) + " " + CoqStr(n.ThisName) + ")"
	case *parser2.ListLiteral:
		return "(AList " + c01DumpList(n.List) + ")"
	case *parser2.ListAccess:
		return "(AIndex " + c01DumpAst(n.List) + " " + c01DumpAst(n.Index) + ")"
	case *parser2.MapLiteral:
		var es []string
		n.Map.Iter(func(k string, v parser2.AST) bool {
			es = append(es, "("+CoqStr(k)+", "+c01DumpAst(v)+")")
			return true
		})
		return "(AMap " + CoqList(es) + ")"
	case *parser2.MapAccess:
		return "(AMember " + c01DumpAst(n.MapValue) + " " + CoqStr(n.Key) + ")"
	case *parser2.FunctionCall:
		if id, ok := n.Func.(*parser2.Ident); ok && id.IsFunc {
			return "(AStatic " + CoqStr(id.Name) + " " + c01DumpList(n.Args) + ")"
		}
		return "(ACall " + c01DumpAst(n.Func) + " " + c01DumpList(n.Args) + ")"
	case *parser2.MethodCall:
		return "(AMethod " + c01DumpAst(n.Value) + " " + CoqStr(n.Name) + " " + c01DumpList(n.Args) + ")"
	}
	panic(c01DumpErr{fmt.Sprintf("AST node of type %T", a)})
}

// c01ParseOff: the real parser (optimizer off) exactly as generateIntern calls it
func c01ParseOff(text string, names []string) (term string, parseErr error, unsupported string) {
	defer func() {
		if r := recover(); r != nil {
			if d, ok := r.(c01DumpErr); ok {
				unsupported = d.what
				return
			}
			parseErr = fmt.Errorf("panic in the parser: %v", r)
		}
	}()
	idents := c01FgOff.Identifier().AddArgs(names, nil)
	ast, err := c01FgOff.CreateAst(text, idents)
	if err != nil {
		return "", err, ""
	}
	return c01DumpAst(ast), nil, ""
}

// ---------- canonical observation of the implementation ----------

type c01ImplOut struct {
	Kind  string // val err generr
	Coq   string // Coq term of type Obs.iout
	Canon string // canonical text for the Go-side comparison (errors: "error")
	Msg   string
	Human string
}

func c01ErrOut(kind string, err error) c01ImplOut {
	msg := err.Error()
	rs := []rune(msg)
	if len(rs) > 3000 {
		rs = rs[:3000]
	}
	ctor := "IErr"
	if kind == "generr" {
		ctor = "IGenErr"
	}
	short := msg
	if len(short) > 300 {
		short = short[:300] + "..."
	}
	if !c01KeepMessages {
		rs = nil // the text is only needed where a text passed through throw has to be found in it
	}
	return c01ImplOut{Kind: kind, Coq: "(" + ctor + " " + CoqRunes(rs) + ")", Canon: "error", Msg: msg, Human: kind + ": " + short}
}

// c01Canon forces v deeply; returns the Coq oval term and a canonical text
func c01Canon(v value.Value) (string, string, error) {
	switch c := v.(type) {
	case value.Int:
		return "(OInt " + pgCoqZ(int64(c)) + ")", fmt.Sprintf("i%d", int64(c)), nil
	case value.Float:
		f := float64(c)
		key := fmt.Sprintf("f%016x", math.Float64bits(f))
		if math.IsNaN(f) {
			key = "fNaN"
		}
		return "(OFloat " + pgCoqFloat(f) + ")", key, nil
	case value.String:
		return "(OStr " + CoqStr(string(c)) + ")", fmt.Sprintf("s%q", string(c)), nil
	case value.Bool:
		return "(OBool " + CoqBool(bool(c)) + ")", fmt.Sprintf("b%v", bool(c)), nil
	case *value.List:
		sl, err := c.ToSlice(funcGen.NewEmptyStack[value.Value]())
		if err != nil {
			return "", "", err
		}
		var cs, ks []string
		for _, it := range sl {
			t, k, err := c01Canon(it)
			if err != nil {
				return "", "", err
			}
			cs = append(cs, t)
			ks = append(ks, k)
		}
		return "(OList " + CoqList(cs) + ")", "[" + strings.Join(ks, ",") + "]", nil
	case value.Map:
		type kv struct {
			k string
			v value.Value
		}
		var es []kv
		c.Iter(func(k string, v value.Value) bool {
			es = append(es, kv{k, v})
			return true
		})
		sort.SliceStable(es, func(i, j int) bool { return es[i].k < es[j].k })
		var cs, ks []string
		for _, e := range es {
			t, k, err := c01Canon(e.v)
			if err != nil {
				return "", "", err
			}
			cs = append(cs, "("+CoqStr(e.k)+", "+t+")")
			ks = append(ks, fmt.Sprintf("%q:%s", e.k, k))
		}
		return "(OMap " + CoqList(cs) + ")", "{" + strings.Join(ks, ",") + "}", nil
	case value.Closure:
		return fmt.Sprintf("(OClo %d)", c.Args), fmt.Sprintf("closure/%d", c.Args), nil
	}
	return "OOther", fmt.Sprintf("other(%T)", v), nil
}

func c01EvalForced(f funcGen.Func[value.Value], args []value.Value) (out c01ImplOut) {
	defer func() {
		if r := recover(); r != nil {
			out = c01ErrOut("err", fmt.Errorf("panic while forcing the result: %v", r))
		}
	}()
	v, err := f.Eval(args...)
	if err != nil {
		return c01ErrOut("err", err)
	}
	t, k, err := c01Canon(v)
	if err != nil {
		return c01ErrOut("err", err)
	}
	h := k
	if len(h) > 200 {
		h = h[:200] + "..."
	}
	return c01ImplOut{Kind: "val", Coq: "(IVal " + t + ")", Canon: k, Human: h}
}

func c01RunImpl(fg *value.FunctionGenerator, text string, names []string, tuples [][]*Tree) []c01ImplOut {
	res := make([]c01ImplOut, len(tuples))
	var f funcGen.Func[value.Value]
	var gerr error
	func() {
		defer func() {
			if r := recover(); r != nil {
				gerr = fmt.Errorf("panic in Generate: %v", r)
			}
		}()
		f, _, gerr = fg.Generate(text, names...)
	}()
	for i, tu := range tuples {
		if gerr != nil {
			res[i] = c01ErrOut("generr", gerr)
			continue
		}
		args := make([]value.Value, len(tu))
		for j, a := range tu {
			args[j] = a.Build()
		}
		res[i] = c01EvalForced(f, args)
	}
	return res
}

// optimizer on = optimizer off, floats up to rounding (regrouped constant operands)
func c01SameOutcome(a, b c01ImplOut) bool {
	if (a.Kind == "val") != (b.Kind == "val") {
		return false
	}
	if a.Kind != "val" || a.Canon == b.Canon {
		return true
	}
	return c01FloatTolerantEq(a.Canon, b.Canon)
}

// canonical texts equal except for float payloads that differ by rounding
func c01FloatTolerantEq(a, b string) bool {
	ta, c01Tb := c01SplitFloats(a), c01SplitFloats(b)
	if len(ta) != len(c01Tb) {
		return false
	}
	diff := false
	for i := range ta {
		if ta[i] == c01Tb[i] {
			continue
		}
		fa, oka := c01ParseFloatKey(ta[i])
		fb, okb := c01ParseFloatKey(c01Tb[i])
		if !oka || !okb {
			return false
		}
		if math.Abs(fa-fb) > 1e-9*math.Max(math.Abs(fa), math.Abs(fb)) {
			return false
		}
		diff = true
	}
	return diff
}

func c01SplitFloats(s string) []string {
	var res []string
	for {
		i := strings.Index(s, "f")
		if i < 0 || i+17 > len(s) {
			return append(res, s)
		}
		if _, ok := c01ParseFloatKey(s[i : i+17]); !ok {
			res = append(res, s[:i+1])
			s = s[i+1:]
			continue
		}
		res = append(res, s[:i], s[i:i+17])
		s = s[i+17:]
	}
}

func c01ParseFloatKey(k string) (float64, bool) {
	if len(k) != 17 || k[0] != 'f' {
		return 0, false
	}
	var bits uint64
	if _, err := fmt.Sscanf(k[1:], "%016x", &bits); err != nil {
		return 0, false
	}
	return math.Float64frombits(bits), true
}

// ---------- one case ----------

func c01HumanValue(t *Tree) any {
	switch t.Kind {
	case "float":
		return fmt.Sprintf("%v (float)", t.F)
	}
	return t.Human()
}

type c01Run struct {
	tw       *CaseWriter // text-to-ast condition: tokens + the parser's AST (nil: not checked)
	tokMax   int         // token budget per program for the text-to-ast condition
	tokEvery int         // quick tier: every tokEvery-th program is checked (the corpus always)
	sum      *Summary
	cw       *CaseWriter
	texts    map[string]bool
	okProg   int
	errOuts  int
	allOut   int
}

func c01SignatureOf(p *pgProgram, optDiff bool, shapes map[string]bool) string {
	var keys []string
	for k := range shapes {
		if (strings.Contains(k, " in argument") || strings.Contains(k, "literal element")) && !strings.HasPrefix(k, "binder in") {
			keys = append(keys, k)
		}
	}
	sort.Strings(keys)
	s := strings.Join(keys, "; ")
	if s == "" {
		s = "no binder in an argument or literal element"
	}
	if optDiff {
		s = "optimizer on/off differ: " + s
	}
	return s
}

func (r *c01Run) runCase(p *pgProgram, id int) {
	sum := r.sum
	text := p.T.Render(pgPosLet)
	if os.Getenv("P2H_TRACE") != "" {
		fmt.Fprintf(os.Stderr, "case %d: %s\n", id, text)
	}
	term, perr, unsupported := c01ParseOff(text, p.ArgNames)
	r.textToAst(p, id, text, term, perr, unsupported)
	if unsupported != "" {
		sum.Skipped["ast-dump-unsupported: "+unsupported]++
		return
	}
	c01KeepMessages = false
	p.T.Walk(func(x *pgNode) {
		if x.K == "ident" && x.Name == "throw" {
			c01KeepMessages = true
		}
	})
	off := c01RunImpl(c01FgOff, text, p.ArgNames, p.Tuples)
	on := c01RunImpl(c01FgOn, text, p.ArgNames, p.Tuples)
	sum.Evaluations++

	shapes := p.T.shapes(c01Statics)
	excl := p.T.redeclares(p.ArgNames)
	lazy := p.T.hasLazyStage()
	nodes := p.T.Count()

	// ---- distribution
	sum.Count("stream", p.Stream)
	sum.Count("nodes", bucket(nodes))
	sum.Count("arguments", fmt.Sprint(len(p.ArgNames)))
	p.T.Walk(func(x *pgNode) {
		k := x.K
		if x.K == "call" || x.K == "method" {
			k = x.K + ":" + pgCallKind(x, c01Statics)
		}
		sum.Count("constructs", k)
		if x.K == "op" || x.K == "unary" {
			sum.Count("operators", x.K+" "+x.Name)
		}
		if x.K == "method" {
			sum.Count("methods", x.Name)
		}
		if x.K == "call" && x.Kids[0].K == "ident" && c01Statics[x.Kids[0].Name] {
			sum.Count("static_functions", x.Kids[0].Name)
		}
		if x.K == "clo" {
			sum.Count("closure_params", fmt.Sprint(len(x.Ps)))
		}
	})
	for k := range shapes {
		sum.Count("boosted_shapes", k)
	}
	if excl {
		sum.Count("exclusions", "redeclaration inside one function body (only model = implementation is checked)")
	}
	if lazy {
		sum.Count("exclusions", "program has a lazy list stage (laziness rule applicable)")
	}
	optDiff := false
	distinctObs := map[string]bool{}
	for i := range off {
		r.allOut++
		sum.Count("outcome_optimizer_off", off[i].Kind)
		sum.Count("outcome_optimizer_on", on[i].Kind)
		if off[i].Kind != "val" {
			r.errOuts++
		}
		if !c01SameOutcome(off[i], on[i]) {
			optDiff = true
		}
		distinctObs[off[i].Canon] = true
	}
	if perr != nil {
		sum.Count("generate", "parse error")
	} else if off[0].Kind == "generr" {
		sum.Count("generate", "generate error")
	} else {
		sum.Count("generate", "ok")
	}

	// ---- distinct non-trivial
	structural := shapes["binder in call argument"] || shapes["binder in literal element"] || pgClosureDepth(p.T) >= 2
	if off[0].Kind != "generr" && structural && len(distinctObs) > 1 {
		sum.Nontriv(text)
	}

	// ---- the case for Coq
	sig := c01SignatureOf(p, optDiff, shapes)
	var tuples []string
	var hargs []any
	var hoff, hon []string
	for i, tu := range p.Tuples {
		vals := make([]string, len(tu))
		ha := map[string]any{}
		for j, a := range tu {
			vals[j] = a.CoqValue()
			ha[p.ArgNames[j]] = c01HumanValue(a)
		}
		hargs = append(hargs, ha)
		hoff = append(hoff, off[i].Human)
		hon = append(hon, on[i].Human)
		tuples = append(tuples, fmt.Sprintf("(%s, %s, %s)", CoqList(vals), off[i].Coq, on[i].Coq))
	}
	aTerm := "None"
	if perr == nil {
		aTerm = "(Some " + term + ")"
	}
	human := map[string]any{"text": text, "arg_names": p.ArgNames, "args": hargs, "stream": p.Stream, "nodes": nodes,
		"implementation_optimizer_off": hoff, "implementation_optimizer_on": hon,
		"signature": sig, "repro": p}
	if perr != nil {
		human["parse_error"] = perr.Error()
	}
	sum.Cases[fmt.Sprint(id)] = human
	if structural {
		sum.Sample(map[string]any{"text": text, "args": hargs, "implementation_optimizer_off": hoff})
	}
	bound := append([]string{}, p.ArgNames...)
	r.cw.Add(fmt.Sprintf("(%d, %s,\n  %s,\n  %s, (%s, %s),\n  %s)", id, p.T.CoqT(bound, c01Statics), aTerm, pgCoqNames(p.ArgNames),
		CoqBool(lazy), CoqBool(excl), CoqList(tuples)))

	// ---- Go-side oracle for template programs: the value computed natively by the harness
	if p.Oracle != nil {
		sigO := "lazy stage " + p.Oracle.Stage + " consumed after further lets"
		if p.Oracle.Kind == "iter" {
			sum.Count("boosted_shapes", "state kept in a map/list for 11-40 steps of a recursion or fold: "+p.Oracle.Mod)
			sigO = "state kept for many steps by " + p.Oracle.Mod
		} else if p.Oracle.Kind == "twice" {
			sum.Count("boosted_shapes", "let-bound list from a lazy stage extended twice ("+p.Oracle.Mod+"): "+p.Oracle.Stage)
			sigO = "let-bound list from " + p.Oracle.Stage + " extended twice by " + p.Oracle.Mod
		} else {
			sum.Count("boosted_shapes", "lazy stage bound by let, further lets, consumed later: "+p.Oracle.Stage)
		}
		for i, tu := range p.Tuples {
			if exp, ok := p.Oracle.Expected(tu); ok && (off[i].Canon != exp || on[i].Canon != exp) {
				sum.GoViolations = append(sum.GoViolations, GoViolation{CaseID: id,
					What: "a template program does not evaluate to the value the harness computes natively (locals disturbed / a let-bound list value changed)",
					Sig:  sigO, Human: human,
					Expected: exp, Observed: "optimizer off: " + off[i].Human + " / on: " + on[i].Human})
				break
			}
		}
	}
	// ---- Go-side oracle: the optimizer is unobservable
	if optDiff && !excl {
		for i := range off {
			if !c01SameOutcome(off[i], on[i]) {
				sum.GoViolations = append(sum.GoViolations, GoViolation{CaseID: id,
					What: "outcome with the default optimizer differs from the outcome with SetOptimizer(nil)",
					Sig:  sig, Human: human, Expected: "optimizer off: " + off[i].Human, Observed: "optimizer on: " + on[i].Human})
				break
			}
		}
	}
}

// ---------- corpus: inputs that were real defects ----------

func c01Tup(vals ...*Tree) []*Tree { return vals }
func c01Ti(i int) *Tree            { return &Tree{Kind: "int", I: i} }
func c01Tb(b bool) *Tree           { return &Tree{Kind: "bool", B: b} }
func c01Ts(s string) *Tree         { return &Tree{Kind: "str", S: s} }

func c01LazyTuples() [][]*Tree {
	li := func(vs ...int) *Tree {
		t := &Tree{Kind: "list", Repr: "eager"}
		for _, v := range vs {
			t.Items = append(t.Items, c01Ti(v))
		}
		return t
	}
	return [][]*Tree{c01Tup(li(1, 1, 2, 2, 3), c01Ti(100)), c01Tup(li(4, 0, 0, 7), c01Ti(-5)), c01Tup(li(2, 2), c01Ti(31))}
}

func c01TwiceTuples() [][]*Tree {
	li := func(vs ...int) *Tree {
		t := &Tree{Kind: "list", Repr: "eager"}
		for _, v := range vs {
			t.Items = append(t.Items, c01Ti(v))
		}
		return t
	}
	return [][]*Tree{c01Tup(li(1, 2, 3), c01Ti(100)), c01Tup(li(4, 1, 5, 7, 2, 9), c01Ti(7)), c01Tup(li(2, 3, 4, 5, 6, 7, 8), c01Ti(31))}
}

func c01IterTuples() [][]*Tree {
	return [][]*Tree{c01Tup(c01Ti(5), c01Ti(11)), c01Tup(c01Ti(2), c01Ti(23)), c01Tup(c01Ti(7), c01Ti(40))}
}

func c01Corpus() []*pgProgram {
	x := func() *pgNode { return pgNId("x") }
	ints := [][]*Tree{c01Tup(c01Ti(5)), c01Tup(c01Ti(1)), c01Tup(c01Ti(-7))}
	mk := func(t *pgNode, tuples [][]*Tree) *pgProgram {
		return &pgProgram{T: t, ArgNames: []string{"x"}, Tuples: tuples, Stream: "corpus"}
	}
	ab := pgNOp("+", pgNOp("*", pgNId("a"), pgNInt(100)), pgNId("b"))
	lety := func() *pgNode { return pgNLet("y", pgNOp("+", x(), pgNInt(1)), pgNId("y")) }
	return []*pgProgram{
		// func f(a,b) a*100+b; f(x, let y=x+1; y)
		mk(pgNFunc("f", []string{"a", "b"}, ab, pgNCall("closure", pgNId("f"), x(), lety())), ints),
		// "ab".replace("a", let y=x; y)
		mk(pgNMethod("method", pgNStr("ab"), "replace", pgNStr("a"), pgNLet("y", x(), pgNId("y"))), [][]*Tree{c01Tup(c01Ts("Q")), c01Tup(c01Ts("")), c01Tup(c01Ts("zz"))}),
		// let m={f:(a,b)->a*100+b}; m.f(x, let y=x+1; y)
		mk(pgNLet("m", pgNMap([]string{"f"}, []*pgNode{pgNClo([]string{"a", "b"}, ab)}), pgNMethod("mapfield", pgNId("m"), "f", x(), lety())), ints),
		// let sin = y->y+100; sin(x)
		mk(pgNLet("sin", pgNClo([]string{"y"}, pgNOp("+", pgNId("y"), pgNInt(100))), pgNCall("closure", pgNId("sin"), x())), ints),
		// [[1]]=[[x-4]]
		mk(pgNOp("=", pgNList(pgNList(pgNInt(1))), pgNList(pgNList(pgNOp("-", x(), pgNInt(4))))), ints),
		// 3&x
		mk(pgNOp("&", pgNInt(3), x()), ints),
		// (x=1)=1 with x=true
		mk(pgNOp("=", pgNOp("=", x(), pgNInt(1)), pgNInt(1)), [][]*Tree{c01Tup(c01Tb(true)), c01Tup(c01Ti(1)), c01Tup(c01Ti(2))}),
		// (false|x)|true
		mk(pgNOp("|", pgNOp("|", pgNId("false"), x()), pgNId("true")), [][]*Tree{c01Tup(c01Ti(5)), c01Tup(c01Tb(true)), c01Tup(c01Tb(false))}),
		// try x%0 catch 7
		mk(pgNTry(pgNOp("%", x(), pgNInt(0)), pgNInt(7)), ints),
		// method-call arguments: [10,20].mapReduce(x, (a,b)->a+b) with a let in the second argument's position
		mk(pgNMethod("method", pgNList(pgNInt(10), pgNInt(20)), "mapReduce", lety(), pgNClo([]string{"a", "b"}, pgNOp("+", pgNId("a"), pgNId("b")))), ints),
		// three closure levels capturing an argument, a let and an outer captured value
		mk(pgNLet("p", pgNOp("*", x(), pgNInt(2)), pgNCall("closure", pgNCall("closure", pgNCall("closure",
			pgNClo([]string{"a"}, pgNClo([]string{"b"}, pgNClo([]string{"c"}, pgNOp("+", pgNOp("+", pgNOp("+", pgNId("a"), pgNId("b")), pgNOp("+", pgNId("c"), pgNId("p"))), x())))),
			pgNInt(1)), pgNLet("q", pgNOp("+", x(), pgNInt(1)), pgNId("q"))), pgNInt(3))), ints),
		// an inner closure that reads the captured names in another order than the enclosing closure's body:
		// let f = p -> if y > p then (q -> x*q - y) else (q -> q); f(2)(3)      x=5, y=7 -> 8
		{T: pgNLet("f", pgNClo([]string{"p"}, pgNIf(pgNOp(">", pgNId("y"), pgNId("p")),
			pgNClo([]string{"q"}, pgNOp("-", pgNOp("*", x(), pgNId("q")), pgNId("y"))), pgNClo([]string{"q"}, pgNId("q")))),
			pgNCall("closure", pgNCall("closure", pgNId("f"), pgNInt(2)), pgNInt(3))),
			ArgNames: []string{"x", "y"}, Tuples: [][]*Tree{c01Tup(c01Ti(5), c01Ti(7)), c01Tup(c01Ti(1), c01Ti(9)), c01Tup(c01Ti(-2), c01Ti(4))}, Stream: "corpus"},
		// the same three levels deep
		{T: pgNCall("closure", pgNCall("closure", pgNCall("closure", pgNClo([]string{"r"}, pgNClo([]string{"p"}, pgNIf(pgNOp(">", pgNId("y"), pgNId("p")),
			pgNClo([]string{"q"}, pgNOp("-", pgNOp("*", x(), pgNId("q")), pgNId("y"))), pgNClo([]string{"q"}, pgNId("q"))))),
			pgNInt(0)), pgNInt(2)), pgNInt(3)),
			ArgNames: []string{"x", "y"}, Tuples: [][]*Tree{c01Tup(c01Ti(5), c01Ti(7)), c01Tup(c01Ti(1), c01Ti(9)), c01Tup(c01Ti(-2), c01Ti(4))}, Stream: "corpus"},
		// a NON-constant local named like a pure static function, called with constant arguments (the optimizer must
		// not fold the static function): capturing closure, recursive func, closure parameter, inside an argument
		mk(pgNLet("sqr", pgNClo([]string{"y"}, pgNOp("+", pgNId("y"), x())), pgNCall("closure", pgNId("sqr"), pgNInt(4))), ints),
		mk(pgNLet("abs", pgNClo([]string{"y"}, pgNOp("-", pgNId("y"), x())), pgNCall("closure", pgNId("abs"), pgNInt(-3))), ints),
		mk(pgNFunc("sqr", []string{"n"}, pgNIf(pgNOp("<=", pgNId("n"), pgNInt(0)), x(), pgNOp("+", pgNInt(2), pgNCall("closure", pgNId("sqr"), pgNOp("-", pgNId("n"), pgNInt(1))))),
			pgNCall("closure", pgNId("sqr"), pgNInt(3))), ints),
		mk(pgNCall("closure", pgNClo([]string{"abs"}, pgNCall("closure", pgNId("abs"), pgNInt(-5))), pgNClo([]string{"y"}, pgNOp("+", pgNId("y"), x()))), ints),
		mk(pgNLet("sqr", pgNClo([]string{"y"}, pgNOp("*", pgNId("y"), x())), pgNList(pgNCall("closure", pgNId("sqr"), pgNInt(2)), pgNCall("closure", pgNId("sqr"), pgNInt(3)))), ints),
		// recursion (below); before it: every lazy stage bound by let, two or three further lets, consumed later
		pgLazyLetProgram("compact", "size", 1, 2, false, c01LazyTuples()),
		pgLazyLetProgram("combine", "sum", 3, 2, true, c01LazyTuples()),
		pgLazyLetProgram("number", "sum", 1, 3, false, c01LazyTuples()),
		pgLazyLetProgram("iir", "sum", 2, 2, true, c01LazyTuples()),
		pgLazyLetProgram("map", "sum", 1, 2, false, c01LazyTuples()),
		pgLazyLetProgram("accept", "size", 1, 2, true, c01LazyTuples()),
		// a let-bound list from a lazy stage extended twice: let l=a.map(x->x*2); let p=l.append(..); let q=l.append(..); [p,q,l]
		pgTwiceProgram("map", "none", "append", 1, 2, c01TwiceTuples()),
		pgTwiceProgram("accept", "size", "append", 1, 2, c01TwiceTuples()),
		pgTwiceProgram("skip", "string", "append", 3, 2, c01TwiceTuples()),
		pgTwiceProgram("plus", "index", "append", 1, 3, c01TwiceTuples()),
		pgTwiceProgram("top", "none", "plus", 1, 2, c01TwiceTuples()),
		pgTwiceProgram("map", "size", "closure", 2, 2, c01TwiceTuples()),
		// a recursion / fold that keeps its state in a map or list for 11..40 steps
		pgIterProgram("replace", c01IterTuples()), pgIterProgram("put", c01IterTuples()),
		pgIterProgram("append", c01IterTuples()), pgIterProgram("fold", c01IterTuples()),
		mk(pgNFunc("fac", []string{"n"}, pgNIf(pgNOp("<=", pgNId("n"), pgNInt(0)), pgNInt(1), pgNOp("*", pgNId("n"), pgNCall("closure", pgNId("fac"), pgNOp("-", pgNId("n"), pgNInt(1))))),
			pgNCall("closure", pgNId("fac"), pgNOp("%", x(), pgNInt(6)))), ints),
	}
}

// ---------- text -> AST: the tokens the real tokenizer delivered and the AST the real parser built ----------

const c01TextIDBase = 1000000 // ids of the text-to-ast cases: c01TextIDBase + id of the program's case

// textToAst hands the token list of the program text and the dumped (optimizer off) AST to Coq, where the parser
// model runs on the tokens and its AST is lowered to the form of the dump (Run/C01TextRun.v)
func (r *c01Run) textToAst(p *pgProgram, id int, text, term string, perr error, unsupported string) {
	if r.tw == nil || unsupported != "" {
		return
	}
	if r.tokEvery > 1 && id > 20 && id%r.tokEvery != 0 {
		r.sum.Count("text_to_ast", "not sampled (quick tier checks every second program)")
		return
	}
	var toks []parser2.VerifPTok
	func() {
		defer func() { recover() }()
		toks = c01FgOff.GetParser().VerifParseTokens(text)
	}()
	if len(toks) == 0 || len(toks) > r.tokMax {
		r.sum.Count("text_to_ast", "not sampled (token budget)")
		return
	}
	r.sum.Count("text_to_ast", "checked")
	r.sum.Count("text_to_ast_tokens", bucket(len(toks)))
	var tl []string
	for _, k := range toks {
		tl = append(tl, fmt.Sprintf("(%d,%s)", k.Typ, CoqStr(k.Image)))
	}
	a := "None"
	if perr == nil {
		a = "(Some " + term + ")"
	}
	tid := c01TextIDBase + id
	r.tw.Add(fmt.Sprintf("(%d, %s,\n  %s,\n  %s)", tid, pgCoqNames(p.ArgNames), CoqList(tl), a))
	h := map[string]any{"text": text, "arg_names": p.ArgNames, "signature": "text-to-ast", "repro": p,
		"what": "the parser model on the real tokens, lowered to the semantic AST (Syn/Lower.v), differs from the AST the real parser built"}
	if perr != nil {
		h["parse_error"] = perr.Error()
	}
	r.sum.Cases[fmt.Sprint(tid)] = h
}

// c01StageCorpus: one fixed program per list method of the model's pool that takes a callback of two
// or more parameters, a second list, or folds the list (number, compact, combine, combine3, combineN,
// iir, iirCombine, cross, merge, minMax, min, max, mean, single); arguments l (list of ints with
// repeated and unsorted values) and n (int).  The stage result is consumed by a fingerprint that
// depends on every item and on the order, so a stage that calls its callback with the wrong
// neighbour, the wrong index or the wrong argument order is seen by the model comparison.
func c01StageCorpus() []*pgProgram {
	li := func(vs ...int) *Tree {
		t := &Tree{Kind: "list", Repr: "eager"}
		for _, v := range vs {
			t.Items = append(t.Items, c01Ti(v))
		}
		return t
	}
	tuples := [][]*Tree{c01Tup(li(1, 3, 2, 2, 5), c01Ti(2)), c01Tup(li(4, 0, 0, 7, 7, 1), c01Ti(-5)), c01Tup(li(6), c01Ti(3))}
	id := pgNId
	op := pgNOp
	clo := pgNClo
	l := func() *pgNode { return id("l") }
	n := func() *pgNode { return id("n") }
	fp := func(st *pgNode) *pgNode { // st.mapReduce(0, (s,v) -> s*3+v)
		return pgNMethod("method", st, "mapReduce", pgNInt(0), clo([]string{"s", "v"}, op("+", op("*", id("s"), pgNInt(3)), id("v"))))
	}
	m := func(recv *pgNode, name string, args ...*pgNode) *pgNode {
		return pgNMethod("method", recv, name, args...)
	}
	mk := func(t *pgNode) *pgProgram {
		return &pgProgram{T: t, ArgNames: []string{"l", "n"}, Tuples: tuples, Stream: "corpus"}
	}
	ab := []string{"a", "b"}
	mm := func(key string) *pgNode { return pgNMember(id("m"), key) }
	return []*pgProgram{
		mk(fp(m(l(), "number", clo([]string{"i", "e"}, op("+", op("*", id("i"), n()), id("e")))))),
		mk(fp(m(l(), "compact", clo(ab, op("<", id("a"), id("b")))))),
		mk(fp(m(l(), "compact", clo(ab, op("=", id("a"), id("b")))))),
		mk(fp(m(l(), "combine", clo(ab, op("-", op("*", id("a"), pgNInt(2)), id("b")))))),
		mk(fp(m(l(), "combine3", clo([]string{"a", "b", "c"}, op("-", op("+", op("*", id("a"), pgNInt(4)), op("*", id("b"), n())), id("c")))))),
		mk(fp(m(l(), "combineN", pgNInt(2), clo([]string{"w"}, op("+", op("*", m(id("w"), "first"), pgNInt(10)), m(id("w"), "last")))))),
		mk(fp(m(l(), "combineN", pgNInt(3), clo([]string{"w"}, op("-", m(id("w"), "sum"), pgNIndex(id("w"), pgNInt(0))))))),
		mk(fp(m(l(), "iir", clo([]string{"a"}, op("*", id("a"), pgNInt(3))), clo([]string{"i", "la"}, op("-", id("i"), op("*", id("la"), pgNInt(2))))))),
		mk(fp(m(l(), "iirCombine", clo([]string{"a"}, op("+", id("a"), n())),
			clo([]string{"li", "i", "la"}, op("-", op("+", op("*", id("li"), pgNInt(4)), op("*", id("i"), pgNInt(2))), id("la")))))),
		mk(fp(m(l(), "cross", pgNList(pgNInt(1), n()), clo(ab, op("+", op("*", id("a"), pgNInt(10)), id("b")))))),
		mk(fp(m(l(), "merge", pgNList(pgNInt(0), pgNInt(3), n()), clo(ab, op("<", id("a"), id("b")))))),
		mk(pgNLet("m", m(l(), "minMax", clo([]string{"x"}, op("*", op("-", id("x"), pgNInt(2)), op("-", id("x"), n())))),
			pgNList(mm("min"), mm("max"), mm("minItem"), mm("maxItem"), mm("valid")))),
		mk(pgNList(m(l(), "min"), m(l(), "max"), m(l(), "sum"))),
		mk(m(m(l(), "top", pgNInt(4)), "mean")), // 4 items (or 1): the mean is an exact float
		mk(pgNList(m(m(l(), "top", pgNInt(1)), "single"), pgNTry(m(l(), "single"), n()))),
	}
}

// ---------- command ----------

func cmdC01(seed int64, tier, outDir string) {
	// safety net: a generated program must never take the machine down (address space limit 24 GiB;
	// exceeding it ends the harness with a fatal error = infrastructure failure, not a verdict)
	lim := syscall.Rlimit{Cur: 24 << 30, Max: 24 << 30}
	_ = syscall.Setrlimit(syscall.RLIMIT_AS, &lim)
	c01Setup()
	n, maxNodes := 1200, 40
	if tier == "thorough" {
		n, maxNodes = 12000, 100
	}
	sum := NewSummary("C01", seed, tier)
	sum.Rule = "type-directed programs of the value language (operators, unary, let, func with recursion, closures with 1..4 parameters and up to 3+ levels, if, switch, try/catch/throw, list/map literals, index, member access, methods and static functions of the modelled pool, map-field closures, currying; binders boosted inside call/method/literal arguments; <= 40 nodes quick, <= 120 thorough) x 3 argument tuples over ints, floats, strings, bools, lists, maps; implementation run with and without the optimizer. Distinct non-trivial: distinct program texts that generate without error, contain a binder inside a call/method/list/map argument or >= 2 closure levels, and whose three argument tuples do not all give the same observation"
	cw := NewCaseWriter(outDir, "From P2 Require Import Base.Prelude Sem.Num Sem.Syntax Sem.Obs Run.C01Run.", "c01_case", "c01_id", "c01_im", "c01_is", 100)
	cw.epilogue = "Definition c01_counts := Eval vm_compute in c01_stats cases.\nPrint c01_counts.\n"
	tw := NewCaseWriter(filepath.Join(outDir, "text"), "From P2 Require Import Base.Prelude Sem.Num Sem.Syntax Run.C01TextRun.", "c01t_case", "c01t_id", "c01t_im", "c01t_is", 150)
	tw.epilogue = "Definition c01t_counts := Eval vm_compute in c01t_stats cases.\nPrint c01t_counts.\n"
	run := &c01Run{sum: sum, cw: cw, tw: tw, tokMax: 120, tokEvery: 2, texts: map[string]bool{}}
	if tier == "thorough" {
		run.tokEvery = 1
	}
	finish := func() {
		cw.Flush()
		tw.Flush()
		sum.CaseFiles = append(append([]string{}, cw.files...), tw.files...)
		if run.allOut > 0 {
			share := float64(run.errOuts) / float64(run.allOut)
			sum.Extra["error_outcome_share"] = math.Round(share*1000) / 1000
			sum.Extra["degraded"] = share > 0.30
		}
		sum.Extra["coq_count_names"] = []string{"M compared", "M unsupported", "M out of fuel", "M laziness",
			"S compared (both optimizer settings)", "S unsupported", "S out of fuel", "S laziness", "S excluded (redeclaration)"}
		sort.SliceStable(sum.GoViolations, func(i, j int) bool {
			return len(fmt.Sprint(sum.GoViolations[i].Human["text"])) < len(fmt.Sprint(sum.GoViolations[j].Human["text"]))
		})
		sum.Write(outDir)
	}
	if optReplay != "" {
		var p pgProgram
		if err := json.Unmarshal(loadReplayCase(), &p); err != nil {
			fatal("replay case: %v", err)
		}
		cw.epilogue += "Definition c01_expected := Eval vm_compute in map c01_explain cases.\nPrint c01_expected.\n"
		run.runCase(&p, 1)
		finish()
		return
	}
	n *= optBoost
	id := 0
	for _, p := range append(append(append(c01Corpus(), c01StageCorpus()...), pgStrCorpus()...), c01ShadowCorpus()...) {
		id++
		run.runCase(p, id)
	}
	sum.Extra["corpus_cases"] = id
	r := NewRng(seed)
	for i := 0; i < n; i++ {
		id++
		run.runCase(pgGenProgram(r, c01Statics, maxNodes), id)
	}
	finish()
}

// c01ShadowCorpus: an outer name (bound to a computed constant or a run-time value) read inside a func or closure body, then
// hidden by a local of the same name that is read again - the five forms of pgShadowAfterUse, which the random stream
// produces only now and then (seeded/C02-e broke C01 as well: the captured value won over the local).
func c01ShadowCorpus() []*pgProgram {
	var ps []*pgProgram
	for form := 0; form < 5; form++ {
		for _, c := range [][2]int64{{2, 3}, {5, 1}} {
			ps = append(ps, &pgProgram{T: pgShadowAfterUse(form, []string{"a", "b", "f", "n", "m"}, pgNId("x"), c[0], c[1]), ArgNames: []string{"x"},
				Tuples: [][]*Tree{{c01Ti(5)}, {c01Ti(1)}, {c01Ti(-7)}}, Stream: "corpus"})
		}
	}
	return ps
}
