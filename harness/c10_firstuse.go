package main

// c10FirstUsePool: a lazy constant whose FIRST materialising use, at run time, is one of the callers of List.CopyToSlice
// (reverse, order, orderRev, orderLess, set, the left operand of list ~ list), with the constant looked at again afterwards and
// by the next evaluation. seeded/C10-h made CopyToSlice hand out the slice that Eval memoises: the first such use then edits
// the constant in place - once, so only a history that starts with this use sees it.
func c10FirstUsePool() []*c10Prog {
	// (reverse/order with constant arguments on a constant are folded at Generate time: the run-time uses need an argument)
	return []*c10Prog{
		c10Opaque("first-use-set", "let c=[3,1,2].map(e->e*2); c.set(0,a0).string()+c.string()+c.set(2,a1).string()"),
		c10Opaque("first-use-orderLess", "let c=[3,1,2].map(e->e*2); c.orderLess((a,b)->a+a0*0<b).string()+c.string()+a1"),
		c10Opaque("first-use-order", "let c=[3,1,2].map(e->e*2); c.order(e->e+a0*0).string()+c.string()+a1"),
		c10Opaque("first-use-orderRev", "let d=[1,3,2].map(e->e*2); d.orderRev(e->e+a1*0).string()+d.string()+a0"),
		c10Opaque("first-use-contains-left", "let c=[3,1,2].map(e->e*2); (c ~ [2,6,4,a0]).string()+c.string()+(c ~ [6,a1,2,4]).string()"),
	}
}
