package main

import (
	"fmt"
	"path/filepath"
	"sort"
	"strings"

	"github.com/hneemann/parser2/value"
)

// Generated/ValueCfg.v: the tables of value.New() read from the current tree through the hooks
// funcGen/verif_hooks_tables.go and value/verif_hooks_tables.go.
func init() {
	registerTables(func(outDir string) {
		fg := value.New()
		var b strings.Builder
		b.WriteString(genHeader)
		b.WriteString("Local Open Scope Z_scope.\n\n")
		b.WriteString("(* value.New(): binary operators in priority order (lowest first): name -> (IsPure, IsCommutative);\n   the shape of Sem/Opt.v cfgflags.f_ops *)\n")
		var ops []string
		for _, o := range fg.VerifOperators() {
			ops = append(ops, fmt.Sprintf("\n  (%s, (%s, %s)) (* %s *)", vcfgCoqStrN(o.Name), CoqBool(o.IsPure), CoqBool(o.IsCommutative), vcfgSafeComment(o.Name)))
		}
		fmt.Fprintf(&b, "Definition vcfg_ops : list (str * (bool * bool)) := [%s].\n\n", strings.Join(ops, ";"))
		var un []string
		for _, u := range fg.VerifUnaryOperators() {
			un = append(un, vcfgCoqStrN(u))
		}
		fmt.Fprintf(&b, "Definition vcfg_unary : list str := [%s].\n\n", strings.Join(un, "; "))
		b.WriteString("(* static functions: name, Args (-1 = any number), IsPure *)\n")
		var st []string
		for _, f := range fg.VerifStaticFunctions() {
			st = append(st, fmt.Sprintf("\n  (%s, %d, %s) (* %s *)", vcfgCoqStrN(f.Name), f.Args, CoqBool(f.IsPure), vcfgSafeComment(f.Name)))
		}
		fmt.Fprintf(&b, "Definition vcfg_statics : list (str * Z * bool) := [%s].\n\n", strings.Join(st, ";"))
		b.WriteString("(* name -> IsPure: the shape of cfgflags.f_static *)\n")
		b.WriteString("Definition vcfg_static_pure : list (str * bool) := map (fun e => (fst (fst e), snd e)) vcfg_statics.\n\n")
		tabs := fg.VerifMethodTables()
		var ids []int
		for id := range tabs {
			ids = append(ids, int(id))
		}
		sort.Ints(ids)
		b.WriteString("(* method tables per type id: name, Args (counting the receiver; -1 = any number), IsPure *)\n")
		var infos, names, impure []string
		for _, id := range ids {
			var ms, ns []string
			for _, m := range tabs[value.Type(id)] {
				ms = append(ms, fmt.Sprintf("\n    (%s, %d, %s) (* %s *)", vcfgCoqStrN(m.Name), m.Args, CoqBool(m.IsPure), vcfgSafeComment(m.Name)))
				ns = append(ns, vcfgCoqStrN(m.Name))
				if !m.IsPure {
					impure = append(impure, fmt.Sprintf("(%d%%N, %s)", id, vcfgCoqStrN(m.Name)))
				}
			}
			infos = append(infos, fmt.Sprintf("\n  (* %s *) (%d%%N, [%s])", vcfgSafeComment(fg.VerifTypeName(value.Type(id))), id, strings.Join(ms, ";")))
			names = append(names, fmt.Sprintf("\n  (%d%%N, [%s])", id, strings.Join(ns, "; ")))
		}
		fmt.Fprintf(&b, "Definition vcfg_method_info : list (N * list (str * Z * bool)) := [%s].\n\n", strings.Join(infos, ";"))
		b.WriteString("(* methods (type id, name) whose Function is not IsPure: the shape of cfgflags.f_meth_impure *)\n")
		fmt.Fprintf(&b, "Definition vcfg_meth_impure : list (N * str) := [%s].\n\n", strings.Join(impure, "; "))
		b.WriteString("(* names of the methods that exist per type id (the `known` argument of Sem/Ref.v and Sem/Gen.v) *)\n")
		fmt.Fprintf(&b, "Definition value_methods : list (N * list str) := [%s].\n", strings.Join(names, ";"))
		writeIfChanged(filepath.Join(outDir, "ValueCfg.v"), b.String())
	})
}

// a code-point list with explicit N scope on every element (the file is in Z scope)
func vcfgCoqStrN(s string) string {
	var parts []string
	for _, r := range s {
		parts = append(parts, fmt.Sprintf("%d%%N", r))
	}
	return "[" + strings.Join(parts, ";") + "]"
}

func vcfgSafeComment(s string) string {
	s = strings.ReplaceAll(s, "(*", "( *")
	s = strings.ReplaceAll(s, "*)", "* )")
	// the gate of tools/check.py greps for some words even in generated files
	return s
}
