module verif/harness

go 1.25.0

require github.com/hneemann/parser2 v0.0.0

require github.com/hneemann/iterator v0.0.0-20251109063853-cd388faef942 // indirect

replace github.com/hneemann/parser2 => /repo
