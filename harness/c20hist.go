package main

// C20, history mode: the parts of a list are binned ONCE; the same partial results are then handed to
// several collectBinning calls (permutations and sub-multisets, 2-4 calls). After every call the collected
// result must be the binning of the concatenation of the selected parts, and every partial result must
// still show exactly what it showed when it was created (its own part's mass, bin by bin).

import (
	"fmt"
	"github.com/hneemann/parser2/value"
	"strings"
)

func coqObs1(o *obs1) string { return "(" + coqBins(o.Descr) + ", " + coqQs(o.Values) + ")" }

func coqObs2(o *obs2) string {
	vals := make([]string, len(o.XD))
	for i := range o.XD {
		vals[i] = "(" + coqBin(o.XD[i]) + "," + coqQs(o.Rows[i]) + ")"
	}
	return "(" + coqBins(o.YDescr) + ", " + CoqList(vals) + ")"
}

func sameObs1(a, b *obs1) bool { return sameBins(a.Descr, b.Descr) && sameFloats(a.Values, b.Values) }

func sameObs2(a, b *obs2) bool {
	if !sameBins(a.YDescr, b.YDescr) || !sameBins(a.XD, b.XD) || len(a.Rows) != len(b.Rows) {
		return false
	}
	for i := range a.Rows {
		if !sameFloats(a.Rows[i], b.Rows[i]) {
			return false
		}
	}
	return true
}

func c20RunHistory(c *c20Case, id int, sum *Summary, cw *CaseWriter, human map[string]any, violate func(*lawFail, string)) {
	two := c.Kind == "hist2"
	dim := "1d"
	names := []string{"l", "s", "z", "c"}
	expr := c20Expr1
	gridArgs := axisArgs(c.X)
	if two {
		dim = "2d"
		names = []string{"l", "s", "z", "c", "t", "w", "d"}
		expr = c20Expr2
		gridArgs = append(axisArgs(c.X), axisArgs(c.Y)...)
	}
	bin := func(es []c20Elem) value.Value {
		v, err := evalExpr(expr, names, append([]value.Value{c20List(es, c.Repr)}, gridArgs...)...)
		if err != nil {
			fatal("case %d: binning returned an error: %v", id, err)
		}
		return v
	}
	// what a result shows, as Coq term and for comparison in Go
	type shown struct {
		o1 *obs1
		o2 *obs2
	}
	read := func(v value.Value) shown {
		if two {
			o, err := readObs2(v)
			if err != nil {
				fatal("case %d: %v", id, err)
			}
			return shown{o2: o}
		}
		o, err := readObs1(v)
		if err != nil {
			fatal("case %d: %v", id, err)
		}
		return shown{o1: o}
	}
	same := func(a, b shown) bool {
		if two {
			return sameObs2(a.o2, b.o2)
		}
		return sameObs1(a.o1, b.o1)
	}
	coq := func(a shown) string {
		if two {
			return coqObs2(a.o2)
		}
		return coqObs1(a.o1)
	}
	vals := func(a shown) string {
		if two {
			return fmt.Sprint(a.o2.Rows)
		}
		return fmt.Sprint(a.o1.Values)
	}

	partial := make([]value.Value, len(c.Parts))
	snap := make([]shown, len(c.Parts))
	snaps := make([]string, len(c.Parts))
	for i, p := range c.Parts {
		partial[i] = bin(p.Elems)
		snap[i] = read(partial[i])
		snaps[i] = coq(snap[i])
	}
	var fail *lawFail
	var steps []string
	var trace []string
	for n, st := range c.Steps {
		sel := make([]value.Value, len(st))
		var elems []c20Elem
		for k, i := range st {
			sel[k] = partial[i]
			elems = append(elems, c.Parts[i].Elems...)
		}
		cv, err := evalExpr("ps.collectBinning()", []string{"ps"}, value.NewList(sel...))
		collected := "None"
		if err != nil {
			if fail == nil {
				fail = &lawFail{"additivity", "history", fmt.Sprintf("collectBinning #%d over the partial results %v returned an error: %v", n+1, st, err), "", "error"}
			}
		} else {
			got := read(cv)
			collected = "Some " + coq(got)
			// the law on the implementation's own answers: a fresh binning of the concatenated elements
			want := read(bin(elems))
			trace = append(trace, fmt.Sprintf("collect #%d over %v = %s", n+1, st, vals(got)))
			if fail == nil && !same(got, want) {
				fail = &lawFail{"additivity", "history", fmt.Sprintf("collectBinning #%d over the partial results %v differs from the binning of the concatenated parts", n+1, st), vals(want), vals(got)}
			}
		}
		re := make([]string, len(partial))
		for i := range partial {
			now := read(partial[i])
			if same(now, snap[i]) {
				re[i] = "None"
			} else {
				re[i] = "Some " + coq(now)
				if fail == nil {
					fail = &lawFail{"mass", "history", fmt.Sprintf("after collectBinning #%d over %v the partial result of part %d no longer shows the binning of its own part", n+1, st, i), vals(snap[i]), vals(now)}
				}
			}
		}
		steps = append(steps, fmt.Sprintf("(%s, %s, %s)", coqInts(st), collected, CoqList(re)))
		sum.Count("history_step_len", fmt.Sprint(len(st)))
	}
	human["values"] = strings.Join(trace, "; ")
	if fail != nil {
		violate(fail, dim)
	}
	parts := make([]string, len(c.Parts))
	for i, p := range c.Parts {
		if two {
			parts[i] = coqElems2(p.Elems)
		} else {
			parts[i] = coqElems1(p.Elems)
		}
	}
	if two {
		cw.Add(fmt.Sprintf("H2 %d %s %s %d %s %s %d %s %s %s", id, coqQ(c.X.Start.F()), coqQ(c.X.Size.F()), c.X.Count,
			coqQ(c.Y.Start.F()), coqQ(c.Y.Size.F()), c.Y.Count, CoqList(parts), CoqList(snaps), CoqList(steps)))
	} else {
		cw.Add(fmt.Sprintf("H1 %d %s %s %d %s %s %s", id, coqQ(c.X.Start.F()), coqQ(c.X.Size.F()), c.X.Count,
			CoqList(parts), CoqList(snaps), CoqList(steps)))
	}
	sum.Count("history_parts", fmt.Sprint(len(c.Parts)))
	sum.Count("history_steps", fmt.Sprint(len(c.Steps)))
	sum.Count("count", countBucket(c.X.Count))
	sum.Count("size_kind", sizeKind(c.X.Size.F()))
	sum.Nontriv(c20Key(c))
}

// generator: 2-4 parts, 2-4 collects; the first collect is always over all parts in order (the usual
// additivity test), the later ones are permutations, sub-multisets and repetitions
func (r *Rng) c20GenHistory(two bool) *c20Case {
	c := &c20Case{Kind: "hist1", Repr: c20Reprs[r.Pick(len(c20Reprs))]}
	c.X = r.c20AxisPos(10)
	if two {
		c.Kind = "hist2"
		c.X, c.Y = r.c20AxisPos(5), r.c20AxisPos(5)
	}
	k := 2 + r.Pick(3)
	for i := 0; i < k; i++ {
		p := c20Part{Axis: c.X}
		n := r.Pick(6)
		for j := 0; j < n; j++ {
			e := c20Elem{X: c20Pack(r.c20PosExact(c.X), r), Y: c20I(0), V: r.c20Val()}
			if two {
				e.Y = c20Pack(r.c20PosExact(c.Y), r)
			}
			p.Elems = append(p.Elems, e)
		}
		c.Parts = append(c.Parts, p)
	}
	all := make([]int, k)
	for i := range all {
		all[i] = i
	}
	c.Steps = append(c.Steps, append([]int{}, all...))
	ns := 1 + r.Pick(3)
	for s := 0; s < ns; s++ {
		switch r.Pick(3) {
		case 0: // a permutation of all parts
			p := append([]int{}, all...)
			r.Shuffle(len(p), func(i, j int) { p[i], p[j] = p[j], p[i] })
			c.Steps = append(c.Steps, p)
		case 1: // a sub-multiset
			m := 1 + r.Pick(4)
			p := make([]int, m)
			for i := range p {
				p[i] = r.Pick(k)
			}
			c.Steps = append(c.Steps, p)
		default: // the same order again
			c.Steps = append(c.Steps, append([]int{}, all...))
		}
	}
	return c
}

// an axis with size > 0 (the history law is stated for the property's grids)
func (r *Rng) c20AxisPos(maxCount int) c20Axis {
	return r.c20Axis(maxCount)
}
