package main

// C11 - one generated function may be evaluated concurrently from many goroutines.
//
// `p2h c11` takes the programs of C10 (pool + random programs of the modelled fragment), generates ONE function
// per round and lets 2..16 goroutines evaluate it simultaneously (started behind a barrier, equal or different
// arguments, list results consumed by the goroutine that got them), with GOMAXPROCS 2 or 16:
//   pass A: in a `go build -race` worker (`p2h c11worker`, GORACE=halt_on_error=1): the first race report ends
//           the worker (exit 66), the driver attributes it to the case that was running and goes on with the rest;
//   pass B: in this process without the race detector: every goroutine's outcome of every round is compared
//           with the isolated outcome (a fresh generator evaluating the program once with those arguments).
// The prediction "an evaluation writes an object shared through the function's constants" is made twice: by the
// Coq model (write log of the isolated runs, Run/C11Run.v) and by observation through the hook
// value.VerifListState (the representation state of a list created by Generate changes during an isolated
// evaluation); predicted programs are hammered (200 rounds quick).

import (
	"bufio"
	"bytes"
	"encoding/json"
	"fmt"
	"os"
	"os/exec"
	"path/filepath"
	"runtime"
	"sort"
	"strconv"
	"strings"
	"sync"
	"sync/atomic"
	"time"
)

func init() {
	register("c11", cmdC11)
	register("c11worker", cmdC11Worker)
}

type c11Case struct {
	ID     int       `json:"id"`
	Prog   *c10Prog  `json:"prog"`
	Argss  [][]int64 `json:"argss"` // one argument tuple per goroutine
	J      int       `json:"j"`
	Procs  int       `json:"procs"`
	Rounds int       `json:"rounds"`
	Iter   int       `json:"iter,omitempty"` // evaluations per goroutine and round (0 = 1)
	Want   []c10Out  `json:"want,omitempty"` // isolated outcomes, computed by the driver (the worker never calls value.New while goroutines of an earlier case may still run)
}

type c11Round struct {
	outs  []c10Out
	wrong int // index of a goroutine with a wrong outcome, -1 none
}

// one round: generate a fresh function on fg, evaluate it from len(argss) goroutines at once
func c11RunRound(s *c10Session, c *c11Case, want []c10Out) c11Round {
	fn, err := s.generate(c.Prog)
	if err != nil {
		fatal("c11: program %s does not generate: %v", c.Prog.Name, err)
	}
	n := len(c.Argss)
	outs := make([]c10Out, n)
	var ready, goFlag int32
	var wg sync.WaitGroup
	for i := 0; i < n; i++ {
		wg.Add(1)
		go func(i int) {
			defer wg.Done()
			atomic.AddInt32(&ready, 1)
			for atomic.LoadInt32(&goFlag) == 0 {
				runtime.Gosched()
			}
			outs[i] = c10Eval(fn.f, c.Argss[i], c.J, c.Prog.modelled())
			for k := 1; k < c.Iter; k++ {
				o := c10Eval(fn.f, c.Argss[i], c.J, c.Prog.modelled())
				if o.Kind != want[i].Kind || o.String() != want[i].String() {
					outs[i] = o // keep a wrong one
				}
			}
		}(i)
	}
	for atomic.LoadInt32(&ready) < int32(n) {
		runtime.Gosched()
	}
	atomic.StoreInt32(&goFlag, 1)
	wg.Wait()
	r := c11Round{outs: outs, wrong: -1}
	for i := range outs {
		if outs[i].Kind != want[i].Kind || outs[i].String() != want[i].String() {
			r.wrong = i
			break
		}
	}
	return r
}

func c11Isolated(c *c11Case) []c10Out {
	want := make([]c10Out, len(c.Argss))
	for i, a := range c.Argss {
		want[i] = c10Oracle(c.Prog, a, c.J)
	}
	return want
}

// ---------------------------------------------------------------- the race-detector worker

type c11WorkerRes struct {
	ID    int    `json:"id"`
	Wrong int    `json:"wrong"` // rounds with a wrong outcome
	Ex    string `json:"ex,omitempty"`
}

func cmdC11Worker(seed int64, tier, in string) {
	bs, err := os.ReadFile(in)
	if err != nil {
		fatal("c11worker: %v", err)
	}
	var cases []*c11Case
	if err := json.Unmarshal(bs, &cases); err != nil {
		fatal("c11worker: %v", err)
	}
	w := bufio.NewWriter(os.Stdout)
	// ONE generator for the whole worker: value.New writes package-level type ids (residue of C11), and library
	// goroutines of an earlier case (merge producers after an early stop) may still be reading them
	sess := c10NewSession(false)
	for _, c := range cases {
		fmt.Fprintf(os.Stderr, "@@CASE %d\n", c.ID)
		runtime.GOMAXPROCS(c.Procs)
		want := c.Want
		res := c11WorkerRes{ID: c.ID}
		for r := 0; r < c.Rounds; r++ {
			sess.funcs = nil
			rd := c11RunRound(sess, c, want)
			if rd.wrong >= 0 {
				res.Wrong++
				if res.Ex == "" {
					res.Ex = fmt.Sprintf("goroutine %d args %v: got %s, isolated %s", rd.wrong, c.Argss[rd.wrong], rd.outs[rd.wrong], want[rd.wrong])
				}
			}
		}
		line, _ := json.Marshal(res)
		w.Write(line)
		w.WriteByte('\n')
		w.Flush()
	}
}

// run all cases through the race worker; a race report ends the worker (exit 66) and names the running case
func c11RacePass(bin, dir string, cases []*c11Case) (raced map[int]string, wrong map[int]c11WorkerRes, notRun int) {
	raced, wrong = map[int]string{}, map[int]c11WorkerRes{}
	todo := cases
	for round := 0; len(todo) > 0 && round < 2000; round++ {
		in := filepath.Join(dir, "race-in.json")
		bs, _ := json.Marshal(todo)
		os.WriteFile(in, bs, 0o644)
		cmd := exec.Command(bin, "c11worker", "--out", in)
		cmd.Env = append(os.Environ(), "GORACE=halt_on_error=1 exitcode=66")
		var stdout, stderr bytes.Buffer
		cmd.Stdout, cmd.Stderr = &stdout, &stderr
		err := cmd.Run()
		done := 0
		for _, line := range strings.Split(stdout.String(), "\n") {
			var r c11WorkerRes
			if strings.TrimSpace(line) != "" && json.Unmarshal([]byte(line), &r) == nil {
				done++
				if r.Wrong > 0 {
					wrong[r.ID] = r
				}
			}
		}
		if err == nil {
			return
		}
		code := -1
		if ee, ok := err.(*exec.ExitError); ok {
			code = ee.ExitCode()
		}
		cur := -1
		blocks := strings.Split(stderr.String(), "@@CASE ")
		last := blocks[len(blocks)-1]
		if nl := strings.IndexByte(last, '\n'); nl >= 0 {
			if id, e := strconv.Atoi(strings.TrimSpace(last[:nl])); e == nil {
				cur = id
			}
		}
		if done >= len(todo) || cur != todo[done].ID {
			os.WriteFile(filepath.Join(dir, "race-stderr.txt"), stderr.Bytes(), 0o644)
			fatal("c11: race worker ended (exit %d) outside a case: %s", code, tail(stderr.String(), 1500))
		}
		if code == 66 && strings.Contains(last, "WARNING: DATA RACE") {
			txt := last[strings.Index(last, "WARNING: DATA RACE"):]
			if len(txt) > 2500 {
				txt = txt[:2500]
			}
			raced[cur] = txt
		} else {
			os.WriteFile(filepath.Join(dir, "race-stderr.txt"), stderr.Bytes(), 0o644)
			fatal("c11: race worker died on case %d (exit %d): %s", cur, code, tail(stderr.String(), 1500))
		}
		todo = todo[done+1:]
	}
	return raced, wrong, len(todo)
}

// ---------------------------------------------------------------- prediction by observation (hook)

type c11Hook struct {
	frozen bool   // every list Generate created is materialised with cap = len
	touch  bool   // an isolated evaluation changed the representation of such a list
	kind   string // lazy-constant/List.Eval | spare-capacity-constant/List.Append | ""
}

func c11Observe(c *c11Case) c11Hook {
	h := c11Hook{frozen: true}
	seen := map[string]bool{}
	for i, a := range c.Argss {
		k := fmt.Sprint(a)
		if seen[k] {
			continue
		}
		seen[k] = true
		s := c10NewSession(true)
		fn, err := s.generate(c.Prog)
		if err != nil {
			fatal("c11: program %s does not generate: %v", c.Prog.Name, err)
		}
		before := fn.allReps()
		if i == 0 {
			for _, r := range before {
				if !r.Present || r.Cap != r.Len {
					h.frozen = false
				}
			}
		}
		c10Eval(fn.f, a, c.J, c.Prog.modelled())
		after := fn.allReps()
		for n := range before {
			if before[n] != after[n] {
				h.touch = true
				if !before[n].Present {
					h.kind = "lazy-constant/List.Eval"
				} else if h.kind == "" {
					h.kind = "spare-capacity-constant/List.Append"
				}
			}
		}
	}
	return h
}

// ---------------------------------------------------------------- private lazy lists: every closure-calling stage x every consumer

// A lazy list is created INSIDE the evaluation (numbers(150+a0) through a stage that calls its closure on the
// stack handed down by the consumer: value/list.go Combine, Combine3, CombineN, IIr, IIrCombine, Number, Compact,
// Cross, Merge, FSM) and consumed by [i], size(), first(), ~, =, string(), reduce.  No constant is involved:
// the model's prediction is "private state only, isolated outcome"; any race report or wrong outcome is an
// unpredicted violation with signature unpredicted/<stage>/<consumer>.
func c11StagePool() []*c10Prog {
	stages := [][2]string{
		{"combine", "numbers(150+a0).combine((p,q)->p+q*a1)"},
		{"combine3", "numbers(150+a0).combine3((p,q,r)->p+q+r*a1)"},
		{"combineN", "numbers(150+a0).combineN(3,l->l.sum()+a1)"},
		{"iir", "numbers(150+a0).iir(x->x,(x,acc)->acc+x+a1)"},
		{"iirCombine", "numbers(150+a0).iirCombine(x->x,(p,q,acc)->acc+q-p+a1)"},
		{"number", "numbers(150+a0).number((i,e)->i*e+a1)"},
		{"compact", "numbers(150+a0).compact((p,q)->(p-p%3)=(q-q%3)+a1*0)"},
		{"cross", "numbers(12+a0).cross(numbers(12),(p,q)->p*q+a1)"},
		{"merge", "numbers(150+a0).merge(numbers(100).map(e->e*2+a1),(p,q)->p<q)"},
		{"fsm", "numbers(150+a0).fsm((s,i)->goto((3*s.state+i+a1)%7)).map(s->s.state)"},
	}
	consumers := [][2]string{
		{"index", "%s[7+a1]"}, {"size", "%s.size()"}, {"first", "%s.first()"}, {"contains", "(7 ~ %s)"},
		{"equal", "(%s=numbers(3))"}, {"string", "%s.string()"}, {"reduce", "%s.reduce((s,e)->s+e)"},
	}
	var ps []*c10Prog
	for _, st := range stages {
		for _, co := range consumers {
			p := c10Opaque(st[0]+"/"+co[0], fmt.Sprintf(co[1], st[1]))
			p.Class = "stage:" + st[0] + "/" + co[0]
			ps = append(ps, p)
		}
	}
	return ps
}

// ---------------------------------------------------------------- constants that are CLOSURES returned by built-ins

// Pure built-ins that return a closure (or a map of closures) are folded at Generate time when their arguments
// are constants: the returned Go closure - with whatever it captured - is then a constant shared by all
// evaluations (value/value.go createLowPass -> iirApply / iirCombine; value/list.go CreateInterpolation,
// Linear).  Prediction: they capture immutable data only; a race report or a wrong outcome is an unpredicted
// violation with signature unpredicted/closure-const:<name>.
func c11ClosureConstPool() []*c10Prog {
	mk := func(name, src string) *c10Prog {
		p := c10Opaque(name, src)
		p.Class = "closure-const:" + name
		return p
	}
	table := "[{x:0,y:0},{x:1,y:1},{x:2,y:4},{x:3,y:9},{x:4,y:16},{x:5,y:25},{x:6,y:36}]"
	return []*c10Prog{
		mk("lowpass-iirApply", "let lp=createLowPass(\"f\",p->p.t,p->p.s,0.5); numbers(16).map(i->{t:i/10+a0, s:i*a1+a0}).iirApply(lp).map(p->p.f).reduce((a,b)->a+b)"),
		mk("lowpass-iirCombine", "let lp=createLowPass(\"f\",p->p.t,p->p.s,0.5); numbers(16).map(i->{t:i/10+a0, s:i*a1+a0}).iirCombine(lp.initial,lp.filter).map(p->p.f).reduce((a,b)->a+b)"),
		mk("lowpass-initial", "let lp=createLowPass(\"f\",p->p.t,p->p.s,0.5); numbers(20).map(i->lp.initial({t:i+a0,s:i*a1}).f).reduce((a,b)->a+b)"),
		mk("interpolation", "let f="+table+".createInterpolation(p->p.x,p->p.y); numbers(60).map(i->f(((i*7+a0*13)%60)/10)).reduce((a,b)->a+b)+a1"),
		mk("interpolation-one-call", "let f="+table+".createInterpolation(p->p.x,p->p.y); f(a0+a1/10)"),
		mk("linearReg", "let r=numbers(10).linearReg(i->i,i->2*i+1); numbers(50).map(i->r.lineFunc(i+a0)).reduce((a,b)->a+b)+a1"),
	}
}

// ---------------------------------------------------------------- driver

func c11Cases(seed int64, tier string) []*c11Case {
	r := NewRng(seed)
	pool := c10Pool()
	var progs []*c10Prog
	progs = append(progs, pool...)
	progs = append(progs, c10StageModelledPool()...)
	progs = append(progs, c10MapModelledPool()...) // map fragment: prediction "reads only" (C11_map_concurrent_equals_isolated); race detector + isolated outcomes
	for _, p := range c10FailingPool() { // failing lazy constants; programs with a shared list ARGUMENT are out of scope (integer arguments)
		if p.ListArg == "" && strings.HasSuffix(p.Name, "-append") {
			progs = append(progs, p)
		}
	}
	n := 100
	if tier == "thorough" {
		n = 1500
	}
	n *= optBoost
	for i := 0; i < n; i++ {
		progs = append(progs, c10RandomProg(r, i))
	}
	var cases []*c11Case
	for i, p := range c11StagePool() {
		c := &c11Case{ID: len(cases) + 1, Prog: p, J: 100, Procs: []int{16, 2}[i%2]}
		ng := []int{16, 8, 12}[i%3]
		for g := 0; g < ng; g++ {
			c.Argss = append(c.Argss, []int64{int64(g % 5), int64((g * 7) % 11)})
		}
		cases = append(cases, c)
	}
	for i, p := range c11ClosureConstPool() {
		for k := 0; k < 2; k++ {
			c := &c11Case{ID: len(cases) + 1, Prog: p, J: 100, Procs: []int{16, 2}[(i+k)%2], Iter: 40}
			for g := 0; g < []int{8, 12}[k]; g++ {
				c.Argss = append(c.Argss, []int64{int64(g % 6), int64((g * 5) % 7)}) // spread over different table intervals / data
			}
			cases = append(cases, c)
		}
	}
	ngs := []int{2, 4, 8, 16}
	for i, p := range progs {
		reps := 1
		if i < len(pool) {
			reps = 2
		}
		for k := 0; k < reps; k++ {
			ng := ngs[r.Pick(len(ngs))]
			if i < len(pool) && k == 0 {
				ng = 16
			}
			c := &c11Case{ID: len(cases) + 1, Prog: p, J: []int{100, 100, 1, 0}[r.Pick(4)], Procs: []int{2, 16}[(i+k)%2]}
			equal := r.Chance(0.3)
			base := []int64{c10ArgPool[r.Pick(len(c10ArgPool))], c10ArgPool[r.Pick(len(c10ArgPool))]}
			if i < len(pool) && k == 0 {
				equal, base = false, []int64{1, 2}
			}
			for g := 0; g < ng; g++ {
				if equal {
					c.Argss = append(c.Argss, base)
				} else if i < len(pool) && k == 0 {
					c.Argss = append(c.Argss, []int64{int64(g % 3), int64((g / 3) % 3)})
				} else {
					c.Argss = append(c.Argss, []int64{c10ArgPool[r.Pick(len(c10ArgPool))], c10ArgPool[r.Pick(len(c10ArgPool))]})
				}
			}
			cases = append(cases, c)
		}
	}
	return cases
}

func cmdC11(seed int64, tier, outDir string) {
	tStart := time.Now()
	sum := NewSummary("C11", seed, tier)
	sum.Rule = "a case = one program, 2..16 goroutines evaluating ONE freshly generated function simultaneously (barrier; equal or different arguments from {0,1,2,3,5,-1}^2; list results consumed 0/1/all), GOMAXPROCS 2 or 16, repeated for a number of rounds in a -race worker and without the race detector; non-trivial = the program has a list constant that an evaluation touches (class lazy-const / spare-const / plain-const or an opaque program with a list or map constant); distinct by program text"
	os.MkdirAll(outDir, 0o755)
	evalCap, appCap := c10MeasureCaps(80)
	cw := NewCaseWriter(outDir, "From P2 Require Import Base.Prelude Heap.ListHeap Heap.FuncState Heap.Concurrent Run.C10Run Run.C11Run.",
		"c11_case", "c11_id", "(c11_im go_caps)", "c11_is", 40)
	cw.prelude = fmt.Sprintf("Definition go_caps := caps_of_tables %s %s.\n", c10NatList(evalCap), c10NatList(appCap))

	var cases []*c11Case
	if optReplay != "" {
		var c c11Case
		if err := json.Unmarshal(loadReplayCase(), &c); err != nil {
			fatal("c11: replay case: %v", err)
		}
		cases = []*c11Case{&c}
	} else {
		cases = c11Cases(seed, tier)
	}
	hammer, calm := 200, 12
	if tier == "thorough" {
		hammer, calm = 1000, 40
	}
	hooks := map[int]c11Hook{}
	for _, c := range cases {
		h := c11Observe(c)
		hooks[c.ID] = h
		c.Want = c11Isolated(c)
		c.Rounds = calm
		if strings.HasPrefix(c.Prog.Class, "stage:") || strings.HasPrefix(c.Prog.Class, "closure-const:") {
			c.Rounds = calm / 3
		}
		if h.touch {
			c.Rounds = hammer
		}
	}
	bin := c6BuildRace()
	fmt.Fprintf(os.Stderr, "c11: race worker built after %.1fs\n", time.Since(tStart).Seconds())
	// under the race detector a few evaluations per goroutine are enough (it reports unordered accesses, they need
	// not overlap); the many iterations that make a wrong outcome likely run without it (pass B)
	raceCases := make([]*c11Case, len(cases))
	for i, c := range cases {
		cc := *c
		if cc.Iter > 2 {
			cc.Iter = 2
			cc.Rounds = 2
		}
		raceCases[i] = &cc
	}
	raced, wrongRace, notRun := c11RacePass(bin, outDir, raceCases)
	fmt.Fprintf(os.Stderr, "c11: race pass done after %.1fs: %d cases raced\n", time.Since(tStart).Seconds(), len(raced))
	if notRun > 0 {
		sum.Skipped["race-pass-not-run"] = notRun
	}

	var viols []GoViolation
	predicted, predictedHit := 0, 0
	for _, c := range cases {
		h := hooks[c.ID]
		want := c11Isolated(c)
		runtime.GOMAXPROCS(c.Procs)
		var first []c10Out
		wrongEx := ""
		rounds := c.Rounds
		if rounds > 60 {
			rounds = 60
		}
		sess := c10NewSession(false)
		for r := 0; r < rounds; r++ {
			sess.funcs = nil
			rd := c11RunRound(sess, c, want)
			if r == 0 {
				first = rd.outs
			}
			if rd.wrong >= 0 && wrongEx == "" {
				wrongEx = fmt.Sprintf("goroutine %d args %v: got %s, isolated %s", rd.wrong, c.Argss[rd.wrong], rd.outs[rd.wrong], want[rd.wrong])
			}
		}
		if wr, ok := wrongRace[c.ID]; ok && wrongEx == "" {
			wrongEx = wr.Ex
		}
		runtime.GOMAXPROCS(runtime.NumCPU())
		_, isRaced := raced[c.ID]
		isWrong := wrongEx != ""
		sum.Evaluations += (rounds + c.Rounds) * len(c.Argss)
		sum.Count("goroutines", fmt.Sprint(len(c.Argss)))
		sum.Count("gomaxprocs", fmt.Sprint(c.Procs))
		sum.Count("program_class", c.Prog.Class)
		sum.Count("frozen_after_generate", fmt.Sprint(h.frozen))
		pk := "no write to a shared list predicted"
		if h.touch {
			pk = "write predicted: " + h.kind
			predicted++
			if isRaced || isWrong {
				predictedHit++
			}
		}
		sum.Count("prediction", pk)
		switch {
		case isRaced && isWrong:
			sum.Count("observation", "race report and wrong outcome")
		case isRaced:
			sum.Count("observation", "race report, outcomes right")
		case isWrong:
			sum.Count("observation", "wrong outcome, no race report")
		default:
			sum.Count("observation", "clean")
		}
		if c.Prog.Class != "no-const" && !strings.HasPrefix(c.Prog.Class, "opaque:closure") && c.Prog.Class != "opaque:recursion" && c.Prog.Class != "opaque:strings" {
			sum.Nontriv(c.Prog.Src)
		}
		sig := h.kind
		if sig == "" {
			sig = "unpredicted/" + strings.TrimPrefix(c.Prog.Class, "stage:")
		}
		human := map[string]any{"program": c.Prog.Src, "goroutines": len(c.Argss), "argss": c.Argss, "consumed": c.J, "gomaxprocs": c.Procs,
			"repro": c, "signature": sig, "frozen_after_generate": h.frozen}
		if isRaced {
			human["race_report"] = raced[c.ID]
		}
		if isWrong {
			human["wrong_outcome"] = wrongEx
		}
		sum.Cases[fmt.Sprint(c.ID)] = human
		sum.Sample(map[string]any{"program": c.Prog.Src, "goroutines": len(c.Argss), "gomaxprocs": c.Procs})
		if isRaced || isWrong {
			what := "data race reported by the race detector while goroutines evaluated one generated function"
			obs := "race report"
			if isWrong {
				what = "a goroutine obtained an outcome different from the isolated evaluation with its arguments"
				obs = wrongEx
				if isRaced {
					obs += " (and a race report)"
				}
			}
			viols = append(viols, GoViolation{CaseID: c.ID, What: what, Sig: sig, Expected: "no race, isolated outcomes", Observed: obs, Human: human})
		}
		if c.Prog.Coq != "" {
			outs := make([]string, len(first))
			for i, o := range first {
				outs[i] = o.coq()
			}
			argss := make([]string, len(c.Argss))
			for i, a := range c.Argss {
				argss[i] = c10ZList(a)
			}
			cw.Add(fmt.Sprintf("(%d, %s, [%s], %d%%nat,\n  CO [%s] %s %s %s %s)", c.ID, c.Prog.Coq, strings.Join(argss, "; "), c.J,
				strings.Join(outs, "; "), CoqBool(isRaced), CoqBool(isWrong), CoqBool(h.frozen), CoqBool(h.touch)))
		} else {
			sum.Skipped["outside-the-modelled-fragment (Go oracle and race detector only)"]++
		}
	}
	size := func(v GoViolation) int {
		return len(fmt.Sprint(v.Human["program"])) + 8*v.Human["goroutines"].(int)
	}
	sort.SliceStable(viols, func(i, j int) bool { return size(viols[i]) < size(viols[j]) })
	sum.GoViolations = viols
	sum.Extra["predicted_cases"] = predicted
	sum.Extra["predicted_cases_with_race_or_wrong_outcome"] = predictedHit
	sum.Extra["rounds"] = map[string]int{"predicted": hammer, "other": calm}
	sum.Extra["residue"] = "value.New writes the package-level type ids (IntTypeId ...): outside Eval, not exercised concurrently here"
	cw.Flush()
	sum.CaseFiles = cw.files
	sum.Write(outDir)
	fmt.Fprintf(os.Stderr, "c11: %d cases, %d raced or wrong, %d predicted (%d of them observed), %.1fs\n", len(cases), len(viols), predicted, predictedHit, time.Since(tStart).Seconds())
}
